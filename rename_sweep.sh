#!/bin/bash
# False-alarm sweep: rename every hand-written declaration of /repo, one at a time (bin/renamer), and run every check on
# each renamed tree through an overlay. A rename cannot change behaviour, so every check must stay silent on every
# overlay that still type-checks.   usage: ./rename_sweep.sh [-params] [filter-regex]
set -u
cd "$(dirname "$0")"
export GOFLAGS=-mod=mod GOPROXY=off GOSUMDB=off GOTOOLCHAIN=local GOWORK=off
PARAMS=""; [ "${1:-}" = "-params" ] && { PARAMS=-params; shift; }
FILTER="${1:-.}"
(cd checker && go build -o /verif/bin/anndbcheck .) || exit 2
ROOT=$(mktemp -d /tmp/anndb-rename.XXXXXX)
trap 'rm -rf "$ROOT"' EXIT
/verif/bin/anndbcheck -repo "${VERIF_REPO:-/repo}" ${PARAMS:+-rename-params} -gen-renames "$ROOT/v" > "$ROOT/list.txt"
one() {
  d="$1"; key=$(cat "$d/KEY")
  o="$d/out"; mkdir -p "$o/evidence"
  skip=C15
  if find "$d/files" -path '*simd*' -o -path '*index/space*' | grep -q .; then skip=""; fi
  out=$(/verif/bin/anndbcheck -repo "${VERIF_REPO:-/repo}" -verif /verif -out "$o" -prop all ${skip:+-skip $skip} -overlaydir "$d/files" 2>&1)
  if echo "$out" | grep -q '^cannot analyse'; then echo "SKIP  $key (does not type-check after the rename)";
  elif echo "$out" | grep -qE '^(VIOLATED|UNDECIDED)'; then echo "ALARM $key"; echo "$out" | grep -E '^(VIOLATED|UNDECIDED)' | cut -c1-260 | sed 's/^/      /';
  else echo "ok    $key"; fi
  rm -rf "$o"
}
export -f one
ls -d "$ROOT"/v/* | while read d; do grep -qE "$FILTER" "$d/KEY" && echo "$d"; done | xargs -P "${JOBS:-10}" -I{} bash -c 'one {}' > "$ROOT/res.txt"
sort -k2 "$ROOT/res.txt" | grep -v '^ok' 
echo "renames: $(grep -c '^ok' "$ROOT/res.txt") silent, $(grep -c '^ALARM' "$ROOT/res.txt") alarm, $(grep -c '^SKIP' "$ROOT/res.txt") skipped"
[ "$(grep -c '^ALARM' "$ROOT/res.txt")" -eq 0 ]
