package main

// Mechanical mutation sweep (sensitivity evidence, not a verdict): one overlay directory per single-site edit of the
// hand-written code — a comparison operator moved by one step (< <=, > >=, == !=), && / || exchanged, a call statement or a
// defer removed, `go f()` made synchronous, `return …, err` replaced by `return …, nil`. mutation_sweep.sh runs every check on
// every mutant that still type-checks and, for packages that have tests, the package's tests.

import (
	"fmt"
	"go/ast"
	"go/token"
	"go/types"
	"os"
	"path/filepath"
	"strings"
)

func genMutants(repo, outRoot string, only string) error {
	mod, err := loadModule(repo, nil)
	if err != nil {
		return err
	}
	fset := mod[0].Fset
	n := 0
	emit := func(file string, src []byte, off, end int, repl, key string) {
		dir := filepath.Join(outRoot, fmt.Sprintf("%05d", n))
		n++
		rel, _ := filepath.Rel(repo, file)
		os.MkdirAll(filepath.Join(dir, "files", filepath.Dir(rel)), 0o755)
		nb := append([]byte{}, src[:off]...)
		nb = append(nb, []byte(repl)...)
		nb = append(nb, src[end:]...)
		os.WriteFile(filepath.Join(dir, "files", rel), nb, 0o644)
		os.WriteFile(filepath.Join(dir, "KEY"), []byte(key+"\n"), 0o644)
		fmt.Println(key)
	}
	ror := map[token.Token]string{token.LSS: "<=", token.LEQ: "<", token.GTR: ">=", token.GEQ: ">", token.EQL: "!=", token.NEQ: "=="}
	for _, p := range mod {
		if strings.HasPrefix(p.PkgPath, modPath+"/cmd") || strings.HasSuffix(p.PkgPath, "/protobuf") || strings.Contains(p.PkgPath, "/simd") {
			continue
		}
		for _, f := range p.Syntax {
			file := fset.Position(f.Pos()).Filename
			if !handWrittenFile(repo, file) || (only != "" && !strings.Contains(file, only)) {
				continue
			}
			src, err := os.ReadFile(file)
			if err != nil {
				continue
			}
			rel, _ := filepath.Rel(repo, file)
			var fn string
			var fnType *ast.FuncType
			ast.Inspect(f, func(nd ast.Node) bool {
				switch x := nd.(type) {
				case *ast.FuncDecl:
					fn = x.Name.Name
					fnType = x.Type
				case *ast.BinaryExpr:
					pos := fset.Position(x.OpPos)
					if r, ok := ror[x.Op]; ok {
						emit(file, src, pos.Offset, pos.Offset+len(x.Op.String()), r, fmt.Sprintf("ROR %s:%d:%d %s %s->%s", rel, pos.Line, pos.Column, fn, x.Op, r))
					}
					if x.Op == token.LAND {
						emit(file, src, pos.Offset, pos.Offset+2, "||", fmt.Sprintf("LCR %s:%d:%d %s &&->||", rel, pos.Line, pos.Column, fn))
					}
					if x.Op == token.LOR {
						emit(file, src, pos.Offset, pos.Offset+2, "&&", fmt.Sprintf("LCR %s:%d:%d %s ||->&&", rel, pos.Line, pos.Column, fn))
					}
				case *ast.ExprStmt:
					if _, isCall := x.X.(*ast.CallExpr); isCall {
						a, b := fset.Position(x.Pos()), fset.Position(x.End())
						emit(file, src, a.Offset, b.Offset, "{}", fmt.Sprintf("SDL %s:%d:%d %s delete-call %s", rel, a.Line, a.Column, fn, strings.SplitN(string(src[a.Offset:b.Offset]), "\n", 2)[0]))
					}
				case *ast.DeferStmt:
					a, b := fset.Position(x.Pos()), fset.Position(x.End())
					emit(file, src, a.Offset, b.Offset, "{}", fmt.Sprintf("SDL %s:%d:%d %s delete-defer %s", rel, a.Line, a.Column, fn, strings.SplitN(string(src[a.Offset:b.Offset]), "\n", 2)[0]))
				case *ast.GoStmt:
					a := fset.Position(x.Pos())
					emit(file, src, a.Offset, a.Offset+2, "", fmt.Sprintf("GOS %s:%d:%d %s go->call", rel, a.Line, a.Column, fn))
				case *ast.ReturnStmt:
					if len(x.Results) == 0 || fnType == nil {
						return true
					}
					last := x.Results[len(x.Results)-1]
					id, ok := last.(*ast.Ident)
					if !ok || id.Name == "nil" {
						return true
					}
					if tv, ok := p.TypesInfo.Types[last]; ok && types.Identical(tv.Type, types.Universe.Lookup("error").Type()) {
						a := fset.Position(id.Pos())
						emit(file, src, a.Offset, a.Offset+len(id.Name), "nil", fmt.Sprintf("RNL %s:%d:%d %s return-nil-instead-of-%s", rel, a.Line, a.Column, fn, id.Name))
					}
				}
				return true
			})
		}
	}
	return nil
}
