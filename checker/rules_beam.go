package main

// The shape of the beam search and of every k-bounded queue loop in the index (C07.R8, borrowed by C01). These are the
// comparisons whose direction or strictness decides exactness on small collections; each obligation states the operator
// that is necessary, and accepts the variants that change nothing observable (`<=` where a trim follows, flipped operands,
// the test written on the other branch).

import (
	"fmt"
	"go/token"
	"go/types"

	"golang.org/x/tools/go/ssa"
)

// invokeOn: v is a call of interface method `name`; returns the receiver value.
func invokeOn(v ssa.Value, name string) (ssa.Value, bool) {
	cl, ok := strip(v).(*ssa.Call)
	if !ok {
		return nil, false
	}
	if cl.Call.IsInvoke() && cl.Call.Method.Name() == name {
		return cl.Call.Value, true
	}
	if g := cl.Call.StaticCallee(); g != nil && g.Name() == name && g.Signature.Recv() != nil && len(cl.Call.Args) > 0 {
		return cl.Call.Args[0], true
	}
	return nil, false
}

// through follows φ-free local copies: a value kept in a variable is the same SSA value; a cell load resolves to its
// single store.
func through(v ssa.Value) ssa.Value {
	v = strip(v)
	for k := 0; k < 4; k++ {
		l, ok := loadOf(v)
		if !ok {
			break
		}
		al, ok := l.(*ssa.Alloc)
		if !ok {
			break
		}
		st := storesTo(al.Parent(), al)
		if len(st) != 1 {
			break
		}
		v = strip(st[0].Val)
	}
	return v
}

func negOp(op token.Token) token.Token {
	switch op {
	case token.LSS:
		return token.GEQ
	case token.LEQ:
		return token.GTR
	case token.GTR:
		return token.LEQ
	case token.GEQ:
		return token.LSS
	case token.EQL:
		return token.NEQ
	case token.NEQ:
		return token.EQL
	}
	return op
}

func isCmp(op token.Token) bool {
	switch op {
	case token.LSS, token.LEQ, token.GTR, token.GEQ:
		return true
	}
	return false
}

// regionHas: some block dominated by b (b included) contains an instruction satisfying pred.
func regionHas(b *ssa.BasicBlock, pred func(ssa.Instruction) bool) bool {
	for _, x := range b.Parent().Blocks {
		if !b.Dominates(x) {
			continue
		}
		for _, in := range x.Instrs {
			if pred(in) {
				return true
			}
		}
	}
	return false
}


// A comparison as the rules see it, wherever it is written: inline, negated, or behind a small predicate function
// (`beamIsFull(q, ef)`); operands of a predicate are mapped back to the arguments of the call.
type cside struct {
	isLen bool      // the operand is <v>.Len()
	v     ssa.Value // the queue (isLen) or the value itself
}
type ccmp struct {
	op   token.Token
	x, y cside
}

func mkSide(v ssa.Value) cside {
	if rv, ok := invokeOn(v, "Len"); ok {
		return cside{true, rv}
	}
	return cside{false, v}
}

func resolveCmp(cond ssa.Value, depth int) (ccmp, bool) {
	if depth > 2 {
		return ccmp{}, false
	}
	switch y := cond.(type) {
	case *ssa.UnOp:
		if y.Op == token.NOT {
			in, ok := resolveCmp(y.X, depth)
			if !ok {
				return in, false
			}
			in.op = negOp(in.op)
			return in, true
		}
	case *ssa.BinOp:
		if isCmp(y.Op) {
			return ccmp{y.Op, mkSide(y.X), mkSide(y.Y)}, true
		}
	case *ssa.Call:
		g := y.Call.StaticCallee()
		if g == nil || !modLocal(g) || len(g.Blocks) == 0 {
			return ccmp{}, false
		}
		rets := returnsOf(g)
		if len(rets) != 1 || len(rets[0].Results) != 1 {
			return ccmp{}, false
		}
		in, ok := resolveCmp(rets[0].Results[0], depth+1)
		if !ok {
			return in, false
		}
		sub := func(s cside) (cside, bool) {
			v := through(s.v)
			if _, isK := v.(*ssa.Const); isK {
				return s, true
			}
			for k, p := range g.Params {
				if ssa.Value(p) == v && k < len(y.Call.Args) {
					return cside{s.isLen, y.Call.Args[k]}, true
				}
			}
			return s, false
		}
		var ok1, ok2 bool
		in.x, ok1 = sub(in.x)
		in.y, ok2 = sub(in.y)
		return in, ok1 && ok2
	}
	return ccmp{}, false
}

func sameQueue(a, b ssa.Value) bool { return through(a) == through(b) }

func beamSearchShape(c *Ctx, r *Report, rule string) {
	x := newIdx(c)
	if len(x.missing) > 0 {
		r.Unk(rule, "index", "anchors", "-", "index anchors missing")
		return
	}
	isQueue := func(v ssa.Value) bool {
		nt := namedOf(v.Type())
		return nt != nil && nt.Obj().Name() == "PriorityQueue"
	}
	nBound, nBeam := 0, 0
	for _, f := range x.funcs {
		if f.Parent() != nil {
			continue
		}
		// ---- (1) every comparison of a queue's Len with a bound: pops trim only above the bound, pushes fill only below it
		k := 0
		for _, ifi := range allIfs(f) {
			cm, ok := resolveCmp(ifi.Cond, 0)
			if !ok {
				continue
			}
			var q, bound ssa.Value
			op := cm.op
			if cm.x.isLen && isQueue(cm.x.v) && !cm.y.isLen {
				q, bound = cm.x.v, cm.y.v
			} else if cm.y.isLen && isQueue(cm.y.v) && !cm.x.isLen {
				q, bound = cm.y.v, cm.x.v
				op = flipCmp(op)
			}
			if q == nil {
				continue
			}
			popsQ := func(in ssa.Instruction) bool {
				cl, ok := in.(*ssa.Call)
				if !ok {
					return false
				}
				rv, isPop := invokeOn(cl, "Pop")
				return isPop && sameQueue(rv, q)
			}
			pushesQ := func(in ssa.Instruction) bool {
				cl, ok := in.(*ssa.Call)
				if !ok {
					return false
				}
				rv, isPush := invokeOn(cl, "Push")
				return isPush && sameQueue(rv, q)
			}
			// is there a trim of the same queue against the same bound in this function (a push that overshoots by one is
			// then cut back)?
			trimExists := func() bool {
				for _, o := range allIfs(f) {
					ocm, ok := resolveCmp(o.Cond, 0)
					if !ok || o == ifi {
						continue
					}
					var oq, obd ssa.Value
					oop := ocm.op
					if ocm.x.isLen && !ocm.y.isLen {
						oq, obd = ocm.x.v, ocm.y.v
					} else if ocm.y.isLen && !ocm.x.isLen {
						oq, obd = ocm.y.v, ocm.x.v
						oop = flipCmp(oop)
					}
					if oq == nil || !sameQueue(oq, q) || through(obd) != through(bound) {
						continue
					}
					for side := 0; side < 2; side++ {
						eo := oop
						if side == 1 {
							eo = negOp(oop)
						}
						if eo == token.GTR && len(o.Block().Succs) == 2 && regionHas(o.Block().Succs[side], popsQ) {
							return true
						}
					}
				}
				return false
			}
			for side := 0; side < 2; side++ {
				eo := op
				if side == 1 {
					eo = negOp(op)
				}
				sb := ifi.Block().Succs[side]
				if len(sb.Preds) != 1 {
					continue // a join block: not the region this test alone decides
				}
				pops, pushes := regionHas(sb, popsQ), regionHas(sb, pushesQ)
				if !pops && !pushes {
					continue
				}
				k++
				nBound++
				cons := fmt.Sprintf("bounded-queue#%d", k)
				isZero := false
				if n, isK := constInt(bound); isK && n == 0 {
					isZero = true
				}
				switch {
				case pops && !pushes:
					// a drain (`for q.Len() > 0 { … q.Pop() }`) or a trim (`if q.Len() > k { q.Pop() }`)
					r.Check(eo == token.GTR || (isZero && eo == token.NEQ), rule, fnName(f), cons, c.InstrPos(ifi), fmt.Sprintf("a queue is popped only while it holds more than the bound (Len %s bound on the popping side): `>=` cuts it one short of the bound — the k-th nearest item is dropped — or pops an empty queue", eo))
				case pushes && !pops:
					okOp := eo == token.LSS || (eo == token.LEQ && trimExists())
					r.Check(okOp, rule, fnName(f), cons, c.InstrPos(ifi), fmt.Sprintf("a bounded queue is filled only while it holds fewer than the bound (Len %s bound on the pushing side; `<=` is accepted when a trim `Len > bound -> Pop` of the same queue follows): one element too many in a max-queue pushes the nearest item out of the answer", eo))
				default:
					// the loop body both pops and pushes this queue (a traversal frontier): the test must let it run while
					// the queue is non-empty
					r.Check(eo == token.GTR || eo == token.NEQ, rule, fnName(f), cons, c.InstrPos(ifi), fmt.Sprintf("the frontier loop runs while the queue is non-empty (Len %s bound)", eo))
				}
			}
		}
		// ---- (2) the beam itself: a function that peeks at a result queue
		var peeks []*ssa.Call
		eachInstr(f, func(i ssa.Instruction) {
			if cl, ok := i.(*ssa.Call); ok {
				if _, isPeek := invokeOn(cl, "Peek"); isPeek {
					peeks = append(peeks, cl)
				}
			}
		})
		if len(peeks) == 0 {
			continue
		}
		nBeam++
		resQ, _ := invokeOn(peeks[0], "Peek")
		// lowerBound = Priority() of the peeked item
		isLower := func(v ssa.Value) bool {
			pv, ok := invokeOn(through(v), "Priority")
			if !ok {
				return false
			}
			_, isPeek := invokeOn(through(pv), "Peek")
			return isPeek
		}
		isPoppedPrio := func(v ssa.Value) (ssa.Value, bool) {
			pv, ok := invokeOn(through(v), "Priority")
			if !ok {
				return nil, false
			}
			qv, isPop := invokeOn(through(pv), "Pop")
			return qv, isPop
		}
		isDistance := func(v ssa.Value) bool {
			_, ok := invokeOn(through(v), "Distance")
			return ok
		}
		kinds := func(q ssa.Value) string {
			ks := queueKinds(through(q), 2)
			if len(ks) == 1 {
				for kk := range ks {
					return kk
				}
			}
			return fmt.Sprint(keys(ks))
		}
		// blocks that matter: where the result queue is pushed, where a neighbour's distance is computed (expansion)
		var pushBlk *ssa.BasicBlock
		eachInstr(f, func(i ssa.Instruction) {
			if cl, ok := i.(*ssa.Call); ok {
				if rv, isPush := invokeOn(cl, "Push"); isPush && sameQueue(rv, resQ) && inCycle(f, cl) {
					pushBlk = cl.Block()
				}
			}
		})
		expands := func(in ssa.Instruction) bool {
			cl, ok := in.(*ssa.Call)
			if !ok {
				return false
			}
			_, isD := invokeOn(cl, "Distance")
			return isD && inCycle(f, cl)
		}
		effOn := func(op token.Token, side int) token.Token {
			if side == 1 {
				return negOp(op)
			}
			return op
		}
		type test struct {
			ifi *ssa.If
			op  token.Token // normalised: (candidate|distance|Len) op (bound)
		}
		var stop *ssa.If
		var candQ ssa.Value
		var admits, fills []test
		for _, ifi := range allIfs(f) {
			cm, ok := resolveCmp(ifi.Cond, 0)
			if !ok || len(ifi.Block().Succs) != 2 {
				continue
			}
			if cm.x.isLen || cm.y.isLen {
				if cm.x.isLen && sameQueue(cm.x.v, resQ) {
					if _, isP := through(cm.y.v).(*ssa.Parameter); isP {
						fills = append(fills, test{ifi, cm.op})
					}
				} else if cm.y.isLen && sameQueue(cm.y.v, resQ) {
					if _, isP := through(cm.x.v).(*ssa.Parameter); isP {
						fills = append(fills, test{ifi, flipCmp(cm.op)})
					}
				}
				continue
			}
			x, y, op := cm.x.v, cm.y.v, cm.op
			// stop: popped candidate priority vs lower bound
			var cq ssa.Value
			isStop := false
			if q, ok := isPoppedPrio(x); ok && isLower(y) {
				cq, isStop = q, true
			} else if q, ok := isPoppedPrio(y); ok && isLower(x) {
				cq, isStop, op = q, true, flipCmp(op)
			}
			if isStop {
				stop = ifi
				candQ = cq
				// the stop side is the one that does not expand the candidate
				stopSide := -1
				for sd := 0; sd < 2; sd++ {
					if !regionHas(ifi.Block().Succs[sd], expands) && regionHas(ifi.Block().Succs[1-sd], expands) {
						stopSide = sd
					}
				}
				eo := token.ILLEGAL
				if stopSide >= 0 {
					eo = effOn(op, stopSide)
				}
				r.Check(eo == token.GTR && kinds(cq) == "NewMinPriorityQueue" && kinds(resQ) == "NewMaxPriorityQueue", rule, fnName(f), "beam-stop", c.InstrPos(ifi), fmt.Sprintf("the beam stops only when the nearest unexpanded candidate is strictly farther than the farthest result (on the stopping side: candidate %s bound; candidates from %s, results in %s): with `>=` a tie ends the search while the beam is not full", eo, kinds(cq), kinds(resQ)))
				continue
			}
			// admit: distance vs lower bound
			if isDistance(x) && isLower(y) {
				admits = append(admits, test{ifi, op})
			} else if isDistance(y) && isLower(x) {
				admits = append(admits, test{ifi, flipCmp(op)})
			}
		}
		if stop == nil {
			r.Bad(rule, fnName(f), "beam-stop", c.Pos(f.Pos()), "no test of the popped candidate against the farthest result found: the traversal does not stop at the beam's edge (or the shape is not recognised)")
		}
		if len(admits) == 0 || len(fills) == 0 || pushBlk == nil {
			r.Bad(rule, fnName(f), "beam-admit-or-fill", c.Pos(f.Pos()), fmt.Sprintf("the admission test (nearer than the farthest result: %v), the fill test (beam not yet full: %v) and the push into the beam (%v) were not all found", len(admits) > 0, len(fills) > 0, pushBlk != nil))
			continue
		}
		// OR shape: one test leads straight to the push on its admitting side, on its other side the second test is evaluated and
		// leads to the push on its own admitting side
		admitting := func(t test, side int, isFill bool) bool {
			eo := effOn(t.op, side)
			return eo == token.LSS || eo == token.LEQ
		}
		orOK := false
		try := func(a, b test, aFill, bFill bool) {
			for sa := 0; sa < 2; sa++ {
				for sb := 0; sb < 2; sb++ {
					if a.ifi.Block().Succs[sa] == pushBlk && a.ifi.Block().Succs[1-sa] == b.ifi.Block() && b.ifi.Block().Succs[sb] == pushBlk && admitting(a, sa, aFill) && admitting(b, sb, bFill) {
						orOK = true
					}
				}
			}
		}
		for _, a := range admits {
			for _, fl := range fills {
				try(a, fl, false, true)
				try(fl, a, true, false)
			}
		}
		// whatever enters the beam is also queued for expansion: from the admission block no way out of the admitted region avoids
		// a push of the admitted item onto the candidate queue (the one the stop test pops from)
		if candQ != nil {
			var resArg ssa.Value
			for _, in := range pushBlk.Instrs {
				if cl, ok := in.(*ssa.Call); ok {
					if rv, isPush := invokeOn(cl, "Push"); isPush && sameQueue(rv, resQ) {
						if a := cl.Call.Args; len(a) > 0 {
							resArg = through(a[len(a)-1])
						}
					}
				}
			}
			pushesCand := func(in ssa.Instruction) bool {
				cl, ok := in.(*ssa.Call)
				if !ok {
					return false
				}
				rv, isPush := invokeOn(cl, "Push")
				if !isPush || !sameQueue(rv, candQ) {
					return false
				}
				a := cl.Call.Args
				return len(a) > 0 && (resArg == nil || through(a[len(a)-1]) == resArg)
			}
			// the one legitimate way round the push: the item is already strictly farther than the (trimmed) beam's worst — the
			// stop test would never let it be expanded
			type edge struct {
				b  *ssa.BasicBlock
				sd int
			}
			afterResultPush := func(in ssa.Instruction) bool {
				seenPush := false
				for _, z := range pushBlk.Instrs {
					if cl, ok := z.(*ssa.Call); ok {
						if rv, isPush := invokeOn(cl, "Push"); isPush && sameQueue(rv, resQ) {
							seenPush = true
						}
					}
					if z == in {
						return seenPush
					}
				}
				return false
			}
			farther := map[edge]bool{}
			for _, ifi := range allIfs(f) {
				if !pushBlk.Dominates(ifi.Block()) || len(ifi.Block().Succs) != 2 {
					continue
				}
				cm, ok := resolveCmp(ifi.Cond, 0)
				if !ok || cm.x.isLen || cm.y.isLen {
					continue
				}
				op := cm.op
				var bound ssa.Value
				switch {
				case isDistance(cm.x.v) && isLower(cm.y.v):
					bound = cm.y.v
				case isDistance(cm.y.v) && isLower(cm.x.v):
					op, bound = flipCmp(op), cm.x.v
				default:
					continue
				}
				// the bound must have been read after the item entered the beam (the bound taken at the top of the iteration says
				// nothing about an item admitted because the beam was not full)
				bi, isI := through(bound).(ssa.Instruction)
				if !isI || !pushBlk.Dominates(bi.Block()) || (bi.Block() == pushBlk && !afterResultPush(bi)) {
					continue
				}
				for sd := 0; sd < 2; sd++ {
					if effOn(op, sd) == token.GTR {
						farther[edge{ifi.Block(), sd}] = true
					}
				}
			}
			var at ssa.Instruction
			escapes := false
			seenB := map[*ssa.BasicBlock]bool{}
			var dfs func(b *ssa.BasicBlock)
			dfs = func(b *ssa.BasicBlock) {
				if seenB[b] || escapes {
					return
				}
				seenB[b] = true
				for _, in := range b.Instrs {
					if pushesCand(in) || instrNoReturn(in) {
						return
					}
				}
				for sd, sb := range b.Succs {
					if farther[edge{b, sd}] {
						continue
					}
					if !pushBlk.Dominates(sb) {
						escapes, at = true, b.Instrs[len(b.Instrs)-1]
						return
					}
					dfs(sb)
				}
			}
			dfs(pushBlk)
			where := ""
			if escapes && at != nil {
				where = " (a path from the admission leaves at " + c.InstrPos(at) + " without the push)"
			}
			r.Check(!escapes, rule, fnName(f), "beam-admit-queues-for-expansion", c.InstrPos(pushBlk.Instrs[0]), "every neighbour admitted to the beam is also pushed onto the candidate queue, unconditionally: while the beam is not full every discovered vertex must be expanded (that is what makes the search of a small collection a full traversal)"+where)
		}
		r.Check(orOK, rule, fnName(f), "beam-admit-or-fill", c.InstrPos(admits[0].ifi), "a neighbour is admitted when it is nearer than the farthest result OR the beam is not full yet (with AND a beam that is not full refuses every neighbour farther than its current worst: on a small collection items that belong to the answer are never reached)")
	}
	if nBeam == 0 {
		r.Unk(rule, "index", "beam", "-", "no beam search (a function peeking at a result queue) found")
	}
	if nBound < 4 {
		r.Unk(rule, "index", "bounded-queues", "-", fmt.Sprintf("only %d bounded-queue tests found (the selections, the beam trim and the frontier loops are at least 6)", nBound))
	}
	_ = types.Typ
}

// linkLoopReachesLevelZero: the loop of the insert path that searches a level and links the new vertex there counts down by
// one and runs while the level is >= 0: an insert that stops above level 0 leaves the item out of the layer every search ends
// on, and it starts at the lower of the two levels involved (linking above the new vertex's own level indexes edge sets it
// does not have).
func linkLoopReachesLevelZero(c *Ctx, r *Report, rule string) {
	x := newIdx(c)
	if len(x.missing) > 0 {
		r.Unk(rule, "index", "anchors", "-", "index anchors missing")
		return
	}
	// the beam function: peeks at a result queue
	isBeam := func(g *ssa.Function) bool {
		if g == nil {
			return false
		}
		hit := false
		eachInstr(g, func(i ssa.Instruction) {
			if cl, ok := i.(*ssa.Call); ok {
				if _, isPeek := invokeOn(cl, "Peek"); isPeek {
					hit = true
				}
			}
		})
		return hit
	}
	n := 0
	for _, f := range x.funcs {
		if f.Parent() != nil {
			continue
		}
		// a mutator of the graph that runs the beam per level: has an entry-point write and a beam call in a cycle
		writesEntry := false
		eachInstr(f, func(i ssa.Instruction) {
			if x.isEntryWrite(i) {
				writesEntry = true
			}
		})
		if !writesEntry {
			continue
		}
		// (the per-level body may have been moved into a method that runs the beam itself)
		var runsBeam func(g *ssa.Function, d int) bool
		runsBeam = func(g *ssa.Function, d int) bool {
			if g == nil || d > 2 {
				return false
			}
			if isBeam(g) {
				return true
			}
			if !modLocal(g) || len(g.Blocks) == 0 {
				return false
			}
			hit := false
			eachInstr(g, func(z ssa.Instruction) {
				if cc := asCall(z); cc != nil && !hit && runsBeam(cc.StaticCallee(), d+1) {
					hit = true
				}
			})
			return hit
		}
		eachInstr(f, func(i ssa.Instruction) {
			cl, ok := i.(*ssa.Call)
			if !ok || !runsBeam(cl.Call.StaticCallee(), 0) || !inCycle(f, cl) {
				return
			}
			// the level argument: an integer φ stepping by -1
			var ph *ssa.Phi
			for _, a := range cl.Call.Args {
				if p, isP := strip(a).(*ssa.Phi); isP && len(p.Edges) == 2 {
					if b, isB := p.Type().Underlying().(*types.Basic); isB && b.Info()&types.IsInteger != 0 {
						ph = p
					}
				}
			}
			if ph == nil {
				return
			}
			n++
			step, init := false, ssa.Value(nil)
			for e, ev := range ph.Edges {
				if bo, isB := ev.(*ssa.BinOp); isB && bo.X == ssa.Value(ph) {
					if k, isK := constInt(bo.Y); isK && ((bo.Op == token.SUB && k == 1) || (bo.Op == token.ADD && k == -1)) {
						step = true
						init = ph.Edges[1-e]
					}
				}
			}
			// continuation test in the φ's block
			cont := ""
			okCont := false
			for _, u := range *ph.Referrers() {
				bo, isB := u.(*ssa.BinOp)
				if !isB || bo.Block() != ph.Block() || !isCmp(bo.Op) {
					continue
				}
				op, other := bo.Op, bo.Y
				if bo.Y == ssa.Value(ph) {
					op, other = flipCmp(bo.Op), bo.X
				}
				k, isK := constInt(other)
				cont = fmt.Sprintf("level %s %v", op, other)
				if isK && ((op == token.GEQ && k == 0) || (op == token.GTR && k == -1)) {
					okCont = true
				}
			}
			okInit := false
			if init != nil {
				if ic, isC := strip(init).(*ssa.Call); isC {
					if g := ic.Call.StaticCallee(); g != nil && (g.Name() == "MinInt" || g.Name() == "min") {
						okInit = true
					}
					if callID(&ic.Call).is("builtin", "", "min") {
						okInit = true
					}
				}
			}
			r.Check(step && okCont && okInit, rule, fnName(f), "link-loop", c.InstrPos(cl), fmt.Sprintf("the linking loop starts at the lower of the entry point's and the new vertex's level (%v), steps down by one (%v) and runs while level >= 0 (%s): an item that is not linked on level 0 is never found", okInit, step, cont))
		})
	}
	if n == 0 {
		r.Unk(rule, "index", "link-loop", "-", "the per-level linking loop of the insert path was not found")
	}
}
