package main

import (
	"fmt"
	"go/token"
	"go/types"
	"strings"

	"golang.org/x/tools/go/ssa"
)

func init() {
	register("C14", checkC14)
	register("C20", checkC20)
}

// registering: functions that (transitively, through static calls) perform a Register…Fn call.
func registeringFns(c *Ctx, ro *roles) map[*ssa.Function]bool {
	out := map[*ssa.Function]bool{}
	for _, g := range ro.regs {
		out[g.in] = true
	}
	changed := true
	for changed {
		changed = false
		for _, f := range c.ModFuncs {
			if out[f] || !c.isProd(f) {
				continue
			}
			eachInstr(f, func(i ssa.Instruction) {
				if cc := asCall(i); cc != nil && cc.StaticCallee() != nil && out[cc.StaticCallee()] && !out[f] {
					out[f] = true
					changed = true
				}
			})
		}
	}
	return out
}

func checkC14(c *Ctx, r *Report, tier string) {
	round5(c, r, "C14")
	round6(c, r, "C14")
	round7(c, r, "C14")
	r.Rule("C14.R1", "consumers are registered before the group starts: in a function that calls Start() on a raft group, no call that registers a log consumer on that group (directly, on a shared group built over it, or on a proxy obtained from it) is reachable after the Start call", 2)
	r.Rule("C14.R2", "deterministic catalogue apply: no randomness / time / fresh-uuid source is reachable from the catalogue's apply roots (ids and placement are chosen by the proposer and travel in the entry)", 1)
	r.Rule("C14.R3", "the catalogue snapshot covers what apply writes and restore replaces it (frozen table: DatasetManager.datasets, pb.Partition.NodeIds)", 2)
	r.Rule("C14.R4", "delete stops serving: the delete apply function unwatches every partition of the dataset before it removes the catalogue entry, and the allocator's reaction to an unwatch unloads the partition's raft group", 2)
	ro := discoverRoles(c)
	reg := registeringFns(c, ro)
	// R1
	for _, f := range c.ModFuncs {
		if !c.isProd(f) {
			continue
		}
		var starts []*ssa.Call
		eachInstr(f, func(i ssa.Instruction) {
			if cl, ok := i.(*ssa.Call); ok {
				id := callID(&cl.Call)
				if id.Name == "Start" && id.Recv == "RaftGroup" {
					starts = append(starts, cl)
				}
			}
		})
		for k, st := range starts {
			g := st.Call.Args[0]
			// values tainted by g: g itself (by access path) and results of calls taking a tainted argument
			tainted := map[ssa.Value]bool{}
			gp := path(g)
			isT := func(v ssa.Value) bool {
				v = strip(v)
				return tainted[v] || path(v) == gp
			}
			changed := true
			for changed {
				changed = false
				eachInstr(f, func(i ssa.Instruction) {
					cl, ok := i.(*ssa.Call)
					if !ok || tainted[cl] {
						return
					}
					for _, a := range cl.Call.Args {
						if isT(a) {
							tainted[cl] = true
							changed = true
						}
					}
					if cl.Call.IsInvoke() && isT(cl.Call.Value) {
						tainted[cl] = true
						changed = true
					}
				})
				eachInstr(f, func(i ssa.Instruction) {
					if ex, ok := i.(*ssa.Extract); ok && tainted[ex.Tuple] && !tainted[ex] {
						tainted[ex] = true
						changed = true
					}
				})
			}
			var late ssa.Instruction
			eachInstr(f, func(i ssa.Instruction) {
				cl, ok := i.(*ssa.Call)
				if !ok || i == ssa.Instruction(st) {
					return
				}
				id := callID(&cl.Call)
				registers := false
				if strings.HasPrefix(id.Name, "Register") && strings.HasSuffix(id.Name, "Fn") {
					registers = true
				}
				if t := cl.Call.StaticCallee(); t != nil && reg[t] {
					registers = true
				}
				if !registers {
					return
				}
				on := false
				for _, a := range cl.Call.Args {
					if isT(a) {
						on = true
					}
				}
				if cl.Call.IsInvoke() && isT(cl.Call.Value) {
					on = true
				}
				if !on {
					return
				}
				if _, reach := reachesAvoiding(f, st, func(z ssa.Instruction) bool { return z == i }, nil); reach {
					late = i
				}
			})
			cons := fmt.Sprintf("Start#%d", k+1)
			if late != nil {
				r.Bad("C14.R1", fnName(f), cons, c.Pos(st.Pos()), "a log consumer is registered at "+c.InstrPos(late)+" after the group has been started: replay runs concurrently with registration (entries for a consumer that is not there yet are skipped, a stored snapshot meets a nil callback)")
			} else {
				r.OK("C14.R1", fnName(f), cons, c.Pos(st.Pos()), "every consumer registration on this group precedes Start")
			}
		}
	}
	// R2
	var croots []*ssa.Function
	for _, f := range ro.applyRoots {
		if recvTypeName(f) == "DatasetManager" {
			croots = append(croots, f)
		}
	}
	if len(croots) < 2 {
		r.Unk("C14.R2", "storage.DatasetManager", "apply-roots", "-", "catalogue process / restore callbacks not found")
	} else {
		determinismRule(c, r, "C14.R2", croots, "catalogue")
	}
	catalogueSnapshotShipsLiveMeta(c, r, "C14.R3")
	// R3
	effectRule(c, r, "C14.R3", func(n string) bool { return n == "DatasetManager.datasets" || n == "Partition.NodeIds" })
	r.Rule("C14.R5", "what a restarted node reads back is what was written: the catalogue snapshot serialises the current state on every call, the partition list keeps its order (never built from map iteration), and log compaction keeps the snapshot's anchor entry so the first entry after the snapshot is replayed", 3)
	snapshotIsFresh(c, r, "C14.R5", "DatasetManager")
	partitionOrderStable(c, r, "C14.R5")
	walCompactionKeepsAnchor(c, r, "C14.R5")
	noGoroutinesInApply(c, r, "C14.R2", "DatasetManager")
	r.Rule("C14.R6", "what List and the catalogue snapshot read is what replica changes write: partitions are constructed on elements of the message stored in Dataset.meta; a restore callback is never skipped because its payload is empty", 3)
	partitionMetaAliasesDatasetMeta(c, r, "C14.R6")
	restoreNotSkippedOnEmptyPayload(c, r, "C14.R6")
	r.Rule("C14.R7", "a follower that catches up by snapshot gets the catalogue: the cached snapshot is the persisted one, payload included; an acknowledged catalogue change is on disk: persist dominates every apply site of the Ready loop", 3)
	cachedSnapshotIsTheWrittenOne(c, r, "C14.R7")
	borrow(c, r, "C03", "C03.R1", "C14.R7", "")
	r.Rule("C14.R8", "the replica assignment is the same function of the log on every node, and a restarted member keeps receiving the catalogue: applying a replica change always rewrites the member list (borrowed from C17.R5); the join handshake runs on every start (borrowed from C20.R6)", 2)
	borrow(c, r, "C17", "C17.R5", "C14.R8", "member-list")
	borrow(c, r, "C20", "C20.R6", "C14.R8", "")
	// R4
	fDatasets := c.Field("storage", "DatasetManager", "datasets")
	fParts := c.Field("storage", "Dataset", "partitions")
	reach := c.reachableFrom(croots, false, true)
	found := false
	for f := range reach {
		eachInstr(f, func(i ssa.Instruction) {
			cl, ok := i.(*ssa.Call)
			if !ok || !callID(&cl.Call).is("builtin", "", "delete") || fieldOfValue(cl.Call.Args[0]) != fDatasets {
				return
			}
			// a delete on the map object the field held before it was replaced is not a removal from the catalogue
			if ld, isI := strip(cl.Call.Args[0]).(ssa.Instruction); isI {
				stale := false
				for _, st := range fieldStoresIn(f, fDatasets) {
					if instrDominates(ld, st) && instrDominates(st, i) {
						stale = true
					}
				}
				if stale {
					return
				}
			}
			found = true
			// an unwatch-like call inside a loop over the deleted dataset's partitions, all before the delete
			var un *ssa.Call
			eachInstr(f, func(j ssa.Instruction) {
				cc, ok := j.(*ssa.Call)
				if !ok || cc.Call.StaticCallee() == nil || recvTypeName(cc.Call.StaticCallee()) != "Allocator" {
					return
				}
				// argument derives from an element of dataset.partitions
				for _, a := range cc.Call.Args[1:] {
					for _, o := range origins(a, originOpt{}) {
						if l, ok := loadOf(o); ok {
							if fa, ok := l.(*ssa.FieldAddr); ok {
								if el, ok := loadOf(fa.X); ok {
									if ia, ok := el.(*ssa.IndexAddr); ok && fieldOfValue(ia.X) == fParts && isLoopCounter(ia.Index) {
										un = cc
									}
								}
							}
						}
					}
				}
			})
			if un == nil {
				r.Bad("C14.R4", fnName(f), "unwatch-before-delete", c.Pos(cl.Pos()), "the catalogue entry is removed without unwatching the dataset's partitions: their raft groups keep serving a deleted dataset")
				return
			}
			// the delete is not reachable from function entry without passing the loop header of the unwatch loop: the loop's
			// exit dominates the delete  <=> the block of the unwatch call's loop header dominates the delete block
			okOrder := false
			for _, ifi := range allIfs(f) {
				// loop condition block dominating both
				if ifi.Block().Dominates(un.Block()) && ifi.Block().Dominates(cl.Block()) && guardedBy(un.Block(), ifi, true) && guardedBy(cl.Block(), ifi, false) {
					okOrder = true
				}
			}
			// and unwatch leads to unloading
			t := un.Call.StaticCallee()
			r.Check(okOrder, "C14.R4", fnName(f), "unwatch-before-delete", c.Pos(cl.Pos()), "every partition is handed to "+t.Name()+" in a loop whose exit precedes the removal of the entry")
		})
	}
	if !found {
		r.Unk("C14.R4", "storage.DatasetManager", "delete-apply", "-", "no apply function deletes from DatasetManager.datasets")
	}
	// allocator reaction: the loop handling unwatch updates reaches a function that stops the partition's group
	okUnload := false
	for _, f := range prodFuncs(c, "storage") {
		if recvTypeName(f) != "Allocator" {
			continue
		}
		hasSel := false
		eachInstr(f, func(i ssa.Instruction) {
			if _, ok := i.(*ssa.Select); ok {
				hasSel = true
			}
		})
		if !hasSel {
			continue
		}
		for g := range c.reachableFrom([]*ssa.Function{f}, false, true) {
			eachInstr(g, func(i ssa.Instruction) {
				if cc := asCall(i); cc != nil {
					if id := callID(cc); id.Name == "Stop" && id.Recv == "RaftGroup" && recvTypeName(g) == "partition" {
						okUnload = true
					}
				}
			})
		}
	}
	r.Check(okUnload, "C14.R4", "storage.Allocator", "unwatch-unloads", "-", "the allocator loop reaches partition code that stops the raft group")
}

// ---- C20 ------------------------------------------------------------------------------------------

func checkC20(c *Ctx, r *Report, tier string) {
	round5(c, r, "C20")
	round6(c, r, "C20")
	round7(c, r, "C20")
	r.Rule("C20.R1", "who may write the address book: Conn.AddNode / RemoveNode are called only by the transport constructor (self), by the join handshake's reply loop, and by the ConfChange handler under the zero-group test", 3)
	r.Rule("C20.R5", "the address book cannot be written through an alias and a compaction snapshot never forgets the membership: Conn hands out copies of its address map; the WAL writes a snapshot only with a non-nil ConfState", 2)
	guardedMapNotHandedOut(c, r, "C20.R5", "cluster", "Conn", "addresses")
	snapshotCarriesMembership(c, r, "C20.R5")
	r.Rule("C20.R6", "a node with peers configured performs the join handshake on every start (its reply is what restores the peers' addresses after the membership log was compacted)", 1)
	joinIsUnconditional(c, r, "C20.R6")
	r.Rule("C20.R7", "a restarted member recovers real addresses: an address-less bootstrap entry replayed from the log does not shadow the address learned from the join handshake", 1)
	emptyAddressDoesNotShadow(c, r, "C20.R7")
	r.Rule("C20.R8", "a member comes back as itself: every node id handed out at start-up is the stored one or has just been stored", 1)
	nodeIdentityPersisted(c, r, "C20.R8")
	r.Rule("C20.R2", "the address travels in the entry: the join proposal stores its address argument in ConfChange.Context; the handler hands string(cc.Context) and cc.NodeID of the same unmarshalled change to the address book; the join handler proposes before it answers and answers with the member list plus the joiner", 3)
	r.Rule("C20.R3", "the zero group's snapshot covers the address book and the conf state (frozen table: cluster.Conn.addresses, RaftGroup.raftConfState)", 2)
	r.Rule("C20.R4", "a membership change is acknowledged only after it is applied: a function that proposes a ConfChange on behalf of an RPC waits, before any success return, on something only the ConfChange handler signals", 2)
	ro := discoverRoles(c)
	connT := c.Named("cluster", "Conn")
	if connT == nil {
		r.Unk("C20.R1", "cluster.Conn", "type", "-", "not found")
		return
	}
	isBookWriter := func(f *ssa.Function) bool {
		return f != nil && recvTypeName(f) == "Conn" && namedOf(f.Signature.Recv().Type()) == connT && (f.Name() == "AddNode" || f.Name() == "RemoveNode")
	}
	// forwarding wrappers: functions whose only effect is to call a book writer with their own parameters
	wrappers := map[*ssa.Function]bool{}
	for _, f := range c.ModFuncs {
		if !c.isProd(f) {
			continue
		}
		n, calls := 0, 0
		eachInstr(f, func(i ssa.Instruction) {
			if cc := asCall(i); cc != nil {
				n++
				if isBookWriter(cc.StaticCallee()) {
					calls++
					for _, a := range cc.Args[1:] {
						if _, ok := a.(*ssa.Parameter); !ok {
							calls = -100
						}
					}
				}
			}
		})
		if n == 1 && calls == 1 && f.Signature.Results().Len() == 0 {
			wrappers[f] = true
		}
	}
	k := 0
	for _, f := range c.ModFuncs {
		if !c.isProd(f) {
			continue
		}
		eachInstr(f, func(i ssa.Instruction) {
			cc := asCall(i)
			if cc == nil {
				return
			}
			t := cc.StaticCallee()
			if !(isBookWriter(t) || wrappers[t]) || wrappers[f] {
				return
			}
			k++
			cons := fmt.Sprintf("%s-call#%d", t.Name(), k)
			pos := c.InstrPos(i)
			switch {
			case isConfFn(ro, f):
				// under the zero-group test
				g := false
				for _, ifi := range allIfs(f) {
					if cl, ok := ifi.Cond.(*ssa.Call); ok && callID(&cl.Call).Name == "Equal" {
						isNil := false
						for _, a := range cl.Call.Args {
							if gl := globalOf(a); gl != nil && gl.Name() == "Nil" {
								isNil = true
							}
						}
						if isNil && guardedBy(i.Block(), ifi, true) {
							g = true
						}
					}
				}
				r.Check(g, "C20.R1", fnName(f), cons, pos, "ConfChange handler updates the address book only for the zero group (uuid.Equal(id, uuid.Nil))")
			case f.Signature.Results().Len() == 1 && typeName(f.Signature.Results().At(0).Type()) == "RaftTransport":
				okSelf := true
				for _, a := range cc.Args[1:] {
					if _, ok := a.(*ssa.Parameter); !ok {
						okSelf = false
					}
				}
				r.Check(okSelf, "C20.R1", fnName(f), cons, pos, "transport constructor registers the node's own id and address")
			case hasStreamRecv(f):
				r.OK("C20.R1", fnName(f), cons, pos, "join handshake: the member list streamed back by the cluster is installed")
			default:
				r.Bad("C20.R1", fnName(f), cons, pos, "the address book is written from a place other than the transport constructor, the join handshake or the zero group's ConfChange handler")
			}
		})
	}
	// R2
	for _, f := range ro.proposers {
		// conf-change proposers: build a ConfChange value
		var ccAlloc *ssa.Alloc
		eachInstr(f, func(i ssa.Instruction) {
			if al, ok := i.(*ssa.Alloc); ok {
				if p, ok := al.Type().(*types.Pointer); ok && typeName(p.Elem()) == "ConfChange" {
					ccAlloc = al
				}
			}
		})
		if ccAlloc == nil {
			continue
		}
		var addr *ssa.Parameter
		for _, p := range f.Params {
			if b, ok := p.Type().Underlying().(*types.Basic); ok && b.Kind() == types.String {
				addr = p
			}
		}
		if addr == nil {
			continue // leave proposals carry no address
		}
		okCtx := false
		eachInstr(f, func(i ssa.Instruction) {
			if st, ok := i.(*ssa.Store); ok {
				if fa, ok := st.Addr.(*ssa.FieldAddr); ok && fa.X == ssa.Value(ccAlloc) && structField(fa.X.Type(), fa.Field).Name() == "Context" {
					if strip(st.Val) == ssa.Value(addr) {
						okCtx = true
					}
				}
			}
		})
		r.Check(okCtx, "C20.R2", fnName(f), "address-in-context", c.Pos(f.Pos()), "the announced address is stored in ConfChange.Context")
	}
	for _, h := range ro.confChangeFns {
		var ccAlloc *ssa.Alloc
		eachInstr(h, func(i ssa.Instruction) {
			if cl, ok := i.(*ssa.Call); ok && callID(&cl.Call).Name == "Unmarshal" {
				if al, ok := cl.Call.Args[0].(*ssa.Alloc); ok {
					ccAlloc = al
				}
			}
		})
		if ccAlloc == nil {
			r.Unk("C20.R2", fnName(h), "handler-arguments", c.Pos(h.Pos()), "no unmarshalled ConfChange value")
			continue
		}
		fromCC := func(v ssa.Value, field string) bool {
			for _, o := range origins(v, originOpt{}) {
				if l, ok := loadOf(o); ok {
					if fa, ok := l.(*ssa.FieldAddr); ok && fa.X == ssa.Value(ccAlloc) && structField(fa.X.Type(), fa.Field).Name() == field {
						return true
					}
				}
			}
			return false
		}
		nAdd, nRem := 0, 0
		okAll := true
		eachInstr(h, func(i ssa.Instruction) {
			cl, ok := i.(*ssa.Call)
			if !ok || cl.Call.StaticCallee() == nil {
				return
			}
			t := cl.Call.StaticCallee()
			if !(wrappers[t] || isBookWriter(t)) {
				return
			}
			args := cl.Call.Args[1:]
			if len(args) == 2 {
				nAdd++
				if !fromCC(args[0], "NodeID") || !fromCC(args[1], "Context") {
					okAll = false
				}
			} else if len(args) == 1 {
				nRem++
				if !fromCC(args[0], "NodeID") {
					okAll = false
				}
			}
		})
		r.Check(okAll && nAdd == 1 && nRem == 1, "C20.R2", fnName(h), "handler-arguments", c.Pos(h.Pos()), fmt.Sprintf("add uses (cc.NodeID, string(cc.Context)), remove uses cc.NodeID of the unmarshalled change (%d add, %d remove)", nAdd, nRem))
	}
	// join handler: proposes before it answers, answer = Nodes() plus the joiner
	nmT := c.Named("storage/raft", "NodesManager")
	if nmT != nil {
		for _, f := range prodFuncs(c, "storage/raft") {
			if recvTypeName(f) != "NodesManager" || f.Signature.Results().Len() != 2 {
				continue
			}
			if _, isMap := f.Signature.Results().At(0).Type().Underlying().(*types.Map); !isMap {
				continue
			}
			var prop *ssa.Call
			eachInstr(f, func(i ssa.Instruction) {
				if cl, ok := i.(*ssa.Call); ok && cl.Call.StaticCallee() != nil && isProposer(ro, cl.Call.StaticCallee()) {
					prop = cl
				}
			})
			if prop == nil {
				r.Bad("C20.R2", fnName(f), "propose-then-answer", c.Pos(f.Pos()), "the join handler answers without proposing the membership change")
				continue
			}
			okAns := false
			for _, rt := range returnsOf(f) {
				if !isNilConst(rt.Results[1]) {
					continue
				}
				if !instrDominates(prop, rt.Return) {
					continue
				}
				// map returned has the joiner added: MapUpdate(m, id param, address param)
				eachInstr(f, func(i ssa.Instruction) {
					if mu, ok := i.(*ssa.MapUpdate); ok && mu.Map == rt.Results[0] {
						_, k1 := mu.Key.(*ssa.Parameter)
						_, v1 := mu.Value.(*ssa.Parameter)
						if k1 && v1 {
							okAns = true
						}
					}
				})
			}
			r.Check(okAns, "C20.R2", fnName(f), "propose-then-answer", c.Pos(prop.Pos()), "the proposal precedes the answer; the answer is the member list plus the joiner itself")
		}
	}
	joinHandshakeFailsLoudly(c, r, "C20.R2")
	// handler always applies (C05.R4's obligation, needed here because a skipped ApplyConfChange blocks every later change)
	if rl := (func() *readyLoop {
		for _, fn := range ro.readyLoops {
			return analyseReadyLoop(c, fn, ro)
		}
		return nil
	})(); rl != nil && rl.rd != nil {
		sub := NewReport("C20")
		c05R4(c, sub, rl, ro)
		for _, o := range sub.Obls {
			o.Rule = "C20.R2"
			o.Key = strings.Replace(o.Key, "C05.R4", "C20.R2", 1)
			r.Obls = append(r.Obls, o)
		}
	}
	// R3
	effectRule(c, r, "C20.R3", func(n string) bool { return n == "Conn.addresses" || n == "RaftGroup.raftConfState" })
	// R4
	rpcReach := c.reachableFrom(ro.rpcRoots, false, true)
	for f := range rpcReach {
		eachInstr(f, func(i ssa.Instruction) {
			cl, ok := i.(*ssa.Call)
			if !ok || cl.Call.StaticCallee() == nil {
				return
			}
			t := cl.Call.StaticCallee()
			if !isProposer(ro, t) {
				return
			}
			// only conf-change proposers
			isCC := false
			eachInstr(t, func(j ssa.Instruction) {
				if cc := asCall(j); cc != nil && callID(cc).Name == "ProposeConfChange" {
					isCC = true
				}
			})
			if !isCC || isProposer(ro, f) {
				return
			}
			// a blocking wait after the proposal on every success path
			waits := false
			eachInstr(f, func(j ssa.Instruction) {
				switch y := j.(type) {
				case *ssa.Select:
					if y.Blocking && instrDominates(cl, j) {
						waits = true
					}
				case *ssa.UnOp:
					if y.Op == token.ARROW && instrDominates(cl, j) {
						waits = true
					}
				}
			})
			if waits {
				r.OK("C20.R4", fnName(f), "ack-after-apply", c.Pos(cl.Pos()), "the caller waits for the handler's signal before answering")
			} else {
				r.Bad("C20.R4", fnName(f), "ack-after-apply", c.Pos(cl.Pos()), "the membership change is acknowledged as soon as it is queued: etcd's ProposeConfChange returns nil before commit and drops the proposal silently when there is no leader, so a join/leave can be acknowledged although no member ever applies it")
			}
		})
	}
}

func isConfFn(ro *roles, f *ssa.Function) bool {
	for _, g := range ro.confChangeFns {
		if g == f {
			return true
		}
	}
	return false
}

func isProposer(ro *roles, f *ssa.Function) bool {
	for _, g := range ro.proposers {
		if g == f {
			return true
		}
	}
	return false
}

func hasStreamRecv(f *ssa.Function) bool {
	found := false
	eachInstr(f, func(i ssa.Instruction) {
		if cc := asCall(i); cc != nil && cc.IsInvoke() && cc.Method.Name() == "Recv" {
			found = true
		}
	})
	return found
}
