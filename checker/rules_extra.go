package main

import (
	"fmt"
	"go/token"
	"go/types"
	"strings"

	"golang.org/x/tools/go/ssa"
)

// Rules added after the first round of independently seeded changes (DESIGN.md §12).

// ---- a rejected operation leaves nothing behind --------------------------------------------------------

// noMutationBeforeErrorReturn: in every method of the index with an error result, a return of a non-nil error is not
// reachable from a call that mutates the index (link / unlink / prune / store / remove / entry-point write).
func noMutationBeforeErrorReturn(c *Ctx, r *Report, rule string) {
	x := newIdxLocks(c)
	if len(x.missing) > 0 {
		r.Unk(rule, "index", "anchors", "-", strings.Join(x.missing, ", "))
		return
	}
	mut := x.mutators()
	for _, f := range x.funcs {
		if x.applyOnly(f) || f.Signature.Recv() == nil || namedOf(f.Signature.Recv().Type()) != x.hnsw {
			continue
		}
		res := f.Signature.Results()
		if res.Len() == 0 || !isErrorType(res.At(res.Len()-1).Type()) {
			continue
		}
		var muts []ssa.Instruction
		eachInstr(f, func(i ssa.Instruction) {
			if cl, ok := i.(*ssa.Call); ok {
				if g := cl.Call.StaticCallee(); g != nil && mut[g] && !isConstructor(g) {
					muts = append(muts, i)
				}
			}
			if x.isEntryWrite(i) {
				muts = append(muts, i)
			}
		})
		if len(muts) == 0 {
			continue
		}
		k := 0
		for _, rt := range returnsOf(f) {
			last := rt.Results[len(rt.Results)-1]
			if isNilConst(last) {
				continue
			}
			k++
			cons := fmt.Sprintf("failed-return#%d", k)
			// the call that produced this error is allowed to be the (failed, hence effect-free) mutator itself
			var producer ssa.Instruction
			for _, o := range origins(last, originOpt{}) {
				switch y := o.(type) {
				case *ssa.Call:
					producer = y
				case *ssa.Extract:
					if cl, ok := y.Tuple.(*ssa.Call); ok {
						producer = cl
					}
				}
			}
			bad := ""
			for _, m := range muts {
				if m == producer {
					continue
				}
				if _, reach := reachesAvoiding(f, m, func(i ssa.Instruction) bool { return i == ssa.Instruction(rt.Return) }, nil); reach {
					bad = c.InstrPos(m)
				}
			}
			if bad != "" {
				r.Bad(rule, fnName(f), cons, c.Pos(rt.Pos()), "this error return is reachable after the index was already modified at "+bad+": a rejected operation (e.g. insert of an existing id) leaves links to a vertex that is not in the id map — searches return it, Remove cannot reach it")
			} else {
				r.OK(rule, fnName(f), cons, c.Pos(rt.Pos()), "no index mutation precedes this error return")
			}
		}
	}
}

// isConstructor: a plain function returning a pointer to a value it allocates (its writes go to a private object).
func isConstructor(g *ssa.Function) bool {
	if g.Signature.Recv() != nil || g.Signature.Results().Len() != 1 {
		return false
	}
	for _, rt := range returnsOf(g) {
		if al, ok := strip(rt.Results[0]).(*ssa.Alloc); !ok || !al.Heap {
			return false
		}
	}
	return true
}

// ---- restore: every successful return is preceded by a reset of every owned field ----------------------------

func restoreResetsBeforeSuccess(c *Ctx, r *Report, rule string) {
	x := newIdxLocks(c)
	if len(x.missing) > 0 {
		r.Unk(rule, "index", "anchors", "-", strings.Join(x.missing, ", "))
		return
	}
	// the index restore function: method of Hnsw taking an io.Reader
	for _, f := range x.funcs {
		if f.Signature.Recv() == nil || namedOf(f.Signature.Recv().Type()) != x.hnsw {
			continue
		}
		reads := false
		for _, p := range f.Params {
			if isIOType(p.Type(), "Reader") {
				reads = true
			}
		}
		if !reads {
			continue
		}
		fields := []*types.Var{x.fVertices, x.fLen, x.fBytes, x.fEntry}
		k := 0
		for _, rt := range returnsOf(f) {
			if !isNilConst(rt.Results[len(rt.Results)-1]) {
				continue
			}
			k++
			for _, fld := range fields {
				cons := fmt.Sprintf("success-return#%d-resets-%s", k, fld.Name())
				ok := false
				eachInstr(f, func(i ssa.Instruction) {
					var addr ssa.Value
					switch y := i.(type) {
					case *ssa.Store:
						addr = y.Addr
						// must be a plain (non read-modify-write) store
						if b, isB := y.Val.(*ssa.BinOp); isB && (fieldOfValue(b.X) == fld || fieldOfValue(b.Y) == fld) {
							return
						}
					case *ssa.Call:
						id := callID(&y.Call)
						if id.Pkg == "sync/atomic" && (strings.HasPrefix(id.Name, "Store") || strings.HasPrefix(id.Name, "Swap")) && len(y.Call.Args) > 0 {
							addr = y.Call.Args[0]
						}
					}
					if addr == nil || fieldOfAddr(addr) != fld {
						return
					}
					if instrDominates(i, rt.Return) {
						ok = true
						return
					}
					// a store in the body of a loop over a constant, positive number of slots whose header dominates the return
					for _, ifi := range allIfs(f) {
						b, isB := ifi.Cond.(*ssa.BinOp)
						if !isB || b.Op != token.LSS {
							continue
						}
						if n, isC := constInt(b.Y); !isC || n <= 0 {
							continue
						}
						if !isLoopCounter(b.X) {
							continue
						}
						if guardedBy(i.Block(), ifi, true) && ifi.Block().Dominates(rt.Block()) {
							ok = true
						}
					}
				})
				if ok {
					r.OK(rule, fnName(f), cons, c.Pos(rt.Pos()), "a plain store resetting "+fld.Name()+" dominates this successful return")
				} else {
					r.Bad(rule, fnName(f), cons, c.Pos(rt.Pos()), "Load can return success here without having reset "+fld.Name()+": loading the (empty) snapshot of an emptied index into a used index keeps the old items / counters — the replica diverges from one that replayed the log")
				}
			}
		}
	}
}

// ---- snapshot callbacks compute from current state -------------------------------------------------------

func snapshotIsFresh(c *Ctx, r *Report, rule string, owner string) {
	ro := discoverRoles(c)
	for _, f := range ro.snapshotFns {
		if owner != "" && recvTypeName(f) != owner {
			continue
		}
		k := 0
		for _, rt := range returnsOf(f) {
			if !isNilConst(rt.Results[len(rt.Results)-1]) {
				continue
			}
			k++
			bad := ""
			for _, o := range origins(rt.Results[0], originOpt{}) {
				if fld := fieldOfValue(o); fld != nil {
					bad = "field " + fieldLabel(fld)
				}
				if _, isP := o.(*ssa.Parameter); isP {
					bad = "a parameter"
				}
			}
			cons := fmt.Sprintf("success-return#%d", k)
			if bad != "" {
				r.Bad(rule, fnName(f), cons, c.Pos(rt.Pos()), "the snapshot bytes returned here come from "+bad+", not from serialising the current state in this call: a cached snapshot labelled with a newer index loses the entries in between")
			} else {
				r.OK(rule, fnName(f), cons, c.Pos(rt.Pos()), "returned bytes are produced by a serialisation call in this activation")
			}
		}
	}
}

// ---- WAL: compaction keeps the snapshot's anchor entry -------------------------------------------------------

func walCompactionKeepsAnchor(c *Ctx, r *Report, rule string) {
	w := newWal(c)
	if w.typ == nil {
		r.Unk(rule, "storage/wal", "anchors", "-", "badgerWAL not found")
		return
	}
	// sweep functions with an exclusive upper bound parameter: collect iterator keys while index < bound
	for _, f := range w.funcs {
		if f.Parent() != nil || f.Signature.Recv() == nil || len(f.Params) != 3 {
			continue
		}
		if b, ok := f.Params[2].Type().Underlying().(*types.Basic); !ok || b.Kind() != types.Uint64 {
			continue
		}
		name := strings.ToLower(f.Params[2].Name())
		if !strings.Contains(name, "until") && !strings.Contains(name, "upto") && !strings.Contains(name, "to") {
			continue
		}
		bound := f.Params[2]
		for _, cf := range append([]*ssa.Function{f}, closuresOf(f)...) {
			eachInstr(cf, func(i ssa.Instruction) {
				ap, ok := i.(*ssa.Call)
				if !ok || !callID(&ap.Call).is("builtin", "", "append") {
					return
				}
				// appended element derives from Item().Key()
				isKey := false
				for _, e := range flatArgs(&ap.Call)[1:] {
					if cl, ok := strip(e).(*ssa.Call); ok && callID(&cl.Call).Name == "Key" {
						isKey = true
					}
				}
				if !isKey {
					return
				}
				// find the comparison of the decoded index with the bound that controls this append
				okB := false
				for _, ifi := range allIfs(cf) {
					b, ok := ifi.Cond.(*ssa.BinOp)
					if !ok {
						continue
					}
					isBound := func(v ssa.Value) bool {
						for _, o := range origins(v, originOpt{}) {
							if o == ssa.Value(bound) {
								return true
							}
							if l, ok := loadOf(o); ok {
								for _, st := range cellStores(l) {
									if st.Val == ssa.Value(bound) {
										return true
									}
								}
							}
						}
						return false
					}
					var op token.Token
					switch {
					case isBound(b.Y) && !isBound(b.X):
						op = b.Op // index OP bound
					case isBound(b.X) && !isBound(b.Y):
						op = flipCmp(b.Op)
					default:
						continue
					}
					// the append must be on the side where index < bound
					switch op {
					case token.GEQ: // if index >= bound { break }  -> append on the false side
						if guardedBy(ap.Block(), ifi, false) {
							okB = true
						}
					case token.LSS:
						if guardedBy(ap.Block(), ifi, true) {
							okB = true
						}
					}
				}
				r.Check(okB, rule, fnName(cf), "sweep-excludes-bound", c.Pos(ap.Pos()), "keys are collected for deletion only while index < "+bound.Name()+" (the entry at the bound is the snapshot's anchor)")
			})
		}
		// callers pass the snapshot's own index, unmodified
		for _, cl := range w.callersC[f] {
			arg := cl.Call.Args[2]
			l, ok := normLin(arg, func(v ssa.Value) bool {
				a, isL := loadOf(v)
				if !isL {
					return false
				}
				fa, isF := a.(*ssa.FieldAddr)
				return isF && structField(fa.X.Type(), fa.Field).Name() == "Index"
			})
			okA := ok && l.x != nil && l.a == 1 && l.b == 0
			r.Check(okA, rule, fnName(cl.Parent()), "compaction-bound", c.Pos(cl.Pos()), "the log is compacted up to, not including, the snapshot index (the anchor entry written for it in the same batch must survive)")
		}
	}
}

// ---- WAL: cached last index follows every entry write ---------------------------------------------------------

func walCacheFollowsWrites(c *Ctx, r *Report, rule string) {
	w := newWal(c)
	if w.typ == nil {
		r.Unk(rule, "storage/wal", "anchors", "-", "badgerWAL not found")
		return
	}
	fCache := c.Field("storage/wal", "badgerWAL", "cache")
	entryCtor := ""
	for g := range w.ctors {
		if len(g.Params) == 2 {
			entryCtor = "ctor:" + g.Name()
		}
	}
	lastKey := func(v ssa.Value) bool {
		if g := globalOf(v); g != nil && strings.Contains(strings.ToLower(g.Name()), "lastindex") {
			return true
		}
		return false
	}
	for _, f := range w.funcs {
		if f.Parent() != nil {
			continue
		}
		var sets []*ssa.Call
		eachInstr(f, func(i ssa.Instruction) {
			if cl, ok := i.(*ssa.Call); ok {
				if id := callID(&cl.Call); id.Name == "Set" && id.Recv == "WriteBatch" && w.keyKinds(cl.Call.Args[1])[entryCtor] {
					sets = append(sets, cl)
				}
			}
		})
		if len(sets) == 0 {
			continue
		}
		isCacheUpdate := func(i ssa.Instruction) bool {
			switch y := i.(type) {
			case *ssa.Call:
				id := callID(&y.Call)
				if id.Name == "Store" && id.Recv == "Map" && len(y.Call.Args) >= 2 {
					// sync.Map.Store(key, value): args[0] is the receiver
					for _, a := range y.Call.Args {
						if mi, ok := a.(*ssa.MakeInterface); ok && lastKey(mi.X) {
							return true
						}
					}
				}
			case *ssa.Store:
				if fieldOfAddr(y.Addr) == fCache {
					return true // the whole cache is replaced
				}
			}
			return false
		}
		// does this function truncate the tail (sweep from a non-constant index)? then the cached last index must be
		// set on every path; otherwise (an anchor write) raising it conditionally is enough
		truncates := false
		eachInstr(f, func(i ssa.Instruction) {
			if cl, ok := i.(*ssa.Call); ok && cl.Call.StaticCallee() != nil && len(cl.Call.Args) == 3 && modLocal(cl.Call.StaticCallee()) {
				if b, isB := cl.Call.Args[2].Type().Underlying().(*types.Basic); isB && b.Kind() == types.Uint64 {
					if _, isC := cl.Call.Args[2].(*ssa.Const); !isC && strings.Contains(strings.ToLower(cl.Call.StaticCallee().Name()), "delete") {
						truncates = true
					}
				}
			}
		})
		// cache replaced before the sets (reset): fine as well
		replaced := false
		eachInstr(f, func(i ssa.Instruction) {
			if st, ok := i.(*ssa.Store); ok && fieldOfAddr(st.Addr) == fCache {
				replaced = true
			}
		})
		for k, s := range sets {
			cons := fmt.Sprintf("entry-set#%d", k+1)
			if replaced {
				r.OK(rule, fnName(f), cons, c.Pos(s.Pos()), "the cache is discarded by this function")
				continue
			}
			if !truncates {
				some := false
				eachInstr(f, func(i ssa.Instruction) {
					if isCacheUpdate(i) {
						if _, reach := reachesAvoiding(f, s, func(z ssa.Instruction) bool { return z == i }, nil); reach {
							some = true
						}
					}
				})
				r.Check(some, rule, fnName(f), cons, c.Pos(s.Pos()), "the function never shortens the log; it raises the cached last index when the written index is beyond it")
				continue
			}
			// every path from the set to a success return passes a cache update
			hit, found := reachesAvoiding(f, s, func(i ssa.Instruction) bool {
				rt, ok := i.(*ssa.Return)
				if !ok {
					return false
				}
				// success-ish return: error value is not a tested non-nil error
				for _, rr := range returnsOf(f) {
					if rr.Return == rt {
						last := rr.Results[len(rr.Results)-1]
						if isNilConst(last) {
							return true
						}
						if ifi, pol := errTestOf(f, last); ifi != nil && guardedBy(rt.Block(), ifi, pol) {
							return false
						}
						return true
					}
				}
				return false
			}, isCacheUpdate)
			if found {
				r.Bad(rule, fnName(f), cons, c.Pos(s.Pos()), "an entry is written to the log and a path reaches the return at "+c.InstrPos(hit)+" without updating the cached last index: LastIndex() keeps answering the old value (after a truncating overwrite raft asks for entries that no longer exist and panics)")
			} else {
				r.OK(rule, fnName(f), cons, c.Pos(s.Pos()), "every path from this write to a successful return updates the cached last index")
			}
		}
	}
}

// ---- WAL: an iterator's key buffer is not retained -----------------------------------------------------------

func walIteratorKeyNotRetained(c *Ctx, r *Report, rule string) {
	n := 0
	for _, f := range prodFuncs(c, "storage/wal") {
		eachInstr(f, func(i ssa.Instruction) {
			cl, ok := i.(*ssa.Call)
			if !ok {
				return
			}
			id := callID(&cl.Call)
			if !(id.Name == "Key" && id.Recv == "Item" && strings.HasSuffix(id.Pkg, "badger/v2")) {
				return
			}
			n++
			bad := ""
			var walk func(v ssa.Value, d int)
			walk = func(v ssa.Value, d int) {
				if v.Referrers() == nil || d > 4 {
					return
				}
				for _, u := range *v.Referrers() {
					switch y := u.(type) {
					case *ssa.Convert:
						if b, ok := y.Type().Underlying().(*types.Basic); ok && b.Kind() == types.String {
							continue // string(key) copies
						}
						walk(y, d+1)
					case *ssa.Slice:
						walk(y, d+1)
					case *ssa.ChangeType:
						walk(y, d+1)
					case *ssa.Call:
						cid := callID(&y.Call)
						if t := y.Call.StaticCallee(); t != nil && modLocal(t) {
							// read-only use by a module helper (decoder) — accepted when the helper does not store it
							continue
						}
						if cid.Pkg == "bytes" || (cid.Pkg == "builtin" && (cid.Name == "len" || cid.Name == "copy")) {
							continue
						}
						if cid.Pkg == "builtin" && cid.Name == "append" && len(y.Call.Args) == 2 && y.Call.Args[1] == v {
							// append(dst, key...) copies the bytes
							continue
						}
						bad = "passed to " + cid.String() + " at " + c.InstrPos(u)
					case *ssa.Store, *ssa.MapUpdate, *ssa.Send, *ssa.MakeInterface, *ssa.Return, *ssa.Phi:
						bad = fmt.Sprintf("retained by %T at %s", u, c.InstrPos(u))
					case *ssa.DebugRef, *ssa.IndexAddr, *ssa.Index, *ssa.UnOp:
					}
				}
			}
			walk(cl, 0)
			cons := fmt.Sprintf("Item.Key#%d", n)
			if bad != "" {
				r.Bad(rule, fnName(f), cons, c.Pos(cl.Pos()), "Item().Key() is only valid until the iterator advances, but it is "+bad+" without being copied: the batch later deletes whatever the recycled buffers hold (the intended keys survive, other groups' entries can be deleted)")
			} else {
				r.OK(rule, fnName(f), cons, c.Pos(cl.Pos()), "the key is copied (string conversion) or only read before the iterator advances")
			}
		})
	}
}

// ---- partition order is never derived from map iteration ----------------------------------------------------

func partitionOrderStable(c *Ctx, r *Report, rule string) {
	fParts := c.Field("protobuf", "Dataset", "Partitions")
	if fParts == nil {
		r.Unk(rule, "protobuf.Dataset", "Partitions", "-", "field not found")
		return
	}
	n := 0
	for _, f := range c.ModFuncs {
		if !c.isProd(f) {
			continue
		}
		for _, st := range fieldStoresIn(f, fParts) {
			n++
			cons := fmt.Sprintf("Partitions-store#%d", n)
			bad := ""
			for _, o := range origins(st.Val, originOpt{}) {
				ap, ok := o.(*ssa.Call)
				if !ok || !callID(&ap.Call).is("builtin", "", "append") {
					continue
				}
				// is the append inside a loop driven by Next over a map?
				eachInstr(f, func(i ssa.Instruction) {
					nx, ok := i.(*ssa.Next)
					if !ok || nx.IsString {
						return
					}
					rg, ok := nx.Iter.(*ssa.Range)
					if !ok {
						return
					}
					if _, isMap := rg.X.Type().Underlying().(*types.Map); !isMap {
						return
					}
					if nx.Block().Dominates(ap.Block()) {
						if _, back := reachesAvoiding(f, ap, func(z ssa.Instruction) bool { return z == ssa.Instruction(nx) }, nil); back {
							bad = "appended to while ranging over the map " + describeVal(rg.X)
						}
					}
				})
			}
			if bad != "" {
				r.Bad(rule, fnName(f), cons, c.InstrPos(st), "the ordered partition list of a dataset is "+bad+": Go randomises map iteration, so a node that restores this list routes ids to different partitions than the nodes that built it from the log")
			} else {
				r.OK(rule, fnName(f), cons, c.InstrPos(st), "partition list is built in index order")
			}
		}
	}
	if n == 0 {
		r.Unk(rule, "module", "Partitions-stores", "-", "no store to pb.Dataset.Partitions found")
	}
}

// ---- notification ids are fresh random uuids ---------------------------------------------------------------

func notificationIdsAreRandom(c *Ctx, r *Report, rule string) {
	f := c.Method("utils", "Notificator", "Create")
	if f == nil {
		r.Unk(rule, "utils.Notificator", "Create", "-", "method not found")
		return
	}
	ok := true
	why := "the id handed out by Create is a fresh random uuid (uuid.NewV4): it travels in the replicated log and is looked up on every replica and on replay, so it must be unique across nodes and process lifetimes"
	for _, rt := range returnsOf(f) {
		for _, res := range rt.Results {
			if typeName(res.Type()) != "UUID" {
				continue
			}
			for _, o := range origins(res, originOpt{}) {
				cl, isC := o.(*ssa.Call)
				if !isC || !(strings.HasSuffix(callID(&cl.Call).Pkg, "satori/go.uuid") && (callID(&cl.Call).Name == "NewV4" || callID(&cl.Call).Name == "NewV1")) {
					ok = false
					why = "the notification id is not a fresh random uuid (" + o.String() + "): ids repeat across nodes / restarts and an applied entry notifies somebody else's waiter"
				}
			}
		}
	}
	r.Check(ok, rule, fnName(f), "id-is-random-uuid", c.Pos(f.Pos()), why)
}

// ---- a channel taken from the notificator's map is only used while the map's mutex is held -------------------------

func notificatorChannelUnderLock(c *Ctx, r *Report, rule string) {
	fChans := c.Field("utils", "Notificator", "chans")
	fMu := c.Field("utils", "Notificator", "mu")
	if fChans == nil || fMu == nil {
		r.Unk(rule, "utils.Notificator", "fields", "-", "chans / mu not found")
		return
	}
	for _, f := range prodFuncs(c, "utils") {
		if recvTypeName(f) != "Notificator" {
			continue
		}
		li := analyzeLocks(f)
		n := 0
		eachInstr(f, func(i ssa.Instruction) {
			var ch ssa.Value
			kind := ""
			needW := false
			switch y := i.(type) {
			case *ssa.Send:
				ch, kind = y.Chan, "send"
			case *ssa.Select:
				for _, st := range y.States {
					if st.Dir == types.SendOnly {
						ch, kind = st.Chan, "send"
					}
				}
			case *ssa.Call:
				if callID(&y.Call).is("builtin", "", "close") {
					ch, kind, needW = y.Call.Args[0], "close", true
				}
			}
			if ch == nil {
				return
			}
			from := false
			for _, o := range origins(ch, originOpt{}) {
				if ex, ok := o.(*ssa.Extract); ok {
					if lk, ok := ex.Tuple.(*ssa.Lookup); ok && fieldOfValue(lk.X) == fChans {
						from = true
					}
				}
				if lk, ok := o.(*ssa.Lookup); ok && fieldOfValue(lk.X) == fChans {
					from = true
				}
			}
			if !from {
				return
			}
			n++
			held := byte(0)
			for p, m := range li.before[i].must {
				if mutexField(li.lockVal[p]) == fMu {
					held = m
				}
			}
			ok := held != 0 && (!needW || held == 'W')
			r.Check(ok, rule, fnName(f), fmt.Sprintf("%s#%d", kind, n), c.InstrPos(i), kind+" on a channel looked up in the notificator's map happens while its mutex is held (so Remove cannot close the channel between lookup and send: a send on a closed channel panics in the apply loop)")
		})
	}
}

// ---- distances handed to the queues cannot be negative ------------------------------------------------------

// possiblyNegative: does the float value have a top-level subtraction / negation not wrapped by Abs / Sqrt / a square?
func possiblyNegative(c *Ctx, f *ssa.Function, v ssa.Value, depth int) (bool, string) {
	if depth > 6 {
		return false, ""
	}
	v = strip(v)
	switch y := v.(type) {
	case *ssa.BinOp:
		switch y.Op {
		case token.SUB:
			return true, "subtraction at " + c.Pos(y.Pos())
		case token.ADD, token.MUL, token.QUO:
			if y.Op == token.MUL && y.X == y.Y {
				return false, ""
			}
			if b, w := possiblyNegative(c, f, y.X, depth+1); b {
				return b, w
			}
			return possiblyNegative(c, f, y.Y, depth+1)
		}
	case *ssa.UnOp:
		if y.Op == token.SUB {
			return true, "negation at " + c.Pos(y.Pos())
		}
	case *ssa.Phi:
		for _, e := range y.Edges {
			if e == ssa.Value(y) {
				continue
			}
			if b, w := possiblyNegative(c, f, e, depth+1); b {
				return b, w
			}
		}
	case *ssa.Call:
		id := callID(&y.Call)
		if id.Name == "Abs" || id.Name == "Sqrt" {
			return false, ""
		}
		var targets []*ssa.Function
		if t := y.Call.StaticCallee(); t != nil {
			targets = append(targets, t)
		} else {
			targets = c.calleesOf(f, y)
		}
		for _, t := range targets {
			if !modLocal(t) {
				continue
			}
			for _, rt := range returnsOf(t) {
				if len(rt.Results) == 1 {
					if b, w := possiblyNegative(c, t, rt.Results[0], depth+1); b {
						return b, w + " in " + fnName(t)
					}
				}
			}
		}
	}
	return false, ""
}

func distancesNonNegative(c *Ctx, r *Report, rule string) {
	sp := c.Named("index/space", "Space")
	if sp == nil {
		r.Unk(rule, "index/space", "Space", "-", "interface not found")
		return
	}
	iface := sp.Underlying().(*types.Interface)
	n := 0
	for _, f := range prodFuncs(c, "index/space") {
		if f.Name() != "Distance" || f.Signature.Recv() == nil {
			continue
		}
		if !types.Implements(f.Signature.Recv().Type(), iface) {
			continue
		}
		n++
		for _, rt := range returnsOf(f) {
			neg, why := possiblyNegative(c, f, rt.Results[0], 0)
			if neg {
				r.Bad(rule, fnName(f), "non-negative-distance", c.Pos(rt.Pos()), "the distance can be slightly negative in floating point ("+why+", not wrapped in Abs): the priority queues panic on a negative priority, in the apply goroutine for inserts (every replica, on every replay) and in the search goroutine for queries")
			} else {
				r.OK(rule, fnName(f), "non-negative-distance", c.Pos(rt.Pos()), "result is an absolute value / square root / sum of such, or comes straight from a kernel")
			}
		}
	}
	if n < 3 {
		r.Unk(rule, "index/space", "Distance-implementations", "-", fmt.Sprintf("only %d Space implementations found", n))
	}
}

// ---- raw heap.Interface methods are only for container/heap ---------------------------------------------------

func rawHeapMethodsUnused(c *Ctx, r *Report, rule string) {
	bad := ""
	n := 0
	for _, f := range prodFuncs(c, "utils") {
		eachInstr(f, func(i ssa.Instruction) {
			cc := asCall(i)
			if cc == nil {
				return
			}
			n++
			if cc.IsInvoke() && (cc.Method.Name() == "Push" || cc.Method.Name() == "Pop") && typePkg(cc.Value.Type()) == "container/heap" {
				bad = c.InstrPos(i)
			}
			if t := cc.StaticCallee(); t != nil && (t.Name() == "Push" || t.Name() == "Pop") && t.Signature.Recv() != nil {
				if _, isSl := t.Signature.Recv().Type().Underlying().(*types.Pointer); isSl {
					if nm := namedOf(t.Signature.Recv().Type()); nm != nil {
						if _, ok := nm.Underlying().(*types.Slice); ok {
							bad = c.InstrPos(i)
						}
					}
				}
			}
		})
	}
	if bad != "" {
		r.Bad(rule, "utils", "raw-heap-method-call", bad, "the heap.Interface Push/Pop of a queue type is called directly (not through container/heap): it only appends / removes the last element, so the heap order is not restored")
	} else {
		r.OK(rule, "utils", "raw-heap-method-call", "-", fmt.Sprintf("%d call sites in package utils; none calls a queue type's raw Push/Pop", n))
	}
}

// ---- the join handshake fails on a broken reply stream ----------------------------------------------------------

func joinHandshakeFailsLoudly(c *Ctx, r *Report, rule string) {
	for _, f := range prodFuncs(c, "storage/raft") {
		if !hasStreamRecv(f) {
			continue
		}
		res := f.Signature.Results()
		if res.Len() != 1 || !isErrorType(res.At(0).Type()) {
			continue
		}
		n := 0
		for _, ifi := range allIfs(f) {
			b, ok := ifi.Cond.(*ssa.BinOp)
			if !ok || b.Op != token.NEQ || !isNilConst(b.Y) || !isErrorType(b.X.Type()) {
				continue
			}
			// only errors of the Recv call
			ex, ok := b.X.(*ssa.Extract)
			if !ok {
				continue
			}
			cl, ok := ex.Tuple.(*ssa.Call)
			if !ok || !(cl.Call.IsInvoke() && cl.Call.Method.Name() == "Recv") {
				continue
			}
			n++
			hit, found := reachesAvoidingFrom(f, firstInstr(succOn(ifi, true)), func(i ssa.Instruction) bool {
				rt, ok := i.(*ssa.Return)
				if !ok {
					return false
				}
				for _, rr := range returnsOf(f) {
					if rr.Return == rt && isNilConst(rr.Results[0]) {
						return true
					}
				}
				return false
			}, func(ssa.Instruction) bool { return false })
			if found {
				r.Bad(rule, fnName(f), "recv-error", c.Pos(ifi.Cond.Pos()), "a failure of the handshake's reply stream can end in a successful return ("+c.InstrPos(hit)+"): the joiner keeps a partial member list and never retries")
			} else {
				r.OK(rule, fnName(f), "recv-error", c.Pos(ifi.Cond.Pos()), "every non-EOF error of the reply stream fails the join attempt")
			}
		}
	}
}

// ---- the catalogue snapshot ships the live dataset descriptions ------------------------------------------------

func catalogueSnapshotShipsLiveMeta(c *Ctx, r *Report, rule string) {
	ro := discoverRoles(c)
	dsPb := c.Named("protobuf", "Dataset")
	if dsPb == nil {
		r.Unk(rule, "protobuf.Dataset", "type", "-", "not found")
		return
	}
	st := dsPb.Underlying().(*types.Struct)
	var need []string
	for i := 0; i < st.NumFields(); i++ {
		n := st.Field(i).Name()
		if strings.HasPrefix(n, "XXX_") || n == "Size" {
			continue
		}
		need = append(need, n)
	}
	for _, f := range ro.snapshotFns {
		if recvTypeName(f) != "DatasetManager" {
			continue
		}
		n := 0
		eachInstr(f, func(i ssa.Instruction) {
			stI, ok := i.(*ssa.Store)
			if !ok {
				return
			}
			if _, isIA := stI.Addr.(*ssa.IndexAddr); !isIA || namedOf(stI.Val.Type()) != dsPb {
				return
			}
			n++
			ok2 := true
			why := "each snapshot element is the dataset's live description (Meta())"
			for _, o := range origins(stI.Val, originOpt{}) {
				switch y := o.(type) {
				case *ssa.Call:
					if callID(&y.Call).Name != "Meta" {
						ok2, why = false, "element comes from "+callID(&y.Call).String()
					}
				case *ssa.Alloc:
					// a copy: every field must be stored
					set := map[string]bool{}
					for _, u := range *y.Referrers() {
						if fa, ok := u.(*ssa.FieldAddr); ok {
							if len(storesTo(f, fa)) > 0 {
								set[structField(fa.X.Type(), fa.Field).Name()] = true
							}
						}
					}
					var missing []string
					for _, nme := range need {
						if !set[nme] {
							missing = append(missing, nme)
						}
					}
					if len(missing) > 0 {
						ok2, why = false, "the snapshot copies the description field by field and omits "+strings.Join(missing, ", ")+": a node restoring the snapshot builds the dataset with the zero value"
					}
				default:
					ok2, why = false, "element has unknown provenance "+o.String()
				}
			}
			r.Check(ok2, rule, fnName(f), fmt.Sprintf("snapshot-element#%d", n), c.InstrPos(stI), why)
		})
		if n == 0 {
			r.Unk(rule, fnName(f), "snapshot-elements", c.Pos(f.Pos()), "cannot find where dataset descriptions are put into the snapshot")
		}
	}
}

// ---- stored items are never modified in place --------------------------------------------------------------

// publishedVertexWrites: element writes (map update / slice element store) whose container is the metadata or the vector
// of a stored vertex, anywhere in the module (through accessors and one level of parameters).
func publishedVertexWrites(c *Ctx, r *Report, rule string) {
	fMeta := c.Field("index", "hnswVertex", "metadata")
	fVec := c.Field("index", "hnswVertex", "vector")
	if fMeta == nil || fVec == nil {
		r.Unk(rule, "index.hnswVertex", "fields", "-", "metadata / vector not found")
		return
	}
	callers := map[*ssa.Function][]*ssa.Call{}
	var fns []*ssa.Function
	for _, f := range c.ModFuncs {
		if c.isProd(f) {
			fns = append(fns, f)
			eachInstr(f, func(i ssa.Instruction) {
				if cl, ok := i.(*ssa.Call); ok && cl.Call.StaticCallee() != nil {
					callers[cl.Call.StaticCallee()] = append(callers[cl.Call.StaticCallee()], cl)
				}
			})
		}
	}
	var isStored func(v ssa.Value, depth int) *types.Var
	isStored = func(v ssa.Value, depth int) *types.Var {
		for _, o := range origins(v, originOpt{}) {
			if fld := fieldOfValueDeep(o); fld == fMeta || fld == fVec {
				return fld
			}
			if p, ok := o.(*ssa.Parameter); ok && depth > 0 {
				f := p.Parent()
				for k, pp := range f.Params {
					if pp != p {
						continue
					}
					for _, cl := range callers[f] {
						if k < len(cl.Call.Args) {
							if fld := isStored(cl.Call.Args[k], depth-1); fld != nil {
								return fld
							}
						}
					}
				}
			}
		}
		return nil
	}
	n, bad := 0, 0
	for _, f := range fns {
		eachInstr(f, func(i ssa.Instruction) {
			var container ssa.Value
			switch y := i.(type) {
			case *ssa.MapUpdate:
				container = y.Map
			case *ssa.Store:
				if ia, ok := y.Addr.(*ssa.IndexAddr); ok {
					container = ia.X
				}
			case *ssa.Call:
				if callID(&y.Call).is("builtin", "", "delete") {
					container = y.Call.Args[0]
				}
			}
			if container == nil {
				return
			}
			n++
			if fld := isStored(container, 2); fld != nil {
				// a vector being filled by its own loader before the vertex exists is not a stored vertex's vector
				if _, isP := strip(container).(*ssa.Parameter); isP && f.Signature.Recv() != nil && isVectorType(f.Signature.Recv().Type()) {
					return
				}
				bad++
				r.Bad(rule, fnName(f), fmt.Sprintf("in-place-write-%s#%d", fld.Name(), bad), c.InstrPos(i), "writes into the "+fld.Name()+" of a stored vertex in place: searches read it without a lock, the byte counter was computed from the old contents (it under-counts and later wraps), and a failed operation has already changed the item")
			}
		})
	}
	if bad == 0 {
		r.OK(rule, "module", "no-in-place-write-to-stored-items", "-", fmt.Sprintf("%d element writes examined; none targets the vector or metadata of a stored vertex", n))
	}
}

// ---- a result is never used while its error is thrown away -------------------------------------------------------

func valueUsedErrorDiscarded(c *Ctx, r *Report, rule string, fns []*ssa.Function) {
	n, bad := 0, 0
	for _, f := range fns {
		eachInstr(f, func(i ssa.Instruction) {
			cl, ok := i.(*ssa.Call)
			if !ok {
				return
			}
			sig := cl.Call.Signature()
			k := sig.Results().Len()
			if k < 2 || !isErrorType(sig.Results().At(k-1).Type()) {
				return
			}
			n++
			errUsed, valUsed := false, false
			if cl.Referrers() != nil {
				for _, u := range *cl.Referrers() {
					ex, ok := u.(*ssa.Extract)
					if !ok || ex.Referrers() == nil {
						continue
					}
					used := false
					for _, uu := range *ex.Referrers() {
						if _, dbg := uu.(*ssa.DebugRef); !dbg {
							used = true
						}
					}
					if ex.Index == k-1 {
						errUsed = errUsed || used
					} else {
						valUsed = valUsed || used
					}
				}
			}
			if valUsed && !errUsed {
				bad++
				r.Bad(rule, fnName(f), fmt.Sprintf("error-discarded#%d", bad), c.Pos(cl.Pos()), "the result of "+callID(&cl.Call).Name+"() is used while its error is discarded: a failure is passed on as an (empty) success")
			}
		})
	}
	if bad == 0 {
		r.OK(rule, "scope", "no-value-without-error-check", "-", fmt.Sprintf("%d calls returning (value, error) examined; none uses the value while dropping the error", n))
	}
}
