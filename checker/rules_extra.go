package main

import (
	"fmt"
	"go/token"
	"go/types"
	"strings"

	"golang.org/x/tools/go/ssa"
)

// Rules added after the first round of independently seeded changes (DESIGN.md §12).

// ---- a rejected operation leaves nothing behind --------------------------------------------------------

// noMutationBeforeErrorReturn: in every method of the index with an error result, a return of a non-nil error is not
// reachable from a call that mutates the index (link / unlink / prune / store / remove / entry-point write).
func noMutationBeforeErrorReturn(c *Ctx, r *Report, rule string) {
	x := newIdxLocks(c)
	if len(x.missing) > 0 {
		r.Unk(rule, "index", "anchors", "-", strings.Join(x.missing, ", "))
		return
	}
	mut := x.mutators()
	for _, f := range x.funcs {
		if x.applyOnly(f) || f.Signature.Recv() == nil || namedOf(f.Signature.Recv().Type()) != x.hnsw {
			continue
		}
		res := f.Signature.Results()
		if res.Len() == 0 || !isErrorType(res.At(res.Len()-1).Type()) {
			continue
		}
		var muts []ssa.Instruction
		eachInstr(f, func(i ssa.Instruction) {
			if cl, ok := i.(*ssa.Call); ok {
				if g := cl.Call.StaticCallee(); g != nil && mut[g] && !isConstructor(g) {
					muts = append(muts, i)
				}
			}
			if x.isEntryWrite(i) {
				muts = append(muts, i)
			}
		})
		if len(muts) == 0 {
			continue
		}
		k := 0
		for _, rt := range returnsOf(f) {
			last := rt.Results[len(rt.Results)-1]
			if isNilConst(last) {
				continue
			}
			k++
			cons := fmt.Sprintf("failed-return#%d", k)
			// the call that produced this error is allowed to be the (failed, hence effect-free) mutator itself
			var producer ssa.Instruction
			for _, o := range origins(last, originOpt{}) {
				switch y := o.(type) {
				case *ssa.Call:
					producer = y
				case *ssa.Extract:
					if cl, ok := y.Tuple.(*ssa.Call); ok {
						producer = cl
					}
				}
			}
			bad := ""
			for _, m := range muts {
				if m == producer {
					continue
				}
				if _, reach := reachesAvoiding(f, m, func(i ssa.Instruction) bool { return i == ssa.Instruction(rt.Return) }, nil); reach {
					bad = c.InstrPos(m)
				}
			}
			if bad != "" {
				r.Bad(rule, fnName(f), cons, c.Pos(rt.Pos()), "this error return is reachable after the index was already modified at "+bad+": a rejected operation (e.g. insert of an existing id) leaves links to a vertex that is not in the id map — searches return it, Remove cannot reach it")
			} else {
				r.OK(rule, fnName(f), cons, c.Pos(rt.Pos()), "no index mutation precedes this error return")
			}
		}
	}
}

// isConstructor: a plain function returning a pointer to a value it allocates (its writes go to a private object).
func isConstructor(g *ssa.Function) bool {
	if g.Signature.Recv() != nil || g.Signature.Results().Len() != 1 {
		return false
	}
	for _, rt := range returnsOf(g) {
		if al, ok := strip(rt.Results[0]).(*ssa.Alloc); !ok || !al.Heap {
			return false
		}
	}
	return true
}

// ---- restore: every successful return is preceded by a reset of every owned field ----------------------------

func restoreResetsBeforeSuccess(c *Ctx, r *Report, rule string) {
	x := newIdxLocks(c)
	if len(x.missing) > 0 {
		r.Unk(rule, "index", "anchors", "-", strings.Join(x.missing, ", "))
		return
	}
	// the index restore function: method of Hnsw taking an io.Reader
	for _, f := range x.funcs {
		if f.Signature.Recv() == nil || namedOf(f.Signature.Recv().Type()) != x.hnsw {
			continue
		}
		reads := false
		for _, p := range f.Params {
			if isIOType(p.Type(), "Reader") {
				reads = true
			}
		}
		if !reads {
			continue
		}
		// a helper of the reader (called by another reader method of the index with the same stream) is part of it
		helper := false
		for _, g := range x.funcs {
			if g == f || g.Signature.Recv() == nil || namedOf(g.Signature.Recv().Type()) != x.hnsw {
				continue
			}
			gReads := false
			for _, p := range g.Params {
				if isIOType(p.Type(), "Reader") {
					gReads = true
				}
			}
			if !gReads {
				continue
			}
			eachInstr(g, func(i ssa.Instruction) {
				if cc := asCall(i); cc != nil && cc.StaticCallee() == f {
					helper = true
				}
			})
		}
		if helper {
			continue
		}
		fields := []*types.Var{x.fVertices, x.fLen, x.fBytes, x.fEntry}
		k := 0
		for _, rt := range returnsOf(f) {
			if !isNilConst(rt.Results[len(rt.Results)-1]) {
				continue
			}
			k++
			for _, fld := range fields {
				cons := fmt.Sprintf("success-return#%d-resets-%s", k, fld.Name())
				ok := false
				eachInstr(f, func(i ssa.Instruction) {
					var addr ssa.Value
					switch y := i.(type) {
					case *ssa.Store:
						addr = y.Addr
						// must be a plain (non read-modify-write) store
						if b, isB := y.Val.(*ssa.BinOp); isB && (fieldOfValue(b.X) == fld || fieldOfValue(b.Y) == fld) {
							return
						}
					case *ssa.Call:
						id := callID(&y.Call)
						if id.Pkg == "sync/atomic" && (strings.HasPrefix(id.Name, "Store") || strings.HasPrefix(id.Name, "Swap")) && len(y.Call.Args) > 0 {
							addr = y.Call.Args[0]
						}
					}
					if addr == nil || fieldOfAddr(addr) != fld {
						return
					}
					if instrDominates(i, rt.Return) {
						ok = true
						return
					}
					// a store in the body of a loop over a constant, positive number of slots whose header dominates the return
					for _, ifi := range allIfs(f) {
						b, isB := ifi.Cond.(*ssa.BinOp)
						if !isB || b.Op != token.LSS {
							continue
						}
						if n, isC := constInt(b.Y); !isC || n <= 0 {
							continue
						}
						if !isLoopCounter(b.X) {
							continue
						}
						if guardedBy(i.Block(), ifi, true) && ifi.Block().Dominates(rt.Block()) {
							ok = true
						}
					}
				})
				if ok {
					r.OK(rule, fnName(f), cons, c.Pos(rt.Pos()), "a plain store resetting "+fld.Name()+" dominates this successful return")
				} else {
					r.Bad(rule, fnName(f), cons, c.Pos(rt.Pos()), "Load can return success here without having reset "+fld.Name()+": loading the (empty) snapshot of an emptied index into a used index keeps the old items / counters — the replica diverges from one that replayed the log")
				}
			}
		}
	}
}

// ---- snapshot callbacks compute from current state -------------------------------------------------------

func snapshotIsFresh(c *Ctx, r *Report, rule string, owner string) {
	ro := discoverRoles(c)
	for _, f := range ro.snapshotFns {
		if owner != "" && recvTypeName(f) != owner {
			continue
		}
		k := 0
		for _, rt := range returnsOf(f) {
			if !isNilConst(rt.Results[len(rt.Results)-1]) {
				continue
			}
			k++
			bad := ""
			for _, o := range origins(rt.Results[0], originOpt{}) {
				if fld := fieldOfValue(o); fld != nil {
					bad = "field " + fieldLabel(fld)
				}
				if _, isP := o.(*ssa.Parameter); isP {
					bad = "a parameter"
				}
				// bytes of a buffer: the buffer itself must be local to this activation
				if cl, isC := o.(*ssa.Call); isC && len(cl.Call.Args) > 0 && typeName(cl.Call.Args[0].Type()) == "Buffer" {
					for _, bo := range origins(cl.Call.Args[0], originOpt{}) {
						switch y := strip(bo).(type) {
						case *ssa.Alloc:
						case *ssa.Call:
							if id := callID(&y.Call); !(id.Pkg == "bytes" && strings.HasPrefix(id.Name, "NewBuffer")) {
								bad = "a buffer obtained from " + id.String() + " (shared with whoever gets it next)"
							}
						case *ssa.FieldAddr:
							if fld := structField(y.X.Type(), y.Field); fld != nil {
								bad = "a buffer kept in field " + fieldLabel(fld) + " (overwritten by the next snapshot while the log store still serves the previous one from its cache)"
							}
						default:
							if fld := fieldOfValue(bo); fld != nil {
								bad = "a buffer kept in field " + fieldLabel(fld)
							} else if g := globalOf(bo); g != nil {
								bad = "a package-level buffer " + g.Name()
							}
						}
					}
				}
			}
			cons := fmt.Sprintf("success-return#%d", k)
			if bad != "" {
				r.Bad(rule, fnName(f), cons, c.Pos(rt.Pos()), "the snapshot bytes returned here come from "+bad+", not from serialising the current state in this call: a cached snapshot labelled with a newer index loses the entries in between")
			} else {
				r.OK(rule, fnName(f), cons, c.Pos(rt.Pos()), "returned bytes are produced by a serialisation call in this activation")
			}
		}
	}
}

// ---- WAL: compaction keeps the snapshot's anchor entry -------------------------------------------------------

func walCompactionKeepsAnchor(c *Ctx, r *Report, rule string) {
	w := newWal(c)
	if w.typ == nil {
		r.Unk(rule, "storage/wal", "anchors", "-", "badgerWAL not found")
		return
	}
	// sweep functions with an exclusive upper bound parameter: collect iterator keys while index < bound
	for _, f := range w.funcs {
		if f.Parent() != nil || f.Signature.Recv() == nil || len(f.Params) != 3 {
			continue
		}
		if b, ok := f.Params[2].Type().Underlying().(*types.Basic); !ok || b.Kind() != types.Uint64 {
			continue
		}
		// a head sweep: the parameter is an exclusive upper bound (some test compares a decoded index with it)
		if !isHeadSweep(f) {
			continue
		}
		bound := f.Params[2]
		for _, cf := range append([]*ssa.Function{f}, closuresOf(f)...) {
			eachInstr(cf, func(i ssa.Instruction) {
				ap, ok := i.(*ssa.Call)
				if !ok || !callID(&ap.Call).is("builtin", "", "append") {
					return
				}
				// appended element derives from Item().Key()
				isKey := false
				for _, e := range flatArgs(&ap.Call)[1:] {
					if cl, ok := strip(e).(*ssa.Call); ok && callID(&cl.Call).Name == "Key" {
						isKey = true
					}
				}
				if !isKey {
					return
				}
				// find the comparison of the decoded index with the bound that controls this append
				okB := false
				for _, ifi := range allIfs(cf) {
					b, ok := ifi.Cond.(*ssa.BinOp)
					if !ok {
						continue
					}
					isBound := func(v ssa.Value) bool {
						for _, o := range origins(v, originOpt{}) {
							if o == ssa.Value(bound) {
								return true
							}
							if l, ok := loadOf(o); ok {
								for _, st := range cellStores(l) {
									if st.Val == ssa.Value(bound) {
										return true
									}
								}
							}
						}
						return false
					}
					var op token.Token
					switch {
					case isBound(b.Y) && !isBound(b.X):
						op = b.Op // index OP bound
					case isBound(b.X) && !isBound(b.Y):
						op = flipCmp(b.Op)
					default:
						continue
					}
					// the append must be on the side where index < bound
					switch op {
					case token.GEQ: // if index >= bound { break }  -> append on the false side
						if guardedBy(ap.Block(), ifi, false) {
							okB = true
						}
					case token.LSS:
						if guardedBy(ap.Block(), ifi, true) {
							okB = true
						}
					}
				}
				r.Check(okB, rule, fnName(cf), "sweep-excludes-bound", c.Pos(ap.Pos()), "keys are collected for deletion only while index < "+bound.Name()+" (the entry at the bound is the snapshot's anchor)")
			})
		}
		// callers pass the snapshot's own index, unmodified
		for _, cl := range w.callersC[f] {
			arg := cl.Call.Args[2]
			l, ok := normLin(arg, func(v ssa.Value) bool {
				a, isL := loadOf(v)
				if !isL {
					return false
				}
				fa, isF := a.(*ssa.FieldAddr)
				return isF && structField(fa.X.Type(), fa.Field).Name() == "Index"
			})
			okA := ok && l.x != nil && l.a == 1 && l.b == 0
			r.Check(okA, rule, fnName(cl.Parent()), "compaction-bound", c.Pos(cl.Pos()), "the log is compacted up to, not including, the snapshot index (the anchor entry written for it in the same batch must survive)")
		}
	}
}

// ---- WAL: cached last index follows every entry write ---------------------------------------------------------

func walCacheFollowsWrites(c *Ctx, r *Report, rule string) {
	w := newWal(c)
	if w.typ == nil {
		r.Unk(rule, "storage/wal", "anchors", "-", "badgerWAL not found")
		return
	}
	fCache := c.Field("storage/wal", "badgerWAL", "cache")
	entryCtor := ""
	for g := range w.ctors {
		if len(g.Params) == 2 {
			entryCtor = "ctor:" + g.Name()
		}
	}
	lastKey := func(v ssa.Value) bool {
		if g := globalOf(v); g != nil && strings.Contains(strings.ToLower(g.Name()), "lastindex") {
			return true
		}
		return false
	}
	// a single-entry writer: takes one raftpb.Entry, puts it into the batch, touches no cache. Its call sites are the write
	// sites of its callers.
	directSet := func(cl *ssa.Call) bool {
		id := callID(&cl.Call)
		return id.Name == "Set" && id.Recv == "WriteBatch" && w.keyKinds(cl.Call.Args[1])[entryCtor]
	}
	entryWriter := map[*ssa.Function]bool{}
	for _, f := range w.funcs {
		if f.Parent() != nil {
			continue
		}
		takesEntry, sets, cacheOps := false, false, false
		for _, p := range f.Params {
			if typeName(p.Type()) == "Entry" {
				takesEntry = true
			}
		}
		eachInstr(f, func(i ssa.Instruction) {
			if cl, ok := i.(*ssa.Call); ok {
				if directSet(cl) {
					sets = true
				}
				if id := callID(&cl.Call); id.Recv == "Map" && id.Pkg == "sync" {
					cacheOps = true
				}
			}
		})
		called := false
		for _, g := range w.funcs {
			eachInstr(g, func(i ssa.Instruction) {
				if cc := asCall(i); cc != nil && cc.StaticCallee() == f && g != f {
					called = true
				}
			})
		}
		if takesEntry && sets && !cacheOps && called {
			entryWriter[f] = true
		}
	}
	for _, f := range w.funcs {
		if f.Parent() != nil || entryWriter[f] {
			continue
		}
		var sets []*ssa.Call
		eachInstr(f, func(i ssa.Instruction) {
			if cl, ok := i.(*ssa.Call); ok {
				if directSet(cl) || entryWriter[cl.Call.StaticCallee()] {
					sets = append(sets, cl)
				}
			}
		})
		if len(sets) == 0 {
			continue
		}
		isCacheUpdate := func(i ssa.Instruction) bool {
			switch y := i.(type) {
			case *ssa.Call:
				id := callID(&y.Call)
				if isLastIndexStoreHelper(y.Call.StaticCallee()) {
					return true // storeLastIndex(idx): a helper that names the key itself
				}
				if id.Name == "Store" && id.Recv == "Map" && len(y.Call.Args) >= 2 {
					// sync.Map.Store(key, value): args[0] is the receiver
					for _, a := range y.Call.Args {
						if mi, ok := a.(*ssa.MakeInterface); ok && lastKey(mi.X) {
							return true
						}
					}
				}
			case *ssa.Store:
				if fieldOfAddr(y.Addr) == fCache {
					return true // the whole cache is replaced
				}
			}
			return false
		}
		// does this function truncate the tail (sweep from a non-constant index)? then the cached last index must be
		// set on every path; otherwise (an anchor write) raising it conditionally is enough
		truncates := false
		eachInstr(f, func(i ssa.Instruction) {
			if cl, ok := i.(*ssa.Call); ok && cl.Call.StaticCallee() != nil && len(cl.Call.Args) == 3 && modLocal(cl.Call.StaticCallee()) {
				if b, isB := cl.Call.Args[2].Type().Underlying().(*types.Basic); isB && b.Kind() == types.Uint64 {
					if _, isC := cl.Call.Args[2].(*ssa.Const); !isC && walSweeper(c, cl.Call.StaticCallee()) && !isHeadSweep(cl.Call.StaticCallee()) {
						truncates = true
					}
				}
			}
		})
		// cache replaced before the sets (reset): fine as well
		replaced := false
		eachInstr(f, func(i ssa.Instruction) {
			if st, ok := i.(*ssa.Store); ok && fieldOfAddr(st.Addr) == fCache {
				replaced = true
			}
		})
		for k, s := range sets {
			cons := fmt.Sprintf("entry-set#%d", k+1)
			if replaced {
				r.OK(rule, fnName(f), cons, c.Pos(s.Pos()), "the cache is discarded by this function")
				continue
			}
			if !truncates {
				some := false
				eachInstr(f, func(i ssa.Instruction) {
					if isCacheUpdate(i) {
						if _, reach := reachesAvoiding(f, s, func(z ssa.Instruction) bool { return z == i }, nil); reach {
							some = true
						}
					}
				})
				r.Check(some, rule, fnName(f), cons, c.Pos(s.Pos()), "the function never shortens the log; it raises the cached last index when the written index is beyond it")
				continue
			}
			// every path from the set to a success return passes a cache update
			hit, found := reachesAvoiding(f, s, func(i ssa.Instruction) bool {
				rt, ok := i.(*ssa.Return)
				if !ok {
					return false
				}
				// success-ish return: error value is not a tested non-nil error
				for _, rr := range returnsOf(f) {
					if rr.Return == rt {
						last := rr.Results[len(rr.Results)-1]
						if isNilConst(last) {
							return true
						}
						if ifi, pol := errTestOf(f, last); ifi != nil && guardedBy(rt.Block(), ifi, pol) {
							return false
						}
						return true
					}
				}
				return false
			}, isCacheUpdate)
			if found {
				r.Bad(rule, fnName(f), cons, c.Pos(s.Pos()), "an entry is written to the log and a path reaches the return at "+c.InstrPos(hit)+" without updating the cached last index: LastIndex() keeps answering the old value (after a truncating overwrite raft asks for entries that no longer exist and panics)")
			} else {
				r.OK(rule, fnName(f), cons, c.Pos(s.Pos()), "every path from this write to a successful return updates the cached last index")
			}
		}
	}
}

// ---- WAL: an iterator's key buffer is not retained -----------------------------------------------------------

func walIteratorKeyNotRetained(c *Ctx, r *Report, rule string) {
	n := 0
	for _, f := range prodFuncs(c, "storage/wal") {
		eachInstr(f, func(i ssa.Instruction) {
			cl, ok := i.(*ssa.Call)
			if !ok {
				return
			}
			id := callID(&cl.Call)
			if !(id.Name == "Key" && id.Recv == "Item" && strings.HasSuffix(id.Pkg, "badger/v2")) {
				return
			}
			n++
			bad := ""
			var walk func(v ssa.Value, d int)
			walk = func(v ssa.Value, d int) {
				if v.Referrers() == nil || d > 4 {
					return
				}
				for _, u := range *v.Referrers() {
					switch y := u.(type) {
					case *ssa.Convert:
						if b, ok := y.Type().Underlying().(*types.Basic); ok && b.Kind() == types.String {
							continue // string(key) copies
						}
						walk(y, d+1)
					case *ssa.Slice:
						walk(y, d+1)
					case *ssa.ChangeType:
						walk(y, d+1)
					case *ssa.Call:
						cid := callID(&y.Call)
						if t := y.Call.StaticCallee(); t != nil && modLocal(t) {
							// read-only use by a module helper (decoder) — accepted when the helper does not store it
							continue
						}
						if cid.Pkg == "bytes" || (cid.Pkg == "builtin" && (cid.Name == "len" || cid.Name == "copy")) {
							continue
						}
						if cid.Pkg == "builtin" && cid.Name == "append" && len(y.Call.Args) == 2 && y.Call.Args[1] == v {
							// append(dst, key...) copies the bytes
							continue
						}
						bad = "passed to " + cid.String() + " at " + c.InstrPos(u)
					case *ssa.Store, *ssa.MapUpdate, *ssa.Send, *ssa.MakeInterface, *ssa.Return, *ssa.Phi:
						bad = fmt.Sprintf("retained by %T at %s", u, c.InstrPos(u))
					case *ssa.DebugRef, *ssa.IndexAddr, *ssa.Index, *ssa.UnOp:
					}
				}
			}
			walk(cl, 0)
			cons := fmt.Sprintf("Item.Key#%d", n)
			if bad != "" {
				r.Bad(rule, fnName(f), cons, c.Pos(cl.Pos()), "Item().Key() is only valid until the iterator advances, but it is "+bad+" without being copied: the batch later deletes whatever the recycled buffers hold (the intended keys survive, other groups' entries can be deleted)")
			} else {
				r.OK(rule, fnName(f), cons, c.Pos(cl.Pos()), "the key is copied (string conversion) or only read before the iterator advances")
			}
		})
	}
}

// ---- partition order is never derived from map iteration ----------------------------------------------------

func partitionOrderStable(c *Ctx, r *Report, rule string) {
	fParts := c.Field("protobuf", "Dataset", "Partitions")
	if fParts == nil {
		r.Unk(rule, "protobuf.Dataset", "Partitions", "-", "field not found")
		return
	}
	n := 0
	for _, f := range c.ModFuncs {
		if !c.isProd(f) {
			continue
		}
		for _, st := range fieldStoresIn(f, fParts) {
			n++
			cons := fmt.Sprintf("Partitions-store#%d", n)
			bad := ""
			for _, o := range origins(st.Val, originOpt{}) {
				ap, ok := o.(*ssa.Call)
				if !ok || !callID(&ap.Call).is("builtin", "", "append") {
					continue
				}
				// is the append inside a loop driven by Next over a map?
				eachInstr(f, func(i ssa.Instruction) {
					nx, ok := i.(*ssa.Next)
					if !ok || nx.IsString {
						return
					}
					rg, ok := nx.Iter.(*ssa.Range)
					if !ok {
						return
					}
					if _, isMap := rg.X.Type().Underlying().(*types.Map); !isMap {
						return
					}
					if nx.Block().Dominates(ap.Block()) {
						if _, back := reachesAvoiding(f, ap, func(z ssa.Instruction) bool { return z == ssa.Instruction(nx) }, nil); back {
							bad = "appended to while ranging over the map " + describeVal(rg.X)
						}
					}
				})
			}
			if bad != "" {
				r.Bad(rule, fnName(f), cons, c.InstrPos(st), "the ordered partition list of a dataset is "+bad+": Go randomises map iteration, so a node that restores this list routes ids to different partitions than the nodes that built it from the log")
			} else {
				r.OK(rule, fnName(f), cons, c.InstrPos(st), "partition list is built in index order")
			}
		}
	}
	if n == 0 {
		r.Unk(rule, "module", "Partitions-stores", "-", "no store to pb.Dataset.Partitions found")
	}
}

// ---- notification ids are fresh random uuids ---------------------------------------------------------------

func notificationIdsAreRandom(c *Ctx, r *Report, rule string) {
	f := c.Method("utils", "Notificator", "Create")
	if f == nil {
		r.Unk(rule, "utils.Notificator", "Create", "-", "method not found")
		return
	}
	ok := true
	why := "the id handed out by Create is a fresh random uuid (uuid.NewV4): it travels in the replicated log and is looked up on every replica and on replay, so it must be unique across nodes and process lifetimes"
	for _, rt := range returnsOf(f) {
		for _, res := range rt.Results {
			if typeName(res.Type()) != "UUID" {
				continue
			}
			for _, o := range origins(res, originOpt{}) {
				cl, isC := o.(*ssa.Call)
				if !isC || !(strings.HasSuffix(callID(&cl.Call).Pkg, "satori/go.uuid") && (callID(&cl.Call).Name == "NewV4" || callID(&cl.Call).Name == "NewV1")) {
					ok = false
					why = "the notification id is not a fresh random uuid (" + o.String() + "): ids repeat across nodes / restarts and an applied entry notifies somebody else's waiter"
				}
			}
		}
	}
	r.Check(ok, rule, fnName(f), "id-is-random-uuid", c.Pos(f.Pos()), why)
}

// ---- a channel taken from the notificator's map is only used while the map's mutex is held -------------------------

func notificatorChannelUnderLock(c *Ctx, r *Report, rule string) {
	fChans := c.Field("utils", "Notificator", "chans")
	fMu := c.Field("utils", "Notificator", "mu")
	if fChans == nil || fMu == nil {
		r.Unk(rule, "utils.Notificator", "fields", "-", "chans / mu not found")
		return
	}
	for _, f := range prodFuncs(c, "utils") {
		if recvTypeName(f) != "Notificator" {
			continue
		}
		li := analyzeLocks(f)
		n := 0
		eachInstr(f, func(i ssa.Instruction) {
			var ch ssa.Value
			kind := ""
			needW := false
			switch y := i.(type) {
			case *ssa.Send:
				ch, kind = y.Chan, "send"
			case *ssa.Select:
				for _, st := range y.States {
					if st.Dir == types.SendOnly {
						ch, kind = st.Chan, "send"
					}
				}
			case *ssa.Call:
				if callID(&y.Call).is("builtin", "", "close") {
					ch, kind, needW = y.Call.Args[0], "close", true
				}
			}
			if ch == nil {
				return
			}
			from := false
			for _, o := range origins(ch, originOpt{}) {
				if ex, ok := o.(*ssa.Extract); ok {
					if lk, ok := ex.Tuple.(*ssa.Lookup); ok && fieldOfValue(lk.X) == fChans {
						from = true
					}
				}
				if lk, ok := o.(*ssa.Lookup); ok && fieldOfValue(lk.X) == fChans {
					from = true
				}
			}
			if !from {
				return
			}
			n++
			held := byte(0)
			for p, m := range li.before[i].must {
				if mutexField(li.lockVal[p]) == fMu {
					held = m
				}
			}
			ok := held != 0 && (!needW || held == 'W')
			r.Check(ok, rule, fnName(f), fmt.Sprintf("%s#%d", kind, n), c.InstrPos(i), kind+" on a channel looked up in the notificator's map happens while its mutex is held (so Remove cannot close the channel between lookup and send: a send on a closed channel panics in the apply loop)")
		})
	}
}

// ---- distances handed to the queues cannot be negative ------------------------------------------------------

// possiblyNegative: does the float value have a top-level subtraction / negation not wrapped by Abs / Sqrt / a square?
func possiblyNegative(c *Ctx, f *ssa.Function, v ssa.Value, depth int) (bool, string) {
	if depth > 6 {
		return false, ""
	}
	v = strip(v)
	switch y := v.(type) {
	case *ssa.BinOp:
		switch y.Op {
		case token.SUB:
			return true, "subtraction at " + c.Pos(y.Pos())
		case token.ADD, token.MUL, token.QUO:
			if y.Op == token.MUL && y.X == y.Y {
				return false, ""
			}
			if b, w := possiblyNegative(c, f, y.X, depth+1); b {
				return b, w
			}
			return possiblyNegative(c, f, y.Y, depth+1)
		}
	case *ssa.UnOp:
		if y.Op == token.SUB {
			return true, "negation at " + c.Pos(y.Pos())
		}
	case *ssa.Phi:
		for _, e := range y.Edges {
			if e == ssa.Value(y) {
				continue
			}
			if b, w := possiblyNegative(c, f, e, depth+1); b {
				return b, w
			}
		}
	case *ssa.Call:
		id := callID(&y.Call)
		if id.Name == "Abs" || id.Name == "Sqrt" {
			return false, ""
		}
		var targets []*ssa.Function
		if t := y.Call.StaticCallee(); t != nil {
			targets = append(targets, t)
		} else {
			targets = c.calleesOf(f, y)
		}
		for _, t := range targets {
			if !modLocal(t) {
				continue
			}
			for _, rt := range returnsOf(t) {
				if len(rt.Results) == 1 {
					if b, w := possiblyNegative(c, t, rt.Results[0], depth+1); b {
						return b, w + " in " + fnName(t)
					}
				}
			}
		}
	}
	return false, ""
}

func distancesNonNegative(c *Ctx, r *Report, rule string) {
	sp := c.Named("index/space", "Space")
	if sp == nil {
		r.Unk(rule, "index/space", "Space", "-", "interface not found")
		return
	}
	iface := sp.Underlying().(*types.Interface)
	n := 0
	for _, f := range prodFuncs(c, "index/space") {
		if f.Name() != "Distance" || f.Signature.Recv() == nil {
			continue
		}
		if !types.Implements(f.Signature.Recv().Type(), iface) {
			continue
		}
		n++
		for _, rt := range returnsOf(f) {
			neg, why := possiblyNegative(c, f, rt.Results[0], 0)
			if neg {
				r.Bad(rule, fnName(f), "non-negative-distance", c.Pos(rt.Pos()), "the distance can be slightly negative in floating point ("+why+", not wrapped in Abs): the priority queues panic on a negative priority, in the apply goroutine for inserts (every replica, on every replay) and in the search goroutine for queries")
			} else {
				r.OK(rule, fnName(f), "non-negative-distance", c.Pos(rt.Pos()), "result is an absolute value / square root / sum of such, or comes straight from a kernel")
			}
		}
	}
	if n < 3 {
		r.Unk(rule, "index/space", "Distance-implementations", "-", fmt.Sprintf("only %d Space implementations found", n))
	}
}

// ---- raw heap.Interface methods are only for container/heap ---------------------------------------------------

func rawHeapMethodsUnused(c *Ctx, r *Report, rule string) {
	bad := ""
	n := 0
	for _, f := range prodFuncs(c, "utils") {
		eachInstr(f, func(i ssa.Instruction) {
			cc := asCall(i)
			if cc == nil {
				return
			}
			n++
			if cc.IsInvoke() && (cc.Method.Name() == "Push" || cc.Method.Name() == "Pop") && typePkg(cc.Value.Type()) == "container/heap" {
				bad = c.InstrPos(i)
			}
			if t := cc.StaticCallee(); t != nil && (t.Name() == "Push" || t.Name() == "Pop") && t.Signature.Recv() != nil {
				if _, isSl := t.Signature.Recv().Type().Underlying().(*types.Pointer); isSl {
					if nm := namedOf(t.Signature.Recv().Type()); nm != nil {
						if _, ok := nm.Underlying().(*types.Slice); ok {
							bad = c.InstrPos(i)
						}
					}
				}
			}
		})
	}
	if bad != "" {
		r.Bad(rule, "utils", "raw-heap-method-call", bad, "the heap.Interface Push/Pop of a queue type is called directly (not through container/heap): it only appends / removes the last element, so the heap order is not restored")
	} else {
		r.OK(rule, "utils", "raw-heap-method-call", "-", fmt.Sprintf("%d call sites in package utils; none calls a queue type's raw Push/Pop", n))
	}
}

// ---- the join handshake fails on a broken reply stream ----------------------------------------------------------

func joinHandshakeFailsLoudly(c *Ctx, r *Report, rule string) {
	for _, f := range prodFuncs(c, "storage/raft") {
		if !hasStreamRecv(f) {
			continue
		}
		res := f.Signature.Results()
		if res.Len() != 1 || !isErrorType(res.At(0).Type()) {
			continue
		}
		n := 0
		for _, ifi := range allIfs(f) {
			b, ok := ifi.Cond.(*ssa.BinOp)
			if !ok || b.Op != token.NEQ || !isNilConst(b.Y) || !isErrorType(b.X.Type()) {
				continue
			}
			// only errors of the Recv call
			ex, ok := b.X.(*ssa.Extract)
			if !ok {
				continue
			}
			cl, ok := ex.Tuple.(*ssa.Call)
			if !ok || !(cl.Call.IsInvoke() && cl.Call.Method.Name() == "Recv") {
				continue
			}
			n++
			hit, found := reachesAvoidingFrom(f, firstInstr(succOn(ifi, true)), func(i ssa.Instruction) bool {
				rt, ok := i.(*ssa.Return)
				if !ok {
					return false
				}
				for _, rr := range returnsOf(f) {
					if rr.Return == rt && isNilConst(rr.Results[0]) {
						return true
					}
				}
				return false
			}, func(ssa.Instruction) bool { return false })
			if found {
				r.Bad(rule, fnName(f), "recv-error", c.Pos(ifi.Cond.Pos()), "a failure of the handshake's reply stream can end in a successful return ("+c.InstrPos(hit)+"): the joiner keeps a partial member list and never retries")
			} else {
				r.OK(rule, fnName(f), "recv-error", c.Pos(ifi.Cond.Pos()), "every non-EOF error of the reply stream fails the join attempt")
			}
		}
	}
}

// ---- the catalogue snapshot ships the live dataset descriptions ------------------------------------------------

func catalogueSnapshotShipsLiveMeta(c *Ctx, r *Report, rule string) {
	ro := discoverRoles(c)
	dsPb := c.Named("protobuf", "Dataset")
	if dsPb == nil {
		r.Unk(rule, "protobuf.Dataset", "type", "-", "not found")
		return
	}
	st := dsPb.Underlying().(*types.Struct)
	var need []string
	for i := 0; i < st.NumFields(); i++ {
		n := st.Field(i).Name()
		if strings.HasPrefix(n, "XXX_") || n == "Size" {
			continue
		}
		need = append(need, n)
	}
	for _, f := range ro.snapshotFns {
		if recvTypeName(f) != "DatasetManager" {
			continue
		}
		n := 0
		eachInstr(f, func(i ssa.Instruction) {
			stI, ok := i.(*ssa.Store)
			if !ok {
				return
			}
			if _, isIA := stI.Addr.(*ssa.IndexAddr); !isIA || namedOf(stI.Val.Type()) != dsPb {
				return
			}
			n++
			ok2 := true
			why := "each snapshot element is the dataset's live description (Meta())"
			for _, o := range origins(stI.Val, originOpt{}) {
				switch y := o.(type) {
				case *ssa.Call:
					if callID(&y.Call).Name != "Meta" {
						ok2, why = false, "element comes from "+callID(&y.Call).String()
					}
				case *ssa.Alloc:
					// a copy: every field must be stored
					set := map[string]bool{}
					for _, u := range *y.Referrers() {
						if fa, ok := u.(*ssa.FieldAddr); ok {
							if len(storesTo(f, fa)) > 0 {
								set[structField(fa.X.Type(), fa.Field).Name()] = true
							}
						}
					}
					var missing []string
					for _, nme := range need {
						if !set[nme] {
							missing = append(missing, nme)
						}
					}
					if len(missing) > 0 {
						ok2, why = false, "the snapshot copies the description field by field and omits "+strings.Join(missing, ", ")+": a node restoring the snapshot builds the dataset with the zero value"
					}
				default:
					ok2, why = false, "element has unknown provenance "+o.String()
				}
			}
			r.Check(ok2, rule, fnName(f), fmt.Sprintf("snapshot-element#%d", n), c.InstrPos(stI), why)
		})
		if n == 0 {
			r.Unk(rule, fnName(f), "snapshot-elements", c.Pos(f.Pos()), "cannot find where dataset descriptions are put into the snapshot")
		}
	}
}

// ---- stored items are never modified in place --------------------------------------------------------------

// publishedVertexWrites: element writes (map update / slice element store) whose container is the metadata or the vector
// of a stored vertex, anywhere in the module (through accessors and one level of parameters).
func publishedVertexWrites(c *Ctx, r *Report, rule string) {
	fMeta := c.Field("index", "hnswVertex", "metadata")
	fVec := c.Field("index", "hnswVertex", "vector")
	if fMeta == nil || fVec == nil {
		r.Unk(rule, "index.hnswVertex", "fields", "-", "metadata / vector not found")
		return
	}
	callers := map[*ssa.Function][]*ssa.Call{}
	var fns []*ssa.Function
	for _, f := range c.ModFuncs {
		if c.isProd(f) {
			fns = append(fns, f)
			eachInstr(f, func(i ssa.Instruction) {
				if cl, ok := i.(*ssa.Call); ok && cl.Call.StaticCallee() != nil {
					callers[cl.Call.StaticCallee()] = append(callers[cl.Call.StaticCallee()], cl)
				}
			})
		}
	}
	// alias fields: struct fields of other types that are assigned a stored vertex's metadata / vector as it is (the
	// search result item carries vertex.Metadata(), not a copy)
	alias := map[*types.Var]*types.Var{}
	for _, f := range fns {
		eachInstr(f, func(i ssa.Instruction) {
			st, ok := i.(*ssa.Store)
			if !ok {
				return
			}
			dst := fieldOfAddr(st.Addr)
			if dst == nil || dst == fMeta || dst == fVec {
				return
			}
			for _, o := range origins(st.Val, originOpt{}) {
				if fld := fieldOfValueDeep(o); fld == fMeta || fld == fVec {
					alias[dst] = fld
				}
				if cl, isC := o.(*ssa.Call); isC && cl.Call.StaticCallee() != nil && recvTypeName(cl.Call.StaticCallee()) == "hnswVertex" {
					for _, rt := range returnsOf(cl.Call.StaticCallee()) {
						for _, res := range rt.Results {
							if fld := fieldOfValueDeep(res); fld == fMeta || fld == fVec {
								alias[dst] = fld
							}
						}
					}
				}
			}
		})
	}
	var isStored func(v ssa.Value, depth int) *types.Var
	isStored = func(v ssa.Value, depth int) *types.Var {
		for _, o := range origins(v, originOpt{}) {
			if fld := fieldOfValueDeep(o); fld == fMeta || fld == fVec {
				return fld
			}
			if fld := fieldOfValueDeep(o); fld != nil && alias[fld] != nil {
				return alias[fld]
			}
			if p, ok := o.(*ssa.Parameter); ok && depth > 0 {
				f := p.Parent()
				for k, pp := range f.Params {
					if pp != p {
						continue
					}
					for _, cl := range callers[f] {
						if k < len(cl.Call.Args) {
							if fld := isStored(cl.Call.Args[k], depth-1); fld != nil {
								return fld
							}
						}
					}
				}
			}
		}
		return nil
	}
	n, bad := 0, 0
	for _, f := range fns {
		eachInstr(f, func(i ssa.Instruction) {
			var container ssa.Value
			switch y := i.(type) {
			case *ssa.MapUpdate:
				container = y.Map
			case *ssa.Store:
				if ia, ok := y.Addr.(*ssa.IndexAddr); ok {
					container = ia.X
				}
			case *ssa.Call:
				if callID(&y.Call).is("builtin", "", "delete") {
					container = y.Call.Args[0]
				}
			}
			if container == nil {
				return
			}
			n++
			if fld := isStored(container, 2); fld != nil {
				// a vector being filled by its own loader before the vertex exists is not a stored vertex's vector
				if _, isP := strip(container).(*ssa.Parameter); isP && f.Signature.Recv() != nil && isVectorType(f.Signature.Recv().Type()) {
					return
				}
				bad++
				r.Bad(rule, fnName(f), fmt.Sprintf("in-place-write-%s#%d", fld.Name(), bad), c.InstrPos(i), "writes into the "+fld.Name()+" of a stored vertex in place: searches read it without a lock, the byte counter was computed from the old contents (it under-counts and later wraps), and a failed operation has already changed the item")
			}
		})
	}
	if bad == 0 {
		r.OK(rule, "module", "no-in-place-write-to-stored-items", "-", fmt.Sprintf("%d element writes examined; none targets the vector or metadata of a stored vertex", n))
	}
}

// ---- a result is never used while its error is thrown away -------------------------------------------------------

func valueUsedErrorDiscarded(c *Ctx, r *Report, rule string, fns []*ssa.Function) {
	n, bad := 0, 0
	for _, f := range fns {
		eachInstr(f, func(i ssa.Instruction) {
			cl, ok := i.(*ssa.Call)
			if !ok {
				return
			}
			sig := cl.Call.Signature()
			k := sig.Results().Len()
			if k < 2 || !isErrorType(sig.Results().At(k-1).Type()) {
				return
			}
			n++
			errUsed, valUsed := false, false
			if cl.Referrers() != nil {
				for _, u := range *cl.Referrers() {
					ex, ok := u.(*ssa.Extract)
					if !ok || ex.Referrers() == nil {
						continue
					}
					used := false
					for _, uu := range *ex.Referrers() {
						if _, dbg := uu.(*ssa.DebugRef); !dbg {
							used = true
						}
					}
					if ex.Index == k-1 {
						errUsed = errUsed || used
					} else {
						valUsed = valUsed || used
					}
				}
			}
			if valUsed && !errUsed {
				bad++
				r.Bad(rule, fnName(f), fmt.Sprintf("error-discarded#%d", bad), c.Pos(cl.Pos()), "the result of "+callID(&cl.Call).Name+"() is used while its error is discarded: a failure is passed on as an (empty) success")
			}
		})
	}
	if bad == 0 {
		r.OK(rule, "scope", "no-value-without-error-check", "-", fmt.Sprintf("%d calls returning (value, error) examined; none uses the value while dropping the error", n))
	}
}

// ===== rules added after the second seeded round ========================================================

// restoreCallbackDelegates: every successful return of a registered restore callback is dominated by a call into the
// function that rebuilds the state (so an "empty payload" shortcut cannot skip the reset).
func restoreCallbackDelegates(c *Ctx, r *Report, rule string, owner string, readerRecv string) {
	ro := discoverRoles(c)
	for _, f := range ro.restoreFns {
		if recvTypeName(f) != owner {
			continue
		}
		isReader := func(g *ssa.Function) bool {
			if recvTypeName(g) != readerRecv {
				return false
			}
			for _, p := range g.Params {
				if isIOType(p.Type(), "Reader") {
					return true
				}
			}
			return false
		}
		var loads []ssa.Instruction
		eachInstr(f, func(i ssa.Instruction) {
			if cl, ok := i.(*ssa.Call); ok {
				g := cl.Call.StaticCallee()
				if g == nil || !modLocal(g) {
					return
				}
				if isReader(g) {
					loads = append(loads, i)
					return
				}
				// a helper that runs the reader on every successful path of its own
				for h := range c.reachableFrom([]*ssa.Function{g}, false, true) {
					if isReader(h) && recvTypeName(g) == owner {
						loads = append(loads, i)
						return
					}
				}
			}
		})
		k := 0
		for _, rt := range returnsOf(f) {
			last := rt.Results[len(rt.Results)-1]
			if !isNilConst(last) {
				// returning the reader's own error value is delegation
				continue
			}
			k++
			ok := false
			for _, l := range loads {
				if instrDominates(l, rt.Return) {
					ok = true
				}
			}
			r.Check(ok, rule, fnName(f), fmt.Sprintf("success-return#%d", k), c.Pos(rt.Pos()), "the restore callback reports success only after the state reader ran (an empty snapshot payload means an empty state, not `nothing to do`)")
		}
		if len(loads) == 0 {
			r.Bad(rule, fnName(f), "calls-reader", c.Pos(f.Pos()), "the restore callback never calls the state reader")
		} else if k == 0 {
			r.OK(rule, fnName(f), "calls-reader", c.Pos(f.Pos()), "the restore callback returns the reader's result")
		}
	}
}

// persistConsumesAllParts: in the persist function (receives HardState, Entries, Snapshot) the call consuming each of the
// three parameters dominates the flushing return: none of them is written only under a condition on another.
func persistConsumesAllParts(c *Ctx, r *Report, rule string) {
	for _, f := range prodFuncs(c, "storage/wal") {
		if f.Parent() != nil || f.Signature.Recv() == nil || len(f.Params) != 4 {
			continue
		}
		if typeName(f.Params[1].Type()) != "HardState" || typeName(f.Params[3].Type()) != "Snapshot" {
			continue
		}
		var flushRet *Ret
		for _, rt := range returnsOf(f) {
			if cl, ok := rt.Results[0].(*ssa.Call); ok && callID(&cl.Call).Name == "Flush" {
				flushRet = rt
			}
		}
		if flushRet == nil {
			r.Unk(rule, fnName(f), "flush-return", c.Pos(f.Pos()), "no return of batch.Flush() found")
			continue
		}
		for _, p := range f.Params[1:] {
			ok := false
			eachInstr(f, func(i ssa.Instruction) {
				cl, isC := i.(*ssa.Call)
				if !isC {
					return
				}
				writes := false
				if g := cl.Call.StaticCallee(); g != nil && modLocal(g) {
					// a writer: handed the part, transitively Sets into the batch
					for _, a := range cl.Call.Args {
						if a == ssa.Value(p) || paramRoot(a) == ssa.Value(p) {
							writes = setsBatch(c, g)
						}
					}
				} else if id := callID(&cl.Call); id.Name == "Set" && id.Recv == "WriteBatch" {
					// or the write itself, of bytes marshalled from the part
					for _, a := range cl.Call.Args {
						for _, o := range origins(a, originOpt{}) {
							if ex, isEx := o.(*ssa.Extract); isEx {
								if mc, isM := ex.Tuple.(*ssa.Call); isM && callID(&mc.Call).Name == "Marshal" && len(mc.Call.Args) > 0 && paramRoot(mc.Call.Args[0]) == ssa.Value(p) {
									writes = true
								}
							}
						}
					}
				}
				if writes && (instrDominates(i, flushRet.Return) || skippedOnlyWhenEmpty(f, cl, flushRet.Return, p)) {
					ok = true
				}
			})
			r.Check(ok, rule, fnName(f), "writes-"+p.Name(), c.Pos(f.Pos()), "the part `"+p.Name()+"` of a Ready is handed to its writer on every path to Flush (entries that arrive together with a snapshot are not dropped)")
		}
	}
}

// paramRoot: the parameter a value is (a copy of): the parameter itself, a load of the cell go/ssa spills it into, or that
// cell's address.
func paramRoot(v ssa.Value) ssa.Value {
	v = strip(v)
	if p, ok := v.(*ssa.Parameter); ok {
		return p
	}
	if l, ok := loadOf(v); ok {
		v = strip(l)
	}
	al, ok := v.(*ssa.Alloc)
	if !ok {
		return nil
	}
	var root ssa.Value
	n := 0
	for _, u := range *al.Referrers() {
		if st, isS := u.(*ssa.Store); isS && st.Addr == ssa.Value(al) {
			n++
			if p, isP := st.Val.(*ssa.Parameter); isP {
				root = p
			}
		}
	}
	if n == 1 {
		return root
	}
	return nil
}

// skippedOnlyWhenEmpty: every branch that lets control reach ret without executing call is a test of part itself
// (len(part) == 0, IsEmptySnap(part), IsEmptyHardState(part)), and call lies on the path to ret otherwise.
func skippedOnlyWhenEmpty(f *ssa.Function, call *ssa.Call, ret ssa.Instruction, part *ssa.Parameter) bool {
	if _, reach := reachesAvoiding(f, call, func(z ssa.Instruction) bool { return z == ret }, nil); !reach {
		return false
	}
	aboutPart := func(ifi *ssa.If) bool {
		for _, l := range condLeaves(ifi.Cond, 0) {
			switch y := l.(type) {
			case *ssa.Const:
				continue
			case *ssa.Parameter:
				if y != part {
					return false
				}
			case *ssa.Call:
				okArgs := len(y.Call.Args) > 0
				for _, a := range y.Call.Args {
					if paramRoot(a) != ssa.Value(part) {
						okArgs = false
					}
				}
				id := callID(&y.Call)
				if !okArgs || !(id.is("builtin", "", "len") || strings.HasPrefix(id.Name, "IsEmpty")) {
					return false
				}
			default:
				return false
			}
		}
		return true
	}
	// barrier: the skipping side of every test that is about the part; then ret must be unreachable from entry without call
	barrier := map[ssa.Instruction]bool{}
	for _, ifi := range allIfs(f) {
		if !aboutPart(ifi) {
			continue
		}
		for _, pol := range []bool{true, false} {
			if !guardedBy(call.Block(), ifi, pol) {
				if b := succOn(ifi, pol); len(b.Instrs) > 0 && guardedBy(call.Block(), ifi, !pol) {
					barrier[b.Instrs[0]] = true
				}
			}
		}
	}
	if len(barrier) == 0 {
		return false
	}
	_, escapes := reachesAvoiding(f, nil, func(z ssa.Instruction) bool { return z == ret && !barrier[z] }, func(z ssa.Instruction) bool { return z == ssa.Instruction(call) || barrier[z] })
	return !escapes
}

func setsBatch(c *Ctx, g *ssa.Function) bool {
	found := false
	for h := range c.reachableFrom([]*ssa.Function{g}, false, true) {
		eachInstr(h, func(i ssa.Instruction) {
			if cc := asCall(i); cc != nil {
				if id := callID(cc); id.Name == "Set" && id.Recv == "WriteBatch" {
					found = true
				}
			}
		})
	}
	return found
}

// logDeletionNotOnShutdown: the function that deletes a group's log is not reachable from the server's shutdown path.
func logDeletionNotOnShutdown(c *Ctx, r *Report, rule string) {
	stop := c.Method("", "Server", "Stop")
	if stop == nil {
		r.Unk(rule, "anndb.Server", "Stop", "-", "shutdown entry point not found")
		return
	}
	reach := c.reachableFrom([]*ssa.Function{stop}, true, true)
	bad := ""
	n := 0
	for f := range reach {
		n++
		eachInstr(f, func(i ssa.Instruction) {
			if cc := asCall(i); cc != nil && callID(cc).Name == "DeleteGroup" {
				bad = fnName(f) + " at " + c.InstrPos(i)
			}
		})
	}
	if bad != "" {
		r.Bad(rule, fnName(stop), "shutdown-keeps-the-log", c.Pos(stop.Pos()), "a graceful shutdown reaches DeleteGroup ("+bad+"): the raft log, hard state and snapshot of every partition are wiped and acknowledged writes are gone after the restart")
	} else {
		r.OK(rule, fnName(stop), "shutdown-keeps-the-log", c.Pos(stop.Pos()), fmt.Sprintf("%d functions reachable from shutdown; none deletes a group's log", n))
	}
}

// noGoroutinesInApply: an apply tree spawns no goroutine except the Ready loop of a group it starts.
func noGoroutinesInApply(c *Ctx, r *Report, rule string, owner string) {
	ro := discoverRoles(c)
	var roots []*ssa.Function
	for _, f := range ro.applyRoots {
		if owner == "" || recvTypeName(f) == owner {
			roots = append(roots, f)
		}
	}
	reach := c.reachableFrom(roots, true, true)
	bad, n := 0, 0
	for f := range reach {
		eachInstr(f, func(i ssa.Instruction) {
			g, ok := i.(*ssa.Go)
			if !ok {
				return
			}
			n++
			for _, l := range ro.readyLoops {
				if g.Call.StaticCallee() == l {
					return
				}
			}
			bad++
			r.Bad(rule, fnName(f), fmt.Sprintf("go-in-apply#%d", bad), c.Pos(g.Pos()), "the apply tree starts a goroutine: entries (or the items of one batch entry) are no longer applied in log order, so replicas and replays can disagree")
		})
	}
	if bad == 0 {
		r.OK(rule, owner, "apply-is-sequential", "-", fmt.Sprintf("%d functions in the apply tree, %d `go` statements (only Ready loops of started groups)", len(reach), n))
	}
}

// hardStateAlwaysWritten: the hard-state writer returns without writing only for an empty hard state.
func hardStateAlwaysWritten(c *Ctx, r *Report, rule string) {
	w := newWal(c)
	n := 0
	for _, f := range w.funcs {
		if f.Parent() != nil {
			continue
		}
		// the write: batch.Set(key, bytes) whose bytes come from (HardState).Marshal
		var set *ssa.Call
		var hs ssa.Value
		eachInstr(f, func(i ssa.Instruction) {
			cl, ok := i.(*ssa.Call)
			if !ok {
				return
			}
			if id := callID(&cl.Call); id.Name != "Set" || id.Recv != "WriteBatch" {
				return
			}
			for _, a := range cl.Call.Args {
				for _, o := range origins(a, originOpt{}) {
					ex, isEx := o.(*ssa.Extract)
					if !isEx {
						continue
					}
					mc, isC := ex.Tuple.(*ssa.Call)
					if !isC || callID(&mc.Call).Name != "Marshal" || len(mc.Call.Args) == 0 || typeName(mc.Call.Args[0].Type()) != "HardState" {
						continue
					}
					set = cl
					hs = paramRoot(mc.Call.Args[0])
				}
			}
		})
		if set == nil {
			continue
		}
		n++
		// paths from entry to a success return that avoid the write must take the `is empty` side of a test of the hard state
		barrier := map[ssa.Instruction]bool{}
		for _, ifi := range allIfs(f) {
			cl, isC := ifi.Cond.(*ssa.Call)
			if !isC || callID(&cl.Call).Name != "IsEmptyHardState" {
				continue
			}
			okArg := false
			for _, a := range cl.Call.Args {
				if hs != nil && paramRoot(a) == hs {
					okArg = true
				}
			}
			if b := succOn(ifi, true); okArg && len(b.Instrs) > 0 {
				barrier[b.Instrs[0]] = true
			}
		}
		isSuccess := func(z ssa.Instruction) bool {
			rt, isR := z.(*ssa.Return)
			if !isR || len(rt.Results) == 0 {
				return false
			}
			last := rt.Results[len(rt.Results)-1]
			if isNilConst(last) {
				return true
			}
			if cl, isC := last.(*ssa.Call); isC && callID(&cl.Call).Name == "Flush" {
				return true
			}
			return false
		}
		at, escapes := reachesAvoiding(f, nil, func(z ssa.Instruction) bool { return !barrier[z] && isSuccess(z) }, func(z ssa.Instruction) bool { return z == ssa.Instruction(set) || barrier[z] })
		if escapes {
			r.Bad(rule, fnName(f), "hard-state-written-unless-empty", c.InstrPos(at), "a successful return is reachable without writing a non-empty hard state (a commit-only update must reach the disk: after compaction a stale commit index below the snapshot makes raft panic on restart)")
		} else {
			r.OK(rule, fnName(f), "hard-state-written-unless-empty", c.Pos(set.Pos()), fmt.Sprintf("every path to a successful return writes the hard state or is on the empty side of IsEmptyHardState (%d such test(s))", len(barrier)))
		}
	}
	if n == 0 {
		r.Unk(rule, "storage/wal", "hard-state-writer", "-", "no batch write of a marshalled HardState found")
	}
}

// walCacheLookupOrder: the snapshot cache answers FirstIndex before the memoized first index, unless every site that
// stores the snapshot cache also refreshes the memoized first index.
// cacheOp: one access of the WAL's sync.Map cache under a package-level key, directly or through a one-level helper that
// takes the key as a parameter.
type cacheOp struct {
	key   *ssa.Global
	ins   ssa.Instruction
	value ssa.Value // stored value (Store only)
}

func walCacheOps(w *walInfo, f *ssa.Function, op string) []cacheOp {
	var out []cacheOp
	globalArg := func(v ssa.Value) *ssa.Global {
		if mi, ok := v.(*ssa.MakeInterface); ok {
			v = mi.X
		}
		return globalOf(v)
	}
	eachInstr(f, func(i ssa.Instruction) {
		cc := asCall(i)
		if cc == nil {
			return
		}
		id := callID(cc)
		if id.Recv == "Map" && id.Pkg == "sync" && id.Name == op {
			for k, a := range cc.Args {
				if g := globalArg(a); g != nil {
					o := cacheOp{key: g, ins: i}
					if op == "Store" && k+1 < len(cc.Args) {
						o.value = cc.Args[k+1]
					}
					out = append(out, o)
					return
				}
			}
			return
		}
		// helper(key, …): the helper performs op on the cache with its parameter as key
		h := cc.StaticCallee()
		if h == nil || !modLocal(h) || len(h.Blocks) == 0 {
			return
		}
		// helper(): a small accessor that performs op under a key it names itself (cachedSnapshot())
		if h != f && recvTypeName(h) == recvTypeName(f) {
			eachInstr(h, func(j ssa.Instruction) {
				c2 := asCall(j)
				if c2 == nil {
					return
				}
				id2 := callID(c2)
				if !(id2.Recv == "Map" && id2.Pkg == "sync" && id2.Name == op) {
					return
				}
				for _, b := range c2.Args {
					if g := globalArg(b); g != nil {
						out = append(out, cacheOp{key: g, ins: i})
					}
				}
			})
		}
		for ai, a := range cc.Args {
			g := globalArg(a)
			if g == nil || ai >= len(h.Params) {
				continue
			}
			does := false
			var val ssa.Value
			eachInstr(h, func(j ssa.Instruction) {
				c2 := asCall(j)
				if c2 == nil {
					return
				}
				id2 := callID(c2)
				if !(id2.Recv == "Map" && id2.Pkg == "sync" && id2.Name == op) {
					return
				}
				for k, b := range c2.Args {
					if mi, ok := b.(*ssa.MakeInterface); ok {
						b = mi.X
					}
					if b == ssa.Value(h.Params[ai]) {
						does = true
						if op == "Store" && k+1 < len(c2.Args) {
							// map the stored value back to the caller's argument when it is a parameter
							sv := c2.Args[k+1]
							if mi, ok := sv.(*ssa.MakeInterface); ok {
								sv = mi.X
							}
							for pi, p := range h.Params {
								if sv == ssa.Value(p) && pi < len(cc.Args) {
									val = cc.Args[pi]
								}
							}
						}
					}
				}
			})
			if does {
				out = append(out, cacheOp{key: g, ins: i, value: val})
			}
		}
	})
	return out
}

func walCacheOrdering(c *Ctx, r *Report, rule string) {
	w := newWal(c)
	fi := c.Method("storage/wal", "badgerWAL", "FirstIndex")
	li := c.Method("storage/wal", "badgerWAL", "LastIndex")
	if fi == nil || li == nil {
		r.Unk(rule, "storage/wal.badgerWAL", "FirstIndex/LastIndex", "-", "method not found")
		return
	}
	// cache keys by role, not by name: the snapshot key is the one a raftpb.Snapshot is stored under; the memo keys are
	// the ones FirstIndex / LastIndex read
	snapKeys, firstKeys, lastKeys := map[*ssa.Global]bool{}, map[*ssa.Global]bool{}, map[*ssa.Global]bool{}
	for _, f := range w.funcs {
		for _, o := range walCacheOps(w, f, "Store") {
			v := o.value
			if mi, isMI := v.(*ssa.MakeInterface); isMI {
				v = mi.X
			}
			if v != nil && typeName(v.Type()) == "Snapshot" {
				snapKeys[o.key] = true
			}
		}
	}
	for _, o := range walCacheOps(w, fi, "Load") {
		if !snapKeys[o.key] {
			firstKeys[o.key] = true
		}
	}
	for _, o := range walCacheOps(w, li, "Load") {
		if !snapKeys[o.key] {
			lastKeys[o.key] = true
		}
	}
	if len(snapKeys) == 0 || len(firstKeys) == 0 || len(lastKeys) == 0 {
		r.Unk(rule, fnName(fi), "cache-keys", c.Pos(fi.Pos()), fmt.Sprintf("cache keys not identified by role (snapshot %d, first-index memo %d, last-index memo %d)", len(snapKeys), len(firstKeys), len(lastKeys)))
		return
	}
	// (B) every snapshot-cache store is accompanied by a first-index refresh
	allRefresh := true
	for _, f := range w.funcs {
		var snapStore ssa.Instruction
		refreshed := false
		for _, o := range walCacheOps(w, f, "Store") {
			if snapKeys[o.key] {
				snapStore = o.ins
			}
			if firstKeys[o.key] {
				refreshed = true
			}
		}
		for _, o := range walCacheOps(w, f, "Delete") {
			if firstKeys[o.key] {
				refreshed = true
			}
		}
		if snapStore != nil && !refreshed {
			allRefresh = false
		}
	}
	{
		var snapLoad, firstLoad ssa.Instruction
		for _, o := range walCacheOps(w, fi, "Load") {
			if snapKeys[o.key] && snapLoad == nil {
				snapLoad = o.ins
			}
			if firstKeys[o.key] && firstLoad == nil {
				firstLoad = o.ins
			}
		}
		okOrder := snapLoad != nil && (firstLoad == nil || instrDominates(snapLoad, firstLoad))
		r.Check(okOrder || allRefresh, rule, fnName(fi), "snapshot-cache-first", c.Pos(fi.Pos()), "FirstIndex consults the cached snapshot before the memoized first index (installing a snapshot does not refresh the memo: a stale memo would answer 1 where the reference says snapshot index + 1)")
	}
	// the old last index that decides truncation is read before the cache is overwritten
	for _, f := range w.funcs {
		if f == li {
			continue
		}
		var lastCall, store ssa.Instruction
		eachInstr(f, func(i ssa.Instruction) {
			if cl, ok := i.(*ssa.Call); ok && cl.Call.StaticCallee() == li {
				lastCall = i
			}
		})
		for _, o := range walCacheOps(w, f, "Store") {
			if lastKeys[o.key] && store == nil {
				store = o.ins
			}
		}
		if lastCall == nil || store == nil {
			continue
		}
		_, after := reachesAvoiding(f, store, func(z ssa.Instruction) bool { return z == lastCall }, nil)
		r.Check(!after, rule, fnName(f), "old-last-index-read-first", c.InstrPos(lastCall), "the previous last index is read before the cache is overwritten with the new one (otherwise the truncation of a longer conflicting tail never happens)")
	}
}

// visitedSetSeeded: the visited set guarding a traversal holds the seeds before the traversal starts.
func visitedSetSeeded(c *Ctx, r *Report, rule string) {
	x := newIdx(c)
	if len(x.missing) > 0 {
		return
	}
	for _, l := range x.edgeLoops() {
		if l.key == nil {
			continue
		}
		_, again := reachesAvoiding(l.fn, l.rng, func(i ssa.Instruction) bool { return i == ssa.Instruction(l.rng) }, nil)
		if !again {
			continue
		}
		// the set used by the guard on this loop's key
		var set ssa.Value
		for _, ifi := range allIfs(l.fn) {
			if ex, ok := ifi.Cond.(*ssa.Extract); ok && ex.Index == 1 {
				if lk, ok := ex.Tuple.(*ssa.Lookup); ok && lk.CommaOk && strip(lk.Index) == ssa.Value(l.key) {
					set = lk.X
				}
			}
		}
		if set == nil {
			continue
		}
		seeded := false
		eachInstr(l.fn, func(i ssa.Instruction) {
			mu, ok := i.(*ssa.MapUpdate)
			if !ok || mu.Map != set || strip(mu.Key) == ssa.Value(l.key) {
				return
			}
			_, fwd := reachesAvoiding(l.fn, i, func(z ssa.Instruction) bool { return z == ssa.Instruction(l.rng) }, nil)
			_, back := reachesAvoiding(l.fn, l.rng, func(z ssa.Instruction) bool { return z == i }, nil)
			if fwd && !back {
				seeded = true
			}
		})
		r.Check(seeded, rule, fnName(l.fn), fmt.Sprintf("visited-set-seeded#%d", l.order), c.Pos(l.rng.Pos()), "the starting vertices are put into the visited set before the traversal begins (otherwise a not yet expanded candidate is pushed again as somebody's neighbour: duplicates in the beam)")
	}
}

// routingTableNotMutated: the partition table is never handed to something that reorders or overwrites it.
func routingTableNotMutated(c *Ctx, r *Report, rule string) {
	fParts := c.Field("storage", "Dataset", "partitions")
	if fParts == nil {
		return
	}
	bad := ""
	n := 0
	for _, f := range prodFuncs(c, "storage") {
		eachInstr(f, func(i ssa.Instruction) {
			switch y := i.(type) {
			case *ssa.Call:
				id := callID(&y.Call)
				mutating := id.Pkg == "sort" || (id.Pkg == "math/rand" && id.Name == "Shuffle") || (id.Pkg == "builtin" && id.Name == "copy")
				if id.Pkg == "builtin" && id.Name == "append" && len(y.Call.Args) > 0 {
					// appending onto a sub-slice of the table (`this.partitions[:0]`) writes into the table's array
					for _, o := range origins(y.Call.Args[0], originOpt{}) {
						if fieldOfValue(o) == fParts {
							if _, isSub := strip(y.Call.Args[0]).(*ssa.Slice); isSub || true {
								// (append onto the table itself is the constructor's idiom: only a re-sliced view with spare capacity
								// overwrites existing elements)
								if sl, ok := strip(y.Call.Args[0]).(*ssa.Slice); ok && sl.High != nil {
									bad = fnName(f) + " appends onto a shortened view of the partition table at " + c.InstrPos(i)
								} else if ph, ok := strip(y.Call.Args[0]).(*ssa.Phi); ok {
									for _, e := range ph.Edges {
										if sl, ok := strip(e).(*ssa.Slice); ok && sl.High != nil && fieldOfValue(sl.X) == fParts {
											bad = fnName(f) + " appends onto a shortened view of the partition table at " + c.InstrPos(i)
										}
									}
								}
							}
						}
					}
				}
				if !mutating {
					return
				}
				for k, a := range y.Call.Args {
					if id.Pkg == "builtin" && k != 0 {
						continue
					}
					for _, o := range origins(a, originOpt{}) {
						if fieldOfValue(o) == fParts {
							bad = fnName(f) + " passes the partition table to " + id.String() + " at " + c.InstrPos(i)
						}
					}
				}
				n++
			case *ssa.Store:
				ia, ok := y.Addr.(*ssa.IndexAddr)
				if !ok {
					return
				}
				for _, o := range origins(ia.X, originOpt{}) {
					if fieldOfValue(o) == fParts {
						if fa, isF := strip(o).(*ssa.UnOp); isF {
							if f2, isFA := fa.X.(*ssa.FieldAddr); isFA {
								if al, isA := strip(f2.X).(*ssa.Alloc); isA && al.Heap {
									return // constructor filling its own table
								}
							}
						}
						bad = fnName(f) + " overwrites an element of the partition table at " + c.InstrPos(i)
					}
				}
			}
		})
	}
	if bad != "" {
		r.Bad(rule, "storage.Dataset", "partition-table-immutable", "-", bad+": the index into this table *is* the routing result, so after the first such call the node routes ids differently from every other node and from itself before")
	} else {
		r.OK(rule, "storage.Dataset", "partition-table-immutable", "-", "the partition table is filled by the constructor only and never sorted, shuffled or copied into")
	}
}

// batchItemsProcessedOneByOne: in an apply function that looks an item up and re-inserts it, lookup and re-insert of one
// item belong to the same loop (state resolved for all items up front is stale when an id occurs twice).
func batchItemsProcessedOneByOne(c *Ctx, r *Report, rule string) {
	for _, f := range prodFuncs(c, "storage") {
		if recvTypeName(f) != "partition" {
			continue
		}
		var gets, inserts []*ssa.Call
		eachInstr(f, func(i ssa.Instruction) {
			if cl, ok := i.(*ssa.Call); ok && cl.Call.StaticCallee() != nil && recvTypeName(cl.Call.StaticCallee()) == "Hnsw" {
				switch cl.Call.StaticCallee().Name() {
				case "GetVertex":
					gets = append(gets, cl)
				case "Insert":
					inserts = append(inserts, cl)
				}
			}
		})
		if len(gets) == 0 || len(inserts) == 0 {
			continue
		}
		for _, g := range gets {
			_, loops := reachesAvoiding(f, g, func(z ssa.Instruction) bool { return z == ssa.Instruction(g) }, nil)
			if !loops {
				continue // single-item update
			}
			ok := false
			for _, in := range inserts {
				// same loop: the insert is reachable from the lookup without the lookup being executed again, and vice versa the
				// lookup is reachable from the insert (next iteration)
				_, fwd := reachesAvoiding(f, g, func(z ssa.Instruction) bool { return z == ssa.Instruction(in) }, func(z ssa.Instruction) bool { return z == ssa.Instruction(g) })
				_, back := reachesAvoiding(f, in, func(z ssa.Instruction) bool { return z == ssa.Instruction(g) }, nil)
				if fwd && back {
					ok = true
				}
			}
			r.Check(ok, rule, fnName(f), "lookup-and-reinsert-in-one-iteration", c.Pos(g.Pos()), "each item of a batch update is looked up, removed and re-inserted before the next item is touched (an id occurring twice sees the first occurrence's result)")
		}
	}
}

// proposerOwnsStructuredFields: the creation proposer overwrites, on every path to the marshalled proposal, the
// variable-length fields of the client's message that the apply side indexes and parses (ids, partition table).
func proposerOwnsStructuredFields(c *Ctx, r *Report, rule string) {
	n := 0
	for _, f := range prodFuncs(c, "storage") {
		if f.Parent() != nil {
			continue
		}
		var ds *ssa.Parameter
		for _, p := range f.Params {
			if typeName(p.Type()) == "Dataset" && strings.HasSuffix(typePkg(p.Type()), "anndb/protobuf") {
				ds = p
			}
		}
		if ds == nil {
			continue
		}
		var marshal ssa.Instruction
		proposes := false
		eachInstr(f, func(i ssa.Instruction) {
			cc := asCall(i)
			if cc == nil {
				return
			}
			id := callID(cc)
			if id.Name == "Propose" {
				proposes = true
			}
			if id.Name == "Marshal" && marshal == nil {
				for _, a := range cc.Args {
					for _, o := range origins(a, originOpt{}) {
						if o == ssa.Value(ds) {
							marshal = i
						}
					}
				}
			}
		})
		if !proposes || marshal == nil {
			continue
		}
		st := ds.Type().Underlying().(*types.Pointer).Elem().Underlying().(*types.Struct)
		for k := 0; k < st.NumFields(); k++ {
			fld := st.Field(k)
			if strings.HasPrefix(fld.Name(), "XXX_") {
				continue
			}
			if _, isSlice := fld.Type().Underlying().(*types.Slice); !isSlice {
				continue
			}
			n++
			ok := false
			eachInstr(f, func(i ssa.Instruction) {
				switch y := i.(type) {
				case *ssa.Store:
					fa, isF := y.Addr.(*ssa.FieldAddr)
					if isF && fa.X == ssa.Value(ds) && fa.Field == k && instrDominates(i, marshal) {
						ok = true
					}
				case *ssa.Call:
					// a helper that is handed the message and stores the field before each of its returns
					g := y.Call.StaticCallee()
					if g == nil || !modLocal(g) || len(g.Blocks) == 0 || !instrDominates(i, marshal) {
						return
					}
					for ai, a := range y.Call.Args {
						if a != ssa.Value(ds) || ai >= len(g.Params) {
							continue
						}
						var st ssa.Instruction
						eachInstr(g, func(j ssa.Instruction) {
							if s2, isS := j.(*ssa.Store); isS {
								if fa, isF := s2.Addr.(*ssa.FieldAddr); isF && fa.X == ssa.Value(g.Params[ai]) && fa.Field == k {
									st = j
								}
							}
						})
						if st == nil {
							continue
						}
						all := true
						for _, rt := range returnsOf(g) {
							if !instrDominates(st, rt.Return) {
								all = false
							}
						}
						if all {
							ok = true
						}
					}
				}
			})
			r.Check(ok, rule, fnName(f), "overwrites-"+fld.Name(), c.Pos(marshal.Pos()), "the field "+fld.Name()+" of the client's message is replaced by server-generated content on every path to the proposal: the apply side indexes it by PartitionCount and parses its ids, so a client-supplied value that is too short or malformed makes every replica panic (or store a nil dataset) on apply and on every replay")
		}
	}
	if n == 0 {
		r.Unk(rule, "storage", "creation-proposer", "-", "no function that marshals and proposes a client-supplied *pb.Dataset was found")
	}
}

// restoreNotSkippedOnEmptyPayload: a call of a registered restore callback is never conditional on the length of the
// payload it would receive (an empty payload is the snapshot of an empty state and must be installed like any other).
func restoreNotSkippedOnEmptyPayload(c *Ctx, r *Report, rule string) {
	n := 0
	for _, f := range prodFuncs(c, "storage/raft", "storage") {
		eachInstr(f, func(i ssa.Instruction) {
			cl, ok := i.(*ssa.Call)
			if !ok || cl.Call.IsInvoke() || cl.Call.StaticCallee() != nil || len(cl.Call.Args) != 1 {
				return
			}
			fld := fieldOfValue(cl.Call.Value)
			if fld == nil || !strings.Contains(strings.ToLower(fld.Name()), "snapshot") || !strings.Contains(strings.ToLower(fld.Name()), "process") {
				return
			}
			n++
			payload := map[ssa.Value]bool{}
			for _, o := range origins(cl.Call.Args[0], originOpt{}) {
				payload[o] = true
			}
			payload[strip(cl.Call.Args[0])] = true
			bad := ""
			for _, ifi := range allIfs(f) {
				if !guardedBy(cl.Block(), ifi, true) && !guardedBy(cl.Block(), ifi, false) {
					continue
				}
				for _, o := range condLeaves(ifi.Cond, 0) {
					lc, isC := o.(*ssa.Call)
					if !isC || !callID(&lc.Call).is("builtin", "", "len") {
						continue
					}
					if payload[strip(lc.Call.Args[0])] {
						bad = c.InstrPos(ifi)
					}
					for _, o2 := range origins(lc.Call.Args[0], originOpt{}) {
						if payload[o2] {
							bad = c.InstrPos(ifi)
						}
					}
				}
			}
			r.Check(bad == "", rule, fnName(f), fmt.Sprintf("restore-call#%s", fld.Name()), c.Pos(cl.Pos()), "the restore callback is invoked whatever the length of the payload (test at "+bad+"): an empty payload is the snapshot of an empty catalogue — skipping it leaves deleted datasets listed and their partitions serving on a follower that catches up by snapshot")
		})
	}
	if n == 0 {
		r.Unk(rule, "storage/raft", "restore-call", "-", "no call through a registered restore-callback field found")
	}
}

// condLeaves: the non-operator values a condition is computed from.
func condLeaves(v ssa.Value, depth int) []ssa.Value {
	if depth > 6 {
		return []ssa.Value{v}
	}
	switch y := v.(type) {
	case *ssa.BinOp:
		return append(condLeaves(y.X, depth+1), condLeaves(y.Y, depth+1)...)
	case *ssa.UnOp:
		if y.Op == token.NOT {
			return condLeaves(y.X, depth+1)
		}
	case *ssa.Phi:
		var out []ssa.Value
		for _, e := range y.Edges {
			out = append(out, condLeaves(e, depth+1)...)
		}
		return out
	}
	return []ssa.Value{strip(v)}
}

// partitionMetaAliasesDatasetMeta: replica-set changes are written through partition.meta only; List and the catalogue
// snapshot read Dataset.meta. They agree only if the constructor hands each partition the element of the very message
// it stores in Dataset.meta.
func partitionMetaAliasesDatasetMeta(c *Ctx, r *Report, rule string) {
	fMeta := c.Field("storage", "Dataset", "meta")
	ctor := c.Func("storage", "newDataset")
	if fMeta == nil || ctor == nil {
		r.Unk(rule, "storage.newDataset", "meta-aliasing", "-", "constructor or field not found")
		return
	}
	var stored ssa.Value
	for _, st := range fieldStoresIn(ctor, fMeta) {
		stored = strip(st.Val)
	}
	if stored == nil {
		r.Bad(rule, fnName(ctor), "meta-aliasing", c.Pos(ctor.Pos()), "the constructor does not store Dataset.meta")
		return
	}
	n := 0
	eachInstr(ctor, func(i ssa.Instruction) {
		cl, ok := i.(*ssa.Call)
		if !ok || cl.Call.StaticCallee() == nil || fnPkgPath(cl.Call.StaticCallee()) != fnPkgPath(ctor) {
			return
		}
		for _, a := range cl.Call.Args {
			if typeName(a.Type()) != "Partition" {
				continue
			}
			n++
			ok := false
			for _, o := range origins(a, originOpt{}) {
				// o: load of &base.Partitions[i]
				l, isL := loadOf(strip(o))
				if !isL {
					continue
				}
				ia, isI := l.(*ssa.IndexAddr)
				if !isI {
					continue
				}
				sl, isL2 := loadOf(strip(ia.X))
				if !isL2 {
					continue
				}
				if fa, isF := sl.(*ssa.FieldAddr); isF && strip(fa.X) == stored {
					ok = true
				}
			}
			r.Check(ok, rule, fnName(ctor), fmt.Sprintf("meta-aliasing#%d", n), c.Pos(cl.Pos()), "the partition descriptor handed to "+cl.Call.StaticCallee().Name()+" is an element of the message stored in Dataset.meta (replica changes are written through partition.meta; List and the catalogue snapshot read Dataset.meta — with a copy they drift apart, and snapshot+tail no longer equals full replay)")
		}
	})
	if n == 0 {
		r.Unk(rule, fnName(ctor), "meta-aliasing", c.Pos(ctor.Pos()), "no partition constructor call found")
	}
}

// errorActedOn: the error value e (a call's own result, not a φ) is either forwarded by a return, or tested against nil
// such that on the non-nil side every path to the function's exit passes an instruction accepted by act.
func errorActedOn(f *ssa.Function, e ssa.Value, act func(i ssa.Instruction, e ssa.Value) bool) (bool, string) {
	for _, rt := range returnsOf(f) {
		if len(rt.Results) > 0 && strip(rt.Results[len(rt.Results)-1]) == e {
			return true, "forwarded by a return"
		}
	}
	tested := false
	for _, ifi := range allIfs(f) {
		b, ok := ifi.Cond.(*ssa.BinOp)
		if !ok || (b.Op != token.NEQ && b.Op != token.EQL) {
			continue
		}
		if !((strip(b.X) == e && isNilConst(b.Y)) || (strip(b.Y) == e && isNilConst(b.X))) {
			continue
		}
		tested = true
		nonNil := succOn(ifi, b.Op == token.NEQ)
		if len(nonNil.Instrs) == 0 {
			continue
		}
		_, escapes := reachesAvoidingFrom(f, nonNil.Instrs[0], func(i ssa.Instruction) bool {
			_, isRet := i.(*ssa.Return)
			return isRet && !act(i, e)
		}, func(i ssa.Instruction) bool { return act(i, e) })
		if !escapes {
			return true, "tested; the non-nil side always acts"
		}
	}
	if tested {
		return false, "on the non-nil side of its test a path reaches the end of the function without reporting it"
	}
	return false, "it is never tested by itself (only merged with other values, overwritten, or dropped)"
}

// callErrors: (call, error value) for every call in f whose callee satisfies pred and whose last result is an error.
func callErrors(f *ssa.Function, pred func(*ssa.CallCommon) bool) [][2]ssa.Value {
	var out [][2]ssa.Value
	eachInstr(f, func(i ssa.Instruction) {
		cl, ok := i.(*ssa.Call)
		if !ok || !pred(&cl.Call) {
			return
		}
		res := cl.Call.Signature().Results()
		if res.Len() == 0 || !isErrorType(res.At(res.Len()-1).Type()) {
			return
		}
		if res.Len() == 1 {
			out = append(out, [2]ssa.Value{cl, cl})
			return
		}
		var e ssa.Value
		for _, u := range *cl.Referrers() {
			if ex, ok := u.(*ssa.Extract); ok && ex.Index == res.Len()-1 {
				e = ex
			}
		}
		out = append(out, [2]ssa.Value{cl, e})
	})
	return out
}

// sizeErrorsPropagate: every production caller of a function on the size chain (anything that transitively asks a
// partition for its size and can fail) reports that call's own error.
func sizeErrorsPropagate(c *Ctx, r *Report, rule string) {
	root := c.Method("storage", "Dataset", "SizeInfo")
	if root == nil {
		r.Unk(rule, "storage.Dataset", "SizeInfo", "-", "method not found")
		return
	}
	chain := map[*ssa.Function]bool{root: true}
	all := prodFuncs(c, "storage", "services")
	for changed := true; changed; {
		changed = false
		for _, f := range all {
			if chain[f] || f.Parent() != nil {
				continue
			}
			res := f.Signature.Results()
			if res.Len() == 0 || !isErrorType(res.At(res.Len()-1).Type()) {
				continue
			}
			eachInstr(f, func(i ssa.Instruction) {
				if cc := asCall(i); cc != nil && cc.StaticCallee() != nil && chain[cc.StaticCallee()] && !chain[f] {
					chain[f] = true
					changed = true
				}
			})
		}
	}
	n := 0
	for _, f := range all {
		cnt := 0
		for _, ce := range callErrors(f, func(cc *ssa.CallCommon) bool { return cc.StaticCallee() != nil && chain[cc.StaticCallee()] }) {
			n++
			cnt++
			cl := ce[0].(*ssa.Call)
			cons := fmt.Sprintf("size-error#%d-%s", cnt, cl.Call.StaticCallee().Name())
			if ce[1] == nil {
				r.Bad(rule, fnName(f), cons, c.Pos(cl.Pos()), "the error of "+cl.Call.StaticCallee().Name()+" is discarded: a size that could not be obtained is reported as a number")
				continue
			}
			ok, why := errorActedOn(f, ce[1], func(i ssa.Instruction, e ssa.Value) bool {
				rt, isRet := i.(*ssa.Return)
				if !isRet || len(rt.Results) == 0 {
					return false
				}
				return !isNilConst(rt.Results[len(rt.Results)-1])
			})
			if ok {
				r.OK(rule, fnName(f), cons, c.Pos(cl.Pos()), "the error of "+cl.Call.StaticCallee().Name()+" is "+why)
			} else {
				r.Bad(rule, fnName(f), cons, c.Pos(cl.Pos()), "the error of "+cl.Call.StaticCallee().Name()+" does not fail the call: "+why+" — the caller gets success and a size smaller than the sum of the partitions")
			}
		}
	}
	if n == 0 {
		r.Unk(rule, "storage", "size-chain", "-", "no caller of the size chain found")
	}
}

// workerErrorsSent: in the remote size worker every fallible call's own error is sent to the collector.
func workerErrorsSent(c *Ctx, r *Report, rule string, worker *ssa.Function) {
	k := 0
	for _, ce := range callErrors(worker, func(cc *ssa.CallCommon) bool { return true }) {
		cl := ce[0].(*ssa.Call)
		k++
		cons := fmt.Sprintf("worker-error#%d-%s", k, callID(&cl.Call).Name)
		if ce[1] == nil {
			r.Bad(rule, fnName(worker), cons, c.Pos(cl.Pos()), "the error of "+callID(&cl.Call).Name+" is discarded")
			continue
		}
		ok, why := errorActedOn(worker, ce[1], func(i ssa.Instruction, e ssa.Value) bool {
			s, isS := i.(*ssa.Send)
			return isS && strip(s.X) == e
		})
		r.Check(ok, rule, fnName(worker), cons, c.Pos(cl.Pos()), "the error of "+callID(&cl.Call).Name+" reaches the collector ("+why+"): otherwise the worker ends silently, the collector counts fewer messages than partitions or a smaller sum, and the call succeeds")
	}
}

// snapshotCarriesMembership: a compaction snapshot is only written when the membership (ConfState) is known.
func snapshotCarriesMembership(c *Ctx, r *Report, rule string) {
	n := 0
	for _, f := range prodFuncs(c, "storage/wal") {
		if f.Parent() != nil {
			continue
		}
		var cs *ssa.Parameter
		for _, p := range f.Params {
			if typeName(p.Type()) == "ConfState" {
				cs = p
			}
		}
		if cs == nil || f.Signature.Results().Len() != 2 {
			continue
		}
		// the nil test of the parameter
		var test *ssa.If
		nonNilOnTrue := false
		for _, ifi := range allIfs(f) {
			if b, ok := ifi.Cond.(*ssa.BinOp); ok && (b.Op == token.EQL || b.Op == token.NEQ) && strip(b.X) == ssa.Value(cs) && isNilConst(b.Y) {
				// the test that guards the returns, not the one that guards the copy
				for _, rt := range returnsOf(f) {
					if guardedBy(rt.Block(), ifi, b.Op == token.NEQ) {
						test, nonNilOnTrue = ifi, b.Op == token.NEQ
					}
				}
			}
		}
		// … or in a validation helper that is handed the parameter, whose error verdict is tested here and which returns nil
		// only on the non-nil side of its own test of it
		if test == nil {
			eachInstr(f, func(i ssa.Instruction) {
				cl, ok := i.(*ssa.Call)
				if !ok || cl.Call.StaticCallee() == nil || !modLocal(cl.Call.StaticCallee()) || len(cl.Call.StaticCallee().Blocks) == 0 {
					return
				}
				h := cl.Call.StaticCallee()
				ai := -1
				for k, a := range cl.Call.Args {
					if a == ssa.Value(cs) {
						ai = k
					}
				}
				if ai < 0 || ai >= len(h.Params) {
					return
				}
				// the helper's error result, tested in f
				var errV ssa.Value = cl
				if h.Signature.Results().Len() > 1 {
					errV = nil
					for _, u := range *cl.Referrers() {
						if ex, isEx := u.(*ssa.Extract); isEx && isErrorType(ex.Type()) {
							errV = ex
						}
					}
				}
				if errV == nil {
					return
				}
				ifi, errPol := errTestOf(f, errV)
				if ifi == nil {
					return
				}
				// inside the helper: every nil-error return is on the non-nil side of a test of the parameter
				okH := false
				for _, hi := range allIfs(h) {
					b, isB := hi.Cond.(*ssa.BinOp)
					if !isB || (b.Op != token.EQL && b.Op != token.NEQ) || strip(b.X) != ssa.Value(h.Params[ai]) || !isNilConst(b.Y) {
						continue
					}
					all := true
					for _, rt := range returnsOf(h) {
						if isNilConst(rt.Results[len(rt.Results)-1]) && !guardedBy(rt.Block(), hi, b.Op == token.NEQ) {
							all = false
						}
					}
					if all {
						okH = true
					}
				}
				if okH {
					test, nonNilOnTrue = ifi, !errPol
				}
			})
		}
		k := 0
		for _, rt := range returnsOf(f) {
			last := rt.Results[len(rt.Results)-1]
			if c, isC := last.(*ssa.Const); isC && c.Value == nil {
				// plain nil
			} else if cl, isCall := last.(*ssa.Call); !isCall || callID(&cl.Call).Name != "Flush" {
				continue
			}
			k++
			n++
			ok := test != nil && guardedBy(rt.Block(), test, nonNilOnTrue)
			r.Check(ok, rule, fnName(f), fmt.Sprintf("snapshot-written#%d", k), c.Pos(rt.Pos()), "the snapshot is written and the log compacted only when the membership is known (ConfState parameter tested non-nil on this path): a snapshot with an empty ConfState restores a group with no peers — the member can never campaign or be reached again after the next restart")
		}
	}
	if n == 0 {
		r.Unk(rule, "storage/wal", "CreateSnapshot", "-", "no snapshot-creating function with a *ConfState parameter found")
	}
}

// guardedMapNotHandedOut: no method returns the mutex-guarded map itself (callers would read and write shared storage
// outside the lock, outside the log).
func guardedMapNotHandedOut(c *Ctx, r *Report, rule string, pkg, typ, field string) {
	fld := c.Field(pkg, typ, field)
	if fld == nil {
		r.Unk(rule, pkg+"."+typ, field, "-", "field not found")
		return
	}
	bad := ""
	n := 0
	for _, f := range prodFuncs(c, pkg) {
		if recvTypeName(f) != typ {
			continue
		}
		for _, rt := range returnsOf(f) {
			for _, v := range rt.Results {
				if _, isMap := v.Type().Underlying().(*types.Map); !isMap {
					continue
				}
				n++
				for _, o := range origins(v, originOpt{}) {
					if fieldOfValue(o) == fld {
						bad = fnName(f) + " at " + c.Pos(rt.Pos())
					}
				}
			}
		}
	}
	if bad != "" {
		r.Bad(rule, pkg+"."+typ, "map-"+field+"-not-handed-out", "-", bad+" returns the guarded map itself: callers (the join handler adds the joiner to the map it got) then write the member's address book outside the lock and outside the log — a node listed on one member only, gone after restart")
	} else {
		r.OK(rule, pkg+"."+typ, "map-"+field+"-not-handed-out", "-", fmt.Sprintf("%d map-typed return value(s); none is the field itself", n))
	}
}

// isHeadSweep: f (receiver, batch, bound uint64) compares something with its bound parameter in the way a sweep of the keys
// below an exclusive bound does (`index >= bound -> stop`, `index < bound -> collect`); the tail sweep (delete from an index
// onwards) only seeks to its parameter.
func isHeadSweep(f *ssa.Function) bool {
	if len(f.Params) != 3 {
		return false
	}
	bound := f.Params[2]
	for _, cf := range append([]*ssa.Function{f}, closuresOf(f)...) {
		for _, ifi := range allIfs(cf) {
			b, ok := ifi.Cond.(*ssa.BinOp)
			if !ok {
				continue
			}
			fromBound := func(v ssa.Value) bool {
				for _, o := range origins(v, originOpt{}) {
					if o == ssa.Value(bound) {
						return true
					}
					if l, ok := loadOf(o); ok {
						for _, st := range cellStores(l) {
							if st.Val == ssa.Value(bound) {
								return true
							}
						}
					}
				}
				return false
			}
			switch b.Op {
			case token.GEQ, token.LSS, token.LEQ, token.GTR:
				if fromBound(b.X) != fromBound(b.Y) {
					return true
				}
			}
		}
	}
	return false
}
