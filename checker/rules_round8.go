package main

// Rules written from the mutation sweep's survivors (DESIGN §16 "Mutation triage"): general obligations about how the hand-written
// code treats the error results of the calls it makes. They are run per package group and attached to the property whose
// statement the package implements.

import (
	"fmt"
	"go/token"
	"go/types"
	"sort"
	"strings"

	"golang.org/x/tools/go/ssa"
)

// errorDiscipline: for every call whose last result is an error and whose error is tested against nil in the calling function
// (closures included):
//
//	(a) err-dropped: on the side where the error is known non-nil, no path reaches a `return …, nil` of a function that returns an
//	    error without having looked at the error (returned it, passed it on, stored it, compared it with a sentinel) — a failure
//	    must not be turned into success silently;
//	(b) result-used-on-error: on that side, the other results of the failed call (pointers, interfaces, maps, slices) are not
//	    dereferenced — they are nil or meaningless there; an inverted test (`== nil` for `!= nil`) is caught by exactly this.
func errorDiscipline(c *Ctx, r *Report, rule string, pkgs ...string) {
	var fs []*ssa.Function
	for _, f := range prodFuncs(c, pkgs...) {
		fs = append(fs, f)
	}
	sort.Slice(fs, func(i, j int) bool { return fnName(fs[i]) < fnName(fs[j]) })
	n := 0
	for _, f := range fs {
		if len(f.Blocks) == 0 {
			continue
		}
		res := f.Signature.Results()
		returnsErr := res.Len() > 0 && isErrorType(res.At(res.Len()-1).Type())
		resolved := map[*ssa.Return][]ssa.Value{}
		for _, rt := range returnsOf(f) {
			resolved[rt.Return] = rt.Results
		}
		k := 0
		eachInstr(f, func(i ssa.Instruction) {
			cl, ok := i.(*ssa.Call)
			if !ok {
				return
			}
			sig := cl.Call.Signature()
			rs := sig.Results()
			if rs.Len() == 0 || !isErrorType(rs.At(rs.Len()-1).Type()) {
				return
			}
			var e ssa.Value
			var others []ssa.Value
			if rs.Len() == 1 {
				e = cl
			} else {
				for _, u := range *cl.Referrers() {
					if ex, isEx := u.(*ssa.Extract); isEx {
						if ex.Index == rs.Len()-1 {
							e = ex
						} else {
							switch ex.Type().Underlying().(type) {
							case *types.Pointer, *types.Interface, *types.Map, *types.Slice:
								others = append(others, ex)
							}
						}
					}
				}
			}
			if e == nil {
				return
			}
			usesE := func(z ssa.Instruction) bool {
				for _, op := range z.Operands(nil) {
					if op == nil || *op == nil {
						continue
					}
					if strip(*op) == e {
						return true
					}
				}
				return false
			}
			for _, ifi := range allIfs(f) {
				b, isB := ifi.Cond.(*ssa.BinOp)
				if !isB || (b.Op != token.NEQ && b.Op != token.EQL) {
					continue
				}
				if !((strip(b.X) == e && isNilConst(b.Y)) || (strip(b.Y) == e && isNilConst(b.X))) {
					continue
				}
				nonNil := succOn(ifi, b.Op == token.NEQ)
				other := succOn(ifi, b.Op != token.NEQ)
				if nonNil == other || len(nonNil.Instrs) == 0 {
					continue
				}
				n++
				k++
				callee := "a call"
				if g := cl.Call.StaticCallee(); g != nil {
					callee = g.Name()
				} else if cl.Call.IsInvoke() {
					callee = cl.Call.Method.Name()
				}
				// (a)
				if returnsErr {
					// a comparison with a sentinel is a look at the error only on its equal side: on the other side the error is still
					// some failure nobody has dealt with
					type sEdge struct {
						b  *ssa.BasicBlock
						sd int
					}
					eqEdge := map[sEdge]bool{}
					isCmpOfE := map[ssa.Instruction]bool{b: true, ifi: true}
					for _, j := range allIfs(f) {
						jb, isJB := j.Cond.(*ssa.BinOp)
						if !isJB || (jb.Op != token.NEQ && jb.Op != token.EQL) || len(j.Block().Succs) != 2 {
							continue
						}
						var oth ssa.Value
						if strip(jb.X) == e {
							oth = jb.Y
						} else if strip(jb.Y) == e {
							oth = jb.X
						} else {
							continue
						}
						isCmpOfE[jb] = true
						isCmpOfE[j] = true
						if !isNilConst(oth) {
							sd := 0
							if jb.Op == token.NEQ {
								sd = 1
							}
							eqEdge[sEdge{j.Block(), sd}] = true
						}
					}
					var at ssa.Instruction
					dropped := false
					seenB := map[*ssa.BasicBlock]bool{}
					var walk func(bb *ssa.BasicBlock)
					walk = func(bb *ssa.BasicBlock) {
						if dropped || seenB[bb] {
							return
						}
						seenB[bb] = true
						for _, z := range bb.Instrs {
							if rt, isR := z.(*ssa.Return); isR {
								rr := resolved[rt]
								if len(rr) > 0 && !definitelyAnError(rr[len(rr)-1]) && !usesE(z) && strip(rr[len(rr)-1]) != e {
									dropped, at = true, z
								}
								return
							}
							if instrNoReturn(z) || (!isCmpOfE[z] && usesE(z)) {
								return
							}
						}
						for sd, sb := range bb.Succs {
							if eqEdge[sEdge{bb, sd}] {
								continue
							}
							walk(sb)
						}
					}
					walk(nonNil)
					key := fmt.Sprintf("err-dropped#%d", k)
					if dropped {
						r.Bad(rule, fnName(f), key, c.InstrPos(cl), "the error of "+callee+" is known non-nil here and a path reaches the return at "+c.InstrPos(at)+" without having looked at it and without returning an error of its own: the failure is reported as whatever the rest of the function makes of it")
					} else {
						r.OK(rule, fnName(f), key, c.InstrPos(cl), "on the non-nil side of its test the error of "+callee+" is returned, passed on, recognised as a sentinel, or replaced by an error of the function's own before any return")
					}
				}
				// (b)
				single := len(nonNil.Preds) == 1
				for oi, ov := range others {
					key := fmt.Sprintf("result-used-on-error#%d.%d", k, oi+1)
					bad := ""
					if single && ov.Referrers() != nil {
						for _, u := range *ov.Referrers() {
							if u.Block() == nil || !nonNil.Dominates(u.Block()) {
								continue
							}
							deref := false
							switch x := u.(type) {
							case *ssa.FieldAddr:
								deref = x.X == ov
							case *ssa.Field:
								deref = x.X == ov
							case *ssa.IndexAddr:
								deref = x.X == ov
							case *ssa.UnOp:
								deref = x.Op == token.MUL && x.X == ov
							case *ssa.Call:
								if x.Call.IsInvoke() {
									deref = x.Call.Value == ov
								} else if g := x.Call.StaticCallee(); g != nil && g.Signature.Recv() != nil && len(x.Call.Args) > 0 {
									deref = x.Call.Args[0] == ov
								}
							}
							if deref {
								bad = c.InstrPos(u)
							}
						}
					}
					if bad != "" {
						r.Bad(rule, fnName(f), key, c.InstrPos(cl), "a result of "+callee+" is dereferenced at "+bad+" on the side where that call's error is known non-nil (the test of the error is the wrong way round, or the result is used before the test)")
					} else {
						r.OK(rule, fnName(f), key, c.InstrPos(cl), "the other results of "+callee+" are not dereferenced where its error is known non-nil")
					}
				}
			}
			if e.Referrers() == nil || len(*e.Referrers()) == 0 {
				return
			}
			callee := "a call"
			if g := cl.Call.StaticCallee(); g != nil {
				callee = g.Name()
			} else if cl.Call.IsInvoke() {
				callee = cl.Call.Method.Name()
			}
			// classify the tests of e
			type edge struct {
				b  *ssa.BasicBlock
				sd int
			}
			nilTested := false
			failEdge := map[edge]bool{}  // edges taken only when e is non-nil (nil test) or equal to a sentinel
			equalEdge := map[edge]bool{} // the equal side of a sentinel comparison
			var cmps = map[ssa.Instruction]bool{}
			for _, ifi := range allIfs(f) {
				b, isB := ifi.Cond.(*ssa.BinOp)
				if !isB || (b.Op != token.NEQ && b.Op != token.EQL) || len(ifi.Block().Succs) != 2 {
					continue
				}
				var otherOp ssa.Value
				if strip(b.X) == e {
					otherOp = b.Y
				} else if strip(b.Y) == e {
					otherOp = b.X
				} else {
					continue
				}
				cmps[b] = true
				cmps[ifi] = true
				eqSide := 0
				if b.Op == token.NEQ {
					eqSide = 1
				}
				if isNilConst(otherOp) {
					nilTested = true
					failEdge[edge{ifi.Block(), 1 - eqSide}] = true
				} else if definitelyAnError(otherOp) {
					failEdge[edge{ifi.Block(), eqSide}] = true
					equalEdge[edge{ifi.Block(), eqSide}] = true
				}
			}
			if len(cmps) == 0 && !nilTested {
				// not compared at all: forwarded, wrapped or stored — other rules' business
			}
			start := cl.Block()
			startIdx := indexIn(start, cl) + 1
			search := func(skip func(edge) bool, stop func(ssa.Instruction) bool, target func(ssa.Instruction) bool) ssa.Instruction {
				var found ssa.Instruction
				seen := map[*ssa.BasicBlock]bool{}
				var walk func(b *ssa.BasicBlock, from int)
				walk = func(b *ssa.BasicBlock, from int) {
					if found != nil {
						return
					}
					for _, z := range b.Instrs[from:] {
						if target(z) {
							found = z
							return
						}
						if stop(z) || instrNoReturn(z) {
							return
						}
					}
					for sd, sb := range b.Succs {
						if skip(edge{b, sd}) || seen[sb] {
							continue
						}
						seen[sb] = true
						walk(sb, 0)
					}
				}
				walk(start, startIdx)
				return found
			}
			isRet := func(z ssa.Instruction, pred func(ssa.Value) bool) bool {
				rt, ok := z.(*ssa.Return)
				if !ok {
					return false
				}
				if !returnsErr {
					return true
				}
				rr := resolved[rt]
				return len(rr) > 0 && pred(rr[len(rr)-1])
			}
			n++
			k++
			// (c) an error that is never tested against nil is forwarded: no way to a return that does not carry it, except through
			// the equal side of a sentinel comparison
			if returnsErr && !nilTested && len(cmps) > 0 {
				at := search(func(ed edge) bool { return equalEdge[ed] }, func(z ssa.Instruction) bool { return !cmps[z] && usesE(z) }, func(z ssa.Instruction) bool {
					return isRet(z, func(v ssa.Value) bool { return strip(v) != e && !definitelyAnError(v) })
				})
				key := fmt.Sprintf("err-forwarded#%d", k)
				if at != nil {
					r.Bad(rule, fnName(f), key, c.InstrPos(cl), "the error of "+callee+" is only compared with a sentinel; on the other side a path reaches the return at "+c.InstrPos(at)+" without carrying it: every other failure is reported as success")
				} else {
					r.OK(rule, fnName(f), key, c.InstrPos(cl), "the error of "+callee+" is compared with a sentinel and otherwise forwarded")
				}
			}
			// (d) when the callee succeeds the caller can: assuming the error is nil, a return that is not a fixed error is reachable
			if len(cmps) > 0 {
				at := search(func(ed edge) bool { return failEdge[ed] }, func(z ssa.Instruction) bool { return false }, func(z ssa.Instruction) bool {
					// (coming round to the same call again — a receive loop — is going on normally)
					return z == ssa.Instruction(cl) || isRet(z, func(v ssa.Value) bool { return !definitelyAnError(v) })
				})
				key := fmt.Sprintf("success-reachable#%d", k)
				if at == nil {
					r.Bad(rule, fnName(f), key, c.InstrPos(cl), "when "+callee+" succeeds (its error is nil) every path of this function ends in a fixed error or never returns: a test of the error is the wrong way round")
				} else {
					r.OK(rule, fnName(f), key, c.InstrPos(cl), "when "+callee+" succeeds a return that is not a fixed error is reachable")
				}
			}
		})
	}
	if n == 0 {
		r.Unk(rule, strings.Join(pkgs, ","), "error-tests", "-", "no tested call error found")
	}
}

// definitelyAnError: the value is an error by construction — a package-level error variable, or the result of an error
// constructor.
func definitelyAnError(v ssa.Value) bool {
	v = strip(v)
	if g := globalOf(v); g != nil {
		return true
	}
	if cl, ok := v.(*ssa.Call); ok {
		id := callID(&cl.Call)
		switch {
		case id.Pkg == "errors" && id.Name == "New", id.Pkg == "fmt" && id.Name == "Errorf":
			return true
		case strings.HasSuffix(id.Pkg, "grpc/status") && (id.Name == "Error" || id.Name == "Errorf"):
			return true
		}
	}
	return false
}

func round8(c *Ctx, r *Report, prop string) {
	switch prop {
	case "C06":
		r.Rule("C06.R19", "the log store never turns a failed read or write into an answer: an error known non-nil is looked at before any `return …, nil`, and the results of a failed call are not used", 20)
		errorDiscipline(c, r, "C06.R19", "storage/wal")
		r.Rule("C06.R20", "nil tests and empty-collection guards of the log store are the right way round; iterators are positioned before use and closed on every path; finding exactly the entry asked for is not an error", 8)
		nilContradictions(c, r, "C06.R20", "storage/wal")
		emptyGuards(c, r, "C06.R20", "storage/wal")
		iteratorTypestate(c, r, "C06.R20", "storage/wal")
		foundEntryChecks(c, r, "C06.R20")
	case "C02":
		r.Rule("C02.R10", "the store reports presence and absence differently: one side of every presence test returns nil, the other a sentinel error", 3)
		presenceTestsDistinguish(c, r, "C02.R10")
	case "C12":
		r.Rule("C12.R15", "no request can make the index spin: every way round a loop that runs while a queue is non-empty pops that queue", 3)
		frontierLoopsMakeProgress(c, r, "C12.R15", "index")
		r.Rule("C12.R16", "over-long metadata is refused before it is proposed: the validator refuses everything the snapshot writer refuses", 1)
		validatorAgreesWithWriter(c, r, "C12.R16")
	case "C19":
		r.Rule("C19.R8", "a queue's copy holds the items: a slice made with the length of another slice is filled before the function returns", 2)
		sizedCopiesAreFilled(c, r, "C19.R8", "utils")
		r.Rule("C19.R9", "Pop and Peek refuse only the empty queue", 1)
		panicsOnlyWhenEmpty(c, r, "C19.R9", "utils")
	case "C18":
		r.Rule("C18.R12", "every unlock releases a mutex the function holds, in the matching mode (the control plane does not die on `unlock of unlocked mutex`)", 1)
		unlocksAreOfHeldLocks(c, r, "C18.R12", "cluster", "storage", "storage/raft", "utils")
	case "C09":
		r.Rule("C09.R10", "the fan-out protocol: workers are registered with the WaitGroup before they start and sign off on every path; the goroutine that closes the result channel waits for the group first", 4)
		waitGroupProtocol(c, r, "C09.R10", "storage")
	case "C17":
		r.Rule("C17.R13", "the fan-out protocol of the size lookups (as C09.R10); the node-membership tests answer true on equality", 2)
		waitGroupProtocol(c, r, "C17.R13", "storage")
		membershipPredicates(c, r, "C17.R13", "storage")
	case "C07":
		r.Rule("C07.R13", "a new vertex that is higher than the entry point becomes the entry point (the upper layers stay in use)", 1)
		entryPointPromotion(c, r, "C07.R13")
	case "C13":
		r.Rule("C13.R11", "loops that edit links level by level reach the bottom layer, and a removal takes the vertex out of its neighbours' edge sets on every level (the structure a quiescent index must have)", 2)
		levelLoopsThatEditLinksReachZero(c, r, "C13.R11")
		r.Rule("C13.R12", "every call of the pruner is handed the degree bound of the level it names (the per-level degree bound is one of the structural invariants)", 2)
		prunerBudgetsPerLevel(c, r, "C13.R12")
		r.Rule("C13.R13", "every unlock of the index releases a mutex the function holds, in the matching mode", 1)
		unlocksAreOfHeldLocks(c, r, "C13.R13", "index")
	case "C08":
		r.Rule("C08.R12", "the index never turns a failed read or write of a snapshot into success: an error known non-nil is looked at before any return that does not carry an error, results of a failed call are not used, and when a callee succeeds the caller can", 10)
		errorDiscipline(c, r, "C08.R12", "index")
		r.Rule("C08.R14", "every metadata the API accepts can be saved: the validator refuses everything the snapshot writer refuses", 1)
		validatorAgreesWithWriter(c, r, "C08.R14")
		r.Rule("C08.R13", "nil tests and empty-collection guards of the index are the right way round", 1)
		nilContradictions(c, r, "C08.R13", "index")
	case "C11":
		r.Rule("C11.R12", "the API layer never turns a failure into success: an error known non-nil is looked at before any return that does not carry an error, results of a failed call are not used, and when a callee succeeds the caller can", 10)
		errorDiscipline(c, r, "C11.R12", "services", "cluster", "storage")
		r.Rule("C11.R16", "every worker of a batch fan-out gets its own partition and items: no goroutine closure captures a loop variable (borrowed from C17.R1; the module's language version shares loop variables between iterations)", 1)
		borrow(c, r, "C17", "C17.R1", "C11.R16", "go-closure")
		r.Rule("C11.R15", "every applied proposal delivers its outcome: an apply function notifies under the id it was handed on every path that returns nil", 6)
		applyFunctionsAlwaysNotify(c, r, "C11.R15")
		r.Rule("C11.R14", "a write path returns success only behind a raft proposal or a forwarded call", 6)
		successOnlyAfterTheEffect(c, r, "C11.R14")
		r.Rule("C11.R13", "nil tests of the API and storage layers are the right way round", 1)
		nilContradictions(c, r, "C11.R13", "services", "cluster", "storage")
	case "C03":
		r.Rule("C03.R17", "in the Ready loop the apply callbacks' errors are fatal, the normal-entry callback sees only normal entries with a payload, and raft's clock runs", 1)
		applyCallbacksInTheReadyLoop(c, r, "C03.R17")
		r.Rule("C03.R16", "nil tests and empty-collection guards of the raft glue are the right way round", 1)
		nilContradictions(c, r, "C03.R16", "storage/raft")
		emptyGuards(c, r, "C03.R16", "storage/raft", "storage")
		r.Rule("C03.R15", "the raft glue and the storage layer never turn a failure into success: an error known non-nil is looked at before any `return …, nil`, and the results of a failed call are not used", 20)
		errorDiscipline(c, r, "C03.R15", "storage/raft", "storage")
	}
}

// nilContradictions (Engler's "check-then-use"): a pointer that the function compares with nil is not dereferenced on the side
// where it is known to be nil — directly, through a method with a pointer receiver (protobuf-style nil-safe getters excepted),
// or in a closure created on that side that captures it. An inverted nil test is caught by exactly this.
func nilContradictions(c *Ctx, r *Report, rule string, pkgs ...string) {
	n := 0
	for _, f := range prodFuncs(c, pkgs...) {
		if len(f.Blocks) == 0 {
			continue
		}
		k := 0
		for _, ifi := range allIfs(f) {
			b, isB := ifi.Cond.(*ssa.BinOp)
			if !isB || (b.Op != token.NEQ && b.Op != token.EQL) || len(ifi.Block().Succs) != 2 {
				continue
			}
			var pv ssa.Value
			if isNilConst(b.Y) {
				pv = b.X
			} else if isNilConst(b.X) {
				pv = b.Y
			} else {
				continue
			}
			if _, isP := pv.Type().Underlying().(*types.Pointer); !isP {
				continue
			}
			canon := func(v ssa.Value) ssa.Value {
				v = through(v)
				if l, isL := loadOf(v); isL {
					if fv, isFV := l.(*ssa.FreeVar); isFV {
						return fv // the captured variable itself (its cell): every load of it is the same pointer
					}
				}
				return v
			}
			p := canon(pv)
			nilSide := succOn(ifi, b.Op == token.EQL)
			if nilSide == succOn(ifi, b.Op != token.EQL) {
				continue
			}
			n++
			k++
			if len(nilSide.Preds) != 1 {
				// the nil side is the fall-through shared with other paths: nothing is known there
				r.OKTrivial(rule, fnName(f), fmt.Sprintf("nil-side#%d", k), c.InstrPos(ifi), "the side where the pointer is nil joins other paths at once; nothing is dereferenced under that knowledge")
				continue
			}
			var sameExpr func(a, b ssa.Value, d int) bool
			sameExpr = func(a, b ssa.Value, d int) bool {
				if a == b {
					return true
				}
				if d > 3 {
					return false
				}
				// the same field of the same struct value, read twice (go/ssa does not share the two reads)
				fa, ok1 := a.(*ssa.Field)
				fb, ok2 := b.(*ssa.Field)
				if ok1 && ok2 && fa.Field == fb.Field {
					return sameExpr(fa.X, fb.X, d+1)
				}
				la, okA := loadOf(a)
				lb, okB := loadOf(b)
				if okA && okB {
					xa, isA := la.(*ssa.FieldAddr)
					xb, isB := lb.(*ssa.FieldAddr)
					if isA && isB && xa.Field == xb.Field {
						return sameExpr(xa.X, xb.X, d+1)
					}
				}
				return false
			}
			same := func(v ssa.Value) bool { return v != nil && sameExpr(canon(v), p, 0) }
			derefIn := func(g *ssa.Function, is func(ssa.Value) bool, within func(*ssa.BasicBlock) bool) string {
				where := ""
				eachInstr(g, func(z ssa.Instruction) {
					if !within(z.Block()) {
						return
					}
					switch x := z.(type) {
					case *ssa.FieldAddr:
						if is(x.X) {
							where = c.InstrPos(z)
						}
					case *ssa.UnOp:
						if x.Op == token.MUL && is(x.X) {
							if _, isPtr := x.X.Type().Underlying().(*types.Pointer); isPtr {
								if _, isAlloc := x.X.(*ssa.Alloc); !isAlloc {
									if _, isFV := x.X.(*ssa.FreeVar); !isFV {
										where = c.InstrPos(z)
									}
								}
							}
						}
					case *ssa.Call:
						if h := x.Call.StaticCallee(); h != nil && h.Signature.Recv() != nil && len(x.Call.Args) > 0 && is(x.Call.Args[0]) && !strings.HasPrefix(h.Name(), "Get") {
							if _, ptrRecv := h.Signature.Recv().Type().Underlying().(*types.Pointer); ptrRecv {
								where = c.InstrPos(z)
							}
						}
					}
				})
				return where
			}
			bad := derefIn(f, same, func(bb *ssa.BasicBlock) bool { return nilSide.Dominates(bb) })
			if bad == "" {
				// closures created on the nil side that capture the pointer (or the cell that holds it)
				eachInstr(f, func(z ssa.Instruction) {
					mc, isMC := z.(*ssa.MakeClosure)
					if !isMC || !nilSide.Dominates(z.Block()) {
						return
					}
					g, _ := mc.Fn.(*ssa.Function)
					if g == nil {
						return
					}
					for bi, bv := range mc.Bindings {
						if bi >= len(g.FreeVars) {
							continue
						}
						fv := g.FreeVars[bi]
						direct := same(bv)
						cell := bv == p // the cell of a captured variable handed on to an inner closure
						if cell {
							direct = false
						}
						if al, isAl := bv.(*ssa.Alloc); isAl {
							if st := storesTo(f, al); len(st) == 1 && through(st[0].Val) == p {
								cell = true
							}
						}
						if !direct && !cell {
							continue
						}
						w := derefIn(g, func(v ssa.Value) bool {
							if v == nil {
								return false
							}
							if direct && v == ssa.Value(fv) {
								return true
							}
							if cell {
								if l, isL := loadOf(v); isL && l == ssa.Value(fv) {
									return true
								}
							}
							return false
						}, func(*ssa.BasicBlock) bool { return true })
						if w != "" {
							bad = w + " (in a closure created there)"
						}
					}
				})
			}
			key := fmt.Sprintf("nil-side#%d", k)
			if bad != "" {
				r.Bad(rule, fnName(f), key, c.InstrPos(ifi), "a pointer is dereferenced at "+bad+" on the side of this test where it is known to be nil: the test is the wrong way round (or the use belongs on the other side)")
			} else {
				r.OK(rule, fnName(f), key, c.InstrPos(ifi), "the pointer is not dereferenced on the side where this test finds it nil")
			}
		}
	}
	if n == 0 {
		r.Unk(rule, strings.Join(pkgs, ","), "nil-tests", "-", "no pointer nil test found")
	}
}

// emptyGuards: a test of a collection's length against a constant that lets one side leave the function without ever touching
// the collection (an early `return` for the empty case) takes that side only when the collection is empty.
func emptyGuards(c *Ctx, r *Report, rule string, pkgs ...string) {
	n := 0
	for _, f := range prodFuncs(c, pkgs...) {
		if len(f.Blocks) == 0 {
			continue
		}
		k := 0
		for _, ifi := range allIfs(f) {
			cond := ifi.Cond
			neg := false
			if u, isU := cond.(*ssa.UnOp); isU && u.Op == token.NOT {
				cond, neg = u.X, true
			}
			b, isB := cond.(*ssa.BinOp)
			if !isB || !(isCmp(b.Op) || b.Op == token.EQL || b.Op == token.NEQ) || len(ifi.Block().Succs) != 2 {
				continue
			}
			lenOf := func(v ssa.Value) ssa.Value {
				if cl, ok := strip(v).(*ssa.Call); ok {
					if bi, isBi := cl.Call.Value.(*ssa.Builtin); isBi && bi.Name() == "len" && len(cl.Call.Args) == 1 {
						switch cl.Call.Args[0].Type().Underlying().(type) {
						case *types.Slice, *types.Map:
							return through(cl.Call.Args[0])
						}
					}
				}
				return nil
			}
			var s ssa.Value
			var kc int64
			op := b.Op
			if s = lenOf(b.X); s != nil {
				v, ok := constInt(b.Y)
				if !ok {
					continue
				}
				kc = v
			} else if s = lenOf(b.Y); s != nil {
				v, ok := constInt(b.X)
				if !ok {
					continue
				}
				kc, op = v, flipCmp(op)
			} else {
				continue
			}
			if neg {
				op = negOp(op)
			}
			if kc > 1 {
				continue
			}
			// instructions that touch the collection's elements
			touches := func(z ssa.Instruction) bool {
				switch x := z.(type) {
				case *ssa.IndexAddr:
					return through(x.X) == s
				case *ssa.Index:
					return through(x.X) == s
				case *ssa.Range:
					return through(x.X) == s
				case *ssa.Lookup:
					return through(x.X) == s
				case *ssa.Slice:
					return through(x.X) == s
				}
				return false
			}
			reach := func(bb *ssa.BasicBlock) bool {
				if len(bb.Instrs) == 0 {
					return false
				}
				if touches(bb.Instrs[0]) {
					return true
				}
				_, ok := reachesAvoidingFrom(f, bb.Instrs[0], touches, func(ssa.Instruction) bool { return false })
				return ok
			}
			t, e := reach(ifi.Block().Succs[0]), reach(ifi.Block().Succs[1])
			if t == e {
				continue // not an early exit for the empty case
			}
			exitSide := 0
			if t {
				exitSide = 1
			}
			holds := func(l int64) bool {
				switch op {
				case token.EQL:
					return l == kc
				case token.NEQ:
					return l != kc
				case token.LSS:
					return l < kc
				case token.LEQ:
					return l <= kc
				case token.GTR:
					return l > kc
				case token.GEQ:
					return l >= kc
				}
				return false
			}
			sideFor := func(l int64) int {
				if holds(l) {
					return 0
				}
				return 1
			}
			n++
			k++
			key := fmt.Sprintf("empty-guard#%d", k)
			// with two or more elements the exit side must not be taken; with none it must be
			if sideFor(2) == exitSide || sideFor(0) != exitSide {
				r.Bad(rule, fnName(f), key, c.InstrPos(ifi), "this test lets a non-empty collection leave the function without its elements ever being looked at (or sends the empty one on): the guard for the empty case is the wrong way round")
			} else {
				r.OK(rule, fnName(f), key, c.InstrPos(ifi), "only the empty collection takes the side that never looks at the elements")
			}
		}
	}
	if n == 0 {
		// (a guard for the empty case is an idiom, not an obligation: its absence is not a finding)
		r.OKTrivial(rule, strings.Join(pkgs, ","), "empty-guards", "-", "no early exit for an empty collection in these packages")
	}
}

// iteratorTypestate: a Badger iterator is positioned (Seek / Rewind) before it is asked Valid / Item / Next, and closed on every
// path out of the function that opened it (an iterator still open when its transaction is discarded panics inside Badger).
func iteratorTypestate(c *Ctx, r *Report, rule string, pkgs ...string) {
	n := 0
	onIt := func(z ssa.Instruction, it ssa.Value, names ...string) bool {
		var cc *ssa.CallCommon
		switch x := z.(type) {
		case *ssa.Call:
			cc = &x.Call
		case *ssa.Defer:
			cc = &x.Call
		}
		if cc == nil {
			return false
		}
		g := cc.StaticCallee()
		if g == nil || g.Signature.Recv() == nil || len(cc.Args) == 0 || through(cc.Args[0]) != it {
			return false
		}
		for _, nm := range names {
			if g.Name() == nm {
				return true
			}
		}
		return false
	}
	for _, f := range prodFuncs(c, pkgs...) {
		k := 0
		eachInstr(f, func(i ssa.Instruction) {
			cl, ok := i.(*ssa.Call)
			if !ok {
				return
			}
			id := callID(&cl.Call)
			isNew := id.Name == "NewIterator" && strings.Contains(id.Pkg, "badger")
			// a factory of the module that hands an iterator to its caller is a source too
			if g := cl.Call.StaticCallee(); g != nil && modLocal(g) && g.Signature.Results().Len() == 1 && typeName(derefType(g.Signature.Results().At(0).Type())) == "Iterator" {
				isNew = true
			}
			if !isNew {
				return
			}
			it := ssa.Value(cl)
			handedOn := false
			for _, rt := range returnsOf(f) {
				for _, rv := range rt.Results {
					if through(rv) == it {
						handedOn = true
					}
				}
			}
			if handedOn {
				return // the caller owns it: judged there
			}
			n++
			k++
			_, unclosed := reachesAvoiding(f, cl, func(z ssa.Instruction) bool { _, isR := z.(*ssa.Return); return isR }, func(z ssa.Instruction) bool { return onIt(z, it, "Close") || instrNoReturn(z) })
			r.Check(!unclosed, rule, fnName(f), fmt.Sprintf("iterator-closed#%d", k), c.InstrPos(cl), "the iterator is closed (or its Close deferred) on every path from NewIterator to a return: Badger panics when a transaction is discarded with an iterator still open")
			_, unpositioned := reachesAvoiding(f, cl, func(z ssa.Instruction) bool { return onIt(z, it, "Valid", "Item", "Next", "ValidForPrefix") }, func(z ssa.Instruction) bool { return onIt(z, it, "Seek", "Rewind") })
			r.Check(!unpositioned, rule, fnName(f), fmt.Sprintf("iterator-positioned#%d", k), c.InstrPos(cl), "the iterator is positioned (Seek / Rewind) before it is asked Valid / Item / Next: an unpositioned iterator is invalid and the scan reads as empty")
		})
	}
	if n == 0 {
		r.Unk(rule, strings.Join(pkgs, ","), "iterators", "-", "no Badger iterator found")
	}
}

// foundEntryChecks: where the log store compares the index it was asked for with the index of the entry it found, the side
// taken when the two are equal is not an error return.
func foundEntryChecks(c *Ctx, r *Report, rule string) {
	n := 0
	for _, f := range prodFuncs(c, "storage/wal") {
		resolved := map[*ssa.Return][]ssa.Value{}
		for _, rt := range returnsOf(f) {
			resolved[rt.Return] = rt.Results
		}
		k := 0
		for _, ifi := range allIfs(f) {
			b, isB := ifi.Cond.(*ssa.BinOp)
			if !isB || !(isCmp(b.Op) || b.Op == token.EQL || b.Op == token.NEQ) || len(ifi.Block().Succs) != 2 {
				continue
			}
			isEntryIndex := func(v ssa.Value) bool {
				l, ok := loadOf(strip(v))
				if !ok {
					return false
				}
				fa, isF := l.(*ssa.FieldAddr)
				if !isF {
					return false
				}
				fv := structField(fa.X.Type(), fa.Field)
				return fv != nil && fv.Name() == "Index" && typeName(derefType(fa.X.Type())) == "Entry"
			}
			isParam := func(v ssa.Value) bool {
				_, ok := through(v).(*ssa.Parameter)
				return ok
			}
			if !((isEntryIndex(b.X) && isParam(b.Y)) || (isEntryIndex(b.Y) && isParam(b.X))) {
				continue
			}
			n++
			k++
			eqTrue := b.Op == token.EQL || b.Op == token.LEQ || b.Op == token.GEQ
			eqSide := succOn(ifi, eqTrue)
			bad := false
			if len(eqSide.Preds) == 1 && len(eqSide.Instrs) > 0 {
				if rt, isR := eqSide.Instrs[len(eqSide.Instrs)-1].(*ssa.Return); isR {
					rr := resolved[rt]
					if len(rr) > 0 && definitelyAnError(rr[len(rr)-1]) {
						bad = true
					}
				}
			}
			r.Check(!bad, rule, fnName(f), fmt.Sprintf("found-entry#%d", k), c.InstrPos(ifi), "when the entry found has exactly the index asked for, the call does not fail (the error side of this comparison is taken only when the two differ)")
		}
	}
	if n == 0 {
		r.Unk(rule, "storage/wal", "found-entry", "-", "no comparison of a requested index with a found entry's index")
	}
}

// entryPointPromotion: the insert path raises the entry point when the new vertex is higher: among the writes of the entry
// point in the function that links a new vertex level by level there is one that stores the new vertex, guarded — as the only
// way in — by a comparison of the new vertex's level with the loaded entry point's level whose writing side is `new > old`
// (or `>=`). Without it the upper layers are never entered again and the search degrades to a walk on the bottom layer.
func entryPointPromotion(c *Ctx, r *Report, rule string) {
	x := newIdx(c)
	fLevel := c.Field("index", "hnswVertex", "level")
	if len(x.missing) > 0 || fLevel == nil {
		r.Unk(rule, "index", "anchors", "-", "index anchors missing")
		return
	}
	levelOf := func(v ssa.Value) ssa.Value {
		v = strip(v)
		if l, ok := loadOf(v); ok {
			if fa, isF := l.(*ssa.FieldAddr); isF && structField(fa.X.Type(), fa.Field) == fLevel {
				return through(fa.X)
			}
		}
		if cl, ok := v.(*ssa.Call); ok {
			// an accessor: a method of the vertex returning its level field
			if g := cl.Call.StaticCallee(); g != nil && len(cl.Call.Args) == 1 && returnsField(g, fLevel) {
				return through(cl.Call.Args[0])
			}
		}
		return nil
	}
	n := 0
	for _, f := range x.funcs {
		if f.Parent() != nil {
			continue
		}
		var writes []*ssa.Call
		linksPerLevel := false
		eachInstr(f, func(i ssa.Instruction) {
			if x.isEntryWrite(i) {
				if cl, ok := i.(*ssa.Call); ok {
					writes = append(writes, cl)
				}
			}
			if cl, ok := i.(*ssa.Call); ok && inCycle(f, cl) {
				if g := cl.Call.StaticCallee(); g != nil && writesEdgeSet(x, g, 0, false) {
					linksPerLevel = true
				}
			}
		})
		// the insert path: writes the entry point and adds links in a loop, and registers a new vertex (allocates one through a
		// constructor) — Remove also writes the entry point and edits links, but creates nothing
		creates := false
		eachInstr(f, func(i ssa.Instruction) {
			if cl, ok := i.(*ssa.Call); ok {
				if g := cl.Call.StaticCallee(); g != nil && modLocal(g) && g.Signature.Results().Len() == 1 && namedOf(derefType(g.Signature.Results().At(0).Type())) == x.vertex && g.Signature.Recv() == nil {
					creates = true
				}
			}
		})
		if len(writes) == 0 || !linksPerLevel || !creates {
			continue
		}
		n++
		found, why := false, "no write of the entry point is guarded by a comparison of the new vertex's level with the entry point's"
		// the promotion may live in a method the insert path calls (promoteEntrypoint(vertex)): its writes are judged in it
		type wsite struct {
			w *ssa.Call
			g *ssa.Function
		}
		var sites []wsite
		for _, w := range writes {
			sites = append(sites, wsite{w, f})
		}
		eachInstr(f, func(i ssa.Instruction) {
			if cl, ok := i.(*ssa.Call); ok {
				if g := cl.Call.StaticCallee(); g != nil && g != f && modLocal(g) && g.Pkg == f.Pkg && len(g.Blocks) > 0 {
					eachInstr(g, func(z ssa.Instruction) {
						if x.isEntryWrite(z) {
							if zc, isC := z.(*ssa.Call); isC {
								sites = append(sites, wsite{zc, g})
							}
						}
					})
				}
			}
		})
		for _, st := range sites {
			w, f := st.w, st.g
			a := w.Call.Args
			newV := through(a[len(a)-1])
			for _, ifi := range allIfs(f) {
				cm, ok := resolveCmp(ifi.Cond, 0)
				if !ok || cm.x.isLen || cm.y.isLen || len(ifi.Block().Succs) != 2 {
					continue
				}
				lx, ly := levelOf(cm.x.v), levelOf(cm.y.v)
				if lx == nil || ly == nil {
					continue
				}
				op := cm.op
				switch {
				case lx == newV && ly != newV:
				case ly == newV && lx != newV:
					op = flipCmp(op)
				default:
					continue
				}
				for sd := 0; sd < 2; sd++ {
					if !guardedBy(w.Block(), ifi, sd == 0) {
						continue
					}
					eo := op
					if sd == 1 {
						eo = negOp(op)
					}
					if eo == token.GTR || eo == token.GEQ {
						found = true
					} else {
						why = fmt.Sprintf("the write at %s is on the side where the new vertex's level is %s the entry point's", c.InstrPos(w), eo)
					}
				}
			}
		}
		if found {
			r.OK(rule, fnName(f), "entry-point-promotion", c.Pos(f.Pos()), "a higher new vertex becomes the entry point (the write is guarded by new level > entry level as its only way in)")
		} else {
			r.Bad(rule, fnName(f), "entry-point-promotion", c.Pos(f.Pos()), "a new vertex that is higher than the entry point must become the entry point: "+why)
		}
	}
	if n == 0 {
		r.Unk(rule, "index", "entry-point-promotion", "-", "the insert path (creates a vertex, links it in a loop, writes the entry point) was not found")
	}
}

// writesEdgeSet: g (or a callee, two levels) stores into / deletes from a map of the edge-set type; deleteOnly restricts to
// the builtin delete.
func writesEdgeSet(x *idxInfo, g *ssa.Function, depth int, deleteOnly bool) bool {
	if g == nil || len(g.Blocks) == 0 || depth > 2 || !modLocal(g) {
		return false
	}
	hit := false
	eachInstr(g, func(z ssa.Instruction) {
		if hit {
			return
		}
		if mu, ok := z.(*ssa.MapUpdate); ok && !deleteOnly && namedOf(mu.Map.Type()) == x.edgeSet {
			hit = true
		}
		if cc := asCall(z); cc != nil {
			if bi, isB := cc.Value.(*ssa.Builtin); isB && bi.Name() == "delete" && len(cc.Args) == 2 && namedOf(cc.Args[0].Type()) == x.edgeSet {
				hit = true
			} else if h := cc.StaticCallee(); h != nil && writesEdgeSet(x, h, depth+1, deleteOnly) {
				hit = true
			}
		}
	})
	return hit
}

// levelLoopsThatEditLinksReachZero: every loop of the index that counts a level down by one and edits links with it (hands the
// counter to a function that writes an edge set) runs while the level is >= 0; and the function that takes a vertex out of the
// store hands that vertex, in such a loop, to a function that deletes it from an edge set (the back links are removed on every
// level, bottom layer included).
func levelLoopsThatEditLinksReachZero(c *Ctx, r *Report, rule string) {
	x := newIdx(c)
	if len(x.missing) > 0 {
		r.Unk(rule, "index", "anchors", "-", "index anchors missing")
		return
	}
	n := 0
	for _, f := range x.funcs {
		if f.Parent() != nil {
			continue
		}
		k := 0
		seenPhi := map[*ssa.Phi]bool{}
		unlinks := false
		eachInstr(f, func(i ssa.Instruction) {
			cl, ok := i.(*ssa.Call)
			if !ok || !inCycle(f, cl) {
				return
			}
			g := cl.Call.StaticCallee()
			if g == nil || !writesEdgeSet(x, g, 0, false) {
				return
			}
			var ph *ssa.Phi
			for _, a := range cl.Call.Args {
				if p, isP := strip(a).(*ssa.Phi); isP && len(p.Edges) == 2 {
					if b, isB := p.Type().Underlying().(*types.Basic); isB && b.Info()&types.IsInteger != 0 {
						ph = p
					}
				}
			}
			if ph == nil {
				return
			}
			if writesEdgeSet(x, g, 0, true) {
				unlinks = true
			}
			if seenPhi[ph] {
				return
			}
			seenPhi[ph] = true
			down := false
			for _, ev := range ph.Edges {
				if bo, isB := ev.(*ssa.BinOp); isB && bo.X == ssa.Value(ph) {
					if kk, isK := constInt(bo.Y); isK && ((bo.Op == token.SUB && kk == 1) || (bo.Op == token.ADD && kk == -1)) {
						down = true
					}
				}
			}
			if !down {
				return
			}
			n++
			k++
			cont, okCont := "", false
			for _, u := range *ph.Referrers() {
				bo, isB := u.(*ssa.BinOp)
				if !isB || bo.Block() != ph.Block() || !isCmp(bo.Op) {
					continue
				}
				op, other := bo.Op, bo.Y
				if bo.Y == ssa.Value(ph) {
					op, other = flipCmp(bo.Op), bo.X
				}
				kk, isK := constInt(other)
				cont = fmt.Sprintf("level %s %v", op, other)
				if isK && ((op == token.GEQ && kk == 0) || (op == token.GTR && kk == -1)) {
					okCont = true
				}
			}
			r.Check(okCont, rule, fnName(f), fmt.Sprintf("link-editing-level-loop#%d", k), c.InstrPos(cl), "a loop that edits links level by level, counting down, runs while level >= 0 ("+cont+"): the bottom layer is the one every search ends on")
		})
		// the remover: takes a vertex out of a map of vertices
		removes := false
		eachInstr(f, func(i ssa.Instruction) {
			if cl, ok := i.(*ssa.Call); ok {
				if g := cl.Call.StaticCallee(); g != nil && modLocal(g) && deletesVertex(x, g) {
					removes = true
				}
			}
		})
		if removes {
			n++
			r.Check(unlinks, rule, fnName(f), "remover-unlinks", c.Pos(f.Pos()), "the function that takes a vertex out of the store removes it from its neighbours' edge sets in a per-level loop (a call, inside that loop, of a function that deletes from an edge set)")
		}
	}
	if n == 0 {
		r.Unk(rule, "index", "link-editing-level-loop", "-", "no level loop that edits links found")
	}
}

func deletesVertex(x *idxInfo, g *ssa.Function) bool {
	hit := false
	eachInstr(g, func(z ssa.Instruction) {
		if cc := asCall(z); cc != nil {
			if bi, isB := cc.Value.(*ssa.Builtin); isB && bi.Name() == "delete" && len(cc.Args) == 2 {
				if m, isM := cc.Args[0].Type().Underlying().(*types.Map); isM && namedOf(derefType(m.Elem())) == x.vertex {
					hit = true
				}
			}
		}
	})
	return hit
}

// prunerBudgetsPerLevel: every call of the pruner — on the insert path and on the removal path alike — is handed the degree
// bound of the level it names: mMax0 on the bottom layer, mMax above it (chosen inline or by a helper applied to the level).
func prunerBudgetsPerLevel(c *Ctx, r *Report, rule string) {
	x := newIdx(c)
	fMmax, fMmax0 := c.Field("index", "hnswConfig", "mMax"), c.Field("index", "hnswConfig", "mMax0")
	if len(x.missing) > 0 || fMmax == nil || fMmax0 == nil {
		r.Unk(rule, "index", "anchors", "-", "index anchors missing")
		return
	}
	// the pruner: a method of the index taking (vertex, int, int), returning nothing, that rebuilds an edge set
	isPrunerFn := func(g *ssa.Function) bool {
		if g == nil || g.Signature.Recv() == nil || namedOf(derefType(g.Signature.Recv().Type())) != x.hnsw || len(g.Params) != 4 {
			return false
		}
		if namedOf(derefType(g.Params[1].Type())) != x.vertex {
			return false
		}
		for _, p := range g.Params[2:] {
			if b, ok := p.Type().Underlying().(*types.Basic); !ok || b.Info()&types.IsInteger == 0 {
				return false
			}
		}
		return g.Signature.Results().Len() == 0 && writesEdgeSet(x, g, 0, false)
	}
	n := 0
	for _, f := range x.funcs {
		k := 0
		eachInstr(f, func(i ssa.Instruction) {
			cl, ok := i.(*ssa.Call)
			if !ok || !isPrunerFn(cl.Call.StaticCallee()) {
				return
			}
			n++
			k++
			K, L := cl.Call.Args[2], cl.Call.Args[3]
			ok2, why := budgetShapeAny(f, K, L, fMmax, fMmax0)
			r.Check(ok2, rule, fnName(f), fmt.Sprintf("pruner-budget#%d", k), c.InstrPos(cl), "the pruner is handed the degree bound of the level it names; "+why)
		})
	}
	if n == 0 {
		r.Unk(rule, "index", "pruner-budget", "-", "no call of the pruner found")
	}
}

// unlocksAreOfHeldLocks: every Unlock / RUnlock — called or deferred — is of a mutex that the function holds at that point on
// every path, in the matching mode (Unlock for Lock, RUnlock for RLock). Unlocking a mutex that is not locked is a fatal runtime
// error, not a panic: the process dies.
func unlocksAreOfHeldLocks(c *Ctx, r *Report, rule string, pkgs ...string) {
	n, bad := 0, 0
	for _, f := range prodFuncs(c, pkgs...) {
		li := analyzeLocks(f)
		eachInstr(f, func(i ssa.Instruction) {
			var cc *ssa.CallCommon
			switch x := i.(type) {
			case *ssa.Call:
				cc = &x.Call
			case *ssa.Defer:
				cc = &x.Call
			}
			if cc == nil {
				return
			}
			op, mu := mutexOp(cc)
			if op != "Unlock" && op != "RUnlock" {
				return
			}
			n++
			p := path(mu)
			want := byte('W')
			if op == "RUnlock" {
				want = 'R'
			}
			held, ok := li.before[i].must[p]
			if _, isDefer := i.(*ssa.Defer); isDefer {
				// a deferred unlock runs at the exits: the lock must be held at every return the defer can reach (the code base
				// writes `defer mu.Unlock()` in front of `mu.Lock()` as often as behind it)
				ok, held = true, want
				for _, b := range f.Blocks {
					if len(b.Instrs) == 0 || b == f.Recover {
						continue
					}
					rt, isR := b.Instrs[len(b.Instrs)-1].(*ssa.Return)
					if !isR {
						continue
					}
					if _, reach := reachesAvoiding(f, i, func(z ssa.Instruction) bool { return z == ssa.Instruction(rt) }, func(ssa.Instruction) bool { return false }); !reach {
						continue
					}
					h, has := li.before[rt].must[p]
					if !has {
						ok = false
					} else if h != want {
						held = h
					}
				}
			}
			if !ok || held != want {
				bad++
				what := "is not held on every path that reaches this point"
				if ok {
					what = "is held in the other mode (" + string(held) + ")"
				}
				r.Bad(rule, fnName(f), "unlock-of-"+p+"#"+c.InstrPos(i), c.InstrPos(i), op+" of "+p+", which "+what+": unlocking an unlocked mutex is a fatal runtime error")
			}
		})
	}
	if n == 0 {
		r.Unk(rule, strings.Join(pkgs, ","), "unlocks", "-", "no unlock found")
		return
	}
	if bad == 0 {
		r.OK(rule, strings.Join(pkgs, ","), "unlocks-held", "-", fmt.Sprintf("%d unlock sites; each releases a mutex the function holds there, in the matching mode", n))
	}
}

// sizedCopiesAreFilled: a slice that is made with the length of another slice (the shape of "copy this") receives elements before the function
// returns: a copy into it on every path from the make to a return, or an element-wise loop. A queue that is reversed into an array of the
// right length and nothing else holds nil items.
func sizedCopiesAreFilled(c *Ctx, r *Report, rule string, pkgs ...string) {
	n := 0
	for _, f := range prodFuncs(c, pkgs...) {
		k := 0
		eachInstr(f, func(i ssa.Instruction) {
			mk, ok := i.(*ssa.MakeSlice)
			if !ok {
				return
			}
			lc, isC := strip(mk.Len).(*ssa.Call)
			if !isC {
				return
			}
			bi, isB := lc.Call.Value.(*ssa.Builtin)
			if !isB || bi.Name() != "len" || len(lc.Call.Args) != 1 {
				return
			}
			if _, isS := lc.Call.Args[0].Type().Underlying().(*types.Slice); !isS {
				return
			}
			n++
			k++
			derives := func(v ssa.Value) bool {
				for d := 0; d < 6 && v != nil; d++ {
					v = strip(v)
					if v == ssa.Value(mk) {
						return true
					}
					switch x := v.(type) {
					case *ssa.Slice:
						v = x.X
					case *ssa.UnOp:
						// a load of the cell the fresh slice was stored in
						if al, isAl := x.X.(*ssa.Alloc); isAl && x.Op == token.MUL {
							st := storesTo(f, al)
							if len(st) == 1 {
								v = st[0].Val
								continue
							}
						}
						return false
					default:
						return false
					}
				}
				return false
			}
			fills := func(z ssa.Instruction) bool {
				if cl, isCl := z.(*ssa.Call); isCl {
					if b2, isB2 := cl.Call.Value.(*ssa.Builtin); isB2 && b2.Name() == "copy" && len(cl.Call.Args) == 2 && derives(cl.Call.Args[0]) {
						return true
					}
				}
				if st, isSt := z.(*ssa.Store); isSt {
					if ia, isIA := st.Addr.(*ssa.IndexAddr); isIA && derives(ia.X) {
						return true
					}
				}
				return false
			}
			// a copy must lie on every path to a return; an element-wise loop only has to exist (its zero-trip path is the empty case)
			_, hasFill := reachesAvoiding(f, mk, fills, func(z ssa.Instruction) bool { return false })
			loopFill := false
			eachInstr(f, func(z ssa.Instruction) {
				if _, isSt := z.(*ssa.Store); isSt && fills(z) && inCycle(f, z) {
					loopFill = true
				}
			})
			unfilled := !hasFill
			if hasFill && !loopFill {
				_, unfilled = reachesAvoiding(f, mk, func(z ssa.Instruction) bool { _, isR := z.(*ssa.Return); return isR }, func(z ssa.Instruction) bool { return fills(z) || instrNoReturn(z) })
			}
			r.Check(!unfilled, rule, fnName(f), fmt.Sprintf("sized-copy-filled#%d", k), c.InstrPos(mk), "a slice made with the length of another slice receives elements (a copy on every path to a return, or an element-wise loop) before the function returns")
		})
	}
	if n == 0 {
		r.Unk(rule, strings.Join(pkgs, ","), "sized-copies", "-", "no slice made with the length of another slice found")
	}
}

// panicsOnlyWhenEmpty: a test that tells the empty collection from a non-empty one (its length against 0 or 1) and has a side
// that panics takes that side only for the empty collection: the guard of Pop / Peek must not refuse a queue that has items.
func panicsOnlyWhenEmpty(c *Ctx, r *Report, rule string, pkgs ...string) {
	n := 0
	for _, f := range prodFuncs(c, pkgs...) {
		k := 0
		for _, ifi := range allIfs(f) {
			cm, ok := resolveCmp(ifi.Cond, 0)
			if !ok || len(ifi.Block().Succs) != 2 {
				// equality tests are not "comparisons" for resolveCmp's callers: read them here
				b, isB := ifi.Cond.(*ssa.BinOp)
				if !isB || (b.Op != token.EQL && b.Op != token.NEQ) || len(ifi.Block().Succs) != 2 {
					continue
				}
				cm = ccmp{b.Op, mkSide(b.X), mkSide(b.Y)}
			}
			op := cm.op
			var kc int64
			switch {
			case cm.x.isLen && !cm.y.isLen:
				v, isK := constInt(cm.y.v)
				if !isK {
					continue
				}
				kc = v
			case cm.y.isLen && !cm.x.isLen:
				v, isK := constInt(cm.x.v)
				if !isK {
					continue
				}
				kc, op = v, flipCmp(op)
			default:
				continue
			}
			if kc > 1 {
				continue
			}
			panicSide := -1
			for sd, sb := range ifi.Block().Succs {
				if len(sb.Preds) == 1 && blockNeverReturns(sb) {
					panicSide = sd
				}
			}
			if panicSide < 0 {
				continue
			}
			holds := func(l int64) bool {
				switch op {
				case token.EQL:
					return l == kc
				case token.NEQ:
					return l != kc
				case token.LSS:
					return l < kc
				case token.LEQ:
					return l <= kc
				case token.GTR:
					return l > kc
				case token.GEQ:
					return l >= kc
				}
				return false
			}
			side := func(l int64) int {
				if holds(l) {
					return 0
				}
				return 1
			}
			n++
			k++
			r.Check(side(0) == panicSide && side(2) != panicSide, rule, fnName(f), fmt.Sprintf("panic-guard#%d", k), c.InstrPos(ifi), "the panicking side of this emptiness test is taken for the empty collection and not for one that has items")
		}
	}
	if n == 0 {
		r.Unk(rule, strings.Join(pkgs, ","), "panic-guards", "-", "no emptiness test with a panicking side found")
	}
}

// applyCallbacksInTheReadyLoop: in the function that receives raft's Ready values, (1) the error of every apply callback (a call
// through a function-typed field) is fatal: on its non-nil side every path ends in a call that does not return; (2) the callback
// for normal entries is reached only for entries whose type is EntryNormal and whose payload is non-empty (raft's own empty
// entries after an election must not reach the state machine), judged on the path conditions inside the loop body; (3) raft's
// clock runs: the loop calls Node.Tick.
func applyCallbacksInTheReadyLoop(c *Ctx, r *Report, rule string) {
	n := 0
	for _, root := range prodFuncs(c, "storage/raft") {
		if root.Parent() != nil {
			continue
		}
		hasReady := false
		eachInstr(root, func(i ssa.Instruction) {
			if cc := asCall(i); cc != nil && cc.IsInvoke() && strings.HasSuffix(typeName(cc.Value.Type()), "Node") && cc.Method.Name() == "Ready" {
				hasReady = true
			}
		})
		if !hasReady {
			continue
		}
		// the loop function and the helpers of its package it hands the work to (three levels)
		scope := []*ssa.Function{root}
		inScope := map[*ssa.Function]bool{root: true}
		for d, frontier := 0, []*ssa.Function{root}; d < 3 && len(frontier) > 0; d++ {
			var next []*ssa.Function
			for _, g := range frontier {
				eachInstr(g, func(z ssa.Instruction) {
					if cc := asCall(z); cc != nil {
						if h := cc.StaticCallee(); h != nil && h.Pkg == root.Pkg && !inScope[h] && len(h.Blocks) > 0 {
							inScope[h] = true
							scope = append(scope, h)
							next = append(next, h)
						}
					}
				})
			}
			frontier = next
		}
		hasTick := false
		for _, g := range scope {
			eachInstr(g, func(z ssa.Instruction) {
				if cc := asCall(z); cc != nil && cc.IsInvoke() && strings.HasSuffix(typeName(cc.Value.Type()), "Node") && cc.Method.Name() == "Tick" {
					hasTick = true
				}
			})
		}
		n++
		r.Check(hasTick, rule, fnName(root), "clock-runs", c.Pos(root.Pos()), "the loop that receives Ready values (or a helper it calls) also calls Node.Tick (without ticks there are no elections and no heartbeats)")
		k := 0
		for _, f := range scope {
			eachInstr(f, func(i ssa.Instruction) {
				cl, ok := i.(*ssa.Call)
				if !ok || cl.Call.IsInvoke() || cl.Call.StaticCallee() != nil {
					return
				}
				// a call through a function-typed field
				l, isL := loadOf(strip(cl.Call.Value))
				if !isL {
					return
				}
				fa, isF := l.(*ssa.FieldAddr)
				if !isF {
					return
				}
				if _, isSig := cl.Call.Value.Type().Underlying().(*types.Signature); !isSig {
					return
				}
				rs := cl.Call.Signature().Results()
				if rs.Len() != 1 || !isErrorType(rs.At(0).Type()) {
					return
				}
				fld := structField(fa.X.Type(), fa.Field)
				k++
				name := "callback"
				if fld != nil {
					name = fld.Name()
				}
				// (1) fatal on error
				fatal, tested := true, false
				for _, ifi := range allIfs(f) {
					b, isB := ifi.Cond.(*ssa.BinOp)
					if !isB || (b.Op != token.NEQ && b.Op != token.EQL) {
						continue
					}
					if !((strip(b.X) == ssa.Value(cl) && isNilConst(b.Y)) || (strip(b.Y) == ssa.Value(cl) && isNilConst(b.X))) {
						continue
					}
					tested = true
					nonNil := succOn(ifi, b.Op == token.NEQ)
					if len(nonNil.Instrs) == 0 {
						fatal = false
						continue
					}
					if _, goesOn := reachesAvoidingFrom(f, nonNil.Instrs[0], func(z ssa.Instruction) bool {
						return z.Block() != nil && !nonNil.Dominates(z.Block())
					}, func(z ssa.Instruction) bool { return instrNoReturn(z) }); goesOn || len(nonNil.Preds) != 1 {
						fatal = false
					}
				}
				r.Check(tested && fatal, rule, fnName(f), fmt.Sprintf("apply-error-fatal#%d(%s)", k, name), c.InstrPos(cl), "the error of the apply callback is tested and its non-nil side ends in a call that does not return: a replica that failed to apply an entry must not go on to the next one")
				// (2) path conditions inside the loop body
				if !inCycle(f, cl) || len(cl.Call.Args) != 1 {
					return
				}
				e := &condEngine{budget: 4000}
				isEntryField := func(v ssa.Value, field string) bool {
					v = strip(v)
					if l, ok := loadOf(v); ok {
						if fa, ok := l.(*ssa.FieldAddr); ok {
							fv := structField(fa.X.Type(), fa.Field)
							return fv != nil && fv.Name() == field && typeName(derefType(fa.X.Type())) == "Entry"
						}
					}
					if fl, ok := v.(*ssa.Field); ok {
						fv := structField(fl.X.Type(), fl.Field)
						return fv != nil && fv.Name() == field && typeName(fl.X.Type()) == "Entry"
					}
					return false
				}
				e.atomKey = func(v ssa.Value) (string, bool, bool) {
					x, ok := v.(*ssa.BinOp)
					if !ok {
						return "", false, false
					}
					if x.Op == token.EQL || x.Op == token.NEQ {
						for _, pr := range [][2]ssa.Value{{x.X, x.Y}, {x.Y, x.X}} {
							if kv, isK := constInt(pr[1]); isK && isEntryField(pr[0], "Type") {
								return fmt.Sprintf("entry-type=%d", kv), x.Op == token.NEQ, true
							}
						}
					}
					for _, pr := range [][2]ssa.Value{{x.X, x.Y}, {x.Y, x.X}} {
						lc, isC := strip(pr[0]).(*ssa.Call)
						if !isC {
							continue
						}
						if bi, isB := lc.Call.Value.(*ssa.Builtin); !isB || bi.Name() != "len" || !isEntryField(lc.Call.Args[0], "Data") {
							continue
						}
						kv, isK := constInt(pr[1])
						if !isK {
							continue
						}
						op := x.Op
						if pr[0] == x.Y {
							op = flipCmp(op)
						}
						holds := func(l int64) bool {
							switch op {
							case token.EQL:
								return l == kv
							case token.NEQ:
								return l != kv
							case token.LSS:
								return l < kv
							case token.LEQ:
								return l <= kv
							case token.GTR:
								return l > kv
							case token.GEQ:
								return l >= kv
							}
							return false
						}
						if !holds(0) && holds(1) && holds(1000) {
							return "payload-nonempty", false, true
						}
						if holds(0) && !holds(1) && !holds(1000) {
							return "payload-nonempty", true, true
						}
					}
					return "", false, false
				}
				// is the argument an entry's payload? then this is the normal-entry callback
				if !isEntryField(cl.Call.Args[0], "Data") {
					return
				}
				hdr, _ := naturalLoopOf(cl.Block())
				if hdr == nil {
					return
				}
				paths := e.pathsFrom(f, hdr, cl.Block(), 0)
				if e.failed || len(paths) == 0 {
					r.Infof("%s: the conditions under which %s reaches the normal-entry callback could not be enumerated", rule, fnName(f))
					return
				}
				bad := ""
				for _, p := range paths {
					tn, hasT := p.asg["entry-type=0"]
					pn, hasP := p.asg["payload-nonempty"]
					if !(hasT && tn) {
						bad = fmt.Sprintf("a way in does not have entry type == EntryNormal (tested: %v, value %v)", hasT, tn)
					} else if !(hasP && pn) {
						bad = fmt.Sprintf("a way in does not have a non-empty payload (tested: %v, value %v)", hasP, pn)
					}
				}
				r.Check(bad == "", rule, fnName(f), fmt.Sprintf("normal-entries-only#%d", k), c.InstrPos(cl), fmt.Sprintf("every way from the top of the entry loop to the normal-entry callback (%d enumerated) has type == EntryNormal and a non-empty payload; %s", len(paths), bad))
			})
		}
	}
	if n == 0 {
		r.Unk(rule, "storage/raft", "ready-loop", "-", "no function receiving Ready values found")
	}
}

// presenceTestsDistinguish: a function of the index that looks an id up in a shard of the vertex store (comma-ok lookup in a map
// of vertices) and returns an error reports the two outcomes differently: the returns on one side of the presence test carry a
// nil error, those on the other side a sentinel. (`already exists` and `not found` are the index's whole error vocabulary: a side
// that answers nil on both is a lost error.)
func presenceTestsDistinguish(c *Ctx, r *Report, rule string) {
	x := newIdx(c)
	if len(x.missing) > 0 {
		r.Unk(rule, "index", "anchors", "-", "index anchors missing")
		return
	}
	presenceTestsDistinguishIn(c, r, rule, x.funcs, func(t types.Type) bool { return namedOf(derefType(t)) == x.vertex })
}

// the same for any keyed registry (groups by id, addresses by node id, datasets by id): a lookup that finds nothing must not
// answer like one that found something.
func registryLookupsDistinguish(c *Ctx, r *Report, rule string, pkgs ...string) {
	presenceTestsDistinguishIn(c, r, rule, prodFuncs(c, pkgs...), func(types.Type) bool { return true })
}

func presenceTestsDistinguishIn(c *Ctx, r *Report, rule string, funcs []*ssa.Function, elemOK func(types.Type) bool) {
	n := 0
	for _, f := range funcs {
		res := f.Signature.Results()
		if res.Len() == 0 || !isErrorType(res.At(res.Len()-1).Type()) {
			continue
		}
		resolved := map[*ssa.Return][]ssa.Value{}
		for _, rt := range returnsOf(f) {
			resolved[rt.Return] = rt.Results
		}
		k := 0
		for _, ifi := range allIfs(f) {
			ex, ok := ifi.Cond.(*ssa.Extract)
			if !ok || ex.Index != 1 || len(ifi.Block().Succs) != 2 {
				continue
			}
			lk, isL := ex.Tuple.(*ssa.Lookup)
			if !isL || !lk.CommaOk {
				continue
			}
			m, isM := lk.X.Type().Underlying().(*types.Map)
			if !isM || !elemOK(m.Elem()) {
				continue
			}
			n++
			k++
			// what the returns dominated by each side say
			kind := func(side *ssa.BasicBlock) (nils, errs int) {
				for _, b := range f.Blocks {
					if len(b.Instrs) == 0 || !side.Dominates(b) {
						continue
					}
					if rt, isR := b.Instrs[len(b.Instrs)-1].(*ssa.Return); isR {
						rr := resolved[rt]
						if len(rr) == 0 {
							continue
						}
						if isNilConst(rr[len(rr)-1]) {
							nils++
						} else if definitelyAnError(rr[len(rr)-1]) {
							errs++
						}
					}
				}
				return
			}
			s0, s1 := ifi.Block().Succs[0], ifi.Block().Succs[1]
			if len(s0.Preds) != 1 || len(s1.Preds) != 1 {
				// one side is the shared fall-through: judge it by the returns it reaches directly
				r.OKTrivial(rule, fnName(f), fmt.Sprintf("presence-test#%d", k), c.InstrPos(ifi), "one side of the presence test joins other paths; not judged")
				continue
			}
			n0, e0 := kind(s0)
			n1, e1 := kind(s1)
			okD := (n0 > 0 && e0 == 0 && e1 > 0 && n1 == 0) || (n1 > 0 && e1 == 0 && e0 > 0 && n0 == 0)
			r.Check(okD, rule, fnName(f), fmt.Sprintf("presence-test#%d", k), c.InstrPos(ifi), fmt.Sprintf("one side of the presence test returns nil errors only and the other sentinel errors only (present side: %d nil / %d sentinel; absent side: %d nil / %d sentinel)", n0, e0, n1, e1))
		}
	}
	if n == 0 {
		r.Unk(rule, "-", "presence-test", "-", "no comma-ok lookup of a registry found in a function that returns an error")
	}
}

// successOnlyAfterTheEffect: a function of the storage layer that proposes to a raft group or forwards to a peer — directly, by
// calling a function from which a raft proposal or a client call of the data plane is reachable — returns a nil error only on
// paths that made such a call. An early `return nil` (the guard for "no raft group on this node", the batch-size limit, a
// validation) acknowledges a write that was never proposed.
func successOnlyAfterTheEffect(c *Ctx, r *Report, rule string) {
	// effect functions: reach Node.Propose / ProposeConfChange, or invoke a method of a generated client interface
	direct := func(cc *ssa.CallCommon) bool {
		if !cc.IsInvoke() {
			return false
		}
		tn := typeName(cc.Value.Type())
		if strings.HasSuffix(tn, "Node") && strings.HasPrefix(cc.Method.Name(), "Propose") {
			return true
		}
		return strings.HasSuffix(tn, "Client") && cc.Method.Pkg() != nil && strings.HasSuffix(cc.Method.Pkg().Path(), "/protobuf")
	}
	memo := map[*ssa.Function]int{} // 0 unknown, 1 yes, 2 no, 3 in progress
	var effect func(g *ssa.Function, d int) bool
	effect = func(g *ssa.Function, d int) bool {
		if g == nil || !modLocal(g) || len(g.Blocks) == 0 || d > 5 {
			return false
		}
		switch memo[g] {
		case 1:
			return true
		case 2, 3:
			return false
		}
		memo[g] = 3
		hit := false
		eachInstr(g, func(z ssa.Instruction) {
			if hit {
				return
			}
			if _, isGo := z.(*ssa.Go); isGo {
				return
			}
			if cc := asCall(z); cc != nil {
				if direct(cc) || effect(cc.StaticCallee(), d+1) {
					hit = true
				}
			}
		})
		// closures of g run as part of it when they are called or started in it
		for _, cl := range closuresOf(g) {
			if !hit && effect(cl, d+1) {
				hit = true
			}
		}
		if hit {
			memo[g] = 1
		} else {
			memo[g] = 2
		}
		return hit
	}
	n := 0
	for _, f := range prodFuncs(c, "storage") {
		if f.Parent() != nil {
			continue
		}
		res := f.Signature.Results()
		if res.Len() == 0 || !isErrorType(res.At(res.Len()-1).Type()) {
			continue
		}
		// only methods of the data plane: Dataset and partition write paths (the catalogue's own proposals have their own rules)
		recv := f.Signature.Recv()
		if recv == nil {
			continue
		}
		rn := typeName(derefType(recv.Type()))
		if rn != "Dataset" && rn != "partition" {
			continue
		}
		isEffect := func(z ssa.Instruction) bool {
			if _, isGo := z.(*ssa.Go); isGo {
				if g, _ := z.(*ssa.Go).Call.Value.(*ssa.MakeClosure); g != nil {
					if fn, _ := g.Fn.(*ssa.Function); fn != nil {
						return effect(fn, 1)
					}
				}
				return effect(z.(*ssa.Go).Call.StaticCallee(), 1)
			}
			cc := asCall(z)
			if cc == nil {
				return false
			}
			// a worker handed to a fan-out helper
			for _, a := range cc.Args {
				if mc, isMC := strip(a).(*ssa.MakeClosure); isMC {
					if fn, _ := mc.Fn.(*ssa.Function); fn != nil && effect(fn, 1) {
						return true
					}
				}
				if fn, isFn := strip(a).(*ssa.Function); isFn && effect(fn, 1) {
					return true // a function literal that captures nothing
				}
			}
			return direct(cc) || effect(cc.StaticCallee(), 1)
		}
		has := false
		eachInstr(f, func(z ssa.Instruction) {
			if isEffect(z) {
				has = true
			}
		})
		if !has || !writesThroughRaft(f) {
			continue
		}
		n++
		resolved := map[*ssa.Return][]ssa.Value{}
		for _, rt := range returnsOf(f) {
			resolved[rt.Return] = rt.Results
		}
		// the error of every effect call is looked at
		k := 0
		eachInstr(f, func(z ssa.Instruction) {
			cl, isCl := z.(*ssa.Call)
			if !isCl || !isEffect(z) {
				return
			}
			rs := cl.Call.Signature().Results()
			if rs.Len() == 0 || !isErrorType(rs.At(rs.Len()-1).Type()) {
				return
			}
			k++
			used := false
			if rs.Len() == 1 {
				used = cl.Referrers() != nil && len(*cl.Referrers()) > 0
			} else {
				for _, u := range *cl.Referrers() {
					if ex, isEx := u.(*ssa.Extract); isEx && ex.Index == rs.Len()-1 && ex.Referrers() != nil && len(*ex.Referrers()) > 0 {
						used = true
					}
					if _, isRet := u.(*ssa.Return); isRet {
						used = true // `return f(...)`: the whole tuple is forwarded
					}
				}
			}
			r.Check(used, rule, fnName(f), fmt.Sprintf("effect-error-used#%d", k), c.InstrPos(cl), "the error of the proposing / forwarding call is looked at (returned, tested or passed on), not discarded")
		})
		at, early := reachesAvoidingFrom(f, f.Blocks[0].Instrs[0], func(z ssa.Instruction) bool {
			rt, isR := z.(*ssa.Return)
			if !isR {
				return false
			}
			rr := resolved[rt]
			return len(rr) > 0 && isNilConst(rr[len(rr)-1])
		}, func(z ssa.Instruction) bool { return isEffect(z) || instrNoReturn(z) })
		where := ""
		if early && at != nil {
			where = " (the return at " + c.InstrPos(at) + " is reachable without one)"
		}
		r.Check(!early, rule, fnName(f), "success-after-effect", c.Pos(f.Pos()), "every `return …, nil` of this write path lies behind a raft proposal or a forwarded call"+where+": success without the effect acknowledges a write that was never made")
	}
	if n == 0 {
		r.Unk(rule, "storage", "write-paths", "-", "no write path of the data plane found")
	}
}

// writesThroughRaft: the method's name-free role — it hands a PartitionChange (or batch items) on: one of its calls takes a
// protobuf message of the data plane as argument.
func writesThroughRaft(f *ssa.Function) bool {
	hit := false
	eachInstr(f, func(z ssa.Instruction) {
		cc := asCall(z)
		if cc == nil {
			return
		}
		for _, a := range cc.Args {
			tn := typeName(derefType(a.Type()))
			if tn == "PartitionChange" || strings.HasSuffix(tn, "Request") && strings.Contains(a.Type().String(), "/protobuf.") {
				hit = true
			}
			if sl, ok := a.Type().Underlying().(*types.Slice); ok && typeName(derefType(sl.Elem())) == "BatchItem" {
				hit = true
			}
		}
	})
	return hit
}

// frontierLoopsMakeProgress: a loop that runs while a queue is non-empty takes something out of that queue on every way round
// (or leaves): otherwise the condition never changes and the goroutine — a search handler, or the apply loop through Insert —
// spins for ever.
func frontierLoopsMakeProgress(c *Ctx, r *Report, rule string, pkgs ...string) {
	n := 0
	for _, f := range prodFuncs(c, pkgs...) {
		k := 0
		for _, ifi := range allIfs(f) {
			h := ifi.Block()
			isHdr := false
			for _, p := range h.Preds {
				if h.Dominates(p) {
					isHdr = true
				}
			}
			if !isHdr || len(h.Succs) != 2 {
				continue
			}
			cm, ok := resolveCmp(ifi.Cond, 0)
			if !ok {
				if b, isB := ifi.Cond.(*ssa.BinOp); isB && b.Op == token.NEQ {
					cm, ok = ccmp{b.Op, mkSide(b.X), mkSide(b.Y)}, true
				}
			}
			if !ok {
				continue
			}
			var q ssa.Value
			op := cm.op
			var kv int64
			if cm.x.isLen && !cm.y.isLen {
				v, isK := constInt(cm.y.v)
				if !isK {
					continue
				}
				q, kv = cm.x.v, v
			} else if cm.y.isLen && !cm.x.isLen {
				v, isK := constInt(cm.x.v)
				if !isK {
					continue
				}
				q, kv, op = cm.y.v, v, flipCmp(op)
			} else {
				continue
			}
			if !((op == token.GTR && kv == 0) || (op == token.NEQ && kv == 0) || (op == token.GEQ && kv == 1)) {
				continue
			}
			_, body := naturalLoopOf(h)
			if body == nil {
				continue
			}
			n++
			k++
			pops := func(z ssa.Instruction) bool {
				cl, isC := z.(*ssa.Call)
				if !isC {
					return false
				}
				rv, isPop := invokeOn(cl, "Pop")
				return isPop && sameQueue(rv, q)
			}
			var stuck ssa.Instruction
			seen := map[*ssa.BasicBlock]bool{}
			var walk func(b *ssa.BasicBlock)
			walk = func(b *ssa.BasicBlock) {
				if stuck != nil || seen[b] || !body[b] {
					return
				}
				seen[b] = true
				for _, z := range b.Instrs {
					if pops(z) || instrNoReturn(z) {
						return
					}
				}
				for _, sb := range b.Succs {
					if sb == h {
						stuck = b.Instrs[len(b.Instrs)-1]
						return
					}
					walk(sb)
				}
			}
			// the continuing side: the successor inside the body
			walk(h.Succs[0])
			where := ""
			if stuck != nil {
				where = " (back to the test from " + c.InstrPos(stuck) + " without a Pop)"
			}
			r.Check(stuck == nil, rule, fnName(f), fmt.Sprintf("frontier-loop#%d", k), c.InstrPos(ifi), "every way round a loop that runs while a queue is non-empty pops that queue"+where)
		}
	}
	if n == 0 {
		r.Unk(rule, strings.Join(pkgs, ","), "frontier-loops", "-", "no loop conditioned on a non-empty queue found")
	}
}

// validatorAgreesWithWriter: the metadata validator (the method the API layer calls before anything is proposed) refuses
// everything the snapshot writer refuses: for every length guard in front of an error return in the writer (`entries > 65535`,
// `key > 255`, `value > 65535`) the validator has a test of the same quantity with the same operator and constant, and from the
// side of that test on which the guard holds no path reaches `return nil`. What passes the validator is proposed, applied and
// stored; if the writer then refuses it the partition can never again be snapshotted (and `&&` for `||`, a bound off by one, or a
// refusal turned into nil all open exactly that gap).
func validatorAgreesWithWriter(c *Ctx, r *Report, rule string) {
	md := c.Named("index", "Metadata")
	if md == nil {
		r.Unk(rule, "index", "anchors", "-", "index.Metadata not found")
		return
	}
	type guard struct {
		kind string
		op   token.Token
		k    int64
	}
	kindOf := func(f *ssa.Function, v ssa.Value) string {
		v = strip(v)
		if p, ok := v.(*ssa.Parameter); ok {
			if namedOf(p.Type()) == md {
				return "entries"
			}
			if b, isB := p.Type().Underlying().(*types.Basic); isB && b.Kind() == types.String {
				nth := 0
				for _, q := range f.Params {
					if qb, isQ := q.Type().Underlying().(*types.Basic); isQ && qb.Kind() == types.String {
						nth++
						if q == p {
							if nth == 1 {
								return "key"
							}
							return "value"
						}
					}
				}
			}
		}
		if ex, ok := v.(*ssa.Extract); ok {
			if _, isN := ex.Tuple.(*ssa.Next); isN {
				if ex.Index == 1 {
					return "key"
				}
				if ex.Index == 2 {
					return "value"
				}
			}
		}
		return ""
	}
	// (guard, polarity) of an If: which quantity against which constant, oriented as `len op k`
	readIf := func(f *ssa.Function, ifi *ssa.If) (guard, bool) {
		cond := ifi.Cond
		neg := false
		if u, isU := cond.(*ssa.UnOp); isU && u.Op == token.NOT {
			cond, neg = u.X, true
		}
		b, isB := cond.(*ssa.BinOp)
		if !isB || !(isCmp(b.Op) || b.Op == token.EQL || b.Op == token.NEQ) {
			return guard{}, false
		}
		for _, pr := range [][2]ssa.Value{{b.X, b.Y}, {b.Y, b.X}} {
			lc, isC := strip(pr[0]).(*ssa.Call)
			if !isC {
				continue
			}
			if bi, isBi := lc.Call.Value.(*ssa.Builtin); !isBi || bi.Name() != "len" {
				continue
			}
			kv, isK := constInt(pr[1])
			kd := kindOf(f, lc.Call.Args[0])
			if !isK || kd == "" {
				continue
			}
			op := b.Op
			if pr[0] == b.Y {
				op = flipCmp(op)
			}
			if neg {
				op = negOp(op)
			}
			return guard{kd, op, kv}, true
		}
		return guard{}, false
	}
	var writers []*ssa.Function
	var validator *ssa.Function
	for _, f := range prodFuncs(c, "index") {
		if f.Signature.Recv() == nil || namedOf(derefType(f.Signature.Recv().Type())) != md {
			continue
		}
		takesWriter := false
		for _, p := range f.Params {
			if isIOType(p.Type(), "Writer") {
				takesWriter = true
			}
		}
		rs := f.Signature.Results()
		if takesWriter {
			writers = append(writers, f)
		} else if f.Signature.Params().Len() == 0 && rs.Len() == 1 && isErrorType(rs.At(0).Type()) && f.Object() != nil && f.Object().Exported() {
			validator = f
		}
	}
	if validator == nil || len(writers) == 0 {
		r.Unk(rule, "index.Metadata", "validator-and-writer", "-", "the validator or the writer of the metadata type was not found")
		return
	}
	errSide := func(f *ssa.Function, ifi *ssa.If) int {
		// the side that returns an error at once, looking through the second half of an `||`
		for sd, sb := range ifi.Block().Succs {
			if len(sb.Instrs) > 0 {
				if rt, isR := sb.Instrs[len(sb.Instrs)-1].(*ssa.Return); isR && len(sb.Instrs) <= 3 {
					if len(rt.Results) > 0 && definitelyAnError(rt.Results[len(rt.Results)-1]) {
						return sd
					}
				}
			}
		}
		return -1
	}
	var guards []guard
	for _, w := range writers {
		for _, ifi := range allIfs(w) {
			g, ok := readIf(w, ifi)
			if !ok {
				continue
			}
			sd := errSide(w, ifi)
			if sd < 0 {
				continue
			}
			if sd == 1 {
				g.op = negOp(g.op)
			}
			guards = append(guards, g)
		}
	}
	if len(guards) == 0 {
		// the writer's guards are not written as inline length comparisons (moved into predicate helpers, or gone): the sibling
		// comparison cannot be made; that every narrowing in the writer is bounded is C08.R3's obligation
		r.Infof("%s: the writer's length guards are not inline comparisons; the validator/writer cross-check is not made", rule)
		r.OKTrivial(rule, "index.Metadata", "writer-guards", "-", "no inline length guard in the writer to compare the validator with")
		return
	}
	for _, g := range guards {
		key := fmt.Sprintf("validator-covers(%s %s %d)", g.kind, g.op, g.k)
		found, bad := false, ""
		for _, ifi := range allIfs(validator) {
			vg, ok := readIf(validator, ifi)
			if !ok || vg.kind != g.kind || vg.k != g.k {
				continue
			}
			holdsSide := -1
			if vg.op == g.op {
				holdsSide = 0
			} else if negOp(vg.op) == g.op {
				holdsSide = 1
			}
			if holdsSide < 0 {
				continue
			}
			found = true
			start := ifi.Block().Succs[holdsSide]
			if len(start.Instrs) == 0 {
				continue
			}
			isNilRet := func(z ssa.Instruction) bool {
				rt, isR := z.(*ssa.Return)
				return isR && len(rt.Results) > 0 && isNilConst(rt.Results[len(rt.Results)-1])
			}
			if at, reach := reachesAvoidingFrom(validator, start.Instrs[0], isNilRet, func(ssa.Instruction) bool { return false }); reach {
				bad = "from the side of the test at " + c.InstrPos(ifi) + " on which the writer's guard holds, `return nil` at " + c.InstrPos(at) + " is reachable"
			}
		}
		switch {
		case !found:
			r.Bad(rule, fnName(validator), key, c.Pos(validator.Pos()), fmt.Sprintf("the writer refuses metadata with %s %s %d but the validator has no test of exactly that: what the validator lets through the writer cannot store", g.kind, g.op, g.k))
		case bad != "":
			r.Bad(rule, fnName(validator), key, c.Pos(validator.Pos()), "the validator tests the writer's guard but does not refuse: "+bad)
		default:
			r.OK(rule, fnName(validator), key, c.Pos(validator.Pos()), "the validator refuses exactly where the writer does")
		}
	}
}

// membershipPredicates: a boolean function that scans a list of node ids and compares its elements with an id answers true on
// the side where an element *equals* the id, and false when the scan ends. (`isOnNode`, `isPartitionAssignedToNode`: with the
// comparison inverted every node with two or more replicas "hosts" every partition.)
func membershipPredicates(c *Ctx, r *Report, rule string, pkgs ...string) {
	n := 0
	for _, f := range prodFuncs(c, pkgs...) {
		rs := f.Signature.Results()
		if rs.Len() != 1 || f.Parent() != nil {
			continue
		}
		if bt, ok := rs.At(0).Type().Underlying().(*types.Basic); !ok || bt.Kind() != types.Bool {
			continue
		}
		k := 0
		for _, ifi := range allIfs(f) {
			b, isB := ifi.Cond.(*ssa.BinOp)
			if !isB || (b.Op != token.EQL && b.Op != token.NEQ) || len(ifi.Block().Succs) != 2 || !inCycle(f, ifi) {
				continue
			}
			isU64 := func(v ssa.Value) bool {
				bt, ok := v.Type().Underlying().(*types.Basic)
				return ok && bt.Kind() == types.Uint64
			}
			if !isU64(b.X) || !isU64(b.Y) {
				continue
			}
			// one operand is an element of a []uint64 indexed by the loop
			isElem := func(v ssa.Value) bool {
				if l, ok := loadOf(strip(v)); ok {
					if ia, isI := l.(*ssa.IndexAddr); isI {
						if sl, isS := ia.X.Type().Underlying().(*types.Slice); isS {
							if eb, isE := sl.Elem().Underlying().(*types.Basic); isE && eb.Kind() == types.Uint64 {
								return true
							}
						}
					}
				}
				return false
			}
			if !isElem(b.X) && !isElem(b.Y) {
				continue
			}
			n++
			k++
			eqSide := succOn(ifi, b.Op == token.EQL)
			neSide := succOn(ifi, b.Op != token.EQL)
			retConst := func(bb *ssa.BasicBlock) (bool, bool) {
				if len(bb.Instrs) == 0 {
					return false, false
				}
				rt, isR := bb.Instrs[len(bb.Instrs)-1].(*ssa.Return)
				if !isR || len(rt.Results) != 1 {
					return false, false
				}
				cst, isC := rt.Results[0].(*ssa.Const)
				if !isC || cst.Value == nil {
					return false, false
				}
				return cst.Value.String() == "true", true
			}
			ev, eok := retConst(eqSide)
			nv, nok := retConst(neSide)
			bad := (eok && !ev) || (nok && nv)
			r.Check(!bad, rule, fnName(f), fmt.Sprintf("membership-test#%d", k), c.InstrPos(ifi), "the scan of a node-id list answers true where an element equals the id it looks for (not where it differs)")
		}
	}
	if n == 0 {
		r.Unk(rule, strings.Join(pkgs, ","), "membership-tests", "-", "no boolean scan of a node-id list found")
	}
}

// applyFunctionsAlwaysNotify: a function of the storage layer that reports an outcome through the notificator under an id it was
// handed (an apply function) does so on every path that returns nil: the proposer is waiting for exactly one message, and a path
// without one turns an applied change into a timeout.
func applyFunctionsAlwaysNotify(c *Ctx, r *Report, rule string) {
	n := 0
	for _, f := range prodFuncs(c, "storage") {
		if f.Parent() != nil {
			continue
		}
		rs := f.Signature.Results()
		if rs.Len() != 1 || !isErrorType(rs.At(0).Type()) {
			continue
		}
		// the id parameter: a uuid-typed parameter
		var idp *ssa.Parameter
		for _, p := range f.Params {
			if typeName(p.Type()) == "UUID" {
				idp = p
				break
			}
		}
		if idp == nil {
			continue
		}
		resolved := map[*ssa.Return][]ssa.Value{}
		for _, rt := range returnsOf(f) {
			resolved[rt.Return] = rt.Results
		}
		// a Notify under the id — directly, or through a small reply helper that passes its own parameter on
		var notifiesWith func(g *ssa.Function, pi int, d int) bool
		notifiesWith = func(g *ssa.Function, pi int, d int) bool {
			if g == nil || !modLocal(g) || len(g.Blocks) == 0 || d > 2 || pi >= len(g.Params) {
				return false
			}
			hit := false
			eachInstr(g, func(y ssa.Instruction) {
				cc := asCall(y)
				if cc == nil || hit {
					return
				}
				for ai, a := range cc.Args {
					if through(a) != ssa.Value(g.Params[pi]) {
						continue
					}
					h := cc.StaticCallee()
					if (h != nil && h.Name() == "Notify" && recvTypeName(h) == "Notificator") || (cc.IsInvoke() && cc.Method.Name() == "Notify") {
						hit = true
					} else if notifiesWith(h, ai, d+1) {
						hit = true
					}
				}
			})
			return hit
		}
		isNotify := func(z ssa.Instruction) bool {
			cc := asCall(z)
			if cc == nil {
				return false
			}
			g := cc.StaticCallee()
			direct := (g != nil && g.Name() == "Notify" && recvTypeName(g) == "Notificator") || (cc.IsInvoke() && cc.Method.Name() == "Notify")
			for ai, a := range cc.Args {
				if through(a) == ssa.Value(idp) {
					if direct || notifiesWith(g, ai, 0) {
						return true
					}
				}
			}
			return false
		}
		has := false
		eachInstr(f, func(z ssa.Instruction) {
			if isNotify(z) {
				has = true
			}
		})
		// an apply function by role even if it has stopped notifying: it is handed the id a dispatcher parsed from a log entry
		if !has && !handedParsedNotificationId(c, f, idp) {
			continue
		}
		n++
		at, silent := reachesAvoidingFrom(f, f.Blocks[0].Instrs[0], func(z ssa.Instruction) bool {
			rt, isR := z.(*ssa.Return)
			if !isR {
				return false
			}
			rr := resolved[rt]
			return len(rr) == 1 && isNilConst(rr[0])
		}, func(z ssa.Instruction) bool { return isNotify(z) || instrNoReturn(z) })
		where := ""
		if silent && at != nil {
			where = " (the return at " + c.InstrPos(at) + " is reachable without one)"
		}
		r.Check(!silent, rule, fnName(f), "always-notifies", c.Pos(f.Pos()), "every `return nil` of this apply function lies behind a Notify under the id it was handed"+where)
	}
	if n == 0 {
		r.Unk(rule, "storage", "apply-functions", "-", "no function notifying under a handed id found")
	}
}

// handedParsedNotificationId: some call site of f passes, for parameter p, a uuid parsed from a message's notification id.
func handedParsedNotificationId(c *Ctx, f *ssa.Function, p *ssa.Parameter) bool {
	pi := -1
	for k, q := range f.Params {
		if q == p {
			pi = k
		}
	}
	hit := false
	for _, g := range prodFuncs(c, "storage") {
		eachInstr(g, func(z ssa.Instruction) {
			cc := asCall(z)
			if cc == nil || cc.StaticCallee() != f || pi >= len(cc.Args) {
				return
			}
			v := through(cc.Args[pi])
			if ex, ok := v.(*ssa.Extract); ok {
				if cl, isC := ex.Tuple.(*ssa.Call); isC && callID(&cl.Call).Name == "FromBytes" && len(cl.Call.Args) == 1 {
					if gc, isG := strip(cl.Call.Args[0]).(*ssa.Call); isG && strings.Contains(callID(&gc.Call).Name, "NotificationId") {
						hit = true
					}
				}
			}
		})
	}
	return hit
}

// waitGroupProtocol: in a function that fans work out to goroutines and collects through a channel — (a) every `go` of a
// function that calls Done on a WaitGroup is preceded, on every path from the function's entry, by an Add on it; (b) every such
// goroutine function calls Done on every path to its return (deferred); (c) a goroutine that closes a channel waits for the
// group first. Without (a) Wait can return early or Done panics on a negative counter; without (b) the closer never runs; without
// (c) a worker sends on a closed channel.
func waitGroupProtocol(c *Ctx, r *Report, rule string, pkgs ...string) {
	isWG := func(v ssa.Value) bool { return typeName(derefType(v.Type())) == "WaitGroup" }
	wgOp := func(z ssa.Instruction, name string) bool {
		var cc *ssa.CallCommon
		switch x := z.(type) {
		case *ssa.Call:
			cc = &x.Call
		case *ssa.Defer:
			cc = &x.Call
		}
		if cc == nil {
			return false
		}
		id := callID(cc)
		return id.Pkg == "sync" && id.Recv == "WaitGroup" && id.Name == name
	}
	callsOp := func(g *ssa.Function, name string) bool {
		hit := false
		if g == nil {
			return false
		}
		eachInstr(g, func(z ssa.Instruction) {
			if wgOp(z, name) {
				hit = true
			}
		})
		return hit
	}
	goFn := func(g *ssa.Go) *ssa.Function {
		if mc, ok := g.Call.Value.(*ssa.MakeClosure); ok {
			fn, _ := mc.Fn.(*ssa.Function)
			return fn
		}
		return g.Call.StaticCallee()
	}
	n := 0
	for _, f := range prodFuncs(c, pkgs...) {
		k := 0
		hasCloser, hasWorker := false, false
		eachInstr(f, func(i ssa.Instruction) {
			g, ok := i.(*ssa.Go)
			if !ok {
				return
			}
			fn := goFn(g)
			if fn == nil || len(fn.Blocks) == 0 {
				return
			}
			usesWG := false
			closes := false
			eachInstr(fn, func(z ssa.Instruction) {
				if cc := asCall(z); cc != nil {
					if bi, isB := cc.Value.(*ssa.Builtin); isB && bi.Name() == "close" {
						closes = true
					}
				}
			})
			for _, a := range g.Call.Args {
				if isWG(a) {
					usesWG = true
				}
			}
			if mc, isMC := g.Call.Value.(*ssa.MakeClosure); isMC {
				for _, bv := range mc.Bindings {
					if isWG(bv) || (bv.Type().String() == "**sync.WaitGroup") {
						usesWG = true
					}
				}
			}
			if !usesWG && !(closes && callsOp(f, "Add")) {
				return
			}
			n++
			k++
			if closes || callsOp(fn, "Wait") {
				hasCloser = hasCloser || (closes && callsOp(fn, "Wait"))
				// the closer: every close of a channel in it comes after the Wait
				_, early := reachesAvoidingFrom(fn, fn.Blocks[0].Instrs[0], func(z ssa.Instruction) bool {
					cc := asCall(z)
					if cc == nil {
						return false
					}
					bi, isB := cc.Value.(*ssa.Builtin)
					return isB && bi.Name() == "close"
				}, func(z ssa.Instruction) bool { return wgOp(z, "Wait") })
				r.Check(!early, rule, fnName(f), fmt.Sprintf("closer-waits#%d", k), c.InstrPos(g), "the goroutine that closes the result channel waits for the group first")
				return
			}
			// a worker: registered before it is started, and it signs off
			hasWorker = true
			_, unregistered := reachesAvoidingFrom(f, f.Blocks[0].Instrs[0], func(z ssa.Instruction) bool { return z == ssa.Instruction(g) }, func(z ssa.Instruction) bool { return wgOp(z, "Add") })
			// inside a loop the Add has to be in the same iteration: from the go statement round to itself without an Add
			if !unregistered && inCycle(f, g) {
				if _, again := reachesAvoiding(f, g, func(z ssa.Instruction) bool { return z == ssa.Instruction(g) }, func(z ssa.Instruction) bool { return wgOp(z, "Add") }); again {
					unregistered = true
				}
			}
			r.Check(!unregistered, rule, fnName(f), fmt.Sprintf("worker-registered#%d", k), c.InstrPos(g), "every start of a worker that is handed the WaitGroup is preceded by an Add (in the same iteration)")
			_, unsigned := reachesAvoidingFrom(fn, fn.Blocks[0].Instrs[0], func(z ssa.Instruction) bool { _, isR := z.(*ssa.Return); return isR }, func(z ssa.Instruction) bool { return wgOp(z, "Done") || instrNoReturn(z) })
			r.Check(!unsigned, rule, fnName(f), fmt.Sprintf("worker-signs-off#%d", k), c.InstrPos(g), "the worker calls Done (deferred or on every path) before it returns")
		})
		// a function that starts registered workers also starts a closer (or waits itself)
		_, _ = hasCloser, hasWorker // (whether a closer is needed depends on how the collector counts: not judged)
	}
	if n == 0 {
		r.Unk(rule, strings.Join(pkgs, ","), "fan-outs", "-", "no goroutine handed a WaitGroup found")
	}
}
