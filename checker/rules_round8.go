package main

// Rules written from the mutation sweep's survivors (DESIGN §16 "Mutation triage"): general obligations about how the hand-written
// code treats the error results of the calls it makes. They are run per package group and attached to the property whose
// statement the package implements.

import (
	"fmt"
	"go/token"
	"go/types"
	"sort"
	"strings"

	"golang.org/x/tools/go/ssa"
)

// errorDiscipline: for every call whose last result is an error and whose error is tested against nil in the calling function
// (closures included):
//
//	(a) err-dropped: on the side where the error is known non-nil, no path reaches a `return …, nil` of a function that returns an
//	    error without having looked at the error (returned it, passed it on, stored it, compared it with a sentinel) — a failure
//	    must not be turned into success silently;
//	(b) result-used-on-error: on that side, the other results of the failed call (pointers, interfaces, maps, slices) are not
//	    dereferenced — they are nil or meaningless there; an inverted test (`== nil` for `!= nil`) is caught by exactly this.
func errorDiscipline(c *Ctx, r *Report, rule string, pkgs ...string) {
	var fs []*ssa.Function
	for _, f := range prodFuncs(c, pkgs...) {
		fs = append(fs, f)
	}
	sort.Slice(fs, func(i, j int) bool { return fnName(fs[i]) < fnName(fs[j]) })
	n := 0
	for _, f := range fs {
		if len(f.Blocks) == 0 {
			continue
		}
		res := f.Signature.Results()
		returnsErr := res.Len() > 0 && isErrorType(res.At(res.Len()-1).Type())
		resolved := map[*ssa.Return][]ssa.Value{}
		for _, rt := range returnsOf(f) {
			resolved[rt.Return] = rt.Results
		}
		k := 0
		eachInstr(f, func(i ssa.Instruction) {
			cl, ok := i.(*ssa.Call)
			if !ok {
				return
			}
			sig := cl.Call.Signature()
			rs := sig.Results()
			if rs.Len() == 0 || !isErrorType(rs.At(rs.Len()-1).Type()) {
				return
			}
			var e ssa.Value
			var others []ssa.Value
			if rs.Len() == 1 {
				e = cl
			} else {
				for _, u := range *cl.Referrers() {
					if ex, isEx := u.(*ssa.Extract); isEx {
						if ex.Index == rs.Len()-1 {
							e = ex
						} else {
							switch ex.Type().Underlying().(type) {
							case *types.Pointer, *types.Interface, *types.Map, *types.Slice:
								others = append(others, ex)
							}
						}
					}
				}
			}
			if e == nil {
				return
			}
			usesE := func(z ssa.Instruction) bool {
				for _, op := range z.Operands(nil) {
					if op == nil || *op == nil {
						continue
					}
					if strip(*op) == e {
						return true
					}
				}
				return false
			}
			for _, ifi := range allIfs(f) {
				b, isB := ifi.Cond.(*ssa.BinOp)
				if !isB || (b.Op != token.NEQ && b.Op != token.EQL) {
					continue
				}
				if !((strip(b.X) == e && isNilConst(b.Y)) || (strip(b.Y) == e && isNilConst(b.X))) {
					continue
				}
				nonNil := succOn(ifi, b.Op == token.NEQ)
				other := succOn(ifi, b.Op != token.NEQ)
				if nonNil == other || len(nonNil.Instrs) == 0 {
					continue
				}
				n++
				k++
				callee := "a call"
				if g := cl.Call.StaticCallee(); g != nil {
					callee = g.Name()
				} else if cl.Call.IsInvoke() {
					callee = cl.Call.Method.Name()
				}
				// (a)
				if returnsErr {
					at, dropped := reachesAvoidingFrom(f, nonNil.Instrs[0], func(z ssa.Instruction) bool {
						rt, isR := z.(*ssa.Return)
						if !isR {
							return false
						}
						rr := resolved[rt]
						return len(rr) > 0 && !definitelyAnError(rr[len(rr)-1]) && !usesE(z) && strip(rr[len(rr)-1]) != e
					}, func(z ssa.Instruction) bool {
						if z == ssa.Instruction(b) || z == ssa.Instruction(ifi) {
							return false
						}
						return usesE(z) || instrNoReturn(z)
					})
					key := fmt.Sprintf("err-dropped#%d", k)
					if dropped {
						r.Bad(rule, fnName(f), key, c.InstrPos(cl), "the error of "+callee+" is known non-nil here and a path reaches the return at "+c.InstrPos(at)+" without having looked at it and without returning an error of its own: the failure is reported as whatever the rest of the function makes of it")
					} else {
						r.OK(rule, fnName(f), key, c.InstrPos(cl), "on the non-nil side of its test the error of "+callee+" is looked at (returned, passed on, compared) or replaced by a sentinel before any return")
					}
				}
				// (b)
				single := len(nonNil.Preds) == 1
				for oi, ov := range others {
					key := fmt.Sprintf("result-used-on-error#%d.%d", k, oi+1)
					bad := ""
					if single && ov.Referrers() != nil {
						for _, u := range *ov.Referrers() {
							if u.Block() == nil || !nonNil.Dominates(u.Block()) {
								continue
							}
							deref := false
							switch x := u.(type) {
							case *ssa.FieldAddr:
								deref = x.X == ov
							case *ssa.Field:
								deref = x.X == ov
							case *ssa.IndexAddr:
								deref = x.X == ov
							case *ssa.UnOp:
								deref = x.Op == token.MUL && x.X == ov
							case *ssa.Call:
								if x.Call.IsInvoke() {
									deref = x.Call.Value == ov
								} else if g := x.Call.StaticCallee(); g != nil && g.Signature.Recv() != nil && len(x.Call.Args) > 0 {
									deref = x.Call.Args[0] == ov
								}
							}
							if deref {
								bad = c.InstrPos(u)
							}
						}
					}
					if bad != "" {
						r.Bad(rule, fnName(f), key, c.InstrPos(cl), "a result of "+callee+" is dereferenced at "+bad+" on the side where that call's error is known non-nil (the test of the error is the wrong way round, or the result is used before the test)")
					} else {
						r.OK(rule, fnName(f), key, c.InstrPos(cl), "the other results of "+callee+" are not dereferenced where its error is known non-nil")
					}
				}
			}
			if e.Referrers() == nil || len(*e.Referrers()) == 0 {
				return
			}
			callee := "a call"
			if g := cl.Call.StaticCallee(); g != nil {
				callee = g.Name()
			} else if cl.Call.IsInvoke() {
				callee = cl.Call.Method.Name()
			}
			// classify the tests of e
			type edge struct {
				b  *ssa.BasicBlock
				sd int
			}
			nilTested := false
			failEdge := map[edge]bool{}  // edges taken only when e is non-nil (nil test) or equal to a sentinel
			equalEdge := map[edge]bool{} // the equal side of a sentinel comparison
			var cmps = map[ssa.Instruction]bool{}
			for _, ifi := range allIfs(f) {
				b, isB := ifi.Cond.(*ssa.BinOp)
				if !isB || (b.Op != token.NEQ && b.Op != token.EQL) || len(ifi.Block().Succs) != 2 {
					continue
				}
				var otherOp ssa.Value
				if strip(b.X) == e {
					otherOp = b.Y
				} else if strip(b.Y) == e {
					otherOp = b.X
				} else {
					continue
				}
				cmps[b] = true
				cmps[ifi] = true
				eqSide := 0
				if b.Op == token.NEQ {
					eqSide = 1
				}
				if isNilConst(otherOp) {
					nilTested = true
					failEdge[edge{ifi.Block(), 1 - eqSide}] = true
				} else if definitelyAnError(otherOp) {
					failEdge[edge{ifi.Block(), eqSide}] = true
					equalEdge[edge{ifi.Block(), eqSide}] = true
				}
			}
			if len(cmps) == 0 && !nilTested {
				// not compared at all: forwarded, wrapped or stored — other rules' business
			}
			start := cl.Block()
			startIdx := indexIn(start, cl) + 1
			search := func(skip func(edge) bool, stop func(ssa.Instruction) bool, target func(ssa.Instruction) bool) ssa.Instruction {
				var found ssa.Instruction
				seen := map[*ssa.BasicBlock]bool{}
				var walk func(b *ssa.BasicBlock, from int)
				walk = func(b *ssa.BasicBlock, from int) {
					if found != nil {
						return
					}
					for _, z := range b.Instrs[from:] {
						if target(z) {
							found = z
							return
						}
						if stop(z) || instrNoReturn(z) {
							return
						}
					}
					for sd, sb := range b.Succs {
						if skip(edge{b, sd}) || seen[sb] {
							continue
						}
						seen[sb] = true
						walk(sb, 0)
					}
				}
				walk(start, startIdx)
				return found
			}
			isRet := func(z ssa.Instruction, pred func(ssa.Value) bool) bool {
				rt, ok := z.(*ssa.Return)
				if !ok {
					return false
				}
				if !returnsErr {
					return true
				}
				rr := resolved[rt]
				return len(rr) > 0 && pred(rr[len(rr)-1])
			}
			n++
			k++
			// (c) an error that is never tested against nil is forwarded: no way to a return that does not carry it, except through
			// the equal side of a sentinel comparison
			if returnsErr && !nilTested && len(cmps) > 0 {
				at := search(func(ed edge) bool { return equalEdge[ed] }, func(z ssa.Instruction) bool { return !cmps[z] && usesE(z) }, func(z ssa.Instruction) bool {
					return isRet(z, func(v ssa.Value) bool { return strip(v) != e && !definitelyAnError(v) })
				})
				key := fmt.Sprintf("err-forwarded#%d", k)
				if at != nil {
					r.Bad(rule, fnName(f), key, c.InstrPos(cl), "the error of "+callee+" is only compared with a sentinel; on the other side a path reaches the return at "+c.InstrPos(at)+" without carrying it: every other failure is reported as success")
				} else {
					r.OK(rule, fnName(f), key, c.InstrPos(cl), "the error of "+callee+" is compared with a sentinel and otherwise forwarded")
				}
			}
			// (d) when the callee succeeds the caller can: assuming the error is nil, a return that is not a fixed error is reachable
			if len(cmps) > 0 {
				at := search(func(ed edge) bool { return failEdge[ed] }, func(z ssa.Instruction) bool { return false }, func(z ssa.Instruction) bool {
					// (coming round to the same call again — a receive loop — is going on normally)
					return z == ssa.Instruction(cl) || isRet(z, func(v ssa.Value) bool { return !definitelyAnError(v) })
				})
				key := fmt.Sprintf("success-reachable#%d", k)
				if at == nil {
					r.Bad(rule, fnName(f), key, c.InstrPos(cl), "when "+callee+" succeeds (its error is nil) every path of this function ends in a fixed error or never returns: a test of the error is the wrong way round")
				} else {
					r.OK(rule, fnName(f), key, c.InstrPos(cl), "when "+callee+" succeeds a return that is not a fixed error is reachable")
				}
			}
		})
	}
	if n == 0 {
		r.Unk(rule, strings.Join(pkgs, ","), "error-tests", "-", "no tested call error found")
	}
}

// definitelyAnError: the value is an error by construction — a package-level error variable, or the result of an error
// constructor.
func definitelyAnError(v ssa.Value) bool {
	v = strip(v)
	if g := globalOf(v); g != nil {
		return true
	}
	if cl, ok := v.(*ssa.Call); ok {
		id := callID(&cl.Call)
		switch {
		case id.Pkg == "errors" && id.Name == "New", id.Pkg == "fmt" && id.Name == "Errorf":
			return true
		case strings.HasSuffix(id.Pkg, "grpc/status") && (id.Name == "Error" || id.Name == "Errorf"):
			return true
		}
	}
	return false
}

func round8(c *Ctx, r *Report, prop string) {
	switch prop {
	case "C06":
		r.Rule("C06.R19", "the log store never turns a failed read or write into an answer: an error known non-nil is looked at before any `return …, nil`, and the results of a failed call are not used", 20)
		errorDiscipline(c, r, "C06.R19", "storage/wal")
		r.Rule("C06.R20", "nil tests and empty-collection guards of the log store are the right way round; iterators are positioned before use and closed on every path; finding exactly the entry asked for is not an error", 8)
		nilContradictions(c, r, "C06.R20", "storage/wal")
		emptyGuards(c, r, "C06.R20", "storage/wal")
		iteratorTypestate(c, r, "C06.R20", "storage/wal")
		foundEntryChecks(c, r, "C06.R20")
	case "C07":
		r.Rule("C07.R13", "a new vertex that is higher than the entry point becomes the entry point (the upper layers stay in use)", 1)
		entryPointPromotion(c, r, "C07.R13")
	case "C13":
		r.Rule("C13.R11", "loops that edit links level by level reach the bottom layer, and a removal takes the vertex out of its neighbours' edge sets on every level (the structure a quiescent index must have)", 2)
		levelLoopsThatEditLinksReachZero(c, r, "C13.R11")
		r.Rule("C13.R12", "every call of the pruner is handed the degree bound of the level it names (the per-level degree bound is one of the structural invariants)", 2)
		prunerBudgetsPerLevel(c, r, "C13.R12")
	case "C08":
		r.Rule("C08.R12", "the index never turns a failed read or write of a snapshot into success: an error known non-nil is looked at before any return that does not carry an error, results of a failed call are not used, and when a callee succeeds the caller can", 10)
		errorDiscipline(c, r, "C08.R12", "index")
		r.Rule("C08.R13", "nil tests and empty-collection guards of the index are the right way round", 1)
		nilContradictions(c, r, "C08.R13", "index")
	case "C11":
		r.Rule("C11.R12", "the API layer never turns a failure into success: an error known non-nil is looked at before any return that does not carry an error, results of a failed call are not used, and when a callee succeeds the caller can", 10)
		errorDiscipline(c, r, "C11.R12", "services", "cluster", "storage")
		r.Rule("C11.R13", "nil tests of the API and storage layers are the right way round", 1)
		nilContradictions(c, r, "C11.R13", "services", "cluster", "storage")
	case "C03":
		r.Rule("C03.R16", "nil tests and empty-collection guards of the raft glue are the right way round", 1)
		nilContradictions(c, r, "C03.R16", "storage/raft")
		emptyGuards(c, r, "C03.R16", "storage/raft", "storage")
		r.Rule("C03.R15", "the raft glue and the storage layer never turn a failure into success: an error known non-nil is looked at before any `return …, nil`, and the results of a failed call are not used", 20)
		errorDiscipline(c, r, "C03.R15", "storage/raft", "storage")
	}
}

// nilContradictions (Engler's "check-then-use"): a pointer that the function compares with nil is not dereferenced on the side
// where it is known to be nil — directly, through a method with a pointer receiver (protobuf-style nil-safe getters excepted),
// or in a closure created on that side that captures it. An inverted nil test is caught by exactly this.
func nilContradictions(c *Ctx, r *Report, rule string, pkgs ...string) {
	n := 0
	for _, f := range prodFuncs(c, pkgs...) {
		if len(f.Blocks) == 0 {
			continue
		}
		k := 0
		for _, ifi := range allIfs(f) {
			b, isB := ifi.Cond.(*ssa.BinOp)
			if !isB || (b.Op != token.NEQ && b.Op != token.EQL) || len(ifi.Block().Succs) != 2 {
				continue
			}
			var pv ssa.Value
			if isNilConst(b.Y) {
				pv = b.X
			} else if isNilConst(b.X) {
				pv = b.Y
			} else {
				continue
			}
			if _, isP := pv.Type().Underlying().(*types.Pointer); !isP {
				continue
			}
			canon := func(v ssa.Value) ssa.Value {
				v = through(v)
				if l, isL := loadOf(v); isL {
					if fv, isFV := l.(*ssa.FreeVar); isFV {
						return fv // the captured variable itself (its cell): every load of it is the same pointer
					}
				}
				return v
			}
			p := canon(pv)
			nilSide := succOn(ifi, b.Op == token.EQL)
			if nilSide == succOn(ifi, b.Op != token.EQL) {
				continue
			}
			n++
			k++
			if len(nilSide.Preds) != 1 {
				// the nil side is the fall-through shared with other paths: nothing is known there
				r.OKTrivial(rule, fnName(f), fmt.Sprintf("nil-side#%d", k), c.InstrPos(ifi), "the side where the pointer is nil joins other paths at once; nothing is dereferenced under that knowledge")
				continue
			}
			same := func(v ssa.Value) bool { return v != nil && canon(v) == p }
			derefIn := func(g *ssa.Function, is func(ssa.Value) bool, within func(*ssa.BasicBlock) bool) string {
				where := ""
				eachInstr(g, func(z ssa.Instruction) {
					if !within(z.Block()) {
						return
					}
					switch x := z.(type) {
					case *ssa.FieldAddr:
						if is(x.X) {
							where = c.InstrPos(z)
						}
					case *ssa.UnOp:
						if x.Op == token.MUL && is(x.X) {
							if _, isPtr := x.X.Type().Underlying().(*types.Pointer); isPtr {
								if _, isAlloc := x.X.(*ssa.Alloc); !isAlloc {
									if _, isFV := x.X.(*ssa.FreeVar); !isFV {
										where = c.InstrPos(z)
									}
								}
							}
						}
					case *ssa.Call:
						if h := x.Call.StaticCallee(); h != nil && h.Signature.Recv() != nil && len(x.Call.Args) > 0 && is(x.Call.Args[0]) && !strings.HasPrefix(h.Name(), "Get") {
							if _, ptrRecv := h.Signature.Recv().Type().Underlying().(*types.Pointer); ptrRecv {
								where = c.InstrPos(z)
							}
						}
					}
				})
				return where
			}
			bad := derefIn(f, same, func(bb *ssa.BasicBlock) bool { return nilSide.Dominates(bb) })
			if bad == "" {
				// closures created on the nil side that capture the pointer (or the cell that holds it)
				eachInstr(f, func(z ssa.Instruction) {
					mc, isMC := z.(*ssa.MakeClosure)
					if !isMC || !nilSide.Dominates(z.Block()) {
						return
					}
					g, _ := mc.Fn.(*ssa.Function)
					if g == nil {
						return
					}
					for bi, bv := range mc.Bindings {
						if bi >= len(g.FreeVars) {
							continue
						}
						fv := g.FreeVars[bi]
						direct := same(bv)
						cell := bv == p // the cell of a captured variable handed on to an inner closure
						if cell {
							direct = false
						}
						if al, isAl := bv.(*ssa.Alloc); isAl {
							if st := storesTo(f, al); len(st) == 1 && through(st[0].Val) == p {
								cell = true
							}
						}
						if !direct && !cell {
							continue
						}
						w := derefIn(g, func(v ssa.Value) bool {
							if v == nil {
								return false
							}
							if direct && v == ssa.Value(fv) {
								return true
							}
							if cell {
								if l, isL := loadOf(v); isL && l == ssa.Value(fv) {
									return true
								}
							}
							return false
						}, func(*ssa.BasicBlock) bool { return true })
						if w != "" {
							bad = w + " (in a closure created there)"
						}
					}
				})
			}
			key := fmt.Sprintf("nil-side#%d", k)
			if bad != "" {
				r.Bad(rule, fnName(f), key, c.InstrPos(ifi), "a pointer is dereferenced at "+bad+" on the side of this test where it is known to be nil: the test is the wrong way round (or the use belongs on the other side)")
			} else {
				r.OK(rule, fnName(f), key, c.InstrPos(ifi), "the pointer is not dereferenced on the side where this test finds it nil")
			}
		}
	}
	if n == 0 {
		r.Unk(rule, strings.Join(pkgs, ","), "nil-tests", "-", "no pointer nil test found")
	}
}

// emptyGuards: a test of a collection's length against a constant that lets one side leave the function without ever touching
// the collection (an early `return` for the empty case) takes that side only when the collection is empty.
func emptyGuards(c *Ctx, r *Report, rule string, pkgs ...string) {
	n := 0
	for _, f := range prodFuncs(c, pkgs...) {
		if len(f.Blocks) == 0 {
			continue
		}
		k := 0
		for _, ifi := range allIfs(f) {
			cond := ifi.Cond
			neg := false
			if u, isU := cond.(*ssa.UnOp); isU && u.Op == token.NOT {
				cond, neg = u.X, true
			}
			b, isB := cond.(*ssa.BinOp)
			if !isB || !(isCmp(b.Op) || b.Op == token.EQL || b.Op == token.NEQ) || len(ifi.Block().Succs) != 2 {
				continue
			}
			lenOf := func(v ssa.Value) ssa.Value {
				if cl, ok := strip(v).(*ssa.Call); ok {
					if bi, isBi := cl.Call.Value.(*ssa.Builtin); isBi && bi.Name() == "len" && len(cl.Call.Args) == 1 {
						switch cl.Call.Args[0].Type().Underlying().(type) {
						case *types.Slice, *types.Map:
							return through(cl.Call.Args[0])
						}
					}
				}
				return nil
			}
			var s ssa.Value
			var kc int64
			op := b.Op
			if s = lenOf(b.X); s != nil {
				v, ok := constInt(b.Y)
				if !ok {
					continue
				}
				kc = v
			} else if s = lenOf(b.Y); s != nil {
				v, ok := constInt(b.X)
				if !ok {
					continue
				}
				kc, op = v, flipCmp(op)
			} else {
				continue
			}
			if neg {
				op = negOp(op)
			}
			if kc > 1 {
				continue
			}
			// instructions that touch the collection's elements
			touches := func(z ssa.Instruction) bool {
				switch x := z.(type) {
				case *ssa.IndexAddr:
					return through(x.X) == s
				case *ssa.Index:
					return through(x.X) == s
				case *ssa.Range:
					return through(x.X) == s
				case *ssa.Lookup:
					return through(x.X) == s
				case *ssa.Slice:
					return through(x.X) == s
				}
				return false
			}
			reach := func(bb *ssa.BasicBlock) bool {
				if len(bb.Instrs) == 0 {
					return false
				}
				if touches(bb.Instrs[0]) {
					return true
				}
				_, ok := reachesAvoidingFrom(f, bb.Instrs[0], touches, func(ssa.Instruction) bool { return false })
				return ok
			}
			t, e := reach(ifi.Block().Succs[0]), reach(ifi.Block().Succs[1])
			if t == e {
				continue // not an early exit for the empty case
			}
			exitSide := 0
			if t {
				exitSide = 1
			}
			holds := func(l int64) bool {
				switch op {
				case token.EQL:
					return l == kc
				case token.NEQ:
					return l != kc
				case token.LSS:
					return l < kc
				case token.LEQ:
					return l <= kc
				case token.GTR:
					return l > kc
				case token.GEQ:
					return l >= kc
				}
				return false
			}
			sideFor := func(l int64) int {
				if holds(l) {
					return 0
				}
				return 1
			}
			n++
			k++
			key := fmt.Sprintf("empty-guard#%d", k)
			// with two or more elements the exit side must not be taken; with none it must be
			if sideFor(2) == exitSide || sideFor(0) != exitSide {
				r.Bad(rule, fnName(f), key, c.InstrPos(ifi), "this test lets a non-empty collection leave the function without its elements ever being looked at (or sends the empty one on): the guard for the empty case is the wrong way round")
			} else {
				r.OK(rule, fnName(f), key, c.InstrPos(ifi), "only the empty collection takes the side that never looks at the elements")
			}
		}
	}
	if n == 0 {
		r.Unk(rule, strings.Join(pkgs, ","), "empty-guards", "-", "no early exit for an empty collection found")
	}
}

// iteratorTypestate: a Badger iterator is positioned (Seek / Rewind) before it is asked Valid / Item / Next, and closed on every
// path out of the function that opened it (an iterator still open when its transaction is discarded panics inside Badger).
func iteratorTypestate(c *Ctx, r *Report, rule string, pkgs ...string) {
	n := 0
	onIt := func(z ssa.Instruction, it ssa.Value, names ...string) bool {
		var cc *ssa.CallCommon
		switch x := z.(type) {
		case *ssa.Call:
			cc = &x.Call
		case *ssa.Defer:
			cc = &x.Call
		}
		if cc == nil {
			return false
		}
		g := cc.StaticCallee()
		if g == nil || g.Signature.Recv() == nil || len(cc.Args) == 0 || through(cc.Args[0]) != it {
			return false
		}
		for _, nm := range names {
			if g.Name() == nm {
				return true
			}
		}
		return false
	}
	for _, f := range prodFuncs(c, pkgs...) {
		k := 0
		eachInstr(f, func(i ssa.Instruction) {
			cl, ok := i.(*ssa.Call)
			if !ok {
				return
			}
			id := callID(&cl.Call)
			if id.Name != "NewIterator" || !strings.Contains(id.Pkg, "badger") {
				return
			}
			n++
			k++
			it := ssa.Value(cl)
			_, unclosed := reachesAvoiding(f, cl, func(z ssa.Instruction) bool { _, isR := z.(*ssa.Return); return isR }, func(z ssa.Instruction) bool { return onIt(z, it, "Close") || instrNoReturn(z) })
			r.Check(!unclosed, rule, fnName(f), fmt.Sprintf("iterator-closed#%d", k), c.InstrPos(cl), "the iterator is closed (or its Close deferred) on every path from NewIterator to a return: Badger panics when a transaction is discarded with an iterator still open")
			_, unpositioned := reachesAvoiding(f, cl, func(z ssa.Instruction) bool { return onIt(z, it, "Valid", "Item", "Next", "ValidForPrefix") }, func(z ssa.Instruction) bool { return onIt(z, it, "Seek", "Rewind") })
			r.Check(!unpositioned, rule, fnName(f), fmt.Sprintf("iterator-positioned#%d", k), c.InstrPos(cl), "the iterator is positioned (Seek / Rewind) before it is asked Valid / Item / Next: an unpositioned iterator is invalid and the scan reads as empty")
		})
	}
	if n == 0 {
		r.Unk(rule, strings.Join(pkgs, ","), "iterators", "-", "no Badger iterator found")
	}
}

// foundEntryChecks: where the log store compares the index it was asked for with the index of the entry it found, the side
// taken when the two are equal is not an error return.
func foundEntryChecks(c *Ctx, r *Report, rule string) {
	n := 0
	for _, f := range prodFuncs(c, "storage/wal") {
		resolved := map[*ssa.Return][]ssa.Value{}
		for _, rt := range returnsOf(f) {
			resolved[rt.Return] = rt.Results
		}
		k := 0
		for _, ifi := range allIfs(f) {
			b, isB := ifi.Cond.(*ssa.BinOp)
			if !isB || !(isCmp(b.Op) || b.Op == token.EQL || b.Op == token.NEQ) || len(ifi.Block().Succs) != 2 {
				continue
			}
			isEntryIndex := func(v ssa.Value) bool {
				l, ok := loadOf(strip(v))
				if !ok {
					return false
				}
				fa, isF := l.(*ssa.FieldAddr)
				if !isF {
					return false
				}
				fv := structField(fa.X.Type(), fa.Field)
				return fv != nil && fv.Name() == "Index" && typeName(derefType(fa.X.Type())) == "Entry"
			}
			isParam := func(v ssa.Value) bool {
				_, ok := through(v).(*ssa.Parameter)
				return ok
			}
			if !((isEntryIndex(b.X) && isParam(b.Y)) || (isEntryIndex(b.Y) && isParam(b.X))) {
				continue
			}
			n++
			k++
			eqTrue := b.Op == token.EQL || b.Op == token.LEQ || b.Op == token.GEQ
			eqSide := succOn(ifi, eqTrue)
			bad := false
			if len(eqSide.Preds) == 1 && len(eqSide.Instrs) > 0 {
				if rt, isR := eqSide.Instrs[len(eqSide.Instrs)-1].(*ssa.Return); isR {
					rr := resolved[rt]
					if len(rr) > 0 && definitelyAnError(rr[len(rr)-1]) {
						bad = true
					}
				}
			}
			r.Check(!bad, rule, fnName(f), fmt.Sprintf("found-entry#%d", k), c.InstrPos(ifi), "when the entry found has exactly the index asked for, the call does not fail (the error side of this comparison is taken only when the two differ)")
		}
	}
	if n == 0 {
		r.Unk(rule, "storage/wal", "found-entry", "-", "no comparison of a requested index with a found entry's index")
	}
}

// entryPointPromotion: the insert path raises the entry point when the new vertex is higher: among the writes of the entry
// point in the function that links a new vertex level by level there is one that stores the new vertex, guarded — as the only
// way in — by a comparison of the new vertex's level with the loaded entry point's level whose writing side is `new > old`
// (or `>=`). Without it the upper layers are never entered again and the search degrades to a walk on the bottom layer.
func entryPointPromotion(c *Ctx, r *Report, rule string) {
	x := newIdx(c)
	fLevel := c.Field("index", "hnswVertex", "level")
	if len(x.missing) > 0 || fLevel == nil {
		r.Unk(rule, "index", "anchors", "-", "index anchors missing")
		return
	}
	levelOf := func(v ssa.Value) ssa.Value {
		v = strip(v)
		if l, ok := loadOf(v); ok {
			if fa, isF := l.(*ssa.FieldAddr); isF && structField(fa.X.Type(), fa.Field) == fLevel {
				return through(fa.X)
			}
		}
		if cl, ok := v.(*ssa.Call); ok {
			// an accessor: a method of the vertex returning its level field
			if g := cl.Call.StaticCallee(); g != nil && len(cl.Call.Args) == 1 && returnsField(g, fLevel) {
				return through(cl.Call.Args[0])
			}
		}
		return nil
	}
	n := 0
	for _, f := range x.funcs {
		if f.Parent() != nil {
			continue
		}
		var writes []*ssa.Call
		linksPerLevel := false
		eachInstr(f, func(i ssa.Instruction) {
			if x.isEntryWrite(i) {
				if cl, ok := i.(*ssa.Call); ok {
					writes = append(writes, cl)
				}
			}
			if cl, ok := i.(*ssa.Call); ok && inCycle(f, cl) {
				if g := cl.Call.StaticCallee(); g != nil && writesEdgeSet(x, g, 0, false) {
					linksPerLevel = true
				}
			}
		})
		// the insert path: writes the entry point and adds links in a loop, and registers a new vertex (allocates one through a
		// constructor) — Remove also writes the entry point and edits links, but creates nothing
		creates := false
		eachInstr(f, func(i ssa.Instruction) {
			if cl, ok := i.(*ssa.Call); ok {
				if g := cl.Call.StaticCallee(); g != nil && modLocal(g) && g.Signature.Results().Len() == 1 && namedOf(derefType(g.Signature.Results().At(0).Type())) == x.vertex && g.Signature.Recv() == nil {
					creates = true
				}
			}
		})
		if len(writes) == 0 || !linksPerLevel || !creates {
			continue
		}
		n++
		found, why := false, "no write of the entry point is guarded by a comparison of the new vertex's level with the entry point's"
		for _, w := range writes {
			a := w.Call.Args
			newV := through(a[len(a)-1])
			for _, ifi := range allIfs(f) {
				cm, ok := resolveCmp(ifi.Cond, 0)
				if !ok || cm.x.isLen || cm.y.isLen || len(ifi.Block().Succs) != 2 {
					continue
				}
				lx, ly := levelOf(cm.x.v), levelOf(cm.y.v)
				if lx == nil || ly == nil {
					continue
				}
				op := cm.op
				switch {
				case lx == newV && ly != newV:
				case ly == newV && lx != newV:
					op = flipCmp(op)
				default:
					continue
				}
				for sd := 0; sd < 2; sd++ {
					if !guardedBy(w.Block(), ifi, sd == 0) {
						continue
					}
					eo := op
					if sd == 1 {
						eo = negOp(op)
					}
					if eo == token.GTR || eo == token.GEQ {
						found = true
					} else {
						why = fmt.Sprintf("the write at %s is on the side where the new vertex's level is %s the entry point's", c.InstrPos(w), eo)
					}
				}
			}
		}
		if found {
			r.OK(rule, fnName(f), "entry-point-promotion", c.Pos(f.Pos()), "a higher new vertex becomes the entry point (the write is guarded by new level > entry level as its only way in)")
		} else {
			r.Bad(rule, fnName(f), "entry-point-promotion", c.Pos(f.Pos()), "a new vertex that is higher than the entry point must become the entry point: "+why)
		}
	}
	if n == 0 {
		r.Unk(rule, "index", "entry-point-promotion", "-", "the insert path (creates a vertex, links it in a loop, writes the entry point) was not found")
	}
}

// writesEdgeSet: g (or a callee, two levels) stores into / deletes from a map of the edge-set type; deleteOnly restricts to
// the builtin delete.
func writesEdgeSet(x *idxInfo, g *ssa.Function, depth int, deleteOnly bool) bool {
	if g == nil || len(g.Blocks) == 0 || depth > 2 || !modLocal(g) {
		return false
	}
	hit := false
	eachInstr(g, func(z ssa.Instruction) {
		if hit {
			return
		}
		if mu, ok := z.(*ssa.MapUpdate); ok && !deleteOnly && namedOf(mu.Map.Type()) == x.edgeSet {
			hit = true
		}
		if cc := asCall(z); cc != nil {
			if bi, isB := cc.Value.(*ssa.Builtin); isB && bi.Name() == "delete" && len(cc.Args) == 2 && namedOf(cc.Args[0].Type()) == x.edgeSet {
				hit = true
			} else if h := cc.StaticCallee(); h != nil && writesEdgeSet(x, h, depth+1, deleteOnly) {
				hit = true
			}
		}
	})
	return hit
}

// levelLoopsThatEditLinksReachZero: every loop of the index that counts a level down by one and edits links with it (hands the
// counter to a function that writes an edge set) runs while the level is >= 0; and the function that takes a vertex out of the
// store hands that vertex, in such a loop, to a function that deletes it from an edge set (the back links are removed on every
// level, bottom layer included).
func levelLoopsThatEditLinksReachZero(c *Ctx, r *Report, rule string) {
	x := newIdx(c)
	if len(x.missing) > 0 {
		r.Unk(rule, "index", "anchors", "-", "index anchors missing")
		return
	}
	n := 0
	for _, f := range x.funcs {
		if f.Parent() != nil {
			continue
		}
		k := 0
		seenPhi := map[*ssa.Phi]bool{}
		unlinks := false
		eachInstr(f, func(i ssa.Instruction) {
			cl, ok := i.(*ssa.Call)
			if !ok || !inCycle(f, cl) {
				return
			}
			g := cl.Call.StaticCallee()
			if g == nil || !writesEdgeSet(x, g, 0, false) {
				return
			}
			var ph *ssa.Phi
			for _, a := range cl.Call.Args {
				if p, isP := strip(a).(*ssa.Phi); isP && len(p.Edges) == 2 {
					if b, isB := p.Type().Underlying().(*types.Basic); isB && b.Info()&types.IsInteger != 0 {
						ph = p
					}
				}
			}
			if ph == nil {
				return
			}
			if writesEdgeSet(x, g, 0, true) {
				unlinks = true
			}
			if seenPhi[ph] {
				return
			}
			seenPhi[ph] = true
			down := false
			for _, ev := range ph.Edges {
				if bo, isB := ev.(*ssa.BinOp); isB && bo.X == ssa.Value(ph) {
					if kk, isK := constInt(bo.Y); isK && ((bo.Op == token.SUB && kk == 1) || (bo.Op == token.ADD && kk == -1)) {
						down = true
					}
				}
			}
			if !down {
				return
			}
			n++
			k++
			cont, okCont := "", false
			for _, u := range *ph.Referrers() {
				bo, isB := u.(*ssa.BinOp)
				if !isB || bo.Block() != ph.Block() || !isCmp(bo.Op) {
					continue
				}
				op, other := bo.Op, bo.Y
				if bo.Y == ssa.Value(ph) {
					op, other = flipCmp(bo.Op), bo.X
				}
				kk, isK := constInt(other)
				cont = fmt.Sprintf("level %s %v", op, other)
				if isK && ((op == token.GEQ && kk == 0) || (op == token.GTR && kk == -1)) {
					okCont = true
				}
			}
			r.Check(okCont, rule, fnName(f), fmt.Sprintf("link-editing-level-loop#%d", k), c.InstrPos(cl), "a loop that edits links level by level, counting down, runs while level >= 0 ("+cont+"): the bottom layer is the one every search ends on")
		})
		// the remover: takes a vertex out of a map of vertices
		removes := false
		eachInstr(f, func(i ssa.Instruction) {
			if cl, ok := i.(*ssa.Call); ok {
				if g := cl.Call.StaticCallee(); g != nil && modLocal(g) && deletesVertex(x, g) {
					removes = true
				}
			}
		})
		if removes {
			n++
			r.Check(unlinks, rule, fnName(f), "remover-unlinks", c.Pos(f.Pos()), "the function that takes a vertex out of the store removes it from its neighbours' edge sets in a per-level loop (a call, inside that loop, of a function that deletes from an edge set)")
		}
	}
	if n == 0 {
		r.Unk(rule, "index", "link-editing-level-loop", "-", "no level loop that edits links found")
	}
}

func deletesVertex(x *idxInfo, g *ssa.Function) bool {
	hit := false
	eachInstr(g, func(z ssa.Instruction) {
		if cc := asCall(z); cc != nil {
			if bi, isB := cc.Value.(*ssa.Builtin); isB && bi.Name() == "delete" && len(cc.Args) == 2 {
				if m, isM := cc.Args[0].Type().Underlying().(*types.Map); isM && namedOf(derefType(m.Elem())) == x.vertex {
					hit = true
				}
			}
		}
	})
	return hit
}

// prunerBudgetsPerLevel: every call of the pruner — on the insert path and on the removal path alike — is handed the degree
// bound of the level it names: mMax0 on the bottom layer, mMax above it (chosen inline or by a helper applied to the level).
func prunerBudgetsPerLevel(c *Ctx, r *Report, rule string) {
	x := newIdx(c)
	fMmax, fMmax0 := c.Field("index", "hnswConfig", "mMax"), c.Field("index", "hnswConfig", "mMax0")
	if len(x.missing) > 0 || fMmax == nil || fMmax0 == nil {
		r.Unk(rule, "index", "anchors", "-", "index anchors missing")
		return
	}
	// the pruner: a method of the index taking (vertex, int, int), returning nothing, that rebuilds an edge set
	isPrunerFn := func(g *ssa.Function) bool {
		if g == nil || g.Signature.Recv() == nil || namedOf(derefType(g.Signature.Recv().Type())) != x.hnsw || len(g.Params) != 4 {
			return false
		}
		if namedOf(derefType(g.Params[1].Type())) != x.vertex {
			return false
		}
		for _, p := range g.Params[2:] {
			if b, ok := p.Type().Underlying().(*types.Basic); !ok || b.Info()&types.IsInteger == 0 {
				return false
			}
		}
		return g.Signature.Results().Len() == 0 && writesEdgeSet(x, g, 0, false)
	}
	n := 0
	for _, f := range x.funcs {
		k := 0
		eachInstr(f, func(i ssa.Instruction) {
			cl, ok := i.(*ssa.Call)
			if !ok || !isPrunerFn(cl.Call.StaticCallee()) {
				return
			}
			n++
			k++
			K, L := cl.Call.Args[2], cl.Call.Args[3]
			ok2, why := budgetShapeAny(f, K, L, fMmax, fMmax0)
			r.Check(ok2, rule, fnName(f), fmt.Sprintf("pruner-budget#%d", k), c.InstrPos(cl), "the pruner is handed the degree bound of the level it names; "+why)
		})
	}
	if n == 0 {
		r.Unk(rule, "index", "pruner-budget", "-", "no call of the pruner found")
	}
}
