package main

import (
	"fmt"
	"go/ast"
	"go/constant"
	"go/token"
	"go/types"
	"strings"

	"golang.org/x/tools/go/packages"
	"golang.org/x/tools/go/types/typeutil"
)

// SA-GRAM: the tree of fixed-width / length-prefixed tokens a writer emits or a reader consumes.

type gtok struct {
	kind string // FIX | BYTES | REP | OPT | EARLYEXIT
	size int    // FIX: bytes; BYTES: constant length or -1 (length-prefixed)
	cls  string // FIX: i|u|f
	sub  []gtok
	pos  token.Pos
}

func (t gtok) String() string {
	switch t.kind {
	case "FIX":
		return fmt.Sprintf("FIX(%d,%s)", t.size, t.cls)
	case "BYTES":
		if t.size < 0 {
			return "BYTES(prefixed)"
		}
		return fmt.Sprintf("BYTES(%d)", t.size)
	case "REP", "OPT":
		var ss []string
		for _, s := range t.sub {
			ss = append(ss, s.String())
		}
		return t.kind + "{" + strings.Join(ss, " ") + "}"
	}
	return t.kind
}

func gramString(ts []gtok) string {
	var ss []string
	for _, t := range ts {
		ss = append(ss, t.String())
	}
	return strings.Join(ss, " ")
}

type gramCtx struct {
	c     *Ctx
	decls map[*types.Func]*ast.FuncDecl
	pkgOf map[*types.Func]*packages.Package
	stack map[*types.Func]bool
}

func newGram(c *Ctx) *gramCtx {
	g := &gramCtx{c: c, decls: map[*types.Func]*ast.FuncDecl{}, pkgOf: map[*types.Func]*packages.Package{}, stack: map[*types.Func]bool{}}
	for _, p := range c.Pkgs {
		for _, f := range p.Syntax {
			for _, d := range f.Decls {
				if fd, ok := d.(*ast.FuncDecl); ok && fd.Body != nil {
					if o, ok := p.TypesInfo.Defs[fd.Name].(*types.Func); ok {
						g.decls[o] = fd
						g.pkgOf[o] = p
					}
				}
			}
		}
	}
	return g
}

func isIOType(t types.Type, name string) bool {
	n := namedOf(t)
	return n != nil && n.Obj().Pkg() != nil && n.Obj().Pkg().Path() == "io" && n.Obj().Name() == name
}

// streamParam finds the io.Writer / io.Reader parameter object of a function declaration.
func (g *gramCtx) streamParam(fn *types.Func) (*types.Var, string) {
	sig := fn.Type().(*types.Signature)
	for i := 0; i < sig.Params().Len(); i++ {
		p := sig.Params().At(i)
		if isIOType(p.Type(), "Writer") {
			return p, "w"
		}
		if isIOType(p.Type(), "Reader") {
			return p, "r"
		}
	}
	return nil, ""
}

// Of extracts the grammar of fn.
func (g *gramCtx) Of(fn *types.Func) ([]gtok, error) { return g.ofCall(fn, nil, nil) }

func (g *gramCtx) ofCall(fn *types.Func, parent *gramWalk, call *ast.CallExpr) ([]gtok, error) {
	fd := g.decls[fn]
	if fd == nil {
		return nil, fmt.Errorf("no declaration for %s", fn.FullName())
	}
	sp, _ := g.streamParam(fn)
	if sp == nil {
		return nil, fmt.Errorf("%s has no io.Writer / io.Reader parameter", fn.FullName())
	}
	if g.stack[fn] {
		return nil, fmt.Errorf("recursive stream function %s", fn.FullName())
	}
	g.stack[fn] = true
	defer delete(g.stack, fn)
	w := &gramWalk{g: g, pkg: g.pkgOf[fn], info: g.pkgOf[fn].TypesInfo, stream: sp, body: fd.Body, fn: fn, parent: parent, argOf: map[types.Object]ast.Expr{}}
	if call != nil && fd.Type.Params != nil {
		k := 0
		for _, fld := range fd.Type.Params.List {
			for _, nm := range fld.Names {
				if k < len(call.Args) {
					if o := w.info.Defs[nm]; o != nil {
						w.argOf[o] = call.Args[k]
					}
				}
				k++
			}
		}
	}
	toks := w.block(fd.Body.List)
	return toks, w.err
}

type gramWalk struct {
	g      *gramCtx
	pkg    *packages.Package
	info   *types.Info
	stream *types.Var
	body   *ast.BlockStmt
	err    error
	fn     *types.Func
	// when this walk is an inlined callee: the caller's walk and the argument expression bound to each parameter
	parent *gramWalk
	argOf  map[types.Object]ast.Expr
	inLoop int
}

func (w *gramWalk) isStream(e ast.Expr) bool {
	id, ok := ast.Unparen(e).(*ast.Ident)
	return ok && w.info.Uses[id] == types.Object(w.stream)
}

func (w *gramWalk) block(list []ast.Stmt) []gtok {
	var out []gtok
	prevStart := -1 // where the tokens of the previous statement begin in out
	for _, s := range list {
		// `x, err := read(...)` followed by `if err != nil { if err == io.EOF { return nil }; return err }` is the split form of
		// `if x, err := read(...); err != nil { … }`: the clean end of stream is an early exit in front of that read
		if is, ok := s.(*ast.IfStmt); ok && is.Init == nil && prevStart >= 0 && prevStart < len(out) && mentionsErr(is.Cond) &&
			(eofExit(is.Body) || (mentionsEOF(is.Cond) && returnsNilError(is.Body))) && len(w.block(is.Body.List)) == 0 && is.Else == nil {
			tail := append([]gtok{}, out[prevStart:]...)
			out = append(out[:prevStart], gtok{kind: "EARLYEXIT", pos: is.Pos()})
			out = append(out, tail...)
			prevStart = -1
			continue
		}
		start := len(out)
		out = append(out, w.stmt(s)...)
		prevStart = -1
		if len(out) > start {
			switch s.(type) {
			case *ast.AssignStmt, *ast.DeclStmt:
				prevStart = start
			}
		}
	}
	return out
}

func returnsNilError(body *ast.BlockStmt) bool {
	found := false
	ast.Inspect(body, func(n ast.Node) bool {
		if _, isFn := n.(*ast.FuncLit); isFn {
			return false
		}
		if rs, ok := n.(*ast.ReturnStmt); ok && len(rs.Results) > 0 {
			if id, ok := rs.Results[len(rs.Results)-1].(*ast.Ident); ok && id.Name == "nil" {
				found = true
			}
		}
		return true
	})
	return found
}

func mentionsEOF(e ast.Expr) bool {
	found := false
	ast.Inspect(e, func(n ast.Node) bool {
		if se, ok := n.(*ast.SelectorExpr); ok && (se.Sel.Name == "EOF") {
			found = true
		}
		return true
	})
	return found
}

// eofExit: the body (of an error branch) contains `if err == io.EOF { … return nil }`
func eofExit(body *ast.BlockStmt) bool {
	found := false
	ast.Inspect(body, func(n ast.Node) bool {
		if is, ok := n.(*ast.IfStmt); ok && mentionsEOF(is.Cond) && returnsNilError(is.Body) {
			found = true
		}
		return true
	})
	return found
}

func (w *gramWalk) stmt(s ast.Stmt) []gtok {
	switch y := s.(type) {
	case *ast.BlockStmt:
		return w.block(y.List)
	case *ast.ExprStmt:
		return w.expr(y.X)
	case *ast.AssignStmt:
		var out []gtok
		for _, e := range y.Rhs {
			out = append(out, w.expr(e)...)
		}
		return out
	case *ast.DeclStmt:
		var out []gtok
		if gd, ok := y.Decl.(*ast.GenDecl); ok {
			for _, sp := range gd.Specs {
				if vs, ok := sp.(*ast.ValueSpec); ok {
					for _, e := range vs.Values {
						out = append(out, w.expr(e)...)
					}
				}
			}
		}
		return out
	case *ast.ReturnStmt:
		var out []gtok
		for _, e := range y.Results {
			out = append(out, w.expr(e)...)
		}
		return out
	case *ast.IfStmt:
		var init []gtok
		if y.Init != nil {
			init = w.stmt(y.Init)
		}
		init = append(init, w.expr(y.Cond)...)
		body := w.block(y.Body.List)
		var els []gtok
		if y.Else != nil {
			els = w.stmt(y.Else)
		}
		if len(body) == 0 && len(els) == 0 {
			if len(init) > 0 && eofExit(y.Body) || (len(init) > 0 && mentionsEOF(y.Cond) && returnsNilError(y.Body)) {
				// reader: a clean end of stream right here is a successful early exit
				return append([]gtok{{kind: "EARLYEXIT", pos: y.Pos()}}, init...)
			}
			if len(init) == 0 && returnsNilError(y.Body) && !mentionsErr(y.Cond) {
				return []gtok{{kind: "EARLYEXIT", pos: y.Pos()}}
			}
			return init
		}
		out := init
		if len(body) > 0 && len(els) == 0 && w.inLoop > 0 && !w.condOnParam(y.Cond) {
			// a filter inside a loop (`if live { write }` is the same as `if !live { continue }; write`): the body grammar
			// is unchanged; that count and body agree on the filter is a separate obligation (C08.R4)
			return append(out, body...)
		}
		if len(body) > 0 {
			out = append(out, gtok{kind: "OPT", sub: body, pos: y.Pos()})
		}
		if len(els) > 0 {
			out = append(out, gtok{kind: "OPT", sub: els, pos: y.Else.Pos()})
		}
		return out
	case *ast.ForStmt:
		var pre []gtok
		if y.Init != nil {
			pre = w.stmt(y.Init)
		}
		w.inLoop++
		body := w.block(y.Body.List)
		w.inLoop--
		if len(body) == 0 {
			return pre
		}
		return append(pre, gtok{kind: "REP", sub: body, pos: y.Pos()})
	case *ast.RangeStmt:
		w.inLoop++
		body := w.block(y.Body.List)
		w.inLoop--
		if len(body) == 0 {
			return nil
		}
		return []gtok{{kind: "REP", sub: body, pos: y.Pos()}}
	case *ast.SwitchStmt:
		var out []gtok
		if y.Init != nil {
			out = w.stmt(y.Init)
		}
		if y.Tag != nil {
			out = append(out, w.expr(y.Tag)...)
		}
		if len(out) > 0 {
			// `switch _, err := read(...); err { case nil: case io.EOF: return nil; default: return err }`
			for _, cc := range y.Body.List {
				if cl, ok := cc.(*ast.CaseClause); ok {
					for _, e := range cl.List {
						if mentionsEOF(e) && returnsNilError(&ast.BlockStmt{List: cl.Body}) {
							out = append([]gtok{{kind: "EARLYEXIT", pos: cl.Pos()}}, out...)
						}
					}
				}
			}
		}
		for _, cc := range y.Body.List {
			if cl, ok := cc.(*ast.CaseClause); ok {
				if b := w.block(cl.Body); len(b) > 0 {
					out = append(out, gtok{kind: "OPT", sub: b, pos: cl.Pos()})
				}
			}
		}
		return out
	case *ast.LabeledStmt:
		return w.stmt(y.Stmt)
	}
	return nil
}

// condOnParam: the condition mentions a parameter of the function being walked (a mode switch such as `header`).
func (w *gramWalk) condOnParam(e ast.Expr) bool {
	found := false
	sig := w.fn.Type().(*types.Signature)
	ast.Inspect(e, func(n ast.Node) bool {
		if id, ok := n.(*ast.Ident); ok {
			if o := w.info.Uses[id]; o != nil {
				for i := 0; i < sig.Params().Len(); i++ {
					if sig.Params().At(i) == o {
						found = true
					}
				}
			}
		}
		return true
	})
	return found
}

func mentionsErr(e ast.Expr) bool {
	found := false
	ast.Inspect(e, func(n ast.Node) bool {
		if id, ok := n.(*ast.Ident); ok && (id.Name == "err") {
			found = true
		}
		return true
	})
	return found
}

func basicClass(t types.Type) (int, string, bool) {
	b, ok := t.Underlying().(*types.Basic)
	if !ok {
		return 0, "", false
	}
	sz := map[types.BasicKind]int{types.Int8: 1, types.Uint8: 1, types.Int16: 2, types.Uint16: 2, types.Int32: 4, types.Uint32: 4, types.Int64: 8, types.Uint64: 8, types.Float32: 4, types.Float64: 8, types.Bool: 1}
	n, ok := sz[b.Kind()]
	if !ok {
		return 0, "", false
	}
	cls := "i"
	if b.Info()&types.IsUnsigned != 0 {
		cls = "u"
	}
	if b.Info()&types.IsFloat != 0 {
		cls = "f"
	}
	return n, cls, true
}

// lenOf: the byte length of the slice/string expression handed to Write/Read: constant or -1.
func (w *gramWalk) lenOf(e ast.Expr) int {
	e = ast.Unparen(e)
	if tv, ok := w.info.Types[e]; ok {
		if arr, ok := tv.Type.Underlying().(*types.Array); ok {
			return int(arr.Len())
		}
	}
	switch y := e.(type) {
	case *ast.CallExpr:
		// X.Bytes() on a fixed-size array type (uuid.UUID)
		if se, ok := y.Fun.(*ast.SelectorExpr); ok && se.Sel.Name == "Bytes" {
			if tv, ok := w.info.Types[se.X]; ok {
				if arr, ok := tv.Type.Underlying().(*types.Array); ok {
					return int(arr.Len())
				}
			}
		}
	case *ast.SliceExpr:
		if y.Low == nil && y.High == nil {
			return w.lenOf(y.X)
		}
	case *ast.Ident:
		// b := make([]byte, N)
		obj := w.info.Uses[y]
		if obj == nil {
			obj = w.info.Defs[y]
		}
		if a, ok := w.argOf[obj]; ok && w.parent != nil {
			return w.parent.lenOf(a) // a parameter: its length is the caller's argument's length
		}
		n := -1
		ast.Inspect(w.body, func(nd ast.Node) bool {
			as, ok := nd.(*ast.AssignStmt)
			if !ok {
				return true
			}
			for i, lh := range as.Lhs {
				id, ok := lh.(*ast.Ident)
				if !ok || i >= len(as.Rhs) {
					continue
				}
				if w.info.Defs[id] != obj && w.info.Uses[id] != obj {
					continue
				}
				if ce, ok := as.Rhs[i].(*ast.CallExpr); ok {
					if fid, ok := ce.Fun.(*ast.Ident); ok && fid.Name == "make" && len(ce.Args) >= 2 {
						if tv, ok := w.info.Types[ce.Args[1]]; ok && tv.Value != nil {
							if v, ok := constant.Int64Val(tv.Value); ok {
								n = int(v)
							}
						}
					}
				}
			}
			return true
		})
		return n
	}
	return -1
}

func (w *gramWalk) expr(e ast.Expr) []gtok {
	var out []gtok
	if e == nil {
		return nil
	}
	ast.Inspect(e, func(n ast.Node) bool {
		if _, isFn := n.(*ast.FuncLit); isFn {
			return false
		}
		call, ok := n.(*ast.CallExpr)
		if !ok {
			return true
		}
		callee, _ := typeutil.Callee(w.info, call).(*types.Func)
		if callee == nil {
			return true
		}
		pkg := ""
		if callee.Pkg() != nil {
			pkg = callee.Pkg().Path()
		}
		name := callee.Name()
		switch {
		case pkg == "encoding/binary" && (name == "Write" || name == "Read") && len(call.Args) == 3 && w.isStream(call.Args[0]):
			t := w.info.Types[call.Args[2]].Type
			if name == "Read" {
				if p, ok := t.Underlying().(*types.Pointer); ok {
					t = p.Elem()
				}
			}
			sz, cls, ok := basicClass(t)
			if !ok {
				w.err = fmt.Errorf("binary.%s of non-basic type %s at %s", name, t, w.g.c.Pos(call.Pos()))
				return false
			}
			out = append(out, gtok{kind: "FIX", size: sz, cls: cls, pos: call.Pos()})
			return false
		case pkg == "io" && (name == "WriteString") && len(call.Args) == 2 && w.isStream(call.Args[0]):
			out = append(out, gtok{kind: "BYTES", size: -1, pos: call.Pos()})
			return false
		case pkg == "io" && (name == "ReadFull" || name == "ReadAtLeast") && len(call.Args) >= 2 && w.isStream(call.Args[0]):
			out = append(out, gtok{kind: "BYTES", size: w.lenOf(call.Args[1]), pos: call.Pos()})
			return false
		case (name == "Write" || name == "Read") && len(call.Args) == 1:
			if se, ok := call.Fun.(*ast.SelectorExpr); ok && w.isStream(se.X) {
				out = append(out, gtok{kind: "BYTES", size: w.lenOf(call.Args[0]), pos: call.Pos()})
				return false
			}
		}
		// a module function receiving the stream
		passes := false
		for _, a := range call.Args {
			if w.isStream(a) {
				passes = true
			}
		}
		if passes && strings.HasPrefix(pkg, modPath) {
			sub, err := w.g.ofCall(callee, w, call)
			if err != nil {
				w.err = err
				return false
			}
			out = append(out, sub...)
			return false
		}
		if passes {
			w.err = &foreignStreamErr{callee.FullName(), w.g.c.Pos(call.Pos())}
		}
		return true
	})
	return out
}

// gramDiff compares two token lists; returns "" when they agree.
func (g *gramCtx) gramDiff(a, b []gtok, where string) string {
	n := len(a)
	if len(b) < n {
		n = len(b)
	}
	for i := 0; i < n; i++ {
		x, y := a[i], b[i]
		if x.kind != y.kind {
			return fmt.Sprintf("%s token %d: writer has %s (%s), reader has %s (%s)", where, i+1, x, g.c.Pos(x.pos), y, g.c.Pos(y.pos))
		}
		switch x.kind {
		case "FIX":
			if x.size != y.size || x.cls != y.cls {
				return fmt.Sprintf("%s token %d: writer emits %s (%s), reader consumes %s (%s)", where, i+1, x, g.c.Pos(x.pos), y, g.c.Pos(y.pos))
			}
		case "BYTES":
			if x.size != y.size {
				return fmt.Sprintf("%s token %d: writer emits %s (%s), reader consumes %s (%s)", where, i+1, x, g.c.Pos(x.pos), y, g.c.Pos(y.pos))
			}
			if x.size < 0 {
				// both length-prefixed: the token just before must be a FIX on both sides (already compared equal)
				if i == 0 || a[i-1].kind != "FIX" {
					return fmt.Sprintf("%s token %d: variable-length bytes without a length prefix (%s)", where, i+1, g.c.Pos(x.pos))
				}
			}
		case "REP", "OPT":
			if d := g.gramDiff(x.sub, y.sub, where+"/"+x.kind); d != "" {
				return d
			}
		}
	}
	if len(a) != len(b) {
		if len(a) > len(b) {
			return fmt.Sprintf("%s: writer emits %s (%s) that the reader never consumes", where, a[n], g.c.Pos(a[n].pos))
		}
		return fmt.Sprintf("%s: reader consumes %s (%s) that the writer never emits", where, b[n], g.c.Pos(b[n].pos))
	}
	return ""
}

// streamPairs discovers writer/reader pairs: methods with the same receiver type, one taking io.Writer and one
// io.Reader, whose names differ only in a Save/Load (save/load) stem; plus helper pairs (saveKV/loadKV).
func (g *gramCtx) streamPairs() [][2]*types.Func {
	type key struct {
		recv string
		stem string
	}
	ws, rs := map[key]*types.Func{}, map[key]*types.Func{}
	for fn := range g.decls {
		if g.pkgOf[fn] == nil || strings.HasSuffix(g.c.fileOf(g.decls[fn].Pos()), "_test.go") || strings.HasSuffix(g.c.fileOf(g.decls[fn].Pos()), ".pb.go") {
			continue
		}
		_, dir := g.streamParam(fn)
		if dir == "" {
			continue
		}
		sig := fn.Type().(*types.Signature)
		recv := ""
		if sig.Recv() != nil {
			recv = fn.Pkg().Path() + "." + typeName(sig.Recv().Type())
		} else {
			recv = fn.Pkg().Path()
		}
		n := strings.ToLower(fn.Name())
		stem := strings.NewReplacer("save", "#", "load", "#", "write", "#", "read", "#", "store", "#").Replace(n)
		if dir == "w" {
			ws[key{recv, stem}] = fn
		} else {
			rs[key{recv, stem}] = fn
		}
	}
	var out [][2]*types.Func
	for k, wf := range ws {
		if rf, ok := rs[k]; ok {
			out = append(out, [2]*types.Func{wf, rf})
		}
	}
	return out
}

// foreignStreamErr: the stream is handed to a function outside the module that is not one of the exact read/write
// primitives (a buffering or transforming wrapper): what it consumes from the stream is not bounded by the grammar.
type foreignStreamErr struct{ callee, pos string }

func (e *foreignStreamErr) Error() string {
	return "stream passed to unknown function " + e.callee + " at " + e.pos
}
