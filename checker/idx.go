package main

import (
	"go/token"
	"go/types"

	"golang.org/x/tools/go/ssa"
)

// Shared discovery for the HNSW index package.

type idxInfo struct {
	c          *Ctx
	edgeSet    *types.Named // hnswEdgeSet
	vertex     *types.Named // hnswVertex
	hnsw       *types.Named
	fDeleted   *types.Var
	fEntry     *types.Var
	fVector    *types.Var
	livePreds  map[*ssa.Function]bool // function -> "true means live"
	funcs      []*ssa.Function        // production functions of package index
	missing    []string
}

func newIdx(c *Ctx) *idxInfo {
	x := &idxInfo{c: c, livePreds: map[*ssa.Function]bool{}}
	x.edgeSet = c.Named("index", "hnswEdgeSet")
	x.vertex = c.Named("index", "hnswVertex")
	x.hnsw = c.Named("index", "Hnsw")
	x.fDeleted = c.Field("index", "hnswVertex", "deleted")
	x.fEntry = c.Field("index", "Hnsw", "entrypoint")
	x.fVector = c.Field("index", "hnswVertex", "vector")
	if x.edgeSet == nil {
		x.missing = append(x.missing, "type index.hnswEdgeSet")
	}
	if x.vertex == nil {
		x.missing = append(x.missing, "type index.hnswVertex")
	}
	if x.hnsw == nil {
		x.missing = append(x.missing, "type index.Hnsw")
	}
	if x.fDeleted == nil {
		x.missing = append(x.missing, "field hnswVertex.deleted")
	}
	if x.fEntry == nil {
		x.missing = append(x.missing, "field Hnsw.entrypoint")
	}
	if x.fVector == nil {
		x.missing = append(x.missing, "field hnswVertex.vector")
	}
	for _, f := range c.FuncsInPkg("index") {
		if c.isProd(f) {
			x.funcs = append(x.funcs, f)
		}
	}
	if len(x.missing) == 0 {
		// liveness predicates: methods on *hnswVertex returning a bool computed from the tombstone flag
		for _, f := range x.funcs {
			if f.Signature.Recv() == nil || namedOf(f.Signature.Recv().Type()) != x.vertex || len(f.Params) != 1 {
				continue
			}
			res := f.Signature.Results()
			if res.Len() != 1 || !types.Identical(res.At(0).Type(), types.Typ[types.Bool]) {
				continue
			}
			rets := returnsOf(f)
			if len(rets) != 1 {
				continue
			}
			if ok, live := x.flagCond(rets[0].Results[0], f.Params[0]); ok {
				x.livePreds[f] = live
			}
		}
	}
	return x
}

// isDeletedLoad: v is atomic.LoadUint32(&key.deleted) (or a plain load of key.deleted).
func (x *idxInfo) isDeletedLoad(v ssa.Value, key ssa.Value) bool {
	v = strip(v)
	if call, ok := v.(*ssa.Call); ok {
		id := callID(&call.Call)
		if id.Pkg == "sync/atomic" && id.Name == "LoadUint32" && len(call.Call.Args) == 1 {
			if fa, ok := call.Call.Args[0].(*ssa.FieldAddr); ok && structField(fa.X.Type(), fa.Field) == x.fDeleted {
				return key == nil || strip(fa.X) == key
			}
		}
	}
	if a, ok := loadOf(v); ok {
		if fa, ok := a.(*ssa.FieldAddr); ok && structField(fa.X.Type(), fa.Field) == x.fDeleted {
			return key == nil || strip(fa.X) == key
		}
	}
	return false
}

// flagCond: is v a boolean computed from key's tombstone flag? returns (isTest, trueMeansLive)
func (x *idxInfo) flagCond(v ssa.Value, key ssa.Value) (bool, bool) {
	switch b := v.(type) {
	case *ssa.BinOp:
		if b.Op != token.EQL && b.Op != token.NEQ {
			return false, false
		}
		var cst int64
		var other ssa.Value
		if n, ok := constInt(b.Y); ok {
			cst, other = n, b.X
		} else if n, ok := constInt(b.X); ok {
			cst, other = n, b.Y
		} else {
			return false, false
		}
		if !x.isDeletedLoad(other, key) {
			return false, false
		}
		if cst != 0 && cst != 1 {
			return false, false
		}
		live := (b.Op == token.EQL && cst == 0) || (b.Op == token.NEQ && cst == 1)
		return true, live
	case *ssa.UnOp:
		if b.Op == token.NOT {
			ok, live := x.flagCond(b.X, key)
			return ok, !live
		}
	case *ssa.Call:
		if f := b.Call.StaticCallee(); f != nil {
			if live, ok := x.livePreds[f]; ok && len(b.Call.Args) == 1 && strip(b.Call.Args[0]) == key {
				return true, live
			}
		}
	}
	return false, false
}

// edgeLoop is one `range` over a value of type hnswEdgeSet.
type edgeLoop struct {
	fn    *ssa.Function
	rng   *ssa.Range
	next  *ssa.Next
	key   *ssa.Extract // may be nil when the key is unused
	val   *ssa.Extract // may be nil
	order int
}

func (x *idxInfo) edgeLoops() []*edgeLoop {
	var out []*edgeLoop
	for _, f := range x.funcs {
		n := 0
		eachInstr(f, func(i ssa.Instruction) {
			rg, ok := i.(*ssa.Range)
			if !ok || namedOf(rg.X.Type()) != x.edgeSet {
				return
			}
			if _, isPtr := rg.X.Type().(*types.Pointer); isPtr {
				return
			}
			l := &edgeLoop{fn: f, rng: rg, order: n}
			n++
			for _, r := range *rg.Referrers() {
				if nx, ok := r.(*ssa.Next); ok {
					l.next = nx
					for _, rr := range *nx.Referrers() {
						if e, ok := rr.(*ssa.Extract); ok {
							if e.Index == 1 {
								l.key = e
							} else if e.Index == 2 {
								l.val = e
							}
						}
					}
				}
			}
			out = append(out, l)
		})
	}
	return out
}

// liveTests lists the Ifs of fn that test key's tombstone flag, with the polarity that means "live".
type liveTest struct {
	ifi  *ssa.If
	live bool
}

func (x *idxInfo) liveTests(fn *ssa.Function, key ssa.Value) []liveTest {
	var out []liveTest
	for _, ifi := range allIfs(fn) {
		if ok, live := x.flagCond(ifi.Cond, key); ok {
			out = append(out, liveTest{ifi, live})
		}
	}
	return out
}

func guardedLive(blk *ssa.BasicBlock, tests []liveTest) bool {
	for _, t := range tests {
		if guardedBy(blk, t.ifi, t.live) {
			return true
		}
	}
	return false
}

// isFlagUse: the use of key is part of a liveness test itself.
func (x *idxInfo) isFlagUse(u ssa.Instruction, key ssa.Value) bool {
	switch i := u.(type) {
	case *ssa.FieldAddr:
		if structField(i.X.Type(), i.Field) == x.fDeleted {
			// the address must only feed atomic loads / plain loads
			for _, r := range *i.Referrers() {
				switch rr := r.(type) {
				case *ssa.Call:
					id := callID(&rr.Call)
					if !(id.Pkg == "sync/atomic" && id.Name == "LoadUint32") {
						return false
					}
				case *ssa.UnOp:
				default:
					return false
				}
			}
			return true
		}
	case *ssa.Call:
		if f := i.Call.StaticCallee(); f != nil {
			if _, ok := x.livePreds[f]; ok {
				return true
			}
		}
	}
	return false
}
