package main

import (
	"bufio"
	"encoding/json"
	"fmt"
	"os"
	"path/filepath"
	"regexp"
	"sort"
	"strings"
)

type Verdict string

const (
	Discharged Verdict = "discharged"
	Violated   Verdict = "violated"
	Undecided  Verdict = "undecided"
	Known      Verdict = "known-finding"
)

// Obl is one obligation: a rule instantiated at one construct.
type Obl struct {
	Rule       string  `json:"rule"`
	Key        string  `json:"key"` // rule|function|construct — identity, never a line number
	Pos        string  `json:"pos"`
	Verdict    Verdict `json:"verdict"`
	Detail     string  `json:"detail,omitempty"`
	Nontrivial bool    `json:"needed_path_or_flow_argument"`
}

type need struct{ rule, sub, why string }

type Report struct {
	needs     []need
	Prop      string
	Obls      []Obl
	Info      []string          // information for the reviewer, never a verdict
	RuleText  map[string]string // rule id -> text
	MinCount  map[string]int    // vacuity guards
	Exception []string
	seen      map[string]int
}

func NewReport(prop string) *Report {
	return &Report{Prop: prop, RuleText: map[string]string{}, MinCount: map[string]int{}, seen: map[string]int{}}
}

func (r *Report) Rule(id, text string, min int) {
	r.RuleText[id] = text
	r.MinCount[id] = min
}

func (r *Report) add(rule, fn, construct, pos string, v Verdict, detail string, nontrivial bool) {
	key := rule + "|" + fn + "|" + construct
	// identical keys at distinct sites get an ordinal (stable under line shifts, in source order)
	r.seen[key]++
	if n := r.seen[key]; n > 1 {
		key = fmt.Sprintf("%s#%d", key, n)
	}
	r.Obls = append(r.Obls, Obl{Rule: rule, Key: key, Pos: pos, Verdict: v, Detail: detail, Nontrivial: nontrivial})
}

func (r *Report) OK(rule, fn, construct, pos, detail string) {
	r.add(rule, fn, construct, pos, Discharged, detail, true)
}
func (r *Report) OKTrivial(rule, fn, construct, pos, detail string) {
	r.add(rule, fn, construct, pos, Discharged, detail, false)
}
func (r *Report) Bad(rule, fn, construct, pos, detail string) {
	r.add(rule, fn, construct, pos, Violated, detail, true)
}
func (r *Report) Unk(rule, fn, construct, pos, detail string) {
	r.add(rule, fn, construct, pos, Undecided, detail, true)
}
func (r *Report) Check(ok bool, rule, fn, construct, pos, detail string) {
	if ok {
		r.OK(rule, fn, construct, pos, detail)
	} else {
		r.Bad(rule, fn, construct, pos, detail)
	}
}
func (r *Report) Infof(f string, a ...interface{}) { r.Info = append(r.Info, fmt.Sprintf(f, a...)) }

// Need asserts that the rule produced at least one obligation whose key contains sub (a vacuity guard by kind of
// construct rather than by count, so that merging or splitting sites in a refactoring does not trip it).
func (r *Report) Need(rule, sub, why string) { r.needs = append(r.needs, need{rule, sub, why}) }

// known findings ---------------------------------------------------------------

type knownFinding struct {
	Prop, Key, Text string
	used            bool
}

var kfRe = regexp.MustCompile(`^finding:\s+property=(\S+)\s+key=(\S+)\s+(.*)$`)

func loadKnown(path string) ([]*knownFinding, error) {
	f, err := os.Open(path)
	if err != nil {
		if os.IsNotExist(err) {
			return nil, nil
		}
		return nil, err
	}
	defer f.Close()
	var out []*knownFinding
	sc := bufio.NewScanner(f)
	sc.Buffer(make([]byte, 1<<20), 1<<20)
	for sc.Scan() {
		l := strings.TrimSpace(sc.Text())
		if m := kfRe.FindStringSubmatch(l); m != nil {
			out = append(out, &knownFinding{Prop: m[1], Key: m[2], Text: m[3]})
		}
	}
	return out, sc.Err()
}

// Finish applies vacuity guards and known findings, prints verdict lines, writes evidence, returns exit code.
func (r *Report) Finish(c *Ctx, tier string, seed int, wall float64, verifDir, outDir string, extra map[string]interface{}) int {
	// vacuity guards
	counts := map[string]int{}
	for _, o := range r.Obls {
		counts[o.Rule]++
	}
	var rules []string
	for id := range r.RuleText {
		rules = append(rules, id)
	}
	sort.Strings(rules)
	for _, id := range rules {
		if counts[id] < r.MinCount[id] {
			r.add(id, "-", "anchor-lost", "-", Undecided,
				fmt.Sprintf("rule matched %d construct(s), at least %d were confirmed by hand on the reference tree: the anchor of this rule is lost", counts[id], r.MinCount[id]), true)
		}
	}
	for _, nd := range r.needs {
		found := false
		for _, o := range r.Obls {
			if o.Rule == nd.rule && strings.Contains(o.Key, nd.sub) {
				found = true
			}
		}
		if !found {
			r.add(nd.rule, "-", "anchor-lost-"+nd.sub, "-", Undecided, "no obligation of kind `"+nd.sub+"` was produced: "+nd.why, true)
		}
	}
	known, err := loadKnown(filepath.Join(verifDir, "known_findings.txt"))
	if err != nil {
		fmt.Println("cannot read known_findings.txt:", err)
		return 2
	}
	replayDir := filepath.Join(outDir, "evidence", "replay")
	os.MkdirAll(replayDir, 0o755)
	// clean old replay files of this property
	if old, _ := filepath.Glob(filepath.Join(replayDir, r.Prop+"-*.json")); old != nil {
		for _, f := range old {
			os.Remove(f)
		}
	}
	viol := 0
	nKnown := 0
	for i := range r.Obls {
		o := &r.Obls[i]
		if o.Verdict != Violated && o.Verdict != Undecided {
			continue
		}
		matched := false
		for _, k := range known {
			if k.Prop == r.Prop && k.Key == o.Key {
				matched = true
				k.used = true
				fmt.Printf("KNOWN-FINDING: property=%s %s — %s [%s]\n", r.Prop, o.Key, k.Text, o.Pos)
				o.Detail = o.Detail + " (recorded finding: " + k.Text + ")"
				o.Verdict = Known
				nKnown++
				break
			}
		}
		if matched {
			continue
		}
		viol++
		name := fmt.Sprintf("%s-%s.json", r.Prop, sanitize(o.Key))
		path := filepath.Join(replayDir, name)
		b, _ := json.MarshalIndent(map[string]interface{}{
			"property": r.Prop, "obligation": o, "rule_text": r.RuleText[o.Rule],
			"how_to_replay": fmt.Sprintf("cd /verif && ./check.sh %s quick   # re-evaluates every obligation of the property on /repo's current tree; this one is keyed %q", r.Prop, o.Key),
		}, "", " ")
		os.WriteFile(path, b, 0o644)
		fmt.Printf("%s: %s %s at %s: %s\n", strings.ToUpper(string(o.Verdict)), o.Rule, o.Key, o.Pos, o.Detail)
		fmt.Printf("VIOLATION property=%s replay=%s\n", r.Prop, path)
	}
	for _, k := range known {
		if k.Prop == r.Prop && !k.used {
			// a recorded finding that no longer shows: information only (it may have been repaired).
			r.Infof("recorded finding no longer reported (repaired or construct renamed): %s", k.Key)
			fmt.Printf("note: recorded finding not reproduced on this tree: %s\n", k.Key)
		}
	}
	// evidence
	nObl, nDis, nNon := 0, 0, 0
	distinct := map[string]bool{}
	for _, o := range r.Obls {
		nObl++
		if o.Verdict == Discharged {
			nDis++
		}
		if o.Nontrivial && !distinct[o.Key] {
			distinct[o.Key] = true
			nNon++
		}
	}
	var expl []string
	for _, id := range rules {
		expl = append(expl, fmt.Sprintf("%s (%d obligations; at least %d expected): %s", id, counts[id], r.MinCount[id], r.RuleText[id]))
	}
	samples := make([]interface{}, 0, len(r.Obls))
	for _, o := range r.Obls {
		samples = append(samples, o)
	}
	cov := map[string]interface{}{
		"evaluations":         nObl,
		"distinct_nontrivial": nNon,
		"rule":                "one obligation per (rule, function, construct) discovered in /repo's current source; non-trivial = discharge needed a dominance / path / value-flow / lock-set / effect argument rather than a presence test; keys are distinct by construction",
		"samples":             samples,
		"obligations":         nObl,
		"discharged":          nDis,
		"known_findings":      nKnown,
		"checker_cmd":         fmt.Sprintf("/verif/bin/anndbcheck -repo %s -prop %s -tier %s", c.Repo, r.Prop, tier),
		"trusted_base": []string{"go/types, go/ssa and callgraph/vta of golang.org/x/tools v0.29.0", "the rule templates in /verif/checker (Go source)",
			"documented contracts of etcd/raft v3.3.19, Badger v2.0.3, container/heap, sort, sync, encoding/binary as read in the pinned sources"},
		"explanation":      strings.Join(expl, "\n"),
		"analysed":         c.Stats,
		"information":      r.Info,
		"alpha_normalised": c.Normalised,
		"exceptions":       r.Exception,
		"exhaustive":       true,
		"rules_applied":    rules,
	}
	for k, v := range extra {
		cov[k] = v
	}
	ev := map[string]interface{}{
		"property_id": r.Prop, "tier": tier, "seed": seed, "level": "other",
		"coverage": cov,
		"assumptions": []string{"the Go toolchain's type checker and the SSA builder represent the program faithfully",
			"third-party libraries honour the contracts cited by each rule", "structural necessary conditions are decided, not run-time behaviour (see level_note)"},
		"wall_s": wall, "violations": viol,
	}
	b, _ := json.MarshalIndent(ev, "", " ")
	evp := filepath.Join(outDir, "evidence", r.Prop+".json")
	if err := os.WriteFile(evp, b, 0o644); err != nil {
		fmt.Println("cannot write evidence:", err)
		return 2
	}
	fmt.Printf("%s %s: %d obligations, %d discharged, %d known findings, %d violations (%.1fs)\n", r.Prop, tier, nObl, nDis, nKnown, viol, wall)
	if viol > 0 {
		return 1
	}
	return 0
}

func sanitize(s string) string {
	var b strings.Builder
	for _, r := range s {
		switch {
		case r >= 'a' && r <= 'z', r >= 'A' && r <= 'Z', r >= '0' && r <= '9', r == '.', r == '-', r == '_':
			b.WriteRune(r)
		default:
			b.WriteByte('_')
		}
	}
	out := b.String()
	if len(out) > 150 {
		out = out[:150]
	}
	return out
}
