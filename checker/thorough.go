package main

// runThoroughExtras is filled in by sens.go (sensitivity suite) when present.
var thoroughHook func(c *Ctx, r *Report, prop, repo string, extra map[string]interface{})

func runThoroughExtras(c *Ctx, r *Report, prop, repo string, extra map[string]interface{}) {
	if thoroughHook != nil {
		thoroughHook(c, r, prop, repo, extra)
	}
}
