package main

import (
	"fmt"
	"go/token"
	"go/types"
	"strings"

	"golang.org/x/tools/go/ssa"
)

func init() { register("C01", checkC01) }

func checkC01(c *Ctx, r *Report, tier string) {
	round5(c, r, "C01")
	round6(c, r, "C01")
	round7(c, r, "C01")
	x := newIdx(c)
	r.Rule("C01.R1", "tombstone filter on every candidate flow: every use of the key of a `range` over an edge set is the liveness test itself or is dominated by the live successor of such a test on the same key (exception: a key collected only to be unlinked/re-pruned)", 4)
	r.Rule("C01.R2", "entry point hand-over: on the branch where the loaded entry point equals the removed vertex every path to return passes a CAS/Store into the entry point", 1)
	r.Rule("C01.R3", "score/vertex pairing: NewPriorityQueueItem(p, v) has p = Distance(query, v.vector) for the same SSA value v (or p is the stored edge weight of v in the same map iteration); Search fills Id/Metadata/Score of one slot from one popped item", 4)
	r.Rule("C01.R4", "order and bound: SearchResult.Less is a strict < on Score of i vs j; every success return of a search function is a sorted slice truncated to min(k,len), a delegation, or a min(k,·)-sized slice filled from the far end of a max-queue", 5)
	r.Rule("C01.R5", "a vertex enters the beam at most once: in a traversal that is re-entered, the push of a range key is guarded by the absent polarity of a lookup in a visited set that the key is then added to", 2)
	if len(x.missing) > 0 {
		r.Unk("C01.R1", "index", "anchors", "-", "cannot resolve: "+strings.Join(x.missing, ", "))
		return
	}
	c01R1(c, r, x)
	c01R2(c, r, x)
	c01R3(c, r, x)
	c01R4(c, r, x)
	c01R5(c, r, x)
	r.Rule("C01.R6", "a rejected operation leaves nothing behind in the graph: no error return of an index method is reachable after a call that links, unlinks, prunes, stores or removes", 3)
	noMutationBeforeErrorReturn(c, r, "C01.R6")
	r.Rule("C01.R7", "a restored index answers from restored state only: every successful return of the index reader is preceded by a reset of maps, counters and entry point; the visited sets of the traversals are seeded before the traversal", 5)
	restoreResetsBeforeSuccess(c, r, "C01.R7")
	visitedSetSeeded(c, r, "C01.R7")
	r.Rule("C01.R8", "current metadata: the apply functions never hand one map, allocated before a loop over batch items and written inside it, to the index for several items", 1)
	sharedMapAcrossItems(c, r, "C01.R8")
	r.Rule("C01.R9", "a failed partition is not an empty one, and current metadata stays current: every stream Recv error other than io.EOF is reported by the search workers; a metadata merge copies old entries only for absent keys", 2)
	recvErrorsHandled(c, r, "C01.R9", "storage")
	metadataMergeKeepsNewKeys(c, r, "C01.R9")
}

// --- R1 ---------------------------------------------------------------------------

func c01R1(c *Ctx, r *Report, x *idxInfo) {
	for _, l := range x.edgeLoops() {
		fn := fnName(l.fn)
		cons := fmt.Sprintf("range-edge-set#%d", l.order)
		pos := c.Pos(l.rng.Pos())
		if l.key == nil {
			r.OKTrivial("C01.R1", fn, cons, pos, "key unused")
			continue
		}
		tests := x.liveTests(l.fn, l.key)
		var bad []string
		onlyCollected := true // exception shape: every unguarded use stores the key into a slice element
		var collected []ssa.Value
		eachConvUse(l.key, func(u ssa.Instruction, via ssa.Value) {
			switch u.(type) {
			case *ssa.DebugRef, *ssa.ChangeType, *ssa.Convert, *ssa.MakeInterface, *ssa.ChangeInterface:
				return // followed transitively
			}
			if x.isFlagUse(u, l.key) {
				return
			}
			if ph, ok := u.(*ssa.Phi); ok {
				// the assignment happens in the predecessor block(s) feeding this edge
				for i, e := range ph.Edges {
					if e != via {
						continue
					}
					pb := ph.Block().Preds[i]
					if !guardedLive(pb, tests) {
						bad = append(bad, fmt.Sprintf("flows into φ %s (%s) from an unfiltered block at %s", ph.Name(), ph.Comment, c.Pos(ph.Pos())))
						onlyCollected = false
					}
				}
				return
			}
			if guardedLive(u.Block(), tests) {
				return
			}
			if st, ok := u.(*ssa.Store); ok && st.Val == via {
				if ia, ok := st.Addr.(*ssa.IndexAddr); ok {
					if fam := appendFamily(ia.X); len(fam) > 0 {
						// `s = append(s, key)`: the element goes into the slice that the append chain builds
						collected = append(collected, fam...)
					} else {
						collected = append(collected, ia.X)
					}
					bad = append(bad, "stored into a slice element at "+c.InstrPos(u))
					return
				}
			}
			onlyCollected = false
			bad = append(bad, fmt.Sprintf("%T at %s", u, c.InstrPos(u)))
		})
		if len(bad) == 0 {
			r.OK("C01.R1", fn, cons, pos, fmt.Sprintf("%d liveness test(s) on the key; every other use is on the live side", len(tests)))
			continue
		}
		if onlyCollected && len(collected) > 0 && collectedOnlyUnlinked(c, x, l.fn, collected) {
			r.Exception = append(r.Exception, fmt.Sprintf("C01.R1 %s %s: keys are collected into a slice whose elements are only receivers of edge-removal / re-pruning calls (unlinking from a tombstoned vertex is harmless)", fn, cons))
			r.OK("C01.R1", fn, cons, pos, "exception: collected only to be unlinked and re-pruned")
			continue
		}
		r.Bad("C01.R1", fn, cons, pos, "unfiltered use of an edge-set key: "+strings.Join(bad, "; "))
	}
}

// collectedOnlyUnlinked: every element read back from the slice(s) is used only as receiver/argument of
// module functions whose effect on the index is removing an edge or re-pruning (no queue push, no return,
// no entry-point store).
func collectedOnlyUnlinked(c *Ctx, x *idxInfo, fn *ssa.Function, slices []ssa.Value) bool {
	ok := true
	for _, s := range slices {
		if s.Referrers() == nil {
			continue
		}
		for _, ref := range *s.Referrers() {
			switch u := ref.(type) {
			case *ssa.IndexAddr:
				// element address: stores are the collection; loads give an element
				for _, rr := range *u.Referrers() {
					if ld, isLoad := rr.(*ssa.UnOp); isLoad && ld.Op == token.MUL {
						if !elementOnlyUnlinked(x, ld) {
							ok = false
						}
					}
				}
			case *ssa.Range:
				for _, rr := range *u.Referrers() {
					if nx, isNext := rr.(*ssa.Next); isNext {
						for _, e := range *nx.Referrers() {
							if ex, isEx := e.(*ssa.Extract); isEx && ex.Index == 2 {
								if !elementOnlyUnlinked(x, ex) {
									ok = false
								}
							}
						}
					}
				}
			case *ssa.Call:
				if id := callID(&u.Call); id.Pkg == "builtin" && (id.Name == "len" || id.Name == "cap") {
					continue
				}
				if inFamily(slices, u) {
					continue // the next append of the same chain
				}
				ok = false
			case *ssa.Phi:
				if !inFamily(slices, u) {
					ok = false
				}
			case *ssa.Slice:
				if !inFamily(slices, u) {
					ok = false
				}
			case *ssa.DebugRef:
			default:
				ok = false
			}
		}
	}
	return ok
}

func elementOnlyUnlinked(x *idxInfo, el ssa.Value) bool {
	if el.Referrers() == nil {
		return true
	}
	for _, r := range *el.Referrers() {
		switch u := r.(type) {
		case *ssa.Call:
			f := u.Call.StaticCallee()
			if f == nil || !modLocal(f) {
				return false
			}
			// allowed callees: they must not push el into a queue or store it anywhere but edge maps: we
			// accept functions that only delete from / rebuild the edge sets of their receiver.
			if !removesOrPrunes(x, f) {
				return false
			}
		case *ssa.DebugRef:
		default:
			return false
		}
	}
	return true
}

// removesOrPrunes: f deletes from an edge set, or replaces an edge set via a filtered rebuild (its own
// edge loops all satisfy the liveness rule — checked separately by R1 since they are edge loops too).
func removesOrPrunes(x *idxInfo, f *ssa.Function) bool {
	del := false
	eachInstr(f, func(i ssa.Instruction) {
		if cc := plainCall(i); cc != nil {
			if id := callID(cc); id.Pkg == "builtin" && id.Name == "delete" && len(cc.Args) > 0 && namedOf(cc.Args[0].Type()) == x.edgeSet {
				del = true
			}
		}
	})
	if del {
		return true
	}
	// a pruning function: contains an edge loop and ends by replacing the edge set (calls a function storing into edges)
	hasLoop := false
	for _, l := range x.edgeLoops() {
		if l.fn == f {
			hasLoop = true
		}
	}
	return hasLoop
}

// --- R2 ---------------------------------------------------------------------------

func (x *idxInfo) isEntryAddr(v ssa.Value) bool {
	fa, ok := v.(*ssa.FieldAddr)
	return ok && structField(fa.X.Type(), fa.Field) == x.fEntry
}

func (x *idxInfo) isEntryLoad(v ssa.Value) bool {
	v = strip(v)
	if call, ok := v.(*ssa.Call); ok {
		id := callID(&call.Call)
		if id.Pkg == "sync/atomic" && id.Name == "LoadPointer" && len(call.Call.Args) == 1 {
			return x.isEntryAddr(call.Call.Args[0])
		}
	}
	return false
}

func (x *idxInfo) isEntryWrite(i ssa.Instruction) bool {
	if cc := plainCall(i); cc != nil {
		id := callID(cc)
		if id.Pkg == "sync/atomic" && (id.Name == "CompareAndSwapPointer" || id.Name == "StorePointer" || id.Name == "SwapPointer") && len(cc.Args) > 0 {
			return x.isEntryAddr(cc.Args[0])
		}
	}
	return false
}

func c01R2(c *Ctx, r *Report, x *idxInfo) {
	for _, f := range x.funcs {
		// functions that tombstone (directly or through a callee, depth 2), and helpers they hand the removed vertex to
		if !x.tombstones(f, 2) {
			called := false
			for _, g := range x.funcs {
				if g == f || !x.tombstones(g, 2) {
					continue
				}
				eachInstr(g, func(i ssa.Instruction) {
					if cc := asCall(i); cc != nil && cc.StaticCallee() == f {
						called = true
					}
				})
			}
			if !called {
				continue
			}
		}
		for _, ifi := range allIfs(f) {
			b, ok := ifi.Cond.(*ssa.BinOp)
			if !ok || (b.Op != token.EQL && b.Op != token.NEQ) || isNilConst(b.X) || isNilConst(b.Y) || len(ifi.Block().Succs) != 2 {
				continue
			}
			if !(x.isEntryLoad(b.X) || x.isEntryLoad(b.Y)) {
				continue
			}
			// start of the branch on which the entry point IS the removed vertex (`!=` with an early return is the same test)
			tb := succOn(ifi, b.Op == token.EQL)
			if len(tb.Instrs) == 0 {
				continue
			}
			// search from the first instruction of the true branch to a return avoiding entry writes
			var first ssa.Instruction = tb.Instrs[0]
			hit, found := reachesAvoidingFrom(f, first, func(i ssa.Instruction) bool { _, ok := i.(*ssa.Return); return ok }, x.isEntryWrite)
			if found {
				r.Bad("C01.R2", fnName(f), "entrypoint==removed", c.Pos(ifi.Cond.Pos()), "a path from the `entry point is the removed vertex` branch reaches return at "+c.InstrPos(hit)+" without writing the entry point")
			} else {
				r.OK("C01.R2", fnName(f), "entrypoint==removed", c.Pos(ifi.Cond.Pos()), "every path writes the entry point")
			}
		}
	}
}

// reachesAvoidingFrom is reachesAvoiding but starting AT instruction `first` (inclusive).
func reachesAvoidingFrom(fn *ssa.Function, first ssa.Instruction, target, avoid func(ssa.Instruction) bool) (ssa.Instruction, bool) {
	if target(first) {
		return first, true
	}
	if avoid(first) || instrNoReturn(first) {
		return nil, false
	}
	return reachesAvoiding(fn, first, target, avoid)
}

func (x *idxInfo) tombstones(f *ssa.Function, depth int) bool {
	found := false
	eachInstr(f, func(i ssa.Instruction) {
		cc := plainCall(i)
		if cc == nil {
			return
		}
		id := callID(cc)
		if id.Pkg == "sync/atomic" && id.Name == "StoreUint32" && len(cc.Args) == 2 {
			if fa, ok := cc.Args[0].(*ssa.FieldAddr); ok && structField(fa.X.Type(), fa.Field) == x.fDeleted {
				found = true
			}
		}
		if depth > 0 {
			if g := cc.StaticCallee(); g != nil && modLocal(g) && x.tombstones(g, depth-1) {
				found = true
			}
		}
	})
	return found
}

// --- R3 ---------------------------------------------------------------------------

func isVectorType(t types.Type) bool {
	n := namedOf(t)
	return n != nil && n.Obj().Name() == "Vector" && n.Obj().Pkg() != nil && strings.HasSuffix(n.Obj().Pkg().Path(), "anndb/math")
}

func c01R3(c *Ctx, r *Report, x *idxInfo) {
	for _, f := range x.funcs {
		n := 0
		eachInstr(f, func(i ssa.Instruction) {
			call, ok := i.(*ssa.Call)
			if !ok {
				return
			}
			id := callID(&call.Call)
			if !(id.Name == "NewPriorityQueueItem" && strings.HasSuffix(id.Pkg, "anndb/utils")) || len(call.Call.Args) != 2 {
				return
			}
			n++
			cons := fmt.Sprintf("NewPriorityQueueItem#%d", n)
			p, v := call.Call.Args[0], strip(call.Call.Args[1])
			if namedOf(v.Type()) != x.vertex {
				r.OKTrivial("C01.R3", fnName(f), cons, c.Pos(call.Pos()), "value is not a vertex")
				return
			}
			// (b) stored edge weight of the same map iteration
			if pe, ok := p.(*ssa.Extract); ok {
				if ve, ok := v.(*ssa.Extract); ok && pe.Tuple == ve.Tuple && pe.Index == 2 && ve.Index == 1 {
					if nx, ok := pe.Tuple.(*ssa.Next); ok && !nx.IsString {
						r.OK("C01.R3", fnName(f), cons, c.Pos(call.Pos()), "priority is the edge weight stored with this neighbour")
						return
					}
				}
			}
			// (a) p = Distance(query, v.vector)
			dc, ok := p.(*ssa.Call)
			if !ok || callID(&dc.Call).Name != "Distance" {
				r.Bad("C01.R3", fnName(f), cons, c.Pos(call.Pos()), "priority is not a Distance(query, vertex.vector) call nor the stored edge weight: "+p.String())
				return
			}
			args := explicitArgs(&dc.Call)
			if len(args) != 2 {
				r.Unk("C01.R3", fnName(f), cons, c.Pos(call.Pos()), "Distance with unexpected arity")
				return
			}
			isVecOf := func(a ssa.Value) bool {
				if l, ok := loadOf(a); ok {
					if fa, ok := l.(*ssa.FieldAddr); ok && structField(fa.X.Type(), fa.Field) == x.fVector && strip(fa.X) == v {
						return true
					}
				}
				return false
			}
			isQuery := func(a ssa.Value) bool {
				_, ok := a.(*ssa.Parameter)
				return ok && isVectorType(a.Type())
			}
			if (isVecOf(args[1]) && isQuery(args[0])) || (isVecOf(args[0]) && isQuery(args[1])) {
				r.OK("C01.R3", fnName(f), cons, c.Pos(call.Pos()), "priority = Distance(query parameter, vector of the same vertex value)")
			} else {
				r.Bad("C01.R3", fnName(f), cons, c.Pos(call.Pos()), fmt.Sprintf("queue item pairs vertex %s with a distance computed from other operands (%s, %s)", v.Name(), args[0], args[1]))
			}
		})
	}
	// Search result slot: Id / Metadata / Score from one popped item
	sri := c.Named("index", "SearchResultItem")
	if sri == nil {
		r.Unk("C01.R3", "index", "SearchResultItem", "-", "type not found")
		return
	}
	for _, f := range x.funcs {
		// group stores by block
		type slot struct {
			id, meta, score ssa.Value
			pos             token.Pos
		}
		slots := map[*ssa.BasicBlock]*slot{}
		eachInstr(f, func(i ssa.Instruction) {
			st, ok := i.(*ssa.Store)
			if !ok {
				return
			}
			fa, ok := st.Addr.(*ssa.FieldAddr)
			if !ok || namedOf(fa.X.Type()) != sri {
				return
			}
			fld := structField(fa.X.Type(), fa.Field)
			s := slots[i.Block()]
			if s == nil {
				s = &slot{pos: st.Pos()}
				slots[i.Block()] = s
			}
			switch fld.Name() {
			case "Id":
				s.id = st.Val
			case "Metadata":
				s.meta = st.Val
			case "Score":
				s.score = st.Val
			}
		})
		for _, s := range slots {
			itemOf := func(v ssa.Value, vertexMethod string) ssa.Value {
				// v = vertexMethod( TypeAssert( Value(item) ) )
				cl, ok := v.(*ssa.Call)
				if !ok {
					return nil
				}
				if vertexMethod != "" {
					if callID(&cl.Call).Name != vertexMethod || len(cl.Call.Args) < 1 {
						return nil
					}
					in := strip(cl.Call.Args[0])
					cl, ok = in.(*ssa.Call)
					if !ok || callID(&cl.Call).Name != "Value" {
						return nil
					}
				} else if callID(&cl.Call).Name != "Priority" {
					return nil
				}
				return recvArg(&cl.Call)
			}
			a, b, d := itemOf(s.id, "Id"), itemOf(s.meta, "Metadata"), itemOf(s.score, "")
			cons := "result-slot"
			if a == nil || b == nil || d == nil {
				r.Unk("C01.R3", fnName(f), cons, c.Pos(s.pos), "result slot is not filled as Id=item.Value().Id(), Metadata=item.Value().Metadata(), Score=item.Priority(): shape not recognised")
				continue
			}
			if a == b && b == d {
				r.OK("C01.R3", fnName(f), cons, c.Pos(s.pos), "Id, Metadata and Score come from the same queue item "+a.Name())
			} else {
				r.Bad("C01.R3", fnName(f), cons, c.Pos(s.pos), "Id, Metadata and Score of one result slot come from different queue items")
			}
		}
	}
}

// --- R4 ---------------------------------------------------------------------------

func c01R4(c *Ctx, r *Report, x *idxInfo) {
	srT := c.Named("index", "SearchResult")
	if srT == nil {
		r.Unk("C01.R4", "index", "SearchResult", "-", "type not found")
		return
	}
	// Less
	less := c.Method("index", "SearchResult", "Less")
	if less == nil {
		r.Unk("C01.R4", "index.SearchResult", "Less", "-", "method not found")
	} else {
		ok, why := lessIsStrict(less, "Score", token.LSS)
		r.Check(ok, "C01.R4", fnName(less), "Less", c.Pos(less.Pos()), why)
	}
	// search functions: module production functions returning (SearchResult, error)
	for _, f := range c.ModFuncs {
		if !c.isProd(f) || f.Parent() != nil {
			continue
		}
		res := f.Signature.Results()
		if res.Len() != 2 || namedOf(res.At(0).Type()) != srT || !isErrorType(res.At(1).Type()) {
			continue
		}
		kParam := kParameter(f)
		n := 0
		for _, ret := range returnsOf(f) {
			if !isNilConst(ret.Results[1]) && !isDelegation(ret, srT) {
				continue // error return
			}
			n++
			cons := fmt.Sprintf("success-return#%d", n)
			pos := c.Pos(ret.Pos())
			v := ret.Results[0]
			if isNilConst(v) {
				// (nil, nil): an explicit nil result with a nil error – the receive-from-closed-channel case is C09's
				r.Bad("C01.R4", fnName(f), cons, pos, "returns a nil result with a nil error")
				continue
			}
			switch y := v.(type) {
			case *ssa.Extract, *ssa.Call:
				if isDelegation(ret, srT) {
					r.OKTrivial("C01.R4", fnName(f), cons, pos, "delegates to another search function")
					continue
				}
				// a sort-and-cut helper: handed the merged list and k, returns the sorted prefix
				if cl, isCall := v.(*ssa.Call); isCall && cl.Call.StaticCallee() != nil && modLocal(cl.Call.StaticCallee()) && len(cl.Call.StaticCallee().Blocks) > 0 {
					if ok, why := sortCutHelper(c, cl.Call.StaticCallee(), srT); ok {
						r.OK("C01.R4", fnName(f), cons, pos, "the result is cut by "+cl.Call.StaticCallee().Name()+": "+why)
						continue
					} else if why != "" {
						r.Bad("C01.R4", fnName(f), cons, pos, "the result is cut by "+cl.Call.StaticCallee().Name()+": "+why)
						continue
					}
				}
				r.Unk("C01.R4", fnName(f), cons, pos, "result comes from a call that is not a search function")
			case *ssa.Slice:
				if al, ok := y.X.(*ssa.Alloc); ok && al.Comment == "makeslice" {
					if arr, ok := al.Type().(*types.Pointer).Elem().Underlying().(*types.Array); ok && arr.Len() == 0 {
						r.OKTrivial("C01.R4", fnName(f), cons, pos, "empty result")
						continue
					}
				}
				// sorted and truncated
				if y.High == nil || !minBounded(y.High, kParam, y.X) {
					r.Bad("C01.R4", fnName(f), cons, pos, "returned re-slice is not bounded by min(k, len(result))")
					continue
				}
				sorted := false
				eachInstr(f, func(i ssa.Instruction) {
					if cc := plainCall(i); cc != nil {
						id := callID(cc)
						if id.Pkg == "sort" && (id.Name == "Sort" || id.Name == "Stable") && len(cc.Args) == 1 && strip(cc.Args[0]) == y.X && instrDominates(i, ret.Return) {
							sorted = true
						}
					}
				})
				if !sorted {
					r.Bad("C01.R4", fnName(f), cons, pos, "no sort.Sort of the returned slice dominates this return")
					continue
				}
				r.OK("C01.R4", fnName(f), cons, pos, "sort.Sort dominates; high bound is min(k, len)")
			case *ssa.MakeSlice:
				if n, ok := constInt(y.Len); ok && n == 0 {
					r.OKTrivial("C01.R4", fnName(f), cons, pos, "empty result")
					continue
				}
				if !minBounded(y.Len, kParam, nil) {
					r.Bad("C01.R4", fnName(f), cons, pos, "result length is not bounded by min(k, ·)")
					continue
				}
				ok, why := filledInOrder(c, f, y)
				if ok {
					r.OK("C01.R4", fnName(f), cons, pos, why)
				} else {
					r.Bad("C01.R4", fnName(f), cons, pos, why)
				}
			default:
				r.Unk("C01.R4", fnName(f), cons, pos, fmt.Sprintf("success return of a search function has an unrecognised shape (%T)", v))
			}
		}
	}
}

// sortCutHelper: h takes a SearchResult and a k and returns, on every path, the prefix of that list bounded by
// min(k, len) with a sort of the list dominating the return. ("", false) when h does not have that signature.
func sortCutHelper(c *Ctx, h *ssa.Function, srT *types.Named) (bool, string) {
	res := h.Signature.Results()
	if res.Len() != 1 || namedOf(res.At(0).Type()) != srT {
		return false, ""
	}
	var list, kp *ssa.Parameter
	for _, p := range h.Params {
		if namedOf(p.Type()) == srT {
			list = p
		}
		if b, ok := p.Type().Underlying().(*types.Basic); ok && b.Info()&types.IsInteger != 0 {
			kp = p
		}
	}
	if list == nil || kp == nil {
		return false, ""
	}
	for _, rt := range returnsOf(h) {
		sl, ok := rt.Results[0].(*ssa.Slice)
		if !ok {
			return false, "a return of the helper is not a prefix of its list argument (the list may be returned unsorted or uncut)"
		}
		if strip(sl.X) != ssa.Value(list) {
			return false, "the helper returns a slice of something other than its list argument"
		}
		if sl.High == nil || !minBounded(sl.High, kp, sl.X) {
			return false, "the helper's re-slice is not bounded by min(k, len(list))"
		}
		sorted := false
		eachInstr(h, func(i ssa.Instruction) {
			if cc := plainCall(i); cc != nil {
				id := callID(cc)
				if id.Pkg == "sort" && (id.Name == "Sort" || id.Name == "Stable") && len(cc.Args) == 1 && strip(cc.Args[0]) == ssa.Value(list) && instrDominates(i, rt.Return) {
					sorted = true
				}
			}
		})
		if !sorted {
			return false, "no sort of the list dominates a return of the helper"
		}
	}
	return true, "sort dominates every return; high bound is min(k, len)"
}

func isErrorType(t types.Type) bool {
	return types.Identical(t, types.Universe.Lookup("error").Type())
}

func kParameter(f *ssa.Function) *ssa.Parameter {
	for _, p := range f.Params {
		if p.Name() == "k" {
			return p
		}
	}
	// fall back: the only unsigned integer parameter
	var cand *ssa.Parameter
	for _, p := range f.Params {
		if b, ok := p.Type().Underlying().(*types.Basic); ok && b.Info()&types.IsUnsigned != 0 {
			if cand != nil {
				return nil
			}
			cand = p
		}
	}
	return cand
}

func isDelegation(ret *Ret, srT *types.Named) bool {
	if len(ret.Results) != 2 {
		return false
	}
	e0, ok0 := ret.Results[0].(*ssa.Extract)
	e1, ok1 := ret.Results[1].(*ssa.Extract)
	if ok0 && ok1 && e0.Tuple == e1.Tuple && e0.Index == 0 && e1.Index == 1 {
		if call, ok := e0.Tuple.(*ssa.Call); ok {
			sig := call.Call.Signature()
			return sig.Results().Len() == 2 && namedOf(sig.Results().At(0).Type()) == srT
		}
	}
	return false
}

// minBounded: v = MinInt(a, b) / min(a, b) where one operand derives from k and (if of != nil) the other is len(of).
func minBounded(v ssa.Value, k *ssa.Parameter, of ssa.Value) bool {
	v = strip(v)
	call, ok := v.(*ssa.Call)
	if !ok {
		return false
	}
	id := callID(&call.Call)
	isMin := (id.Name == "MinInt" && strings.HasSuffix(id.Pkg, "anndb/math")) || (id.Pkg == "builtin" && id.Name == "min")
	margs := flatArgs(&call.Call)
	if !isMin || len(margs) != 2 {
		return false
	}
	fromK := func(a ssa.Value) bool { return k != nil && strip(a) == ssa.Value(k) }
	isLen := func(a ssa.Value) bool {
		a = strip(a)
		cl, ok := a.(*ssa.Call)
		if !ok {
			return false
		}
		cid := callID(&cl.Call)
		if cid.Pkg == "builtin" && cid.Name == "len" {
			return of == nil || cl.Call.Args[0] == of
		}
		return of == nil && cid.Name == "Len"
	}
	a, b := margs[0], margs[1]
	return (fromK(a) && isLen(b)) || (fromK(b) && isLen(a))
}

// lessIsStrict: fn(i, j) returns recv[i].<field> <op> recv[j].<field>
func lessIsStrict(fn *ssa.Function, field string, op token.Token) (bool, string) {
	rets := returnsOf(fn)
	if len(rets) != 1 || len(fn.Params) != 3 {
		return false, "unexpected shape of Less"
	}
	b, ok := rets[0].Results[0].(*ssa.BinOp)
	if !ok {
		return false, "Less does not return a comparison"
	}
	idxOf := func(v ssa.Value) ssa.Value {
		a, ok := loadOf(v)
		if !ok {
			return nil
		}
		fa, ok := a.(*ssa.FieldAddr)
		if !ok {
			return nil
		}
		f := structField(fa.X.Type(), fa.Field)
		if f == nil || f.Name() != field {
			return nil
		}
		a = fa.X
		if l, isL := loadOf(a); isL { // slice of pointers: element loaded first
			a = l
		}
		if ia, ok := a.(*ssa.IndexAddr); ok && strip(ia.X) == ssa.Value(fn.Params[0]) {
			return ia.Index
		}
		return nil
	}
	l, rr := idxOf(b.X), idxOf(b.Y)
	if l == nil || rr == nil {
		return false, "Less does not compare the " + field + " of two elements"
	}
	i, j := ssa.Value(fn.Params[1]), ssa.Value(fn.Params[2])
	o := b.Op
	if l == j && rr == i {
		// flipped operands: a > b  written as  b < a
		switch o {
		case token.LSS:
			o = token.GTR
		case token.GTR:
			o = token.LSS
		case token.LEQ:
			o = token.GEQ
		case token.GEQ:
			o = token.LEQ
		}
		l, rr = i, j
	}
	if l != i || rr != j {
		return false, "Less does not compare element i with element j"
	}
	if o != op {
		return false, fmt.Sprintf("Less uses %s where a strict %s is required", o, op)
	}
	return true, fmt.Sprintf("strict %s on %s of i vs j", op, field)
}

// filledInOrder: the slice is filled at a descending index from a max-queue (or ascending from a min-queue).
func filledInOrder(c *Ctx, f *ssa.Function, ms *ssa.MakeSlice) (bool, string) {
	// find stores into IndexAddr(ms, idx)
	var idx ssa.Value
	var popRecv ssa.Value
	for _, ref := range *ms.Referrers() {
		ia, ok := ref.(*ssa.IndexAddr)
		if !ok {
			continue
		}
		idx = ia.Index
		// find a Pop() in the same block
		for _, in := range ia.Block().Instrs {
			if cl, ok := in.(*ssa.Call); ok && callID(&cl.Call).Name == "Pop" {
				popRecv = recvArg(&cl.Call)
			}
		}
	}
	if idx == nil || popRecv == nil {
		return false, "cannot find the fill loop (index store + Pop) of the result slice"
	}
	// the index is a loop counter, or an expression in which the counter occurs once with coefficient +1 / -1
	// (result[n-1-filled] with an ascending counter fills downwards)
	var ph *ssa.Phi
	var sign func(v ssa.Value, d int) int
	sign = func(v ssa.Value, d int) int {
		v = strip(v)
		if p, isP := v.(*ssa.Phi); isP && len(p.Edges) == 2 {
			ph = p
			return +1
		}
		if b, isB := v.(*ssa.BinOp); isB && d < 4 {
			switch b.Op {
			case token.ADD:
				if s := sign(b.X, d+1); s != 0 {
					return s
				}
				return sign(b.Y, d+1)
			case token.SUB:
				if s := sign(b.X, d+1); s != 0 {
					return s
				}
				return -sign(b.Y, d+1)
			}
		}
		return 0
	}
	coef := sign(idx, 0)
	if coef == 0 || ph == nil {
		return false, "fill index is not a simple loop counter"
	}
	dir := 0
	for _, e := range ph.Edges {
		if b, ok := e.(*ssa.BinOp); ok && (b.X == ssa.Value(ph)) {
			if n, ok := constInt(b.Y); ok && n == 1 {
				if b.Op == token.SUB {
					dir = -1
				} else if b.Op == token.ADD {
					dir = +1
				}
			}
		}
	}
	if dir == 0 {
		return false, "fill index is not stepped by ±1"
	}
	dir *= coef
	kinds := queueKinds(popRecv, 3)
	if len(kinds) == 0 {
		return false, "cannot determine whether the popped queue is a min- or a max-queue"
	}
	for k := range kinds {
		if (k == "NewMaxPriorityQueue" && dir != -1) || (k == "NewMinPriorityQueue" && dir != +1) {
			return false, fmt.Sprintf("result filled with step %+d from a queue built by %s: scores would not be ascending", dir, k)
		}
		if k != "NewMaxPriorityQueue" && k != "NewMinPriorityQueue" {
			return false, "queue of unknown kind: " + k
		}
	}
	return true, fmt.Sprintf("filled with step %+d from %v", dir, keys(kinds))
}

func keys(m map[string]bool) []string {
	var out []string
	for k := range m {
		out = append(out, k)
	}
	return out
}

// queueKinds follows a PriorityQueue value back to its constructors, through module-local calls
// (results, and parameters mapped to the arguments of that call).
func queueKinds(v ssa.Value, depth int) map[string]bool {
	out := map[string]bool{}
	seen := map[ssa.Value]bool{}
	var walk func(v ssa.Value, depth int, frame *ssa.CallCommon, parent func(ssa.Value, int))
	walk = func(v ssa.Value, depth int, frame *ssa.CallCommon, parent func(ssa.Value, int)) {
		v = strip(v)
		if seen[v] {
			return
		}
		seen[v] = true
		switch y := v.(type) {
		case *ssa.Phi:
			for _, e := range y.Edges {
				walk(e, depth, frame, parent)
			}
		case *ssa.Parameter:
			if frame != nil {
				for i, p := range y.Parent().Params {
					if p == y && i < len(frame.Args) {
						parent(frame.Args[i], depth+1)
						return
					}
				}
			}
			out["parameter "+y.Name()] = true
		case *ssa.Call:
			id := callID(&y.Call)
			if id.Name == "NewMaxPriorityQueue" || id.Name == "NewMinPriorityQueue" {
				out[id.Name] = true
				return
			}
			if id.Name == "Reverse" {
				sub := queueKinds(recvArg(&y.Call), depth)
				for k := range sub {
					switch k {
					case "NewMaxPriorityQueue":
						out["NewMinPriorityQueue"] = true
					case "NewMinPriorityQueue":
						out["NewMaxPriorityQueue"] = true
					default:
						out[k] = true
					}
				}
				return
			}
			f := y.Call.StaticCallee()
			if f == nil || !modLocal(f) || depth == 0 {
				out["call "+id.String()] = true
				return
			}
			cc := &y.Call
			self := func(a ssa.Value, d int) { walk(a, d, frame, parent) }
			for _, ret := range returnsOf(f) {
				if len(ret.Results) == 1 {
					walk(ret.Results[0], depth-1, cc, self)
				}
			}
		default:
			out[fmt.Sprintf("%T", v)] = true
		}
	}
	walk(v, depth, nil, nil)
	return out
}

// --- R5 ---------------------------------------------------------------------------

func c01R5(c *Ctx, r *Report, x *idxInfo) {
	for _, l := range x.edgeLoops() {
		if l.key == nil {
			continue
		}
		// re-entered traversal: the Range instruction can be executed again after the loop (outer loop)
		_, again := reachesAvoiding(l.fn, l.rng, func(i ssa.Instruction) bool { return i == ssa.Instruction(l.rng) }, nil)
		if !again {
			continue
		}
		// pushes of the key
		var pushes []*ssa.Call
		eachTransitiveUse(l.key, func(u ssa.Instruction, via ssa.Value) {
			if cl, ok := u.(*ssa.Call); ok && callID(&cl.Call).Name == "NewPriorityQueueItem" {
				pushes = append(pushes, cl)
			}
		})
		if len(pushes) == 0 {
			continue
		}
		fn := fnName(l.fn)
		cons := fmt.Sprintf("range-edge-set#%d", l.order)
		// visited-set lookups of the key
		type look struct {
			ifi *ssa.If
			m   ssa.Value
		}
		var looks []look
		for _, ifi := range allIfs(l.fn) {
			ex, ok := ifi.Cond.(*ssa.Extract)
			if !ok || ex.Index != 1 {
				continue
			}
			lk, ok := ex.Tuple.(*ssa.Lookup)
			if !ok || !lk.CommaOk || strip(lk.Index) != ssa.Value(l.key) {
				continue
			}
			looks = append(looks, look{ifi, lk.X})
		}
		for _, p := range pushes {
			ok := false
			for _, lk := range looks {
				if !guardedBy(p.Block(), lk.ifi, false) {
					continue
				}
				// the key is added to the same map on the absent side
				added := false
				eachInstr(l.fn, func(i ssa.Instruction) {
					if mu, isMU := i.(*ssa.MapUpdate); isMU && mu.Map == lk.m && strip(mu.Key) == ssa.Value(l.key) && guardedBy(i.Block(), lk.ifi, false) {
						added = true
					}
				})
				if added {
					ok = true
				}
			}
			if ok {
				r.OK("C01.R5", fn, cons, c.Pos(p.Pos()), "push guarded by `not in visited set`, key added to the set on that side")
			} else {
				r.Bad("C01.R5", fn, cons, c.Pos(p.Pos()), "a neighbour can be pushed into the beam on every visit: no visited-set guard (lookup absent → insert) dominates the push")
			}
		}
	}
}

var _ = strings.Contains

// eachConvUse visits the users of v and of its identity-preserving conversions (not through φ).
func eachConvUse(v ssa.Value, f func(user ssa.Instruction, via ssa.Value)) {
	seen := map[ssa.Value]bool{}
	var walk func(v ssa.Value)
	walk = func(v ssa.Value) {
		if seen[v] || v.Referrers() == nil {
			return
		}
		seen[v] = true
		for _, r := range *v.Referrers() {
			f(r, v)
			switch x := r.(type) {
			case *ssa.ChangeType:
				walk(x)
			case *ssa.Convert:
				walk(x)
			case *ssa.MakeInterface:
				walk(x)
			case *ssa.ChangeInterface:
				walk(x)
			}
		}
	}
	walk(v)
}

func inFamily(fam []ssa.Value, v ssa.Value) bool {
	for _, f := range fam {
		if f == v {
			return true
		}
	}
	return false
}

// appendFamily: arr is the one-element varargs array of an `append(s, x)`; the result is every value of the chain that
// builds the slice (the append results, the φ they feed, the initial slice), or nil if arr is not such an array.
func appendFamily(arr ssa.Value) []ssa.Value {
	al, ok := arr.(*ssa.Alloc)
	if !ok || al.Referrers() == nil {
		return nil
	}
	var app *ssa.Call
	var sl *ssa.Slice
	for _, r := range *al.Referrers() {
		if s, isS := r.(*ssa.Slice); isS && s.Referrers() != nil {
			for _, rr := range *s.Referrers() {
				if cl, isC := rr.(*ssa.Call); isC && callID(&cl.Call).is("builtin", "", "append") && len(cl.Call.Args) == 2 && cl.Call.Args[1] == ssa.Value(s) {
					app, sl = cl, s
				}
			}
		}
	}
	if app == nil {
		return nil
	}
	seen := map[ssa.Value]bool{}
	var out []ssa.Value
	var add func(v ssa.Value)
	add = func(v ssa.Value) {
		if v == nil || seen[v] {
			return
		}
		seen[v] = true
		out = append(out, v)
		switch y := v.(type) {
		case *ssa.Phi:
			for _, e := range y.Edges {
				add(e)
			}
		case *ssa.Call:
			if callID(&y.Call).is("builtin", "", "append") {
				add(y.Call.Args[0])
			} else {
				return
			}
		case *ssa.MakeSlice, *ssa.Slice:
		default:
			return
		}
		if v.Referrers() != nil {
			for _, r := range *v.Referrers() {
				if p, isP := r.(*ssa.Phi); isP {
					add(p)
				}
				if cl, isC := r.(*ssa.Call); isC && callID(&cl.Call).is("builtin", "", "append") && cl.Call.Args[0] == v {
					add(cl)
				}
			}
		}
	}
	add(app)
	// the varargs slice itself is part of the chain only as the argument of its append
	_ = sl
	return out
}
