package main

import (
	"fmt"
	"go/token"
	"go/types"
	"strings"

	"golang.org/x/tools/go/ssa"
)

func init() {
	register("C11", checkC11)
	register("C09", checkC09)
}

// ---- nil-err rule (shared) -----------------------------------------------------------------

// nilErrRule: in a function whose last result is error, a return of a nil error from a block on the error
// side of `e != nil`, where e is not used on that side (returned, wrapped, logged, sent, stored, passed to a call)
// and e is not compared with a sentinel anywhere in the function.
func nilErrRule(c *Ctx, r *Report, rule string, fns []*ssa.Function) (tests int) {
	for _, f := range fns {
		res := f.Signature.Results()
		if res.Len() == 0 || !isErrorType(res.At(res.Len()-1).Type()) {
			continue
		}
		rets := returnsOf(f)
		k := 0
		for _, ifi := range allIfs(f) {
			b, ok := ifi.Cond.(*ssa.BinOp)
			if !ok || (b.Op != token.NEQ && b.Op != token.EQL) {
				continue
			}
			var e ssa.Value
			if isNilConst(b.Y) && isErrorType(b.X.Type()) {
				e = b.X
			} else if isNilConst(b.X) && isErrorType(b.Y.Type()) {
				e = b.Y
			} else {
				continue
			}
			tests++
			errPol := b.Op == token.NEQ
			// sentinel comparison anywhere
			sentinel := false
			if e.Referrers() != nil {
				for _, u := range *e.Referrers() {
					if bb, ok := u.(*ssa.BinOp); ok && (bb.Op == token.EQL || bb.Op == token.NEQ) && !isNilConst(bb.X) && !isNilConst(bb.Y) {
						sentinel = true
					}
				}
			}
			for _, rt := range rets {
				if !guardedBy(rt.Block(), ifi, errPol) {
					continue
				}
				last := rt.Results[len(rt.Results)-1]
				if !isNilConst(last) {
					continue
				}
				// is e used anywhere on the error side?
				used := false
				if e.Referrers() != nil {
					for _, u := range *e.Referrers() {
						if u == ssa.Instruction(b) {
							continue
						}
						if _, isDbg := u.(*ssa.DebugRef); isDbg {
							continue
						}
						if u.Block() != nil && guardedBy(u.Block(), ifi, errPol) {
							used = true
						}
					}
				}
				k++
				cons := fmt.Sprintf("nil-after-error#%d", k)
				if used || sentinel {
					r.OKTrivial(rule, fnName(f), cons, c.Pos(rt.Pos()), "error is handed on (notified, logged, stored) or compared with a sentinel")
				} else {
					r.Bad(rule, fnName(f), cons, c.Pos(rt.Pos()), "returns a nil error on the branch where "+describeErr(e)+" is non-nil, without using it: the failure is reported as success")
				}
			}
		}
	}
	return
}

func describeErr(e ssa.Value) string {
	if ex, ok := e.(*ssa.Extract); ok {
		if cl, ok := ex.Tuple.(*ssa.Call); ok {
			return "the error of " + callID(&cl.Call).Name + "()"
		}
	}
	if cl, ok := e.(*ssa.Call); ok {
		return "the error of " + callID(&cl.Call).Name + "()"
	}
	return "the error " + e.Name()
}

func prodFuncs(c *Ctx, rels ...string) []*ssa.Function {
	var out []*ssa.Function
	for _, rel := range rels {
		for _, f := range c.FuncsInPkg(rel) {
			if c.isProd(f) {
				out = append(out, f)
			}
		}
	}
	return out
}

// ---- C11 -------------------------------------------------------------------------------------

func checkC11(c *Ctx, r *Report, tier string) {
	round5(c, r, "C11")
	round6(c, r, "C11")
	round7(c, r, "C11")
	round8(c, r, "C11")
	r.Rule("C11.R1", "no dropped error: no function returns a nil error from the non-nil side of an error test without handing the error on", 1)
	r.Rule("C11.R2", "a non-blocking notification cannot be lost: where Notify is called with blocking=false on a notificator, every Create(n) on the same owner has a constant n >= 1", 1)
	r.Rule("C11.R3", "id pairing: the NotificationId placed in a proposal is the id returned by the Create of the same activation, Remove(id) is deferred, the apply side notifies the id parsed from that field, and the value it notifies is the error of the index operation of that path (never a constant on a path that has one); ids are fresh random uuids; a channel looked up in the notificator is only used under its mutex", 10)
	r.Rule("C11.R4", "the dimension check dominates propose and proxy on every vector-carrying Dataset entry point; batch paths forward only the checked subset", 4)
	r.Rule("C11.R5", "success only from the notification: a proposing function returns a nil error only on the arm that received from its own notification channel; the partition methods return nil only when the received outcome is nil", 3)
	r.Rule("C11.R7", "a waiter is released only by its own outcome or its own deadline: a notification channel is closed only through the removal of one id, requested by the function that created that id", 2)
	notificationChannelsClosedByOwnerOnly(c, r, "C11.R7")
	r.Rule("C11.R8", "an unreachable owner is an error, not a hang: no dial option makes grpc.Dial (called without a context on the write path) wait for the connection", 1)
	dialDoesNotBlock(c, r, "C11.R8")
	r.Rule("C11.R6", "batch error map: every failed partition request maps each of its items to the error; results of all workers are merged", 3)
	for _, k := range []string{"success-return", "outcome-tested", "nil-only-if-outcome-nil"} {
		r.Need("C11.R5", k, "the proposing functions and their callers must be found")
	}
	for _, k := range []string{"proposal-carries-own-id", "deferred-remove", "-id", "-value", "id-is-random-uuid", "send#"} {
		r.Need("C11.R3", k, "proposer side, apply side and the notificator itself must all be seen")
	}
	for _, k := range []string{"dimension-check", "batch-forwards-checked"} {
		r.Need("C11.R4", k, "single and batch write entry points must be found")
	}
	fns := prodFuncs(c, "storage", "services", "storage/raft", "storage/wal", "cluster", "utils", "index", "")
	n := nilErrRule(c, r, "C11.R1", fns)
	r.OKTrivial("C11.R1", "module", "error-tests-examined", "-", fmt.Sprintf("%d `err != nil` tests examined in %d functions", n, len(fns)))
	if n < 150 {
		r.Unk("C11.R1", "module", "error-tests-count", "-", fmt.Sprintf("only %d error tests found (about 300 on the reference tree): the rule lost its anchor", n))
	}
	valueUsedErrorDiscarded(c, r, "C11.R1", prodFuncs(c, "storage", "services"))
	c11R2(c, r)
	c11R3(c, r)
	notificationIdsAreRandom(c, r, "C11.R3")
	notificatorChannelUnderLock(c, r, "C11.R3")
	c11R4(c, r)
	c11R5(c, r)
	c11R6(c, r)
}

func isNotificatorCall(cc *ssa.CallCommon, name string) bool {
	id := callID(cc)
	return id.Name == name && id.Recv == "Notificator" && strings.HasSuffix(id.Pkg, "anndb/utils")
}

func c11R2(c *Ctx, r *Report) {
	nonBlocking := map[*types.Var]bool{}
	for _, f := range prodFuncs(c, "storage") {
		eachInstr(f, func(i ssa.Instruction) {
			cc := asCall(i)
			if cc == nil || !isNotificatorCall(cc, "Notify") {
				return
			}
			if k, ok := cc.Args[3].(*ssa.Const); ok && k.Value != nil && k.Value.String() == "false" {
				if fld := fieldOfValue(cc.Args[0]); fld != nil {
					nonBlocking[fld] = true
				}
			}
		})
	}
	for _, f := range prodFuncs(c, "storage") {
		n := 0
		eachInstr(f, func(i ssa.Instruction) {
			cc := asCall(i)
			if cc == nil || !isNotificatorCall(cc, "Create") {
				return
			}
			fld := fieldOfValue(cc.Args[0])
			if fld == nil || !nonBlocking[fld] {
				return
			}
			n++
			capn, isC := constInt(cc.Args[1])
			if isC && capn >= 1 {
				r.OK("C11.R2", fnName(f), fmt.Sprintf("Create#%d", n), c.InstrPos(i), fmt.Sprintf("capacity %d: a non-blocking Notify that wins the race with the waiting select is buffered", capn))
			} else {
				r.Bad("C11.R2", fnName(f), fmt.Sprintf("Create#%d", n), c.InstrPos(i), "notification channel created without buffer although the apply side notifies non-blockingly: if apply reaches Notify before the proposer reaches its select the outcome is dropped and the caller times out on an applied write")
			}
		})
	}
}

func c11R3(c *Ctx, r *Report) {
	// proposer side
	for _, f := range prodFuncs(c, "storage") {
		var create *ssa.Call
		eachInstr(f, func(i ssa.Instruction) {
			if cl, ok := i.(*ssa.Call); ok && isNotificatorCall(&cl.Call, "Create") {
				create = cl
			}
		})
		if create == nil {
			continue
		}
		var idV ssa.Value
		for _, u := range *create.Referrers() {
			if ex, ok := u.(*ssa.Extract); ok && ex.Index == 1 {
				idV = ex
			}
		}
		// stores to a NotificationId field
		okStore := false
		eachInstr(f, func(i ssa.Instruction) {
			st, ok := i.(*ssa.Store)
			if !ok {
				return
			}
			fa, ok := st.Addr.(*ssa.FieldAddr)
			if !ok || structField(fa.X.Type(), fa.Field).Name() != "NotificationId" {
				return
			}
			okStore = false
			if bc, ok := st.Val.(*ssa.Call); ok && callID(&bc.Call).Name == "Bytes" {
				for _, o := range origins(bc.Call.Args[0], originOpt{}) {
					if o == idV {
						okStore = true
					}
				}
			}
		})
		r.Check(okStore, "C11.R3", fnName(f), "proposal-carries-own-id", c.Pos(create.Pos()), "NotificationId = Bytes() of the id returned by this activation's Create")
		// deferred Remove of the same id
		okRem := false
		for _, cf := range append([]*ssa.Function{f}, closuresOf(f)...) {
			eachInstr(cf, func(i ssa.Instruction) {
				cc := asCall(i)
				if cc == nil || !isNotificatorCall(cc, "Remove") {
					return
				}
				for _, o := range origins(cc.Args[1], originOpt{}) {
					if o == idV {
						okRem = true
					}
					if l, ok := loadOf(o); ok {
						for _, st := range cellStores(l) {
							if st.Val == idV {
								okRem = true
							}
						}
					}
				}
			})
		}
		isDeferred := false
		eachInstr(f, func(i ssa.Instruction) {
			if _, ok := i.(*ssa.Defer); ok {
				isDeferred = true
			}
		})
		r.Check(okRem && isDeferred, "C11.R3", fnName(f), "deferred-remove", c.Pos(create.Pos()), "the channel of this id is removed when the activation ends")
	}
	// apply side
	ro := discoverRoles(c)
	reach := c.reachableFrom(ro.applyRoots, false, false)
	for f := range reach {
		n := 0
		eachInstr(f, func(i ssa.Instruction) {
			cc := asCall(i)
			if cc == nil || !isNotificatorCall(cc, "Notify") {
				return
			}
			n++
			cons := fmt.Sprintf("Notify#%d", n)
			// the id is parsed from the entry's notification id in this function, or is a parameter that every call site (in the
			// apply tree) fills with such an id — through up to three levels of helpers (apply function -> reply helper)
			var idOK func(g *ssa.Function, v ssa.Value, d int) bool
			idOK = func(g *ssa.Function, v ssa.Value, d int) bool {
				if d > 3 {
					return false
				}
				if p, isP := v.(*ssa.Parameter); isP {
					pi := -1
					for k, pp := range g.Params {
						if pp == p {
							pi = k
						}
					}
					if pi < 0 {
						return false
					}
					cnt, okAll := 0, true
					for h := range reach {
						eachInstr(h, func(j ssa.Instruction) {
							cl, ok := j.(*ssa.Call)
							if !ok || cl.Call.StaticCallee() != g || pi >= len(cl.Call.Args) {
								return
							}
							cnt++
							if !idOK(h, cl.Call.Args[pi], d+1) {
								okAll = false
							}
						})
					}
					return cnt > 0 && okAll
				}
				os := origins(v, originOpt{})
				if len(os) == 0 {
					return false
				}
				for _, o := range os {
					from := false
					if ex, isEx := o.(*ssa.Extract); isEx {
						if fc, isC := ex.Tuple.(*ssa.Call); isC && callID(&fc.Call).Name == "FromBytes" {
							if gc, isG := fc.Call.Args[0].(*ssa.Call); isG && callID(&gc.Call).Name == "GetNotificationId" {
								from = true
							}
						}
					}
					if p, isP := o.(*ssa.Parameter); isP && idOK(g, p, d+1) {
						from = true
					}
					if !from {
						return false
					}
				}
				return true
			}
			okId := idOK(f, cc.Args[1], 0)
			r.Check(okId, "C11.R3", fnName(f), cons+"-id", c.InstrPos(i), "notifies the id parsed from the entry's NotificationId")
			// value: if the function performs a fallible index operation, the notified value derives from its error / the collected error map
			var errs []ssa.Value
			eachInstr(f, func(j ssa.Instruction) {
				cl, ok := j.(*ssa.Call)
				if !ok {
					return
				}
				g := cl.Call.StaticCallee()
				// (the index itself, or the validator of the metadata the index is about to store)
				if g == nil || fnPkgPath(g) != modPath+"/index" || g.Signature.Recv() == nil || (typeName(g.Signature.Recv().Type()) != "Hnsw" && typeName(g.Signature.Recv().Type()) != "Metadata") {
					return
				}
				res := g.Signature.Results()
				if res.Len() == 0 || !isErrorType(res.At(res.Len()-1).Type()) {
					return
				}
				if res.Len() == 1 {
					errs = append(errs, cl)
				} else {
					for _, u := range *cl.Referrers() {
						if ex, ok := u.(*ssa.Extract); ok && ex.Index == res.Len()-1 {
							errs = append(errs, ex)
						}
					}
				}
			})
			if len(errs) == 0 {
				return
			}
			val := strip(cc.Args[2])
			okV := false
			for _, o := range origins(val, originOpt{}) {
				for _, e := range errs {
					if o == e {
						okV = true
					}
				}
				if mm, ok := o.(*ssa.MakeMap); ok {
					// the map collects the errors
					for _, u := range *mm.Referrers() {
						if mu, ok := u.(*ssa.MapUpdate); ok {
							for _, e := range errs {
								if strip(mu.Value) == e {
									okV = true
								}
							}
						}
					}
				}
			}
			r.Check(okV, "C11.R3", fnName(f), cons+"-value", c.InstrPos(i), "the notified outcome is the error of this path's index operation (or the per-item map collecting them)")
		})
	}
}

// dimension guards: functions comparing len of a vector with GetDimension() and returning an error
func dimensionGuards(c *Ctx) map[*ssa.Function]bool {
	out := map[*ssa.Function]bool{}
	for _, f := range prodFuncs(c, "storage") {
		res := f.Signature.Results()
		if res.Len() != 1 || !isErrorType(res.At(0).Type()) {
			continue
		}
		ok := false
		for _, ifi := range allIfs(f) {
			b, isB := ifi.Cond.(*ssa.BinOp)
			if !isB || (b.Op != token.NEQ && b.Op != token.EQL) {
				continue
			}
			hasLen, hasDim := false, false
			for _, v := range []ssa.Value{b.X, b.Y} {
				if cl, ok := strip(v).(*ssa.Call); ok {
					id := callID(&cl.Call)
					if id.Pkg == "builtin" && id.Name == "len" {
						hasLen = true
					}
					if id.Name == "GetDimension" {
						hasDim = true
					}
				}
			}
			if hasLen && hasDim {
				// a guard only if it cannot be bypassed: every nil return lies on the `lengths are equal` side
				eqPol := b.Op == token.EQL
				all := true
				for _, rt := range returnsOf(f) {
					if isNilConst(rt.Results[0]) && !guardedBy(rt.Block(), ifi, eqPol) {
						all = false
					}
				}
				if all {
					ok = true
				}
			}
		}
		if ok {
			out[f] = true
		}
	}
	// transitive: a function returning error that calls a guard and returns the guard's error is a guard (batch validators)
	changed := true
	for changed {
		changed = false
		for _, f := range prodFuncs(c, "storage") {
			res := f.Signature.Results()
			if out[f] || res.Len() != 1 || !isErrorType(res.At(0).Type()) {
				continue
			}
			eachInstr(f, func(i ssa.Instruction) {
				cl, isC := i.(*ssa.Call)
				if !isC || !out[cl.Call.StaticCallee()] || out[f] {
					return
				}
				forwards := false
				for _, rt := range returnsOf(f) {
					if rt.Results[0] == ssa.Value(cl) {
						forwards = true
					}
				}
				if !forwards {
					return
				}
				// a validator that checks item by item leaves its loop early only with an error: a return inside the body
				// of the loop over the items whose value may be nil means the remaining items are not looked at
				for _, body := range itemLoopBodies(f) {
					if !body.Dominates(cl.Block()) {
						continue
					}
					for _, rt := range returnsOf(f) {
						if !body.Dominates(rt.Block()) {
							continue
						}
						v := rt.Results[0]
						if isNilConst(v) {
							return
						}
						if t, pol := errTestOf(f, v); t == nil || !guardedBy(rt.Block(), t, pol) {
							return
						}
					}
				}
				// a validator without a loop cannot be bypassed: every plain `return nil` comes after the guard call
				if len(itemLoopBodies(f)) == 0 {
					for _, rt := range returnsOf(f) {
						if isNilConst(rt.Results[0]) && !instrDominates(cl, rt.Return) {
							return
						}
					}
				}
				out[f] = true
				changed = true
			})
		}
	}
	return out
}

// itemLoopBodies: entry blocks of the bodies of loops that run over a slice parameter of f (`for … range items`).
func itemLoopBodies(f *ssa.Function) []*ssa.BasicBlock {
	var out []*ssa.BasicBlock
	for _, ifi := range allIfs(f) {
		b, ok := ifi.Cond.(*ssa.BinOp)
		if !ok || b.Op != token.LSS || !isLoopCounter(b.X) {
			continue
		}
		cl, ok := b.Y.(*ssa.Call)
		if !ok || !callID(&cl.Call).is("builtin", "", "len") {
			continue
		}
		if _, isP := strip(cl.Call.Args[0]).(*ssa.Parameter); !isP {
			continue
		}
		out = append(out, succOn(ifi, true))
	}
	return out
}

// inLoopBodyOf: ret can be reached from the loop's per-item instruction `in` without leaving the loop that contains it,
// i.e. it is an exit from inside the loop body (as opposed to the return after the loop has finished).
func inLoopBodyOf(f *ssa.Function, in ssa.Instruction, ret ssa.Instruction) bool {
	// ret is inside the body iff it is dominated by a block from which `in` is reachable again only through the loop
	// header; approximation that is exact for range/for loops: ret's block is dominated by a block of the cycle of `in`
	// other than the loop header.
	cyc := map[*ssa.BasicBlock]bool{}
	for _, b := range f.Blocks {
		if len(b.Instrs) == 0 {
			continue
		}
		_, fwd := reachesAvoiding(f, in, func(z ssa.Instruction) bool { return z == b.Instrs[0] }, nil)
		_, back := reachesAvoiding(f, b.Instrs[0], func(z ssa.Instruction) bool { return z == in }, nil)
		if fwd && back {
			cyc[b] = true
		}
	}
	// the header: the cycle block that dominates all others of the cycle
	var header *ssa.BasicBlock
	for b := range cyc {
		dom := true
		for o := range cyc {
			if !b.Dominates(o) {
				dom = false
			}
		}
		if dom {
			header = b
		}
	}
	for b := range cyc {
		if b != header && b.Dominates(ret.Block()) {
			return true
		}
	}
	return false
}

// guardDisabledAt: the callee is a guard only under a boolean parameter, and this call passes the constant that switches
// the guard off (checkBatchItems(items, false)).
func guardDisabledAt(call *ssa.Call, guards map[*ssa.Function]bool) bool {
	g := call.Call.StaticCallee()
	if g == nil || len(g.Blocks) == 0 {
		return false
	}
	// the guarding constructs inside g: calls to other guards, or the dimension comparison itself
	var sites []*ssa.BasicBlock
	eachInstr(g, func(i ssa.Instruction) {
		if cl, ok := i.(*ssa.Call); ok && guards[cl.Call.StaticCallee()] {
			sites = append(sites, cl.Block())
		}
	})
	if len(sites) == 0 {
		return false
	}
	for _, ifi := range allIfs(g) {
		p, isP := ifi.Cond.(*ssa.Parameter)
		if !isP {
			continue
		}
		all := true
		for _, b := range sites {
			if !guardedBy(b, ifi, true) {
				all = false
			}
		}
		if !all {
			continue
		}
		for k, q := range g.Params {
			if q == p && k < len(call.Call.Args) {
				if cst, isC := call.Call.Args[k].(*ssa.Const); isC && cst.Value != nil && cst.Value.String() == "false" {
					return true
				}
			}
		}
	}
	return false
}

// itemFilterShape: f checks each batch item with a dimension guard and appends to BatchItem slices only on the guard's
// success side. Returns the guard call (nil if the shape is absent).
func itemFilterShape(f *ssa.Function, guards map[*ssa.Function]bool) (*ssa.Call, bool) {
	var g *ssa.Call
	eachInstr(f, func(i ssa.Instruction) {
		if cl, ok := i.(*ssa.Call); ok && guards[cl.Call.StaticCallee()] && !guardDisabledAt(cl, guards) {
			g = cl
		}
	})
	if g == nil {
		return nil, false
	}
	ifi, errPol := errTestOf(f, g)
	if ifi == nil {
		return g, false
	}
	ok, n := true, 0
	eachInstr(f, func(i ssa.Instruction) {
		cl, isC := i.(*ssa.Call)
		if !isC || !callID(&cl.Call).is("builtin", "", "append") || !strings.Contains(cl.Type().String(), "BatchItem") {
			return
		}
		n++
		if !guardedBy(cl.Block(), ifi, !errPol) {
			ok = false
		}
	})
	return g, ok && n > 0
}

// batchFilterHelpers: module functions whose BatchItem-slice result is built under the item filter shape.
func batchFilterHelpers(c *Ctx, guards map[*ssa.Function]bool) map[*ssa.Function]bool {
	out := map[*ssa.Function]bool{}
	for _, f := range prodFuncs(c, "storage") {
		res := f.Signature.Results()
		returnsItems := false
		for k := 0; k < res.Len(); k++ {
			if strings.Contains(res.At(k).Type().String(), "BatchItem") {
				returnsItems = true
			}
		}
		if !returnsItems {
			continue
		}
		if _, ok := itemFilterShape(f, guards); ok {
			out[f] = true
		}
	}
	return out
}

func c11R4(c *Ctx, r *Report) {
	guards := dimensionGuards(c)
	if len(guards) == 0 {
		r.Unk("C11.R4", "storage", "dimension-guard", "-", "no function compares len(vector) with GetDimension()")
		return
	}
	dsT := c.Named("storage", "Dataset")
	partT := c.Named("storage", "partition")
	ro := discoverRoles(c)
	for _, f := range prodFuncs(c, "storage") {
		if f.Signature.Recv() == nil || namedOf(f.Signature.Recv().Type()) != dsT || f.Parent() != nil {
			continue
		}
		// write paths only: a raft proposal is reachable from this entry point (searches are C12's)
		if f.Object() == nil || !f.Object().Exported() {
			continue
		}
		proposes := false
		for g := range c.reachableFrom([]*ssa.Function{f}, false, false) {
			for _, p := range ro.proposers {
				if p == g {
					proposes = true
				}
			}
		}
		if !proposes {
			continue
		}
		// vector parameters
		var vec *ssa.Parameter
		for _, p := range f.Params {
			if isVectorType(p.Type()) {
				vec = p
			}
		}
		if vec != nil {
			// the guard call on &vec / vec
			var g *ssa.Call
			eachInstr(f, func(i ssa.Instruction) {
				cl, ok := i.(*ssa.Call)
				if !ok || !guards[cl.Call.StaticCallee()] || guardDisabledAt(cl, guards) {
					return
				}
				for _, a := range cl.Call.Args {
					for _, o := range origins(a, originOpt{}) {
						if o == ssa.Value(vec) {
							g = cl
						}
						if al, ok := o.(*ssa.Alloc); ok {
							for _, st := range storesTo(f, al) {
								if st.Val == ssa.Value(vec) {
									g = cl
								}
							}
						}
					}
				}
			})
			if g == nil {
				r.Bad("C11.R4", fnName(f), "dimension-check", c.Pos(f.Pos()), "entry point takes a vector but never checks its dimension")
				continue
			}
			ifi, errPol := errTestOf(f, g)
			bad := ""
			if ifi == nil {
				bad = "the result of the dimension check is not tested"
			} else {
				eachInstr(f, func(i ssa.Instruction) {
					cc := asCall(i)
					if cc == nil || i == ssa.Instruction(g) {
						return
					}
					sensitive := false
					if t := cc.StaticCallee(); t != nil && t.Signature.Recv() != nil && namedOf(t.Signature.Recv().Type()) == partT {
						sensitive = true
					}
					if cc.IsInvoke() && strings.HasSuffix(typeName(cc.Value.Type()), "Client") {
						sensitive = true
					}
					if _, isGo := i.(*ssa.Go); isGo {
						sensitive = true
					}
					if sensitive && !guardedBy(i.Block(), ifi, !errPol) {
						bad = "the call at " + c.InstrPos(i) + " is not on the success side of the dimension check"
					}
				})
			}
			r.Check(bad == "", "C11.R4", fnName(f), "dimension-check", c.Pos(g.Pos()), "dimension check dominates every partition / client / worker call "+bad)
			continue
		}
		// batch entry points: functions looping over items and calling a guard, or delegating that to a filter helper
		filters := batchFilterHelpers(c, guards)
		var g *ssa.Call
		var viaHelper *ssa.Call
		eachInstr(f, func(i ssa.Instruction) {
			if cl, ok := i.(*ssa.Call); ok && guards[cl.Call.StaticCallee()] && !guardDisabledAt(cl, guards) {
				g = cl
			}
			if cl, ok := i.(*ssa.Call); ok && filters[cl.Call.StaticCallee()] {
				viaHelper = cl
			}
		})
		if g == nil && viaHelper != nil {
			// the forwarded list must be the helper's result
			okH := true
			why := "only items that passed the dimension check (in " + viaHelper.Call.StaticCallee().Name() + ") are forwarded"
			eachInstr(f, func(i ssa.Instruction) {
				cl, ok := i.(*ssa.Call)
				if !ok || cl.Call.StaticCallee() == nil || cl.Call.StaticCallee().Signature.Recv() == nil || i == ssa.Instruction(viaHelper) {
					return
				}
				t := cl.Call.StaticCallee()
				if namedOf(t.Signature.Recv().Type()) != dsT {
					return
				}
				for _, a := range cl.Call.Args {
					if _, isSl := a.Type().Underlying().(*types.Slice); !isSl || !strings.Contains(a.Type().String(), "BatchItem") {
						continue
					}
					for _, o := range origins(a, originOpt{}) {
						if ex, ok := o.(*ssa.Extract); !ok || ex.Tuple != ssa.Value(viaHelper) {
							okH = false
							why = "the unchecked request list is forwarded (" + o.String() + ")"
						}
					}
				}
			})
			r.Check(okH, "C11.R4", fnName(f), "batch-forwards-checked", c.Pos(viaHelper.Pos()), why)
			continue
		}
		if g == nil {
			// no (enabled) check at all: fine for id-only batches, a violation when the items' values are proposed
			sink := ""
			eachInstr(f, func(i ssa.Instruction) {
				cc := asCall(i)
				if cc == nil || cc.StaticCallee() == nil || cc.StaticCallee().Signature.Recv() == nil || namedOf(cc.StaticCallee().Signature.Recv().Type()) != partT {
					return
				}
				t := cc.StaticCallee()
				n := strings.ToLower(t.Name())
				for _, p := range t.Params[1:] {
					if strings.Contains(p.Type().String(), "BatchItem") && (strings.Contains(n, "insert") || strings.Contains(n, "update")) {
						sink = t.Name() + " at " + c.InstrPos(i)
					}
				}
			})
			if sink != "" {
				r.Bad("C11.R4", fnName(f), "batch-forwards-checked", c.Pos(f.Pos()), "the items reach the value-carrying batch proposal "+sink+" without an (enabled) dimension check: a wrong-dimension value is proposed, committed, applied on every replica and its id reported as succeeded")
			}
			continue
		}
		ifi, errPol := errTestOf(f, g)
		// the items slice handed on: every append into it is on the success side
		okB := ifi != nil
		why := "only items that passed the dimension check are forwarded"
		eachInstr(f, func(i ssa.Instruction) {
			cl, ok := i.(*ssa.Call)
			if !ok || cl.Call.StaticCallee() == nil || cl.Call.StaticCallee().Signature.Recv() == nil {
				return
			}
			t := cl.Call.StaticCallee()
			if namedOf(t.Signature.Recv().Type()) != dsT || guards[t] {
				return
			}
			// argument of slice-of-items type
			for _, a := range cl.Call.Args {
				if _, isSl := a.Type().Underlying().(*types.Slice); !isSl || !strings.Contains(a.Type().String(), "BatchItem") {
					continue
				}
				for _, o := range origins(a, originOpt{}) {
					switch y := o.(type) {
					case *ssa.Const:
					case *ssa.Call:
						if id := callID(&y.Call); id.Pkg == "builtin" && id.Name == "append" {
							if ifi == nil || !guardedBy(y.Block(), ifi, !errPol) {
								okB = false
								why = "an item is appended to the forwarded list outside the success side of the dimension check"
							}
						} else {
							okB = false
							why = "forwarded list comes from " + id.String()
						}
					default:
						okB = false
						why = "the unchecked request list is forwarded (" + o.String() + ")"
					}
				}
			}
		})
		r.Check(okB, "C11.R4", fnName(f), "batch-forwards-checked", c.Pos(g.Pos()), why)
	}
}

func c11R5(c *Ctx, r *Report) {
	var waiters []*ssa.Function
	for _, f := range prodFuncs(c, "storage") {
		var create *ssa.Call
		eachInstr(f, func(i ssa.Instruction) {
			if cl, ok := i.(*ssa.Call); ok && isNotificatorCall(&cl.Call, "Create") {
				create = cl
			}
		})
		if create == nil {
			continue
		}
		isChan := func(v ssa.Value) bool {
			for _, o := range origins(v, originOpt{}) {
				if ex, ok := o.(*ssa.Extract); ok && ex.Tuple == ssa.Value(create) && ex.Index == 0 {
					return true
				}
			}
			return false
		}
		ff := f
		if waitShape(c, r, f, isChan, create.Pos(), 0, func(v ssa.Value) bool { return deadlineCtxIn(c, ff, v, 0) }) {
			waiters = append(waiters, f)
		}
	}
	// callers of a waiter that return only an error: nil only when both err and the outcome are nil
	for _, f := range prodFuncs(c, "storage") {
		if f.Signature.Results().Len() != 1 || !isErrorType(f.Signature.Results().At(0).Type()) {
			continue
		}
		eachInstr(f, func(i ssa.Instruction) {
			cl, ok := i.(*ssa.Call)
			if !ok || cl.Call.StaticCallee() == nil {
				return
			}
			isW := false
			for _, w := range waiters {
				if w == cl.Call.StaticCallee() {
					isW = true
				}
			}
			if !isW || cl.Call.Signature().Results().Len() != 2 {
				return
			}
			var res ssa.Value
			for _, u := range *cl.Referrers() {
				if ex, ok := u.(*ssa.Extract); ok && ex.Index == 0 {
					res = ex
				}
			}
			ifi, nilPol := nilTestOf(f, res)
			for k, rt := range returnsOf(f) {
				if !isNilConst(rt.Results[0]) || !instrDominates(cl, rt.Return) {
					continue
				}
				ok := ifi != nil && guardedBy(rt.Block(), ifi, nilPol)
				r.Check(ok, "C11.R5", fnName(f), fmt.Sprintf("nil-only-if-outcome-nil#%d", k+1), c.Pos(rt.Pos()), "success is returned only when the applied outcome is nil")
			}
			// the pair (outcome, error) may be handed to a converter (`return outcomeToError(propose(...))`): judged there
			if res != nil && res.Referrers() != nil {
				for _, u := range *res.Referrers() {
					hc, isC := u.(*ssa.Call)
					if !isC || hc.Call.StaticCallee() == nil || !modLocal(hc.Call.StaticCallee()) {
						continue
					}
					g := hc.Call.StaticCallee()
					pi := -1
					for ai, a := range hc.Call.Args {
						if a == res {
							pi = ai
						}
					}
					if pi < 0 || pi >= len(g.Params) || g.Signature.Results().Len() != 1 || !isErrorType(g.Signature.Results().At(0).Type()) {
						continue
					}
					gi, gpol := nilTestOf(g, g.Params[pi])
					for k, rt := range returnsOf(g) {
						if !isNilConst(rt.Results[0]) {
							continue
						}
						ok := gi != nil && guardedBy(rt.Block(), gi, gpol)
						r.Check(ok, "C11.R5", fnName(g), fmt.Sprintf("nil-only-if-outcome-nil#%d", k+1), c.Pos(rt.Pos()), "success is returned only when the applied outcome is nil (in the converter the proposing method hands the outcome to)")
					}
				}
			}
		})
	}
}

// waitShape checks that fn waits for the outcome on the channel designated by isChan before returning success: either in
// a select of its own, or by handing the channel to a module-local helper that does. Returns whether a wait was found.
// deadlineCtx: v is (derived only from) the context returned by context.WithTimeout / WithDeadline in this function.
func deadlineCtx(v ssa.Value) bool {
	os := origins(v, originOpt{})
	if len(os) == 0 {
		return false
	}
	for _, o := range os {
		ex, ok := o.(*ssa.Extract)
		if !ok || ex.Index != 0 {
			return false
		}
		cl, ok := ex.Tuple.(*ssa.Call)
		if !ok {
			return false
		}
		if id := callID(&cl.Call); id.Pkg != "context" || (id.Name != "WithTimeout" && id.Name != "WithDeadline") {
			return false
		}
	}
	return true
}

// deadlineCtxIn: like deadlineCtx, but a context parameter of fn counts when every static caller passes a deadline context.
func deadlineCtxIn(c *Ctx, fn *ssa.Function, v ssa.Value, depth int) bool {
	os := origins(v, originOpt{})
	if len(os) == 0 || depth > 6 {
		return false
	}
	for _, o := range os {
		p, isP := o.(*ssa.Parameter)
		if !isP {
			if !deadlineCtx(o) {
				return false
			}
			continue
		}
		pi := -1
		for k, q := range fn.Params {
			if q == p {
				pi = k
			}
		}
		n, all := 0, true
		for _, g := range prodFuncs(c, "storage", "storage/raft", "services", "cluster", "") {
			eachInstr(g, func(i ssa.Instruction) {
				cc := asCall(i)
				if cc == nil || cc.StaticCallee() != fn || pi < 0 || pi >= len(cc.Args) {
					return
				}
				n++
				if !deadlineCtxIn(c, g, cc.Args[pi], depth+1) {
					all = false
				}
			})
		}
		if n == 0 || !all {
			return false
		}
	}
	return true
}

func waitShape(c *Ctx, r *Report, fn *ssa.Function, isChan func(ssa.Value) bool, at token.Pos, depth int, bounded func(ssa.Value) bool) bool {
	name := fnName(fn)
	var sel *ssa.Select
	arm := -1
	eachInstr(fn, func(i ssa.Instruction) {
		if s, ok := i.(*ssa.Select); ok {
			for k, st := range s.States {
				if st.Dir == types.RecvOnly && isChan(st.Chan) {
					sel, arm = s, k
				}
			}
		}
	})
	if sel == nil {
		// a helper that receives the channel
		var helper *ssa.Call
		hp := -1
		eachInstr(fn, func(i ssa.Instruction) {
			cl, ok := i.(*ssa.Call)
			if !ok || cl.Call.StaticCallee() == nil || !modLocal(cl.Call.StaticCallee()) {
				return
			}
			for k, a := range cl.Call.Args {
				if _, isCh := a.Type().Underlying().(*types.Chan); isCh && isChan(a) {
					helper, hp = cl, k
				}
			}
		})
		if helper == nil || depth > 1 {
			r.Bad("C11.R5", name, "waits-for-outcome", c.Pos(at), "creates a notification channel but never waits on it")
			return false
		}
		g := helper.Call.StaticCallee()
		param := ssa.Value(g.Params[hp])
		if !waitShape(c, r, g, func(v ssa.Value) bool {
			for _, o := range origins(v, originOpt{}) {
				if o == param {
					return true
				}
			}
			return false
		}, g.Pos(), depth+1, func(v ssa.Value) bool {
			os := origins(v, originOpt{})
			if len(os) == 0 {
				return false
			}
			for _, o := range os {
				p, isP := o.(*ssa.Parameter)
				if !isP {
					if !deadlineCtx(o) {
						return false
					}
					continue
				}
				okP := false
				for k, q := range g.Params {
					if q == p && k < len(helper.Call.Args) && bounded(helper.Call.Args[k]) {
						okP = true
					}
				}
				if !okP {
					return false
				}
			}
			return true
		}) {
			return false
		}
		// success in fn only when the helper reported success
		ifi, errPol := errTestOf(fn, helper)
		k := 0
		for _, rt := range returnsOf(fn) {
			last := rt.Results[len(rt.Results)-1]
			if !isNilConst(last) {
				continue
			}
			k++
			ok := ifi != nil && guardedBy(rt.Block(), ifi, !errPol)
			r.Check(ok, "C11.R5", name, fmt.Sprintf("success-return#%d", k), c.Pos(rt.Pos()), "nil error is returned only after the waiting helper "+g.Name()+" reported success")
		}
		if k == 0 {
			r.OK("C11.R5", name, "success-return#via-helper", c.Pos(helper.Pos()), "the result of the waiting helper "+g.Name()+" is what this function reports")
		}
		return true
	}
	// the wait ends: an arm of the same select receives from Done() of a context that carries the proposal deadline
	{
		nDone, okDone := 0, false
		for _, st := range sel.States {
			dc, isC := st.Chan.(*ssa.Call)
			if st.Dir != types.RecvOnly || !isC || callID(&dc.Call).Name != "Done" {
				continue
			}
			nDone++
			var cv ssa.Value
			if dc.Call.IsInvoke() {
				cv = dc.Call.Value
			} else if len(dc.Call.Args) > 0 {
				cv = dc.Call.Args[0]
			}
			if cv != nil && bounded(cv) {
				okDone = true
			}
		}
		r.Check(okDone, "C11.R5", name, "wait-is-bounded", c.Pos(sel.Pos()), fmt.Sprintf("the wait for the apply outcome also ends on Done() of the context that carries the proposal deadline (%d Done arm(s)): a proposal that is accepted but not applied in time returns an error instead of blocking the caller for as long as its own context lives", nDone))
	}
	var armIf *ssa.If
	for _, ifi := range allIfs(fn) {
		if b, ok := ifi.Cond.(*ssa.BinOp); ok && b.Op == token.EQL {
			if ex, ok := b.X.(*ssa.Extract); ok && ex.Tuple == ssa.Value(sel) && ex.Index == 0 {
				if n, ok := constInt(b.Y); ok && int(n) == arm {
					armIf = ifi
				}
			}
		}
	}
	k := 0
	for _, rt := range returnsOf(fn) {
		last := rt.Results[len(rt.Results)-1]
		if !isNilConst(last) {
			continue
		}
		k++
		ok := armIf != nil && guardedBy(rt.Block(), armIf, true)
		r.Check(ok, "C11.R5", name, fmt.Sprintf("success-return#%d", k), c.Pos(rt.Pos()), "nil error is returned only on the arm that received the apply outcome")
	}
	// the received value decides: on the arm, a non-nil outcome is returned as error (functions whose only result is error)
	if fn.Signature.Results().Len() == 1 && armIf != nil {
		recvIdx := 2 + recvOrdinal(sel, arm)
		var got ssa.Value
		for _, u := range *sel.Referrers() {
			if ex, ok := u.(*ssa.Extract); ok && ex.Index == recvIdx {
				got = ex
			}
		}
		okT := false
		if got != nil {
			if ifi, _ := nilTestOf(fn, got); ifi != nil {
				okT = true
			}
		}
		r.Check(okT, "C11.R5", name, "outcome-tested", c.Pos(sel.Pos()), "the received outcome is tested for nil before success is returned")
	}
	return true
}

// recvOrdinal: position of arm among the receive states (select result tuple: index, ok, recv0, recv1, …)
func recvOrdinal(sel *ssa.Select, arm int) int {
	n := 0
	for k, st := range sel.States {
		if k == arm {
			return n
		}
		if st.Dir == types.RecvOnly {
			n++
		}
	}
	return n
}

// nilTestOf finds an If comparing v with nil; returns the polarity meaning "v == nil".
func nilTestOf(f *ssa.Function, v ssa.Value) (*ssa.If, bool) {
	if v == nil {
		return nil, false
	}
	for _, ifi := range allIfs(f) {
		if b, ok := ifi.Cond.(*ssa.BinOp); ok && ((b.X == v && isNilConst(b.Y)) || (b.Y == v && isNilConst(b.X))) {
			return ifi, b.Op == token.EQL
		}
	}
	return nil, false
}

func c11R6(c *Ctx, r *Report) {
	// the worker: function with a send of partitionBatchResult on a channel parameter
	for _, f := range prodFuncs(c, "storage") {
		var sends []*ssa.Send
		eachInstr(f, func(i ssa.Instruction) {
			if s, ok := i.(*ssa.Send); ok && typeName(s.X.Type()) == "partitionBatchResult" {
				sends = append(sends, s)
			}
		})
		// the worker may also hand its one result back to a wrapper that sends it: then its returns are the emit sites
		type emit struct {
			blk *ssa.BasicBlock
			v   ssa.Value
		}
		var emits []emit
		for _, sd := range sends {
			emits = append(emits, emit{sd.Block(), sd.X})
		}
		returnsResult := false
		if rs := f.Signature.Results(); len(sends) == 0 && rs.Len() == 1 && typeName(rs.At(0).Type()) == "partitionBatchResult" && f.Parent() == nil {
			hasItems := false
			for _, p := range f.Params {
				if strings.Contains(p.Type().String(), "BatchItem") {
					hasItems = true
				}
			}
			if hasItems && f.Signature.Recv() != nil && f.Signature.Params().Len() >= 3 {
				returnsResult = true
				for _, rt := range returnsOf(f) {
					emits = append(emits, emit{rt.Return.Block(), rt.Results[0]})
				}
			}
		}
		if len(emits) == 0 {
			continue
		}
		var items *ssa.Parameter
		for _, p := range f.Params {
			if strings.Contains(p.Type().String(), "BatchItem") {
				items = p
			}
		}
		n := 0
		for _, ifi := range allIfs(f) {
			b, ok := ifi.Cond.(*ssa.BinOp)
			if !ok || b.Op != token.NEQ || !isNilConst(b.Y) || !isErrorType(b.X.Type()) {
				continue
			}
			n++
			okS := false
			for _, s := range emits {
				if !guardedBy(s.blk, ifi, true) {
					continue
				}
				if cl, ok := strip(s.v).(*ssa.Call); ok && cl.Call.StaticCallee() != nil {
					args := cl.Call.Args
					hasItems, hasErr := false, false
					for _, a := range args {
						if a == ssa.Value(items) {
							hasItems = true
						}
						if a == b.X {
							hasErr = true
						}
					}
					// a local closure that captures the items (`failAll := func(cause error) …`)
					if mc, isMC := through(cl.Call.Value).(*ssa.MakeClosure); isMC {
						for _, bv := range mc.Bindings {
							if through(bv) == ssa.Value(items) {
								hasItems = true
							}
							if al, isAl := bv.(*ssa.Alloc); isAl {
								if st := storesTo(f, al); len(st) == 1 && through(st[0].Val) == ssa.Value(items) {
									hasItems = true
								}
							}
						}
					}
					// the helper maps every item to the error
					okS = hasItems && hasErr && mapsEveryItem(cl.Call.StaticCallee())
				}
			}
			r.Check(okS, "C11.R6", fnName(f), fmt.Sprintf("failed-request#%d", n), c.Pos(ifi.Cond.Pos()), "a failed partition request reports the error for every item of that request")
		}
		// exactly one send on every path
		min, max := sendCounts(f, func(s *ssa.Send) bool { return typeName(s.X.Type()) == "partitionBatchResult" })
		if returnsResult {
			min, max = 1, 1 // one return per call; that the wrapper sends it once is the wrapper's send count
		}
		r.Check(min == 1 && max == 1, "C11.R6", fnName(f), "one-result-per-worker", c.Pos(f.Pos()), fmt.Sprintf("every path sends exactly one result (min %d, max %d)", min, max))
	}
	// merge in the collector: received map's entries are copied into the result
	for _, f := range prodFuncs(c, "storage") {
		var sel *ssa.Select
		eachInstr(f, func(i ssa.Instruction) {
			if s, ok := i.(*ssa.Select); ok {
				for _, st := range s.States {
					if strings.Contains(st.Chan.Type().String(), "partitionBatchResult") {
						sel = s
					}
				}
			}
		})
		if sel == nil {
			continue
		}
		merged := false
		eachInstr(f, func(i ssa.Instruction) {
			if rg, ok := i.(*ssa.Range); ok {
				if ex, ok := rg.X.(*ssa.Extract); ok && ex.Tuple == ssa.Value(sel) {
					merged = true
				}
			}
		})
		r.Check(merged, "C11.R6", fnName(f), "merge-results", c.Pos(sel.Pos()), "every received per-partition result is merged into the returned map")
	}
}

func mapsEveryItem(h *ssa.Function) bool {
	// ranges over its items parameter and updates the result map under each item's id with the error parameter
	ok := false
	eachInstr(h, func(i ssa.Instruction) {
		if mu, isMU := i.(*ssa.MapUpdate); isMU {
			if _, isP := mu.Value.(*ssa.Parameter); isP {
				ok = true
			}
		}
	})
	return ok
}

// sendCounts: min / max number of matching sends along any entry→return path (max capped at 2).
func sendCounts(f *ssa.Function, match func(*ssa.Send) bool) (int, int) {
	type mm struct{ lo, hi int }
	in := map[*ssa.BasicBlock]mm{}
	out := map[*ssa.BasicBlock]mm{}
	have := map[*ssa.BasicBlock]bool{}
	if len(f.Blocks) == 0 {
		return 0, 0
	}
	work := []*ssa.BasicBlock{f.Blocks[0]}
	in[f.Blocks[0]] = mm{0, 0}
	have[f.Blocks[0]] = true
	for iter := 0; len(work) > 0 && iter < 10000; iter++ {
		b := work[0]
		work = work[1:]
		cur := in[b]
		term := false
		for _, i := range b.Instrs {
			if s, ok := i.(*ssa.Send); ok && match(s) {
				cur.lo++
				cur.hi++
			}
			if instrNoReturn(i) {
				term = true
			}
		}
		if cur.hi > 2 {
			cur.hi = 2
		}
		if cur.lo > 2 {
			cur.lo = 2
		}
		out[b] = cur
		if term {
			continue
		}
		for _, s := range b.Succs {
			n := cur
			if have[s] {
				o := in[s]
				if o.lo < n.lo {
					n.lo = o.lo
				}
				if o.hi > n.hi {
					n.hi = o.hi
				}
				if n == o {
					continue
				}
			}
			in[s] = n
			have[s] = true
			work = append(work, s)
		}
	}
	lo, hi := 99, 0
	for _, rt := range returnsOf(f) {
		o, ok := out[rt.Block()]
		if !ok {
			continue
		}
		if o.lo < lo {
			lo = o.lo
		}
		if o.hi > hi {
			hi = o.hi
		}
	}
	if lo == 99 {
		lo = 0
	}
	return lo, hi
}

// ---- C09 -------------------------------------------------------------------------------------

func checkC09(c *Ctx, r *Report, tier string) {
	round5(c, r, "C09")
	round6(c, r, "C09")
	round7(c, r, "C09")
	round8(c, r, "C09")
	_ = tier
	r.Rule("C09.R5", "each node is asked once: the worker opens the node's result stream at one site, outside any loop", 1)
	streamOpenedOnce(c, r, "C09.R5")
	r.Rule("C09.R6", "a node that cannot be searched fails the call: the workers report every Recv error other than io.EOF; the connection of a removed node is closed before RemoveNode returns (the per-dataset clients built on it are never evicted)", 2)
	recvErrorsHandled(c, r, "C09.R6", "storage")
	removedNodeConnectionClosedAtOnce(c, r, "C09.R6")
	r.Rule("C09.R1", "every partition exactly once: the plan function appends each partition's id to exactly one bucket on every path of its loop, the bucket key being an element of that partition's own node list", 1)
	r.Rule("C09.R2", "one worker per bucket, one message per worker: the spawn loop ranges over the plan, the collector loop is bounded by the size of the same collection, each worker sends exactly one message on every path", 4)
	r.Rule("C09.R3", "a closed channel cannot masquerade as a message: a counted select with two or more message arms receives from no channel that the same function (or a goroutine it spawns) closes", 2)
	r.Rule("C09.R4", "the success return is sorted and truncated to min(k, len) (as C01.R4) and every received partial result is appended to the list that is returned", 4)
	r.Rule("C09.R5", "errors are not dropped: nil-error rule over the search path; an error message from a worker fails the call", 3)
	for _, k := range []string{"spawn", "collector-bound", "one-message-per-worker"} {
		r.Need("C09.R2", k, "spawn loop, collector and workers of the dataset search must be found")
	}
	r.Need("C09.R4", "merge", "the merge of partial results must be found")
	r.Need("C09.R4", "success-return", "the sorted/truncated success return must be found")
	r.Need("C09.R5", "error-arm", "the collector's error arm must be found")
	dsT := c.Named("storage", "Dataset")
	fParts := c.Field("storage", "Dataset", "partitions")
	srT := c.Named("index", "SearchResult")
	if dsT == nil || fParts == nil || srT == nil {
		r.Unk("C09.R1", "storage", "anchors", "-", "Dataset / partitions / SearchResult not found")
		return
	}
	var searchFns []*ssa.Function
	for _, f := range prodFuncs(c, "storage") {
		if f.Parent() != nil || f.Signature.Recv() == nil || namedOf(f.Signature.Recv().Type()) != dsT {
			continue
		}
		res := f.Signature.Results()
		if res.Len() == 2 && namedOf(res.At(0).Type()) == srT {
			searchFns = append(searchFns, f)
		}
	}
	// R1: plan function: returns map[uint64][]uuid.UUID
	for _, f := range prodFuncs(c, "storage") {
		if f.Signature.Results().Len() != 1 {
			continue
		}
		mt, ok := f.Signature.Results().At(0).Type().Underlying().(*types.Map)
		if !ok || mt.Key().String() != "uint64" || !strings.Contains(mt.Elem().String(), "UUID") {
			continue
		}
		fn := fnName(f)
		// the partition element of this iteration
		var elem ssa.Value
		var elemLoad ssa.Instruction
		eachInstr(f, func(i ssa.Instruction) {
			if u, ok := i.(*ssa.UnOp); ok && u.Op == token.MUL {
				if ia, ok := u.X.(*ssa.IndexAddr); ok && fieldOfValue(ia.X) == fParts && isLoopCounter(ia.Index) {
					elem, elemLoad = u, i
				}
			}
		})
		if elem == nil {
			r.Bad("C09.R1", fn, "plan-loop", c.Pos(f.Pos()), "the plan function does not loop over Dataset.partitions")
			continue
		}
		var appends []*ssa.MapUpdate
		eachInstr(f, func(i ssa.Instruction) {
			if mu, ok := i.(*ssa.MapUpdate); ok {
				if ap, ok := mu.Value.(*ssa.Call); ok && callID(&ap.Call).is("builtin", "", "append") {
					appends = append(appends, mu)
				}
			}
		})
		if len(appends) != 1 {
			r.Bad("C09.R1", fn, "plan-loop", c.Pos(f.Pos()), fmt.Sprintf("%d bucket appends per iteration, want exactly 1", len(appends)))
			continue
		}
		mu := appends[0]
		ap := mu.Value.(*ssa.Call)
		el := flatArgs(&ap.Call)
		okVal := false
		if len(el) == 2 {
			if l, ok := loadOf(el[1]); ok {
				if fa, ok := l.(*ssa.FieldAddr); ok && fa.X == elem && structField(fa.X.Type(), fa.Field).Name() == "id" {
					okVal = true
				}
			}
		}
		// key: element of elem.nodeIds()
		okKey := false
		if l, ok := loadOf(strip(mu.Key)); ok {
			if ia, ok := l.(*ssa.IndexAddr); ok {
				if cl, ok := ia.X.(*ssa.Call); ok && len(cl.Call.Args) == 1 && cl.Call.Args[0] == elem && strings.Contains(strings.ToLower(callID(&cl.Call).Name), "nodeids") {
					okKey = true
				}
			}
		}
		// same key for lookup base of the append
		okBase := false
		if lk, ok := strip(el[0]).(*ssa.Lookup); ok && lk.X == mu.Map && lk.Index == mu.Key {
			okBase = true
		}
		// executed on every path of the iteration
		_, skip := reachesAvoiding(f, elemLoad, func(i ssa.Instruction) bool {
			if i == elemLoad {
				return true
			}
			_, isRet := i.(*ssa.Return)
			return isRet
		}, func(i ssa.Instruction) bool { return i == ssa.Instruction(mu) })
		r.Check(okVal && okKey && okBase && !skip, "C09.R1", fn, "plan-loop", c.InstrPos(mu),
			fmt.Sprintf("each iteration appends this partition's id (%v) to the existing bucket (%v) of a node taken from this partition's node list (%v), on every path (%v)", okVal, okBase, okKey, !skip))
	}
	// R2 / R3 / R4 / R5 per search function
	for _, f := range searchFns {
		fn := fnName(f)
		var sel *ssa.Select
		eachInstr(f, func(i ssa.Instruction) {
			if s, ok := i.(*ssa.Select); ok {
				sel = s
			}
		})
		// the collector: this function, or a helper it delegates the collecting to (handed the channels and the count, its
		// results returned as they are)
		cf := f
		var via *ssa.Call
		if sel == nil {
			eachInstr(f, func(i ssa.Instruction) {
				cl, ok := i.(*ssa.Call)
				if !ok || cl.Call.StaticCallee() == nil || !modLocal(cl.Call.StaticCallee()) || len(cl.Call.StaticCallee().Blocks) == 0 {
					return
				}
				h := cl.Call.StaticCallee()
				var hs *ssa.Select
				eachInstr(h, func(j ssa.Instruction) {
					if s, ok := j.(*ssa.Select); ok {
						hs = s
					}
				})
				passesChan := false
				for _, a := range cl.Call.Args {
					if _, isCh := a.Type().Underlying().(*types.Chan); isCh {
						passesChan = true
					}
				}
				if hs != nil && passesChan {
					cf, sel, via = h, hs, cl
				}
			})
		}
		if sel == nil {
			continue // delegations
		}
		// a value of the collector expressed in the search function: parameters of a helper map to the call's arguments
		inCaller := func(v ssa.Value) ssa.Value {
			if via == nil {
				return v
			}
			for _, o := range origins(v, originOpt{}) {
				if p, ok := o.(*ssa.Parameter); ok {
					for k, q := range cf.Params {
						if q == p && k < len(via.Call.Args) {
							return via.Call.Args[k]
						}
					}
				}
			}
			return v
		}
		// spawn sites
		var gos []*ssa.Go
		eachInstr(f, func(i ssa.Instruction) {
			if g, ok := i.(*ssa.Go); ok && g.Call.StaticCallee() != nil {
				// workers are spawned in a loop; helper goroutines (a closer) are not
				if _, again := reachesAvoiding(f, g, func(x ssa.Instruction) bool { return x == ssa.Instruction(g) }, nil); again {
					gos = append(gos, g)
				}
			}
		})
		if len(gos) == 0 && via == nil {
			// a pure collector that other search functions delegate to (handed the channels): judged through its callers
			delegate := false
			for _, sf := range searchFns {
				if sf == f {
					continue
				}
				eachInstr(sf, func(i ssa.Instruction) {
					if cl, ok := i.(*ssa.Call); ok && cl.Call.StaticCallee() == f {
						for _, a := range cl.Call.Args {
							if _, isCh := a.Type().Underlying().(*types.Chan); isCh {
								delegate = true
							}
						}
					}
				})
			}
			if delegate {
				continue
			}
		}
		if len(gos) != 1 {
			r.Bad("C09.R2", fn, "spawn", c.Pos(f.Pos()), fmt.Sprintf("%d worker spawn sites, want 1", len(gos)))
			continue
		}
		g := gos[0]
		// the collection ranged by the spawn loop
		var coll ssa.Value
		eachInstr(f, func(i ssa.Instruction) {
			switch y := i.(type) {
			case *ssa.Range:
				if _, again := reachesAvoiding(f, g, func(x ssa.Instruction) bool { return x == ssa.Instruction(g) }, nil); again {
					// the range whose Next dominates the go
					for _, u := range *y.Referrers() {
						if nx, ok := u.(*ssa.Next); ok && nx.Block().Dominates(g.Block()) {
							coll = y.X
						}
					}
				}
			case *ssa.IndexAddr:
				if isLoopCounter(y.Index) && y.Block() == g.Block() {
					coll = y.X
				}
			}
		})
		if coll == nil {
			r.Unk("C09.R2", fn, "spawn", c.Pos(g.Pos()), "cannot find the collection the spawn loop ranges over")
			continue
		}
		// exactly one go per iteration: the go's block is executed once per iteration (no inner loop)
		r.OK("C09.R2", fn, "spawn", c.Pos(g.Pos()), "one worker per element of "+describeVal(coll))
		// collector bound
		okBound := false
		for _, ifi := range allIfs(cf) {
			if b, ok := ifi.Cond.(*ssa.BinOp); ok && b.Op == token.LSS && isLoopCounter(b.X) {
				if cl, ok := inCaller(b.Y).(*ssa.Call); ok && callID(&cl.Call).is("builtin", "", "len") && sameCollection(cl.Call.Args[0], coll) {
					// the select is inside this loop
					if guardedBy(sel.Block(), ifi, true) {
						okBound = true
					}
				}
			}
		}
		r.Check(okBound, "C09.R2", fn, "collector-bound", c.Pos(sel.Pos()), "the collector waits for exactly len(workers' collection) messages")
		// worker: exactly one send on every path
		w := g.Call.StaticCallee()
		min, max := sendCounts(w, func(*ssa.Send) bool { return true })
		r.Check(min == 1 && max == 1, "C09.R2", fnName(w), "one-message-per-worker", c.Pos(w.Pos()), fmt.Sprintf("every path of the worker sends exactly one message (min %d, max %d)", min, max))
		// R3
		closed := map[string]bool{}
		for _, cf := range append([]*ssa.Function{f}, closuresOf(f)...) {
			eachInstr(cf, func(i ssa.Instruction) {
				if cc := asCall(i); cc != nil && callID(cc).is("builtin", "", "close") {
					for _, o := range origins(cc.Args[0], originOpt{}) {
						if l, ok := loadOf(o); ok {
							for _, st := range cellStores(l) {
								closed[st.Val.Name()] = true
							}
						}
						closed[o.Name()] = true
					}
				}
			})
		}
		nClosedRecv := 0
		nMsgArms := 0
		for _, st := range sel.States {
			if st.Dir != types.RecvOnly {
				continue
			}
			if dc, ok := st.Chan.(*ssa.Call); !ok || callID(&dc.Call).Name != "Done" {
				nMsgArms++
			}
			for _, o := range origins(inCaller(st.Chan), originOpt{}) {
				if closed[o.Name()] {
					nClosedRecv++
				}
				if l, ok := loadOf(o); ok {
					for _, s2 := range cellStores(l) {
						if closed[s2.Val.Name()] {
							nClosedRecv++
						}
					}
				}
			}
		}
		if nClosedRecv >= 1 && nMsgArms >= 2 {
			r.Bad("C09.R3", fn, "closed-channel-receive", c.Pos(sel.Pos()), fmt.Sprintf("the counted select has %d message arms and %d of them receive(s) from a channel that this function closes: once closed it is permanently ready, select picks at random, so its zero value (nil list / nil error) can pre-empt a pending message on another arm — a partial list with success, or (nil, nil)", nMsgArms, nClosedRecv))
		} else {
			r.OK("C09.R3", fn, "closed-channel-receive", c.Pos(sel.Pos()), fmt.Sprintf("%d message arm(s), %d on a channel closed by this function (a closable channel is only safe as the single message arm: buffered messages are delivered before the close is observed)", nMsgArms, nClosedRecv))
		}
		// R4: the slice returned is the one every result arm appends to
		okApp := false
		if via != nil {
			// the search function hands the helper's results on unchanged
			for _, rt := range returnsOf(f) {
				for _, res := range rt.Results {
					if ex, ok := res.(*ssa.Extract); ok && ex.Tuple == ssa.Value(via) {
						continue
					}
					if cst, ok := res.(*ssa.Const); ok && cst.Value == nil {
						continue
					}
					if instrDominates(via, rt.Return) {
						r.Bad("C09.R4", fn, "collector-results-forwarded", c.Pos(rt.Pos()), "the collector helper's result is not returned as it is")
					}
				}
			}
		}
		for _, rt := range returnsOf(cf) {
			if !isNilConst(rt.Results[1]) {
				continue
			}
			merged := ssa.Value(nil)
			if sl, ok := rt.Results[0].(*ssa.Slice); ok {
				merged = sl.X
			} else if hc, ok := rt.Results[0].(*ssa.Call); ok && hc.Call.StaticCallee() != nil && modLocal(hc.Call.StaticCallee()) {
				if okH, _ := sortCutHelper(c, hc.Call.StaticCallee(), srT); okH {
					for _, a := range hc.Call.Args {
						if namedOf(a.Type()) == srT {
							merged = a
						}
					}
				}
			}
			if merged != nil {
				for _, o := range origins(merged, originOpt{}) {
					if ap, ok := o.(*ssa.Call); ok && callID(&ap.Call).is("builtin", "", "append") {
						// appended value is the received result
						last := strip(ap.Call.Args[len(ap.Call.Args)-1])
						if ex, ok := last.(*ssa.Extract); ok && ex.Tuple == ssa.Value(sel) {
							okApp = true
						}
					}
				}
			}
		}
		r.Check(okApp, "C09.R4", fn, "merge", c.Pos(sel.Pos()), "every received partial result is appended to the list that is sorted, truncated and returned")
		// R5: error arm returns the received error
		okErr := false
		for _, rt := range returnsOf(cf) {
			if ex, ok := rt.Results[1].(*ssa.Extract); ok && ex.Tuple == ssa.Value(sel) {
				okErr = true
			}
		}
		r.Check(okErr, "C09.R5", fn, "error-arm", c.Pos(sel.Pos()), "an error message from a worker is returned as the call's error")
	}
	// R4 sort/truncate: reuse C01.R4 on these functions
	sub := NewReport("C09")
	x := newIdx(c)
	c01R4(c, sub, x)
	for _, o := range sub.Obls {
		if strings.Contains(o.Key, "storage.Dataset") {
			o.Rule = "C09.R4"
			o.Key = strings.Replace(o.Key, "C01.R4", "C09.R4", 1)
			r.Obls = append(r.Obls, o)
		}
	}
	// R5 nil-err over the search path
	var path []*ssa.Function
	for _, f := range prodFuncs(c, "storage", "services") {
		n := strings.ToLower(f.Name())
		if strings.Contains(n, "search") {
			path = append(path, f)
		}
	}
	n := nilErrRule(c, r, "C09.R5", path)
	r.OKTrivial("C09.R5", "search-path", "error-tests-examined", "-", fmt.Sprintf("%d error tests in %d functions", n, len(path)))
	valueUsedErrorDiscarded(c, r, "C09.R5", path)
	// the comparator used by the merge
	for _, o := range sub.Obls {
		if strings.Contains(o.Key, "SearchResult).Less") {
			o.Rule = "C09.R4"
			o.Key = strings.Replace(o.Key, "C01.R4", "C09.R4", 1)
			r.Obls = append(r.Obls, o)
		}
	}
}

func sameCollection(a, b ssa.Value) bool {
	if a == b {
		return true
	}
	oa := origins(a, originOpt{})
	ob := origins(b, originOpt{})
	for _, x := range oa {
		for _, y := range ob {
			if x == y {
				return true
			}
		}
	}
	return false
}
