package main

import (
	"fmt"
	"go/token"
	"go/types"
	"strings"

	"golang.org/x/tools/go/ssa"
)

func init() { register("C19", checkC19) }

func checkC19(c *Ctx, r *Report, tier string) {
	round5(c, r, "C19")
	round6(c, r, "C19")
	round7(c, r, "C19")
	round8(c, r, "C19")
	r.Rule("C19.R1", "heap.Interface contract of both queue types: Less is a strict comparison of the priorities of elements i and j whose direction matches the constructor (NewMin… ⇒ <, NewMax… ⇒ >); Swap exchanges exactly i and j; Push appends its argument; Pop returns the last element and shrinks by one; Len is len; the wrapper's Push/Pop go through container/heap on the wrapped queue and Peek reads index 0", 13)
	r.Rule("C19.R3", "the ordering direction of a queue is fixed by its constructor: the wrapped heap is stored only into freshly allocated queues", 1)
	queueKindFixedAtConstruction(c, r, "C19.R3")
	r.Rule("C19.R4", "outside the heap.Interface methods nothing sorts, overwrites or adopts the backing array of a queue", 1)
	backingArrayOnlyThroughHeap(c, r, "C19.R4")
	r.Rule("C19.R2", "Reverse hands the new queue a freshly allocated copy of the items, never the source's backing array", 2)
	sp := c.SSAPkg("utils")
	if sp == nil {
		r.Unk("C19.R1", "utils", "package", "-", "package utils not found")
		return
	}
	// queue types: named slice types with Less/Swap/Push/Pop/Len
	type qt struct {
		named *types.Named
		ctor  string
	}
	var qts []qt
	for _, m := range sp.Members {
		t, ok := m.(*ssa.Type)
		if !ok {
			continue
		}
		n, ok := t.Type().(*types.Named)
		if !ok {
			continue
		}
		if _, isSlice := n.Underlying().(*types.Slice); !isSlice {
			continue
		}
		if c.Method("utils", n.Obj().Name(), "Less") == nil || c.Method("utils", n.Obj().Name(), "Swap") == nil {
			continue
		}
		qts = append(qts, qt{named: n})
	}
	// constructors: exported functions that allocate a queue type and return the wrapper
	for i := range qts {
		for _, f := range c.FuncsInPkg("utils") {
			if !c.isProd(f) || f.Parent() != nil || f.Signature.Recv() != nil {
				continue
			}
			if !(strings.Contains(f.Name(), "Min") || strings.Contains(f.Name(), "Max")) || !strings.HasPrefix(f.Name(), "New") {
				continue
			}
			eachInstr(f, func(in ssa.Instruction) {
				if al, ok := in.(*ssa.Alloc); ok {
					if p, ok := al.Type().(*types.Pointer); ok && p.Elem() == types.Type(qts[i].named) {
						qts[i].ctor = f.Name()
					}
				}
			})
		}
	}
	for _, q := range qts {
		tn := q.named.Obj().Name()
		if q.ctor == "" {
			r.Unk("C19.R1", "utils."+tn, "constructor", "-", "no New{Min,Max}… constructor allocates this queue type")
			continue
		}
		want := token.LSS
		if strings.Contains(q.ctor, "Max") {
			want = token.GTR
		}
		less := c.Method("utils", tn, "Less")
		ok, why := lessIsStrict(less, "priority", want)
		r.Check(ok, "C19.R1", fnName(less), "Less", c.Pos(less.Pos()), fmt.Sprintf("%s (constructor %s)", why, q.ctor))
		swap := c.Method("utils", tn, "Swap")
		ok, why = swapExchanges(swap)
		r.Check(ok, "C19.R1", fnName(swap), "Swap", c.Pos(swap.Pos()), why)
		ln := c.Method("utils", tn, "Len")
		ok, why = lenIsLen(ln)
		r.Check(ok, "C19.R1", fnName(ln), "Len", c.Pos(ln.Pos()), why)
		push := c.Method("utils", tn, "Push")
		ok, why = pushAppends(push)
		if !ok && pushAppendsSym(push) {
			ok, why = true, "*pq = append(*pq, val), through a helper that returns the appended slice"
		}
		r.Check(ok, "C19.R1", fnName(push), "Push", c.Pos(push.Pos()), why)
		pop := c.Method("utils", tn, "Pop")
		ok, why = popRemovesLast(pop)
		if !ok && popRemovesLastSym(pop) {
			ok, why = true, "returns old[len-1], stores old[0:len-1], through a helper that returns both"
		}
		r.Check(ok, "C19.R1", fnName(pop), "Pop", c.Pos(pop.Pos()), why)
	}
	// wrapper
	wrapper := ""
	for _, m := range sp.Members {
		if t, ok := m.(*ssa.Type); ok {
			if st, ok := t.Type().Underlying().(*types.Struct); ok {
				for i := 0; i < st.NumFields(); i++ {
					if n := namedOf(st.Field(i).Type()); n != nil && n.Obj().Pkg() != nil && n.Obj().Pkg().Path() == "container/heap" {
						wrapper = t.Name()
					}
				}
			}
		}
	}
	if wrapper == "" {
		r.Unk("C19.R1", "utils", "wrapper", "-", "no struct wrapping a heap.Interface found")
		return
	}
	for _, mn := range []string{"Push", "Pop"} {
		m := c.Method("utils", wrapper, mn)
		if m == nil {
			r.Unk("C19.R1", "utils."+wrapper, mn, "-", "method not found")
			continue
		}
		n := 0
		okAll := true
		eachInstr(m, func(i ssa.Instruction) {
			if cc := plainCall(i); cc != nil {
				id := callID(cc)
				if id.Pkg == "container/heap" {
					n++
					if id.Name != mn || fieldOfValue(cc.Args[0]) == nil || path(cc.Args[0]) != m.Params[0].Name()+".queue" {
						okAll = false
					}
					if mn == "Push" && (len(cc.Args) < 2 || strip(cc.Args[1]) != ssa.Value(m.Params[1])) {
						okAll = false
					}
				}
			}
		})
		if mn == "Pop" {
			// the popped element is what is returned
			for _, rt := range returnsOf(m) {
				cl, ok := strip(rt.Results[0]).(*ssa.Call)
				if !ok || !callID(&cl.Call).is("container/heap", "", "Pop") {
					okAll = false
				}
			}
		}
		r.Check(okAll && n == 1, "C19.R1", fnName(m), "via-container/heap", c.Pos(m.Pos()), fmt.Sprintf("%d container/heap.%s call(s) on the wrapped queue", n, mn))
	}
	if pk := c.Method("utils", wrapper, "Peek"); pk != nil {
		ok := false
		for _, rt := range returnsOf(pk) {
			if a, isL := loadOf(rt.Results[0]); isL {
				if ia, isIA := a.(*ssa.IndexAddr); isIA {
					if n, isC := constInt(ia.Index); isC && n == 0 {
						ok = true
					}
				}
			}
		}
		r.Check(ok, "C19.R1", fnName(pk), "Peek", c.Pos(pk.Pos()), "returns element 0 of the heap slice")
	}
	rawHeapMethodsUnused(c, r, "C19.R1")
	// R2
	rev := c.Method("utils", wrapper, "Reverse")
	if rev == nil {
		r.Unk("C19.R2", "utils."+wrapper, "Reverse", "-", "method not found")
		return
	}
	n := 0
	eachInstr(rev, func(i ssa.Instruction) {
		al, ok := i.(*ssa.Alloc)
		if !ok {
			return
		}
		p, ok := al.Type().(*types.Pointer)
		if !ok {
			return
		}
		nm, ok := p.Elem().(*types.Named)
		if !ok {
			return
		}
		isQ := false
		for _, q := range qts {
			if q.named == nm {
				isQ = true
			}
		}
		if !isQ {
			return
		}
		n++
		cons := "new-" + nm.Obj().Name()
		for _, st := range storesTo(rev, al) {
			fresh, why := freshSlice(st.Val)
			if fresh {
				r.OK("C19.R2", fnName(rev), cons, c.InstrPos(st), why)
			} else {
				r.Bad("C19.R2", fnName(rev), cons, c.InstrPos(st), "the reversed queue shares the source's backing array ("+why+"): heap.Init re-orders the source in place and later pushes/pops on either queue corrupt the other")
			}
		}
	})
	if n == 0 {
		r.Unk("C19.R2", fnName(rev), "new-queue", c.Pos(rev.Pos()), "Reverse does not allocate a queue value: shape not recognised")
	}
}

// freshSlice: v is a slice freshly allocated in this function (make + copy / append onto nil or fresh).
func freshSlice(v ssa.Value) (bool, string) { return freshSliceSeen(v, map[ssa.Value]bool{}) }

func freshSliceSeen(v ssa.Value, seen map[ssa.Value]bool) (bool, string) {
	v = strip(v)
	if seen[v] {
		return true, "loop-carried" // a cycle through φ adds no new source
	}
	seen[v] = true
	switch y := v.(type) {
	case *ssa.MakeSlice:
		return true, "make"
	case *ssa.Call:
		id := callID(&y.Call)
		if id.Pkg == "builtin" && id.Name == "append" {
			b := strip(y.Call.Args[0])
			if isNilConst(b) {
				return true, "append onto nil"
			}
			if ok, _ := freshSliceSeen(b, seen); ok {
				// append(make(T,0,n), src...) is fresh as long as capacity is respected or exceeded (either way a private array)
				return true, "append onto a fresh slice"
			}
			return false, "append onto " + b.String()
		}
		if g := y.Call.StaticCallee(); g != nil && modLocal(g) && len(g.Blocks) > 0 && g.Signature.Results().Len() == 1 && len(seen) < 12 {
			// a helper that returns a slice it allocated itself (cloneItems)
			all := true
			for _, rt := range returnsOf(g) {
				if ok, _ := freshSliceSeen(rt.Results[0], seen); !ok {
					all = false
				}
			}
			if all {
				return true, "result of " + fnName(g) + ", which returns a slice it allocated"
			}
		}
		return false, "result of " + id.String()
	case *ssa.Slice:
		if al, ok := y.X.(*ssa.Alloc); ok && (al.Comment == "makeslice" || al.Comment == "slicelit") {
			return true, "fresh array"
		}
		return freshSliceSeen(y.X, seen)
	case *ssa.Phi:
		for _, e := range y.Edges {
			if ok, why := freshSliceSeen(e, seen); !ok {
				return false, why
			}
		}
		return true, "φ of fresh slices"
	case *ssa.UnOp:
		if y.Op == token.MUL {
			return false, "slice header loaded from " + path(y.X)
		}
	}
	return false, v.String()
}

func swapExchanges(f *ssa.Function) (bool, string) {
	if f == nil || len(f.Params) != 3 {
		return false, "Swap not found"
	}
	// delegation: the method's only effect is one call of a helper with (queue, i, j) in this order
	{
		nStores, nCalls := 0, 0
		var del *ssa.Call
		eachInstr(f, func(in ssa.Instruction) {
			if _, ok := in.(*ssa.Store); ok {
				nStores++
			}
			if cl, ok := in.(*ssa.Call); ok && cl.Call.StaticCallee() != nil && modLocal(cl.Call.StaticCallee()) {
				nCalls++
				del = cl
			}
		})
		if nStores == 0 && nCalls == 1 && len(del.Call.Args) == 3 && len(del.Call.StaticCallee().Params) == 3 &&
			strip(del.Call.Args[0]) == ssa.Value(f.Params[0]) && strip(del.Call.Args[1]) == ssa.Value(f.Params[1]) && strip(del.Call.Args[2]) == ssa.Value(f.Params[2]) {
			ok, why := swapExchanges(del.Call.StaticCallee())
			return ok, why + " (in " + del.Call.StaticCallee().Name() + ")"
		}
	}
	pq, i, j := ssa.Value(f.Params[0]), ssa.Value(f.Params[1]), ssa.Value(f.Params[2])
	elem := func(a ssa.Value) ssa.Value { // index of IndexAddr(pq, idx)
		ia, ok := a.(*ssa.IndexAddr)
		if !ok || strip(ia.X) != pq {
			if ok {
				if l, isL := loadOf(ia.X); isL && l == pq {
					return ia.Index
				}
			}
			return nil
		}
		return ia.Index
	}
	var stores []*ssa.Store
	eachInstr(f, func(in ssa.Instruction) {
		if st, ok := in.(*ssa.Store); ok {
			stores = append(stores, st)
		}
	})
	if len(stores) != 2 {
		return false, fmt.Sprintf("%d stores, want 2", len(stores))
	}
	okIJ, okJI := false, false
	for _, st := range stores {
		dst := elem(st.Addr)
		src, isL := loadOf(st.Val)
		if dst == nil || !isL {
			return false, "store is not element := element"
		}
		s := elem(src)
		// both loads must precede both stores
		if ld, ok := st.Val.(ssa.Instruction); ok {
			for _, st2 := range stores {
				if !instrDominates(ld, st2) {
					return false, "an element is read after a store (not a simultaneous exchange)"
				}
			}
		}
		if dst == i && s == j {
			okIJ = true
		}
		if dst == j && s == i {
			okJI = true
		}
	}
	if okIJ && okJI {
		return true, "pq[i], pq[j] = pq[j], pq[i]"
	}
	return false, "does not exchange exactly elements i and j"
}

func lenIsLen(f *ssa.Function) (bool, string) {
	if f == nil {
		return false, "Len not found"
	}
	for _, rt := range returnsOf(f) {
		cl, ok := rt.Results[0].(*ssa.Call)
		if !ok || !callID(&cl.Call).is("builtin", "", "len") || strip(cl.Call.Args[0]) != ssa.Value(f.Params[0]) {
			return false, "Len does not return len(receiver)"
		}
	}
	return true, "len(receiver)"
}

func pushAppends(f *ssa.Function) (bool, string) {
	if f == nil || len(f.Params) != 2 {
		return false, "Push not found"
	}
	recv, val := ssa.Value(f.Params[0]), ssa.Value(f.Params[1])
	return pushAppendsOn(f, recv, val, 0)
}

// delegate: f does nothing to *recv itself but hands recv (converted) to a module helper; returns the helper, the
// helper's parameter standing for recv, and the call.
func delegate(f *ssa.Function, recv ssa.Value) (*ssa.Function, []ssa.Value, *ssa.Call) {
	if len(storesTo(f, recv)) != 0 {
		return nil, nil, nil
	}
	var g *ssa.Function
	var call *ssa.Call
	eachInstr(f, func(i ssa.Instruction) {
		cl, ok := i.(*ssa.Call)
		if !ok || cl.Call.StaticCallee() == nil || !modLocal(cl.Call.StaticCallee()) || len(cl.Call.StaticCallee().Blocks) == 0 {
			return
		}
		for _, a := range cl.Call.Args {
			if strip(a) == recv {
				g, call = cl.Call.StaticCallee(), cl
			}
		}
	})
	if g == nil {
		return nil, nil, nil
	}
	return g, call.Call.Args, call
}

func pushAppendsOn(f *ssa.Function, recv, val ssa.Value, depth int) (bool, string) {
	if g, args, _ := delegate(f, recv); g != nil && depth < 2 {
		var gr, gv ssa.Value
		for k, a := range args {
			if k < len(g.Params) {
				if strip(a) == recv {
					gr = g.Params[k]
				}
				if strip(a) == val {
					gv = g.Params[k]
				}
			}
		}
		if gr != nil && gv != nil {
			return pushAppendsOn(g, gr, gv, depth+1)
		}
	}
	st := storesTo(f, recv)
	if len(st) != 1 {
		return false, "Push does not store the receiver exactly once"
	}
	cl, ok := st[0].Val.(*ssa.Call)
	if !ok || !callID(&cl.Call).is("builtin", "", "append") {
		return false, "stored value is not an append"
	}
	if l, ok := loadOf(cl.Call.Args[0]); !ok || l != recv {
		return false, "append base is not *receiver"
	}
	elems := flatArgs(&cl.Call)
	if len(elems) != 2 || strip(elems[1]) != val {
		return false, "appended element is not the argument"
	}
	return true, "*pq = append(*pq, val)"
}

func popRemovesLast(f *ssa.Function) (bool, string) {
	if f == nil || len(f.Params) != 1 {
		return false, "Pop not found"
	}
	return popRemovesLastOn(f, ssa.Value(f.Params[0]), 0)
}

func popRemovesLastOn(f *ssa.Function, recv ssa.Value, depth int) (bool, string) {
	if g, args, call := delegate(f, recv); g != nil && depth < 2 {
		var gr ssa.Value
		for k, a := range args {
			if k < len(g.Params) && strip(a) == recv {
				gr = g.Params[k]
			}
		}
		returned := true
		for _, rt := range returnsOf(f) {
			if len(rt.Results) != 1 || strip(rt.Results[0]) != ssa.Value(call) {
				returned = false
			}
		}
		if gr != nil && returned {
			return popRemovesLastOn(g, gr, depth+1)
		}
	}
	isLenMinus1 := func(v ssa.Value, of ssa.Value) bool {
		b, ok := v.(*ssa.BinOp)
		if !ok || b.Op != token.SUB {
			return false
		}
		if n, ok := constInt(b.Y); !ok || n != 1 {
			return false
		}
		cl, ok := b.X.(*ssa.Call)
		return ok && callID(&cl.Call).is("builtin", "", "len") && cl.Call.Args[0] == of
	}
	st := storesTo(f, recv)
	if len(st) != 1 {
		return false, "Pop does not store the receiver exactly once"
	}
	sl, ok := st[0].Val.(*ssa.Slice)
	if !ok {
		return false, "stored value is not a re-slice"
	}
	old := sl.X
	if l, ok := loadOf(old); !ok || l != recv {
		return false, "re-slice is not of *receiver"
	}
	if sl.Low != nil {
		if n, ok := constInt(sl.Low); !ok || n != 0 {
			return false, "Pop drops elements from the front"
		}
	}
	if sl.High == nil || !isLenMinus1(sl.High, old) {
		return false, "Pop does not shrink by exactly one"
	}
	for _, rt := range returnsOf(f) {
		a, ok := loadOf(strip(rt.Results[0]))
		if !ok {
			return false, "returned value is not an element"
		}
		ia, ok := a.(*ssa.IndexAddr)
		if !ok || ia.X != old || !isLenMinus1(ia.Index, old) {
			return false, "Pop does not return the last element"
		}
		if ld, ok := strip(rt.Results[0]).(ssa.Instruction); ok && !instrDominates(ld, st[0]) {
			// element read after shrinking is still in the backing array: accepted
			_ = ld
		}
	}
	return true, "returns old[len-1], stores old[0:len-1]"
}

// queueKindFixedAtConstruction: the wrapped heap (and with it the ordering direction) is chosen once, by a constructor.
func queueKindFixedAtConstruction(c *Ctx, r *Report, rule string) {
	fld := c.Field("utils", "priorityQueue", "queue")
	if fld == nil {
		r.Unk(rule, "utils.priorityQueue", "queue", "-", "field not found")
		return
	}
	n, bad := 0, ""
	for _, f := range prodFuncs(c, "utils") {
		for _, st := range fieldStoresIn(f, fld) {
			n++
			fa := st.Addr.(*ssa.FieldAddr)
			if al, ok := strip(fa.X).(*ssa.Alloc); ok && al.Heap {
				continue
			}
			bad = fnName(f) + " at " + c.InstrPos(st)
		}
	}
	if bad != "" {
		r.Bad(rule, "utils.priorityQueue", "kind-fixed-at-construction", "-", "the wrapped heap of an existing queue is replaced ("+bad+"): the ordering direction is a property of the wrapped type, so a replacement can silently turn a max queue into a min queue (or drop items) in the middle of a push/pop history")
	} else {
		r.OK(rule, "utils.priorityQueue", "kind-fixed-at-construction", "-", fmt.Sprintf("%d store(s) to the wrapped heap, all into a freshly allocated queue (constructors)", n))
	}
}

// ---- a small symbolic reading of slice expressions, through pure helper functions -------------------------------------------

// symExpr renders v as an expression over the function's parameters: loads, len, slicing, indexing, append and x-1, with the
// results of small module-local helpers replaced by what they return for these arguments. Two values with the same rendering
// are the same expression.
func symExpr(v ssa.Value, env map[*ssa.Parameter]string, depth int) string {
	if depth > 8 || v == nil {
		return "?"
	}
	v = strip(v)
	switch y := v.(type) {
	case *ssa.Parameter:
		if s, ok := env[y]; ok {
			return s
		}
		return "param:" + y.Name()
	case *ssa.Const:
		if y.Value == nil {
			return "nil"
		}
		return y.Value.ExactString()
	case *ssa.UnOp:
		if y.Op == token.MUL {
			if ia, ok := y.X.(*ssa.IndexAddr); ok {
				return "index(" + symExpr(ia.X, env, depth+1) + "," + symExpr(ia.Index, env, depth+1) + ")"
			}
			if al, ok := y.X.(*ssa.Alloc); ok {
				if st := storesTo(al.Parent(), al); len(st) == 1 {
					return symExpr(st[0].Val, env, depth+1)
				}
			}
			return "deref(" + symExpr(y.X, env, depth+1) + ")"
		}
	case *ssa.Slice:
		lo, hi := "0", "end"
		if y.Low != nil {
			lo = symExpr(y.Low, env, depth+1)
		}
		if y.High != nil {
			hi = symExpr(y.High, env, depth+1)
		}
		return "slice(" + symExpr(y.X, env, depth+1) + "," + lo + "," + hi + ")"
	case *ssa.BinOp:
		return "(" + symExpr(y.X, env, depth+1) + y.Op.String() + symExpr(y.Y, env, depth+1) + ")"
	case *ssa.Extract:
		if cl, ok := y.Tuple.(*ssa.Call); ok {
			return symCall(cl, y.Index, env, depth)
		}
	case *ssa.Call:
		return symCall(y, 0, env, depth)
	}
	return "?" + v.Name()
}

func symCall(cl *ssa.Call, idx int, env map[*ssa.Parameter]string, depth int) string {
	id := callID(&cl.Call)
	if id.Pkg == "builtin" {
		switch id.Name {
		case "len":
			return "len(" + symExpr(cl.Call.Args[0], env, depth+1) + ")"
		case "append":
			s := "append(" + symExpr(cl.Call.Args[0], env, depth+1)
			for _, e := range flatArgs(&cl.Call)[1:] {
				s += "," + symExpr(e, env, depth+1)
			}
			return s + ")"
		}
	}
	g := cl.Call.StaticCallee()
	if g == nil || !modLocal(g) || len(g.Blocks) == 0 {
		return "?call"
	}
	rets := returnsOf(g)
	if len(rets) != 1 || idx >= len(rets[0].Results) {
		return "?call"
	}
	sub := map[*ssa.Parameter]string{}
	for k, p := range g.Params {
		if k < len(cl.Call.Args) {
			sub[p] = symExpr(cl.Call.Args[k], env, depth+1)
		}
	}
	return symExpr(rets[0].Results[idx], sub, depth+1)
}

func pushAppendsSym(f *ssa.Function) bool {
	if f == nil || len(f.Params) != 2 {
		return false
	}
	st := storesTo(f, f.Params[0])
	if len(st) != 1 {
		return false
	}
	r := "param:" + f.Params[0].Name()
	return symExpr(st[0].Val, nil, 0) == "append(deref("+r+"),param:"+f.Params[1].Name()+")"
}

func popRemovesLastSym(f *ssa.Function) bool {
	if f == nil || len(f.Params) != 1 {
		return false
	}
	st := storesTo(f, f.Params[0])
	if len(st) != 1 {
		return false
	}
	d := "deref(param:" + f.Params[0].Name() + ")"
	last := "(len(" + d + ")-1)"
	if symExpr(st[0].Val, nil, 0) != "slice("+d+",0,"+last+")" {
		return false
	}
	for _, rt := range returnsOf(f) {
		if len(rt.Results) != 1 || symExpr(rt.Results[0], nil, 0) != "index("+d+","+last+")" {
			return false
		}
	}
	return true
}
