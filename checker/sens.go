package main

import (
	"bufio"
	"encoding/json"
	"fmt"
	"os"
	"os/exec"
	"path/filepath"
	"sort"
	"strings"
	"sync"
)

// Rule sensitivity suite (thorough tier): every recorded variant of /repo that is known to break a property — the
// reverse patch of each `fix:` commit and every seeded change kept under /verif/seeded — is analysed through an
// overlay of the current source (no copy of the repository, one fresh process per variant) and must make the property's
// check report a violation. The suite never produces a VIOLATION itself: it is evidence that the rules are not vacuous
// on today's tree.

type variant struct {
	name  string
	diff  string
	props []string
}

func listVariants(verif string) []variant {
	var out []variant
	// variants/*/expect.txt
	dirs, _ := filepath.Glob(filepath.Join(verif, "variants", "*"))
	for _, d := range dirs {
		f, err := os.Open(filepath.Join(d, "expect.txt"))
		if err != nil {
			continue
		}
		sc := bufio.NewScanner(f)
		for sc.Scan() {
			l := strings.TrimSpace(sc.Text())
			if l == "" || strings.HasPrefix(l, "#") {
				continue
			}
			fs := strings.Fields(l)
			out = append(out, variant{name: filepath.Base(d) + "/" + fs[0], diff: filepath.Join(d, fs[0]), props: fs[1:]})
		}
		f.Close()
	}
	// seeded/<id>/meta.json
	metas, _ := filepath.Glob(filepath.Join(verif, "seeded", "*", "meta.json"))
	for _, m := range metas {
		b, err := os.ReadFile(m)
		if err != nil {
			continue
		}
		var meta struct {
			Breaks   []string `json:"breaks"`
			CaughtBy []string `json:"caught_by"`
		}
		if json.Unmarshal(b, &meta) != nil {
			continue
		}
		d := filepath.Dir(m)
		if _, err := os.Stat(filepath.Join(d, "patch.diff")); err != nil {
			continue
		}
		out = append(out, variant{name: "seeded/" + filepath.Base(d), diff: filepath.Join(d, "patch.diff"), props: meta.CaughtBy})
	}
	sort.Slice(out, func(i, j int) bool { return out[i].name < out[j].name })
	return out
}

// overlayFromDiff applies a unified diff to copies of the touched files and returns path -> new content.
func overlayFromDiff(repo, diff string) (map[string][]byte, error) {
	b, err := os.ReadFile(diff)
	if err != nil {
		return nil, err
	}
	var files []string
	for _, l := range strings.Split(string(b), "\n") {
		if strings.HasPrefix(l, "+++ ") && !strings.HasPrefix(l, "+++ /dev/null") {
			f := strings.TrimSpace(strings.TrimPrefix(l, "+++ "))
			if i := strings.Index(f, "/"); i >= 0 {
				f = f[i+1:] // strip the a/ or b/ prefix (reverse patches carry a/ on the new side)
			}
			if i := strings.Index(f, "\t"); i >= 0 {
				f = f[:i]
			}
			files = append(files, f)
		}
	}
	tmp, err := os.MkdirTemp("", "anndb-overlay-")
	if err != nil {
		return nil, err
	}
	defer os.RemoveAll(tmp)
	for _, f := range files {
		src, err := os.ReadFile(filepath.Join(repo, f))
		if err != nil {
			src = nil // new file
		}
		os.MkdirAll(filepath.Dir(filepath.Join(tmp, f)), 0o755)
		if src != nil {
			if err := os.WriteFile(filepath.Join(tmp, f), src, 0o644); err != nil {
				return nil, err
			}
		}
	}
	cmd := exec.Command("git", "apply", "-p1", diff)
	cmd.Dir = tmp
	if out, err := cmd.CombinedOutput(); err != nil {
		return nil, fmt.Errorf("variant does not apply to the current tree: %v %s", err, out)
	}
	ov := map[string][]byte{}
	for _, f := range files {
		nb, err := os.ReadFile(filepath.Join(tmp, f))
		if err != nil {
			return nil, err
		}
		ov[filepath.Join(repo, f)] = nb
	}
	return ov, nil
}

func init() {
	thoroughHook = func(c *Ctx, r *Report, prop, repo string, extra map[string]interface{}) {
		self, err := os.Executable()
		if err != nil {
			r.Infof("sensitivity suite skipped: %v", err)
			return
		}
		verif := extraVerifDir
		var todo []variant
		for _, v := range listVariants(verif) {
			for _, p := range v.props {
				if p == prop {
					todo = append(todo, v)
				}
			}
		}
		type res struct {
			Variant string `json:"variant"`
			Outcome string `json:"outcome"`
			First   string `json:"first_report,omitempty"`
		}
		results := make([]res, len(todo))
		sem := make(chan struct{}, 4)
		var wg sync.WaitGroup
		for k, v := range todo {
			wg.Add(1)
			go func(k int, v variant) {
				defer wg.Done()
				sem <- struct{}{}
				defer func() { <-sem }()
				out, _ := os.MkdirTemp("", "anndb-sens-")
				defer os.RemoveAll(out)
				os.MkdirAll(filepath.Join(out, "evidence"), 0o755)
				cmd := exec.Command(self, "-repo", repo, "-verif", verif, "-out", out, "-prop", prop, "-tier", "quick", "-overlay", v.diff)
				b, err := cmd.CombinedOutput()
				rs := res{Variant: v.name}
				code := 0
				if ee, ok := err.(*exec.ExitError); ok {
					code = ee.ExitCode()
				} else if err != nil {
					code = -1
				}
				for _, l := range strings.Split(string(b), "\n") {
					if strings.HasPrefix(l, "VIOLATED") || strings.HasPrefix(l, "UNDECIDED") {
						rs.First = l
						if len(rs.First) > 300 {
							rs.First = rs.First[:300]
						}
						break
					}
				}
				switch {
				case strings.Contains(string(b), "variant does not apply"):
					rs.Outcome = "skipped (does not apply to the current tree)"
				case code == 1 && strings.Contains(string(b), "VIOLATION property="):
					rs.Outcome = "caught"
				default:
					rs.Outcome = fmt.Sprintf("MISSED (exit %d)", code)
				}
				results[k] = rs
			}(k, v)
		}
		wg.Wait()
		caught, missed, skipped := 0, 0, 0
		for _, x := range results {
			switch {
			case x.Outcome == "caught":
				caught++
			case strings.HasPrefix(x.Outcome, "skipped"):
				skipped++
			default:
				missed++
				fmt.Printf("sensitivity: variant %s is NOT reported by the %s check (self-test failure, not a verdict on /repo)\n", x.Variant, prop)
			}
		}
		extra["disagreements_checked"] = caught
		extra["sensitivity_suite"] = map[string]interface{}{"variants": len(todo), "caught": caught, "missed": missed, "skipped": skipped, "results": results,
			"meaning": "each variant is a known property-breaking edit of /repo (reverse patch of a fix commit, or a seeded change); it is analysed through an overlay and the check must report a violation"}
		fmt.Printf("sensitivity suite for %s: %d variants, %d caught, %d missed, %d skipped\n", prop, len(todo), caught, missed, skipped)
	}
}

var extraVerifDir = "/verif"

// overlayFromDir maps every regular file under dir (paths relative to dir mirror the repository) onto the repository.
func overlayFromDir(repo, dir string) (map[string][]byte, error) {
	ov := map[string][]byte{}
	err := filepath.Walk(dir, func(p string, fi os.FileInfo, err error) error {
		if err != nil || fi.IsDir() {
			return err
		}
		rel, err := filepath.Rel(dir, p)
		if err != nil {
			return err
		}
		b, err := os.ReadFile(p)
		if err != nil {
			return err
		}
		ov[filepath.Join(repo, rel)] = b
		return nil
	})
	return ov, err
}
