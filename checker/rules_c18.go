package main

import (
	"fmt"
	"go/token"
	"go/types"
	"sort"
	"strings"

	"golang.org/x/tools/go/ssa"
)

func init() { register("C18", checkC18) }

// held locks at field granularity --------------------------------------------------------------------

type heldSet map[*types.Var]byte

type lockWorld struct {
	c     *Ctx
	fns   []*ssa.Function
	intra map[*ssa.Function]*lockInfo
	entry map[*ssa.Function]heldSet // locks that may be held on entry (from callers)
}

func (w *lockWorld) heldAt(f *ssa.Function, i ssa.Instruction) heldSet {
	out := heldSet{}
	for k, v := range w.entry[f] {
		out[k] = v
	}
	li := w.intra[f]
	if li != nil {
		for p, m := range li.before[i].may {
			if fld := mutexField(li.lockVal[p]); fld != nil {
				if out[fld] != 'W' {
					out[fld] = m
				}
			}
		}
	}
	return out
}

func newLockWorld(c *Ctx) *lockWorld {
	w := &lockWorld{c: c, intra: map[*ssa.Function]*lockInfo{}, entry: map[*ssa.Function]heldSet{}}
	for _, f := range c.ModFuncs {
		if c.isProd(f) {
			w.fns = append(w.fns, f)
			w.intra[f] = analyzeLocks(f)
			w.entry[f] = heldSet{}
		}
	}
	changed := true
	for changed {
		changed = false
		for _, f := range w.fns {
			eachInstr(f, func(i ssa.Instruction) {
				var cc *ssa.CallCommon
				switch y := i.(type) {
				case *ssa.Call:
					cc = &y.Call
				default:
					return
				}
				t := cc.StaticCallee()
				if t == nil || w.entry[t] == nil {
					return
				}
				for k, v := range w.heldAt(f, i) {
					if old, ok := w.entry[t][k]; !ok || (v == 'W' && old != 'W') {
						w.entry[t][k] = v
						changed = true
					}
				}
			})
		}
	}
	return w
}

// channel identity -------------------------------------------------------------------------------------

// chanFields: struct fields a channel value may live in.
func chanFields(v ssa.Value, depth int) map[*types.Var]bool {
	out := map[*types.Var]bool{}
	if depth > 4 || v == nil {
		return out
	}
	for _, o := range origins(v, originOpt{}) {
		if f := fieldOfValueDeep(o); f != nil {
			out[f] = true
			continue
		}
		switch y := o.(type) {
		case *ssa.MakeChan:
			// where is it stored / appended?
			eachTransitiveUse(y, func(u ssa.Instruction, via ssa.Value) {
				switch z := u.(type) {
				case *ssa.Store:
					if f := fieldOfAddr(z.Addr); f != nil {
						out[f] = true
					}
					// packed into a variadic argument array: follow array -> slice -> append -> store
					if ia, ok := z.Addr.(*ssa.IndexAddr); ok {
						if al, ok := ia.X.(*ssa.Alloc); ok && al.Comment == "varargs" {
							for _, r1 := range *al.Referrers() {
								if sl, ok := r1.(*ssa.Slice); ok && sl.Referrers() != nil {
									for _, r2 := range *sl.Referrers() {
										if ap, ok := r2.(*ssa.Call); ok && callID(&ap.Call).is("builtin", "", "append") && ap.Referrers() != nil {
											for _, r3 := range *ap.Referrers() {
												if st, ok := r3.(*ssa.Store); ok {
													if f := fieldOfAddr(st.Addr); f != nil {
														out[f] = true
													}
												}
											}
										}
									}
								}
							}
						}
					}
				case *ssa.MapUpdate:
					if f := fieldOfValueDeep(z.Map); f != nil {
						out[f] = true
					}
				case *ssa.Call:
					if callID(&z.Call).is("builtin", "", "append") {
						if z.Referrers() != nil {
							for _, uu := range *z.Referrers() {
								if st, ok := uu.(*ssa.Store); ok {
									if f := fieldOfAddr(st.Addr); f != nil {
										out[f] = true
									}
								}
							}
						}
					}
				}
			})
		case *ssa.Call:
			if g := y.Call.StaticCallee(); g != nil && modLocal(g) {
				for _, rt := range returnsOf(g) {
					for _, res := range rt.Results {
						if _, ok := res.Type().Underlying().(*types.Chan); ok {
							for f := range chanFields(res, depth+1) {
								out[f] = true
							}
						}
					}
				}
			}
		case *ssa.Extract:
			if cl, ok := y.Tuple.(*ssa.Call); ok {
				if g := cl.Call.StaticCallee(); g != nil && modLocal(g) {
					for _, rt := range returnsOf(g) {
						if y.Index < len(rt.Results) {
							for f := range chanFields(rt.Results[y.Index], depth+1) {
								out[f] = true
							}
						}
					}
				}
			}
		}
	}
	return out
}

type chanOp struct {
	fn    *ssa.Function
	ins   ssa.Instruction
	dir   string // send | recv
	chans map[*types.Var]bool
}

// blockingOps lists channel operations that can block: sends / receives outside a select with default.
func blockingOps(c *Ctx, fns []*ssa.Function, callers map[*ssa.Function][]*ssa.Call) []chanOp {
	var out []chanOp
	for _, f := range fns {
		eachInstr(f, func(i ssa.Instruction) {
			switch y := i.(type) {
			case *ssa.Send:
				if deadByConstParam(f, i, callers) {
					return
				}
				out = append(out, chanOp{f, i, "send", chanFields(y.Chan, 0)})
			case *ssa.UnOp:
				if y.Op == token.ARROW {
					out = append(out, chanOp{f, i, "recv", chanFields(y.X, 0)})
				}
			case *ssa.Select:
				if !y.Blocking {
					return
				}
				for _, st := range y.States {
					d := "recv"
					if st.Dir == types.SendOnly {
						d = "send"
					}
					out = append(out, chanOp{f, i, d, chanFields(st.Chan, 0)})
				}
			}
		})
	}
	return out
}

// deadByConstParam: the instruction is guarded by a boolean parameter that every module call site passes as the
// constant making the guard false.
func deadByConstParam(f *ssa.Function, i ssa.Instruction, callers map[*ssa.Function][]*ssa.Call) bool {
	for _, ifi := range allIfs(f) {
		p, ok := ifi.Cond.(*ssa.Parameter)
		if !ok {
			continue
		}
		var pol bool
		if guardedBy(i.Block(), ifi, true) {
			pol = true
		} else if guardedBy(i.Block(), ifi, false) {
			pol = false
		} else {
			continue
		}
		pi := -1
		for k, pp := range f.Params {
			if pp == p {
				pi = k
			}
		}
		cs := callers[f]
		if len(cs) == 0 || pi < 0 {
			continue
		}
		all := true
		for _, cl := range cs {
			k, ok := cl.Call.Args[pi].(*ssa.Const)
			if !ok || k.Value == nil || (k.Value.String() == "true") == pol {
				all = false
			}
		}
		if all {
			return true
		}
	}
	return false
}

func fieldLabel(f *types.Var) string { return typeOfField(f) + "." + f.Name() }

func labels(m map[*types.Var]bool) string {
	var s []string
	for f := range m {
		s = append(s, fieldLabel(f))
	}
	sort.Strings(s)
	return strings.Join(s, "+")
}

// locksAcquiredFrom: mutex fields (with mode) acquired by f or anything it reaches (static + call graph), no `go`.
func locksAcquiredFrom(c *Ctx, w *lockWorld, roots []*ssa.Function) map[*types.Var]string {
	out := map[*types.Var]string{}
	for g := range reachCtx(c, roots) {
		eachInstr(g, func(i ssa.Instruction) {
			if cl, ok := i.(*ssa.Call); ok {
				if op, mu := mutexOp(&cl.Call); op == "Lock" || op == "RLock" {
					if fld := mutexField(mu); fld != nil {
						mode := "R"
						if op == "Lock" {
							mode = "W"
						}
						if out[fld] == "" || mode == "W" {
							out[fld] = mode + " at " + c.InstrPos(i) + " in " + fnName(g)
						}
					}
				}
			}
		})
	}
	return out
}

// inLoopCallees: functions called by f from instructions that lie on a cycle through `at`.
func inLoopCallees(c *Ctx, f *ssa.Function, at ssa.Instruction) []*ssa.Function {
	var out []*ssa.Function
	eachInstr(f, func(i ssa.Instruction) {
		call, ok := i.(*ssa.Call)
		if !ok {
			return
		}
		_, fwd := reachesAvoiding(f, at, func(z ssa.Instruction) bool { return z == i }, nil)
		_, back := reachesAvoiding(f, i, func(z ssa.Instruction) bool { return z == at }, nil)
		if !fwd || !back {
			return
		}
		for _, g := range c.calleesOf(f, call) {
			out = appendUnique(out, g)
		}
	})
	return out
}

func checkC18(c *Ctx, r *Report, tier string) {
	round5(c, r, "C18")
	round6(c, r, "C18")
	round7(c, r, "C18")
	round8(c, r, "C18")
	r.Rule("C18.R1", "no blocking channel operation under a mutex the counterpart needs: for every send/receive that can block, executed while a mutex M may be held (own frame or a caller's), the code that the role performing the complementary operation runs between two such operations cannot acquire M (write/any) — otherwise sender and receiver wait for each other", 2)
	r.Rule("C18.R2", "no role-level wait cycle: an apply tree never blocks sending to a loop that, inside its own loop body, waits without a deadline for a notification only that apply tree sends", 1)
	r.Rule("C18.R3", "mutex discipline of the control plane: the may-hold-while-acquiring relation between mutex fields (own frame and callers) has no cycle, and no mutex is re-acquired on the same object while it may already be held (a recursive RLock deadlocks as soon as a writer queues in between)", 2)
	w := newLockWorld(c)
	lockOrderRule(c, r, "C18.R3", w, nil)
	r.Rule("C18.R4", "the loops the control plane depends on keep running and keep their deadlines: no role loop (a function selecting on channels in an endless loop) defers a recover for its whole body; a function that is given a context hands on that context (or one derived from it), never a longer-lived one", 8)
	{
		var loops []*ssa.Function
		for _, f := range prodFuncs(c, "storage", "storage/raft", "cluster") {
			isLoop := false
			eachInstr(f, func(i ssa.Instruction) {
				if s, ok := i.(*ssa.Select); ok && s.Blocking && inCycle(f, i) {
					isLoop = true
				}
			})
			if isLoop && f.Signature.Results().Len() == 0 {
				loops = append(loops, f)
			}
		}
		loopsSurvivePanics(c, r, "C18.R4", loops)
		contextsAreForwarded(c, r, "C18.R4", "storage", "storage/raft")
		roleLoopHandlersSequential(c, r, "C18.R4", loops)
	}
	r.Rule("C18.R5", "start-up cannot wedge: the allocator loop runs before the zero group is started, log consumers are registered before it (borrowed from C14.R1), and dialling a peer never waits for the connection", 3)
	receiversStartBeforeTheLog(c, r, "C18.R5")
	borrow(c, r, "C14", "C14.R1", "C18.R5", "")
	dialDoesNotBlock(c, r, "C18.R5")
	callers := map[*ssa.Function][]*ssa.Call{}
	for _, f := range w.fns {
		eachInstr(f, func(i ssa.Instruction) {
			if cl, ok := i.(*ssa.Call); ok && cl.Call.StaticCallee() != nil {
				callers[cl.Call.StaticCallee()] = append(callers[cl.Call.StaticCallee()], cl)
			}
		})
	}
	ops := blockingOps(c, w.fns, callers)
	r.Infof("C18: %d blocking channel operations in %d production functions", len(ops), len(w.fns))
	// R1
	nSites := 0
	for _, op := range ops {
		held := w.heldAt(op.fn, op.ins)
		if len(held) == 0 || len(op.chans) == 0 {
			continue
		}
		nSites++
		// counterparts
		type cp struct {
			fn  *ssa.Function
			ins ssa.Instruction
		}
		var cps []cp
		for _, o2 := range ops {
			if o2.dir == op.dir {
				continue
			}
			share := false
			for k := range op.chans {
				if o2.chans[k] {
					share = true
				}
			}
			if share {
				cps = append(cps, cp{o2.fn, o2.ins})
			}
		}
		var hl []*types.Var
		for m := range held {
			hl = append(hl, m)
		}
		sort.Slice(hl, func(i, j int) bool { return fieldLabel(hl[i]) < fieldLabel(hl[j]) })
		for _, m := range hl {
			cons := fmt.Sprintf("%s-on-%s-holding-%s", op.dir, labels(op.chans), fieldLabel(m))
			bad := ""
			for _, p := range cps {
				acq := locksAcquiredFrom(c, w, inLoopCallees(c, p.fn, p.ins))
				how, ok := acq[m]
				if !ok {
					continue
				}
				// read/read does not conflict
				if held[m] == 'R' && strings.HasPrefix(how, "R") {
					continue
				}
				bad = fmt.Sprintf("the %s side (%s, %s) acquires %s (%s) between two operations on the channel", map[string]string{"send": "receiving", "recv": "sending"}[op.dir], fnName(p.fn), c.InstrPos(p.ins), fieldLabel(m), how)
			}
			if bad != "" {
				r.Bad("C18.R1", fnName(op.fn), cons, c.InstrPos(op.ins), fmt.Sprintf("blocking %s on %s while %s may be held (%c); %s: both sides can wait for each other forever", op.dir, labels(op.chans), fieldLabel(m), held[m], bad))
			} else {
				r.OK("C18.R1", fnName(op.fn), cons, c.InstrPos(op.ins), fmt.Sprintf("%d counterpart site(s); none can acquire %s between operations", len(cps), fieldLabel(m)))
			}
		}
	}
	if nSites == 0 {
		r.OKTrivial("C18.R1", "module", "no-blocking-op-under-lock", "-", "no blocking channel operation executes while a module mutex may be held")
	}
	// R2
	ro := discoverRoles(c)
	applyReach := c.reachableFrom(ro.applyRoots, true, true)
	found := 0
	for _, op := range ops {
		if op.dir != "send" || !applyReach[op.fn] || len(op.chans) == 0 {
			continue
		}
		if _, isSel := op.ins.(*ssa.Select); isSel {
			continue
		}
		// receivers of this channel that are loops
		for _, o2 := range ops {
			if o2.dir != "recv" {
				continue
			}
			share := false
			for k := range op.chans {
				if o2.chans[k] {
					share = true
				}
			}
			if !share || applyReach[o2.fn] {
				continue
			}
			// does the receiver's loop body wait, unbounded, for a notification sent by the apply tree?
			body := inLoopCallees(c, o2.fn, o2.ins)
			for g := range reachCtx(c, body) {
				wt, ok := notificationWait(c, g)
				if !ok {
					continue
				}
				bounded, why := ctxBounded(c, g, wt.ctx, body, 0)
				if bounded {
					continue
				}
				// the notification comes from the apply tree
				sentByApply := false
				for a := range applyReach {
					eachInstr(a, func(i ssa.Instruction) {
						if cc := asCall(i); cc != nil && isNotificatorCall(cc, "Notify") && fieldOfValue(cc.Args[0]) == wt.owner {
							sentByApply = true
						}
					})
				}
				if !sentByApply {
					continue
				}
				found++
				r.Bad("C18.R2", fnName(op.fn), fmt.Sprintf("cycle-%s->%s->%s", labels(op.chans), o2.fn.Name(), g.Name()), c.InstrPos(op.ins),
					fmt.Sprintf("wait-for cycle: the apply loop blocks sending on %s (%s), whose only receiver %s is, inside its loop body, in %s waiting for the outcome of a proposal with a context that has no deadline (%s) — an outcome only this apply loop delivers", labels(op.chans), c.InstrPos(op.ins), fnName(o2.fn), fnName(g), why))
			}
		}
	}
	if found == 0 {
		r.OK("C18.R2", "module", "no-role-cycle", "-", "no apply-tree send is served by a loop that waits unboundedly on the same apply tree")
	}
}

type notifWait struct {
	sel   *ssa.Select
	ctx   ssa.Value
	owner *types.Var
}

// notificationWait: g creates a notification channel and selects on it together with ctx.Done().
func notificationWait(c *Ctx, g *ssa.Function) (notifWait, bool) {
	var create *ssa.Call
	var sel *ssa.Select
	eachInstr(g, func(i ssa.Instruction) {
		if cl, ok := i.(*ssa.Call); ok && isNotificatorCall(&cl.Call, "Create") {
			create = cl
		}
		if s, ok := i.(*ssa.Select); ok && s.Blocking {
			sel = s
		}
	})
	if create == nil || sel == nil {
		return notifWait{}, false
	}
	w := notifWait{sel: sel, owner: fieldOfValue(create.Call.Args[0])}
	for _, st := range sel.States {
		if cl, ok := st.Chan.(*ssa.Call); ok && callID(&cl.Call).Name == "Done" {
			w.ctx = cl.Call.Value
			if w.ctx == nil && len(cl.Call.Args) > 0 {
				w.ctx = cl.Call.Args[0]
			}
		}
	}
	if w.ctx == nil {
		return w, true // no timeout arm at all
	}
	return w, true
}

// ctxBounded: does the context value carry a deadline on every way it reaches g (looking at callers inside `within`)?
func ctxBounded(c *Ctx, g *ssa.Function, ctx ssa.Value, within []*ssa.Function, depth int) (bool, string) {
	if ctx == nil {
		return false, "no context arm"
	}
	if depth > 5 {
		return true, ""
	}
	for _, o := range origins(ctx, originOpt{}) {
		switch y := o.(type) {
		case *ssa.Extract:
			if cl, ok := y.Tuple.(*ssa.Call); ok {
				n := callID(&cl.Call)
				if n.Pkg == "context" && (n.Name == "WithTimeout" || n.Name == "WithDeadline") {
					continue
				}
				if n.Pkg == "context" && n.Name == "WithCancel" {
					if b, why := ctxBounded(c, g, cl.Call.Args[0], within, depth+1); !b {
						return false, why
					}
					continue
				}
			}
			return true, ""
		case *ssa.Call:
			n := callID(&y.Call)
			if n.Pkg == "context" && (n.Name == "Background" || n.Name == "TODO") {
				return false, "context.Background()"
			}
			continue
		case *ssa.Parameter:
			pi := -1
			for k, p := range g.Params {
				if p == y {
					pi = k
				}
			}
			reach := reachCtx(c, within)
			n := 0
			for f := range reach {
				var res string
				eachInstr(f, func(i ssa.Instruction) {
					cl, ok := i.(*ssa.Call)
					if !ok || cl.Call.StaticCallee() != g || pi < 0 {
						return
					}
					n++
					if b, why := ctxBounded(c, f, cl.Call.Args[pi], within, depth+1); !b {
						res = why
					}
				})
				if res != "" {
					return false, res
				}
			}
			if n == 0 {
				continue
			}
		default:
			if fld := fieldOfValue(o); fld != nil {
				// every store to that field
				unb := ""
				for _, f := range c.ModFuncs {
					for _, st := range fieldStoresIn(f, fld) {
						if b, why := ctxBounded(c, f, st.Val, nil, depth+1); !b {
							unb = "field " + fieldLabel(fld) + " = " + why
						}
					}
				}
				if unb != "" {
					return false, unb
				}
			}
		}
	}
	return true, ""
}

// reachCtx: functions reachable from roots on the calling goroutine (no `go`), resolving interface calls through the
// call graph but calls through registered callback fields (ProcessFn / SnapshotFn) by calling context: inside the call
// tree of a function that registered callbacks on a group, the group's callback fields denote those callbacks.
func reachCtx(c *Ctx, roots []*ssa.Function) map[*ssa.Function]bool {
	ro := discoverRoles(c)
	regsIn := map[*ssa.Function]map[string]*ssa.Function{}
	for _, g := range ro.regs {
		if regsIn[g.in] == nil {
			regsIn[g.in] = map[string]*ssa.Function{}
		}
		regsIn[g.in][g.kind] = g.fn
	}
	// registrations made by a helper method on behalf of its caller (registerRaftCallbacks() called by loadRaft) belong to
	// the caller's context as well
	for _, f := range c.ModFuncs {
		if !c.isProd(f) || recvTypeName(f) == "" {
			continue
		}
		eachInstr(f, func(i ssa.Instruction) {
			cc := asCall(i)
			if cc == nil || cc.StaticCallee() == nil || cc.StaticCallee() == f {
				return
			}
			h := cc.StaticCallee()
			if regsIn[h] == nil || recvTypeName(h) != recvTypeName(f) {
				return
			}
			if regsIn[f] == nil {
				regsIn[f] = map[string]*ssa.Function{}
			}
			for k, v := range regsIn[h] {
				if regsIn[f][k] == nil {
					regsIn[f][k] = v
				}
			}
		})
	}
	type key struct {
		f   *ssa.Function
		ctx *ssa.Function
	}
	seen := map[key]bool{}
	out := map[*ssa.Function]bool{}
	var visit func(f, ctx *ssa.Function)
	visit = func(f, ctx *ssa.Function) {
		if !modLocal(f) {
			return
		}
		if regsIn[f] != nil {
			ctx = f
		}
		k := key{f, ctx}
		if seen[k] {
			return
		}
		seen[k] = true
		out[f] = true
		eachInstr(f, func(i ssa.Instruction) {
			if _, isGo := i.(*ssa.Go); isGo {
				return
			}
			cc := asCall(i)
			if cc == nil {
				return
			}
			if t := cc.StaticCallee(); t != nil {
				visit(t, ctx)
				return
			}
			if !cc.IsInvoke() {
				if fld := fieldOfValue(cc.Value); fld != nil {
					kind := ""
					switch {
					case typeName(fld.Type()) == "SnapshotFn":
						kind = "snapshot"
					case typeName(fld.Type()) == "ProcessFn" && strings.Contains(strings.ToLower(fld.Name()), "snapshot"):
						kind = "processSnapshot"
					case typeName(fld.Type()) == "ProcessFn":
						kind = "process"
					}
					if kind != "" && ctx != nil {
						if t := regsIn[ctx][kind]; t != nil {
							visit(t, ctx)
							return
						}
					}
				}
			}
			if call, ok := i.(ssa.CallInstruction); ok {
				for _, t := range c.calleesOf(f, call) {
					visit(t, ctx)
				}
			}
		})
	}
	for _, r := range roots {
		visit(r, nil)
	}
	return out
}
