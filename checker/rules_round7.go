package main

// Rules added after the seventh seeded round (DESIGN §16).

import (
	"fmt"
	"go/token"
	"go/types"
	"strings"

	"golang.org/x/tools/go/ssa"
)

// ---- partition: the applied outcome is looked at ----------------------------------------------------------------------------

// appliedOutcomeIsInspected: every call of the propose-and-wait function uses its first result (what the apply loop
// reported for this proposal): `_, err := proposeAndWaitForCommit(…)` turns every refused operation — already exists, not
// found — into a success.
func appliedOutcomeIsInspected(c *Ctx, r *Report, rule string) {
	n := 0
	for _, f := range prodFuncs(c, "storage") {
		k := 0
		eachInstr(f, func(i ssa.Instruction) {
			cl, ok := i.(*ssa.Call)
			if !ok || cl.Call.StaticCallee() == nil || !modLocal(cl.Call.StaticCallee()) {
				return
			}
			g := cl.Call.StaticCallee()
			res := g.Signature.Results()
			if res.Len() != 2 || !isErrorType(res.At(1).Type()) {
				return
			}
			if _, isI := res.At(0).Type().Underlying().(*types.Interface); !isI || isErrorType(res.At(0).Type()) {
				return
			}
			// g waits for a notification (has a select receiving from a channel) after proposing
			waits := false
			eachInstr(g, func(z ssa.Instruction) {
				if _, isS := z.(*ssa.Select); isS {
					waits = true
				}
			})
			if !waits {
				return
			}
			n++
			k++
			used := false
			for _, u := range *cl.Referrers() {
				if ex, isE := u.(*ssa.Extract); isE && ex.Index == 0 && ex.Referrers() != nil && len(*ex.Referrers()) > 0 {
					for _, uu := range *ex.Referrers() {
						if _, dbg := uu.(*ssa.DebugRef); !dbg {
							used = true
						}
					}
				}
			}
			r.Check(used, rule, fnName(f), fmt.Sprintf("outcome-inspected#%d", k), c.InstrPos(cl), "the outcome reported by the apply loop (first result of "+g.Name()+") is used: dropped, a refused operation (`already exists`, `not found`) is acknowledged as a success")
		})
	}
	if n == 0 {
		r.Unk(rule, "storage", "propose-and-wait", "-", "no caller of a propose-and-wait function found")
	}
}

// ---- transport: a failed send is always reported ---------------------------------------------------------------------------

// sendFailuresAlwaysReported: in the transport's send loop, the calls that report a failed delivery to raft (unreachable;
// snapshot failure for a snapshot message) are guarded, on the error side of the delivery, by nothing but the message type:
// an unreported lost snapshot leaves the follower paused in the snapshot state for good.
func sendFailuresAlwaysReported(c *Ctx, r *Report, rule string) {
	n := 0
	for _, f := range prodFuncs(c, "storage/raft") {
		if f.Parent() != nil {
			continue
		}
		var reports []*ssa.Call
		eachInstr(f, func(i ssa.Instruction) {
			cl, ok := i.(*ssa.Call)
			if !ok {
				return
			}
			// a function that calls Node.ReportSnapshot
			hit := false
			callee := cl.Call.StaticCallee()
			if callee == nil {
				callee = &ssa.Function{}
			}
			eachInstr(callee, func(z ssa.Instruction) {
				if cc := asCall(z); cc != nil {
					// (a thin wrapper: the report is the callee's unconditional first step — the send loop itself, which reports
					// under its own conditions, is not "a report" at its call sites)
					if id := callID(cc); id.Name == "ReportSnapshot" && strings.HasSuffix(id.Pkg, "etcd/raft") && z.Block().Index == 0 {
						hit = true
					}
				}
			})
			if cc := &cl.Call; callID(cc).Name == "ReportSnapshot" && strings.HasSuffix(callID(cc).Pkg, "etcd/raft") {
				hit = true
			}
			if hit && inCycle(f, cl) {
				reports = append(reports, cl)
			}
		})
		for k, rp := range reports {
			n++
			bad := ""
			for _, ifi := range allIfs(f) {
				if !(guardedBy(rp.Block(), ifi, true) || guardedBy(rp.Block(), ifi, false)) {
					continue
				}
				// allowed guards: an error test, the message-type test, the loop's own control
				okG := false
				for _, l := range condLeaves(ifi.Cond, 0) {
					_ = l
				}
				if b, isB := ifi.Cond.(*ssa.BinOp); isB {
					if isNilConst(b.X) || isNilConst(b.Y) {
						v := b.X
						if isNilConst(b.X) {
							v = b.Y
						}
						// an error produced by a call that takes the message payload / the peer id: fine; an error read off a
						// context (ctx.Err()) is a second opinion that can veto the report
						if cl, isC := strip(v).(*ssa.Call); isC && cl.Call.IsInvoke() && cl.Call.Method.Name() == "Err" && typeName(cl.Call.Value.Type()) == "Context" {
							okG = false
						} else {
							okG = true
						}
					} else if fv := fieldOfValue(b.X); fv != nil && fv.Name() == "Type" {
						okG = true
					} else if fv := fieldOfValue(b.Y); fv != nil && fv.Name() == "Type" {
						okG = true
					} else if loopControl(ifi) {
						okG = true
					}
				}
				if _, isE := ifi.Cond.(*ssa.Extract); isE {
					okG = true // range / comma-ok control
				}
				if !okG {
					bad = c.InstrPos(ifi)
				}
			}
			r.Check(bad == "", rule, fnName(f), fmt.Sprintf("snapshot-failure-reported#%d", k+1), c.InstrPos(rp), "a snapshot message that could not be delivered is reported to raft as failed whatever else is true (extra condition at "+bad+"): raft keeps a follower paused in the snapshot state until it hears about the outcome, and heartbeats keep the follower from campaigning — it never catches up")
		}
	}
	if n == 0 {
		r.Unk(rule, "storage/raft", "send-failure", "-", "no snapshot-failure report found in a send loop")
	}
}

// ---- routing: a partition id is looked up, an item id is routed --------------------------------------------------------------

// partitionEntryPointsLookUpTheirPartition: a Dataset method that is handed a partition id together with the items for that
// partition (the receiving end of a forwarded batch) finds the partition by that id — it never runs the id through the
// routing function, which maps *item* ids to partitions.
func partitionEntryPointsLookUpTheirPartition(c *Ctx, r *Report, rule string) {
	fParts := c.Field("storage", "Dataset", "partitions")
	ds := c.Named("storage", "Dataset")
	if fParts == nil || ds == nil {
		r.Unk(rule, "storage.Dataset", "anchors", "-", "Dataset.partitions not found")
		return
	}
	// routing accessors: methods of Dataset that index the partition table
	router := map[*ssa.Function]bool{}
	for _, g := range prodFuncs(c, "storage") {
		if g.Parent() != nil || g.Signature.Recv() == nil || namedOf(derefType(g.Signature.Recv().Type())) != ds {
			continue
		}
		eachInstr(g, func(i ssa.Instruction) {
			if ia, ok := i.(*ssa.IndexAddr); ok && fieldOfValue(ia.X) == fParts && !isLoopCounter(ia.Index) {
				router[g] = true
			}
		})
	}
	n := 0
	for _, f := range prodFuncs(c, "storage") {
		if f.Parent() != nil || f.Signature.Recv() == nil || namedOf(derefType(f.Signature.Recv().Type())) != ds {
			continue
		}
		var pid *ssa.Parameter
		hasItems := false
		for _, p := range f.Params[1:] {
			if typeName(p.Type()) == "UUID" {
				pid = p
			}
			if sl, ok := p.Type().Underlying().(*types.Slice); ok && strings.Contains(sl.Elem().String(), "BatchItem") {
				hasItems = true
			}
		}
		if pid == nil || !hasItems {
			continue
		}
		n++
		bad := ""
		eachInstr(f, func(i ssa.Instruction) {
			cl, ok := i.(*ssa.Call)
			if !ok || !router[cl.Call.StaticCallee()] {
				return
			}
			for _, a := range cl.Call.Args {
				if strip(a) == ssa.Value(pid) {
					bad = c.InstrPos(cl)
				}
			}
		})
		r.Check(bad == "", rule, fnName(f), "partition-by-id", c.Pos(f.Pos()), "the partition named by the request is looked up by its id (run through the routing function at "+bad+"): a forwarded group would be stored in whatever partition the *partition's* id hashes to")
	}
	if n == 0 {
		r.Unk(rule, "storage.Dataset", "partition-entry-points", "-", "no method taking a partition id and its items found")
	}
}

// localBatchCallbacksUseTheirItems: a function literal of the batch fan-out that is handed (partition, items) proposes the
// items it was handed — not the whole batch captured from the enclosing function.
func localBatchCallbacksUseTheirItems(c *Ctx, r *Report, rule string) {
	n := 0
	for _, f := range prodFuncs(c, "storage") {
		if f.Parent() == nil {
			continue
		}
		var items *ssa.Parameter
		hasPartition := false
		for _, p := range f.Params {
			if sl, ok := p.Type().Underlying().(*types.Slice); ok && strings.Contains(sl.Elem().String(), "BatchItem") {
				items = p
			}
			if typeName(derefType(p.Type())) == "partition" {
				hasPartition = true
			}
		}
		if items == nil || !hasPartition {
			continue
		}
		eachInstr(f, func(i ssa.Instruction) {
			cl, ok := i.(*ssa.Call)
			if !ok || cl.Call.StaticCallee() == nil || recvTypeName(cl.Call.StaticCallee()) != "partition" {
				return
			}
			for _, a := range cl.Call.Args {
				sl, isSl := a.Type().Underlying().(*types.Slice)
				if !isSl || !strings.Contains(sl.Elem().String(), "BatchItem") {
					continue
				}
				n++
				own := false
				for _, o := range origins(a, originOpt{}) {
					if o == ssa.Value(items) {
						own = true
					}
					if l, isL := loadOf(o); isL {
						if al, isA := l.(*ssa.Alloc); isA {
							for _, st := range storesTo(f, al) {
								if st.Val == ssa.Value(items) {
									own = true
								}
							}
						}
					}
				}
				r.Check(own, rule, fnName(f), "callback-items", c.InstrPos(cl), "the per-partition callback proposes the items it was given for that partition: given the whole batch, every local owner partition stores every item")
			}
		})
	}
	if n == 0 {
		r.Unk(rule, "storage", "batch-callbacks", "-", "no per-partition batch callback found")
	}
}

// ---- queue: only a negative priority is refused ------------------------------------------------------------------------------

// pushRefusesOnlyNegative: the panic of the queue's Push sits on the true side of `priority < 0`: written as
// `!(priority >= 0)` it also fires for NaN, and a NaN distance (a NaN component in a request's vector) then stops every
// replica in the apply loop.
func pushRefusesOnlyNegative(c *Ctx, r *Report, rule string) {
	n := 0
	for _, f := range prodFuncs(c, "utils") {
		if f.Parent() != nil || f.Signature.Recv() == nil || len(f.Params) != 2 {
			continue
		}
		callsHeapPush := false
		eachInstr(f, func(i ssa.Instruction) {
			if cc := plainCall(i); cc != nil && callID(cc).is("container/heap", "", "Push") {
				callsHeapPush = true
			}
		})
		if !callsHeapPush {
			continue
		}
		eachInstr(f, func(i ssa.Instruction) {
			p, ok := i.(*ssa.Panic)
			if !ok {
				return
			}
			n++
			okG := false
			why := "no comparison guards it"
			for _, ifi := range allIfs(f) {
				b, isB := ifi.Cond.(*ssa.BinOp)
				if !isB || !isCmp(b.Op) {
					continue
				}
				onTrue, onFalse := guardedBy(p.Block(), ifi, true), guardedBy(p.Block(), ifi, false)
				if !onTrue && !onFalse {
					continue
				}
				zeroRight := false
				if k, isK := strip(b.Y).(*ssa.Const); isK && k.Value != nil && k.Value.ExactString() == "0" {
					zeroRight = true
				}
				zeroLeft := false
				if k, isK := strip(b.X).(*ssa.Const); isK && k.Value != nil && k.Value.ExactString() == "0" {
					zeroLeft = true
				}
				switch {
				case onTrue && zeroRight && b.Op == token.LSS, onTrue && zeroLeft && b.Op == token.GTR:
					okG = true
				default:
					why = fmt.Sprintf("it is on the %v side of `%s`", onTrue, b.Op)
				}
			}
			r.Check(okG, rule, fnName(f), "push-panic-guard", c.InstrPos(p), "the queue refuses exactly the negative priorities (panic on the true side of `priority < 0`; "+why+"): any other form also fires for NaN, which a client can put into a vector")
		})
	}
	if n == 0 {
		r.Unk(rule, "utils", "push-panic", "-", "no panic in the queue's Push found")
	}
}

// ---- search: a partition that cannot be found fails the call -----------------------------------------------------------------

// partitionLookupErrorsAreFinal: in the Dataset, the error of a partition lookup (a function returning (*partition, error))
// ends the call with a non-nil error or is sent to the collector: skipping the partition leaves a hole.
func partitionLookupErrorsAreFinal(c *Ctx, r *Report, rule string) {
	n := 0
	for _, f := range prodFuncs(c, "storage") {
		res := f.Signature.Results()
		returnsErr := res.Len() > 0 && isErrorType(res.At(res.Len()-1).Type())
		k := 0
		for _, ce := range callErrors(f, func(cc *ssa.CallCommon) bool {
			g := cc.StaticCallee()
			if g == nil || !modLocal(g) || g.Signature.Results().Len() != 2 {
				return false
			}
			return typeName(derefType(g.Signature.Results().At(0).Type())) == "partition"
		}) {
			if ce[1] == nil || recvTypeName(f) != "Dataset" {
				continue
			}
			n++
			k++
			resolved := map[*ssa.Return][]ssa.Value{}
			for _, rt := range returnsOf(f) {
				resolved[rt.Return] = rt.Results // (a deferred call makes the builder spill results to cells: look through)
			}
			acted, why := errorActedOn(f, ce[1], func(j ssa.Instruction, ev ssa.Value) bool {
				if s, isS := j.(*ssa.Send); isS && strip(s.X) == ev {
					return true
				}
				if mu, isM := j.(*ssa.MapUpdate); isM && strip(mu.Value) == ev {
					return true // recorded in a per-item error map
				}
				if rt, isR := j.(*ssa.Return); isR && returnsErr {
					res := resolved[rt]
					if len(res) > 0 && !isNilConst(res[len(res)-1]) {
						return true
					}
				}
				return false
			})
			r.Check(acted, rule, fnName(f), fmt.Sprintf("partition-lookup-error#%d", k), c.InstrPos(ce[0].(ssa.Instruction)), "a partition that cannot be found fails the call ("+why+"): skipped, its slot in the worker list stays nil and the worker started for it dereferences nil — the process exits")
		}
	}
	if n == 0 {
		r.Unk(rule, "storage.Dataset", "partition-lookups", "-", "no partition lookup found")
	}
}

// ---- index: the entry point used for linking is read after the vertex was registered -------------------------------------

// entryPointReadAfterRegistration: in the insert path, an entry-point value that is dereferenced was loaded after the new
// vertex was put into the id map: a value loaded before (and found nil) is stale once another writer has won the first
// insert.
func entryPointReadAfterRegistration(c *Ctx, r *Report, rule string) {
	x := newIdx(c)
	if len(x.missing) > 0 {
		r.Unk(rule, "index", "anchors", "-", "index anchors missing")
		return
	}
	n := 0
	for _, f := range x.funcs {
		if f.Parent() != nil {
			continue
		}
		// registration calls: callees that write a shard map
		var regs []ssa.Instruction
		eachInstr(f, func(i ssa.Instruction) {
			cl, ok := i.(*ssa.Call)
			if !ok || cl.Call.StaticCallee() == nil || !modLocal(cl.Call.StaticCallee()) {
				return
			}
			writes := false
			eachInstr(cl.Call.StaticCallee(), func(z ssa.Instruction) {
				if mu, isM := z.(*ssa.MapUpdate); isM {
					if m, isMap := mu.Map.Type().Underlying().(*types.Map); isMap && namedOf(derefType(m.Elem())) == x.vertex {
						writes = true
					}
				}
			})
			if writes {
				regs = append(regs, cl)
			}
		})
		if len(regs) == 0 {
			continue
		}
		eachInstr(f, func(i ssa.Instruction) {
			ld, ok := i.(*ssa.Call)
			if !ok || !x.isEntryLoad(ld) {
				return
			}
			// dereferenced? (a field of the loaded vertex is read)
			deref := false
			eachTransitiveUse(ld, func(u ssa.Instruction, via ssa.Value) {
				if fa, isF := u.(*ssa.FieldAddr); isF && strip(fa.X) == strip(via) {
					deref = true
				}
			})
			if !deref {
				return
			}
			n++
			stale := false
			for _, rg := range regs {
				if instrDominates(ld, rg) {
					stale = true
				}
			}
			r.Check(!stale, rule, fnName(f), "entry-point-load", c.InstrPos(ld), "the entry point whose fields are read was loaded after the new vertex was registered: a load from before the registration is nil for the loser of two concurrent first inserts")
		})
	}
	if n == 0 {
		r.Unk(rule, "index", "entry-point-load", "-", "no dereferenced entry-point load in a registering function found")
	}
}

// ---- allocator: who may change a partition, and when ----------------------------------------------------------------------

// underReplicatedIsStrict / singleDriver: the allocator adds a node only while a partition has fewer than R replicas, and
// exactly one node — a fixed element of the replica list — drives a partition's membership changes.
func allocatorPredicates(c *Ctx, r *Report, rule string) {
	n := 0
	for _, f := range prodFuncs(c, "storage") {
		if f.Parent() != nil || f.Signature.Results().Len() != 1 {
			continue
		}
		if b, ok := f.Signature.Results().At(0).Type().Underlying().(*types.Basic); !ok || b.Kind() != types.Bool {
			continue
		}
		// (a) compares the length of a node list with the replication factor
		for _, rt := range returnsOf(f) {
			cm, ok := resolveCmp(rt.Results[0], 0)
			if !ok {
				continue
			}
			isLenOfNodes := func(v ssa.Value) bool {
				cl, ok := strip(v).(*ssa.Call)
				return ok && callID(&cl.Call).is("builtin", "", "len") && strings.Contains(strings.ToLower(cl.Call.Args[0].Type().String()), "uint64")
			}
			isReplFactor := func(v ssa.Value) bool {
				for _, o := range origins(v, originOpt{}) {
					if cl, ok := o.(*ssa.Call); ok && callID(&cl.Call).Name == "GetReplicationFactor" {
						return true
					}
				}
				return false
			}
			op := cm.op
			var okShape bool
			if isLenOfNodes(cm.x.v) && isReplFactor(cm.y.v) {
				okShape = true
			} else if isLenOfNodes(cm.y.v) && isReplFactor(cm.x.v) {
				okShape = true
				op = flipCmp(op)
			}
			if okShape {
				n++
				r.Check(op == token.LSS, rule, fnName(f), "under-replicated-strict", c.Pos(f.Pos()), fmt.Sprintf("a partition counts as under-replicated only with fewer than R replicas (len %s R): with `<=` every join adds the new node to partitions that are already complete — R+1 replicas", op))
			}
		}
	}
	// (b) the predicate guarding the membership proposals of the allocator
	for _, f := range prodFuncs(c, "storage") {
		if f.Parent() != nil || recvTypeName(f) != "Allocator" {
			continue
		}
		eachInstr(f, func(i ssa.Instruction) {
			cl, ok := i.(*ssa.Call)
			if !ok || cl.Call.StaticCallee() == nil || recvTypeName(cl.Call.StaticCallee()) != "partition" {
				return
			}
			// a proposing partition method: reaches the catalogue's propose of a partition-nodes change
			g := cl.Call.StaticCallee()
			proposes := false
			for h := range c.reachableFrom([]*ssa.Function{g}, false, true) {
				if recvTypeName(h) == "DatasetManager" {
					eachInstr(h, func(z ssa.Instruction) {
						if cc := asCall(z); cc != nil && cc.IsInvoke() && cc.Method.Name() == "Propose" {
							proposes = true
						}
					})
				}
			}
			if !proposes {
				return
			}
			// guards
			for _, ifi := range allIfs(f) {
				if !guardedBy(cl.Block(), ifi, true) {
					continue
				}
				pc, isC := ifi.Cond.(*ssa.Call)
				if !isC || pc.Call.StaticCallee() == nil || recvTypeName(pc.Call.StaticCallee()) != "Allocator" {
					continue
				}
				p := pc.Call.StaticCallee()
				n++
				// single driver: somewhere p compares a constant-index element of a node list with a node id, and p does
				// not answer from a scan of the list (no call to a function that ranges over it, no range itself)
				elemEq, scans := false, false
				eachInstr(p, func(z ssa.Instruction) {
					if bo, isB := z.(*ssa.BinOp); isB && bo.Op == token.NEQ {
						// the same comparison written as an inequality answers "everybody but the driver"
						for _, s := range []ssa.Value{bo.X, bo.Y} {
							if l, isL := loadOf(s); isL {
								if ia, isI := l.(*ssa.IndexAddr); isI {
									if _, isK := constInt(ia.Index); isK {
										scans = true
									}
								}
							}
						}
					}
					if bo, isB := z.(*ssa.BinOp); isB && bo.Op == token.EQL {
						for _, s := range []ssa.Value{bo.X, bo.Y} {
							if l, isL := loadOf(s); isL {
								if ia, isI := l.(*ssa.IndexAddr); isI {
									if _, isK := constInt(ia.Index); isK {
										elemEq = true
									}
								}
							}
						}
					}
					if _, isR := z.(*ssa.Range); isR {
						scans = true
					}
					if c2, isC2 := z.(*ssa.Call); isC2 && c2.Call.StaticCallee() != nil && modLocal(c2.Call.StaticCallee()) && c2.Call.StaticCallee().Signature.Results().Len() == 1 {
						if bt, isB := c2.Call.StaticCallee().Signature.Results().At(0).Type().Underlying().(*types.Basic); isB && bt.Kind() == types.Bool {
							eachInstr(c2.Call.StaticCallee(), func(q ssa.Instruction) {
								if _, isR := q.(*ssa.Range); isR {
									scans = true
								}
								if ia, isI := q.(*ssa.IndexAddr); isI && isLoopCounter(ia.Index) {
									scans = true
								}
							})
						}
					}
					if ia, isI := z.(*ssa.IndexAddr); isI && isLoopCounter(ia.Index) {
						scans = true
					}
				})
				r.Check(elemEq && !scans, rule, fnName(f), "single-driver:"+p.Name(), c.InstrPos(cl), fmt.Sprintf("membership changes of a partition are proposed by one node only — the predicate %s compares a fixed element of the replica list with this node (fixed element: %v, answers from a scan of the list: %v): when every holder proposes, a joining node is appended once per holder", p.Name(), elemEq, scans))
			}
		})
	}
	if n == 0 {
		// the predicates may have been written out where they are used: judge the tests that guard the allocator's membership
		// proposals in place — the replica count against R (strict, on the proposing side), and the driver test on the path
		// conditions of the proposal (every way in has a comparison of a fixed element of the replica list with a node id, true)
		isLenOfNodes := func(v ssa.Value) bool {
			cl, ok := strip(v).(*ssa.Call)
			return ok && callID(&cl.Call).is("builtin", "", "len") && strings.Contains(strings.ToLower(cl.Call.Args[0].Type().String()), "uint64")
		}
		isReplFactor := func(v ssa.Value) bool {
			for _, o := range origins(v, originOpt{}) {
				if cl, ok := o.(*ssa.Call); ok && callID(&cl.Call).Name == "GetReplicationFactor" {
					return true
				}
			}
			return false
		}
		for _, f := range prodFuncs(c, "storage") {
			if f.Parent() != nil || recvTypeName(f) != "Allocator" {
				continue
			}
			k := 0
			eachInstr(f, func(i ssa.Instruction) {
				cl, ok := i.(*ssa.Call)
				if !ok || cl.Call.StaticCallee() == nil || recvTypeName(cl.Call.StaticCallee()) != "partition" {
					return
				}
				g := cl.Call.StaticCallee()
				proposes := false
				for h := range c.reachableFrom([]*ssa.Function{g}, false, true) {
					if recvTypeName(h) == "DatasetManager" {
						eachInstr(h, func(z ssa.Instruction) {
							if cc := asCall(z); cc != nil && cc.IsInvoke() && cc.Method.Name() == "Propose" {
								proposes = true
							}
						})
					}
				}
				if !proposes {
					return
				}
				k++
				for _, ifi := range allIfs(f) {
					for _, pol := range []bool{true, false} {
						if !guardedBy(cl.Block(), ifi, pol) {
							continue
						}
						cm, okc := resolveCmp(ifi.Cond, 0)
						if !okc {
							continue
						}
						op := cm.op
						shape := false
						if isLenOfNodes(cm.x.v) && isReplFactor(cm.y.v) {
							shape = true
						} else if isLenOfNodes(cm.y.v) && isReplFactor(cm.x.v) {
							shape, op = true, flipCmp(op)
						}
						if !shape {
							continue
						}
						if !pol {
							op = negOp(op)
						}
						n++
						r.Check(op == token.LSS, rule, fnName(f), fmt.Sprintf("under-replicated-strict#%d", k), c.InstrPos(ifi), fmt.Sprintf("a node is added only to a partition with fewer than R replicas (len %s R on the proposing side)", op))
					}
				}
				e := &condEngine{budget: 6000}
				e.atomKey = func(v ssa.Value) (string, bool, bool) {
					bo, isB := v.(*ssa.BinOp)
					if !isB || (bo.Op != token.EQL && bo.Op != token.NEQ) {
						return "", false, false
					}
					for _, sd := range []ssa.Value{bo.X, bo.Y} {
						if l, isL := loadOf(sd); isL {
							if ia, isI := l.(*ssa.IndexAddr); isI {
								if _, isK := constInt(ia.Index); isK {
									return "driver:" + bo.Name(), bo.Op == token.NEQ, true
								}
							}
						}
					}
					return "", false, false
				}
				hdr, _ := naturalLoopOf(cl.Block())
				var paths []condPath
				if hdr != nil {
					paths = e.pathsFrom(f, hdr, cl.Block(), 0)
				} else {
					paths = e.pathsTo(f, cl.Block(), 0)
				}
				if e.failed || len(paths) == 0 {
					return
				}
				n++
				bad := false
				for _, p := range paths {
					has, allTrue := false, true
					for key, val := range p.asg {
						if strings.HasPrefix(key, "driver:") {
							has = true
							if !val {
								allTrue = false
							}
						}
					}
					if !has || !allTrue {
						bad = true
					}
				}
				r.Check(!bad, rule, fnName(f), fmt.Sprintf("single-driver-inline#%d", k), c.InstrPos(cl), "membership changes of a partition are proposed by one node only: every way of reaching the proposal has a comparison of a fixed element of a node list with a node id, and it holds")
			})
		}
	}
	if n == 0 {
		r.Unk(rule, "storage", "allocator-predicates", "-", "neither the under-replication test nor the guard of the membership proposals was found")
	}
}

// ---- size: Add before go ----------------------------------------------------------------------------------------------------

// waitGroupAddBeforeGo: no function that runs as a goroutine and defers Done on a WaitGroup also calls Add on it: the
// waiter can pass Wait before the goroutine has registered.
func waitGroupAddBeforeGo(c *Ctx, r *Report, rule string, pkgs ...string) {
	n, bad := 0, 0
	wg := func(cc *ssa.CallCommon, name string) ssa.Value {
		id := callID(cc)
		if id.Pkg != "sync" || id.Recv != "WaitGroup" || id.Name != name || len(cc.Args) == 0 {
			return nil
		}
		return cc.Args[0]
	}
	for _, f := range prodFuncs(c, pkgs...) {
		eachInstr(f, func(i ssa.Instruction) {
			g, ok := i.(*ssa.Go)
			if !ok {
				return
			}
			var body *ssa.Function
			if mc, isM := g.Call.Value.(*ssa.MakeClosure); isM {
				body, _ = mc.Fn.(*ssa.Function)
			} else if sc := g.Call.StaticCallee(); sc != nil && modLocal(sc) {
				body = sc
			}
			if body == nil || len(body.Blocks) == 0 {
				return
			}
			done := false
			var add ssa.Instruction
			eachInstr(body, func(z ssa.Instruction) {
				if d, isD := z.(*ssa.Defer); isD && wg(&d.Call, "Done") != nil {
					done = true
				}
				if cc := plainCall(z); cc != nil && wg(cc, "Add") != nil {
					add = z
				}
			})
			if !done {
				return
			}
			n++
			if add != nil {
				bad++
				r.Bad(rule, fnName(f), "add-inside-goroutine", c.InstrPos(add), "WaitGroup.Add is called by the goroutine itself: the goroutine that waits (and then closes the result channel) can pass Wait before this one has registered — the collector reads the closed channel's nil for every remote partition and returns the local sum with success")
			}
		})
	}
	if bad == 0 {
		r.OK(rule, strings.Join(pkgs, ","), "add-before-go", "-", fmt.Sprintf("%d goroutine(s) that defer Done; none of them calls Add itself", n))
	}
}

// ---- queue: Reverse gives the other kind ----------------------------------------------------------------------------------------

// reverseGivesTheOtherKind: in each arm of Reverse (the source is a *T), the queue that is built has the other queue type.
func reverseGivesTheOtherKind(c *Ctx, r *Report, rule string) {
	n := 0
	for _, f := range prodFuncs(c, "utils") {
		if f.Parent() != nil || f.Signature.Results().Len() != 1 || typeName(f.Signature.Results().At(0).Type()) != "PriorityQueue" || f.Signature.Recv() == nil || len(f.Params) != 1 {
			continue
		}
		// arms: type assertions / type-switch tests of the wrapped heap against *T
		eachInstr(f, func(i ssa.Instruction) {
			ta, ok := i.(*ssa.TypeAssert)
			if !ok || !ta.CommaOk {
				return
			}
			src := namedOf(derefType(ta.AssertedType))
			if src == nil {
				return
			}
			// the If testing this assertion's ok
			for _, ifi := range allIfs(f) {
				ex, isE := ifi.Cond.(*ssa.Extract)
				if !isE || ex.Tuple != ssa.Value(ta) || ex.Index != 1 {
					continue
				}
				arm := ifi.Block().Succs[0]
				var built *types.Named
				for _, b := range f.Blocks {
					if !arm.Dominates(b) {
						continue
					}
					for _, in := range b.Instrs {
						var t types.Type
						switch y := in.(type) {
						case *ssa.MakeSlice:
							t = y.Type()
						case *ssa.ChangeType:
							t = y.Type()
						case *ssa.Alloc:
							t = derefType(y.Type())
						}
						if t == nil {
							continue
						}
						if nt := namedOf(t); nt != nil && nt.Obj().Pkg() != nil && strings.HasSuffix(nt.Obj().Pkg().Path(), "/utils") {
							if _, isSl := nt.Underlying().(*types.Slice); isSl {
								built = nt
							}
						}
					}
				}
				if built == nil {
					continue
				}
				n++
				r.Check(built != src, rule, fnName(f), "reverse-of-"+src.Obj().Name(), c.InstrPos(ta), fmt.Sprintf("reversing a %s builds the other kind of queue (builds %s): the same kind pops in the same order", src.Obj().Name(), built.Obj().Name()))
			}
		})
	}
	if n < 2 {
		r.Unk(rule, "utils", "reverse-arms", "-", fmt.Sprintf("%d arm(s) of Reverse found, two expected", n))
	}
}

// poppingLoopsAreNotBoundedByTheShrinkingLength: a loop that pops a queue is not controlled by `counter < queue.Len()`.
func poppingLoopsNotBoundedByShrinkingLen(c *Ctx, r *Report, rule string) {
	n, bad := 0, 0
	for _, f := range prodFuncs(c, "utils", "index") {
		for _, ifi := range allIfs(f) {
			cm, ok := resolveCmp(ifi.Cond, 0)
			if !ok || len(ifi.Block().Succs) != 2 {
				continue
			}
			var q, other ssa.Value
			if cm.x.isLen && !cm.y.isLen {
				q, other = cm.x.v, cm.y.v
			} else if cm.y.isLen && !cm.x.isLen {
				q, other = cm.y.v, cm.x.v
			}
			if q == nil {
				continue
			}
			ph, isPhi := strip(other).(*ssa.Phi)
			if !isPhi || !isLoopCounter(ph) {
				continue
			}
			n++
			pops := func(in ssa.Instruction) bool {
				cl, ok := in.(*ssa.Call)
				if !ok {
					return false
				}
				rv, isPop := invokeOn(cl, "Pop")
				return isPop && sameQueue(rv, q)
			}
			if regionHas(ifi.Block().Succs[0], pops) || regionHas(ifi.Block().Succs[1], pops) {
				bad++
				r.Bad(rule, fnName(f), "counter-vs-shrinking-len", c.InstrPos(ifi), "a loop that pops the queue compares a counter with the queue's current length: the length shrinks with every pop, the loop stops after half of the items")
			}
		}
	}
	if bad == 0 {
		r.OK(rule, "utils,index", "counter-vs-shrinking-len", "-", fmt.Sprintf("%d counter-versus-Len tests; none controls a loop that pops that queue", n))
	}
}

// ---- kernels: both vectors are read alike; an accumulator accumulates -------------------------------------------------------

func kernelDataflowShape(c *Ctx, r *Report, name string, ins []asmInstr, role map[string]string) {
	// R12: as many memory operands through a as through b, per operand size
	cnt := map[string]int{}
	for _, in := range ins {
		if in.memIdx < 0 {
			continue
		}
		ro := role[reg64(in.memBase)]
		if ro != "a" && ro != "b" {
			continue
		}
		cnt[ro+":"+in.memSize]++
	}
	bad := ""
	for _, sz := range []string{"dword", "xmmword", "ymmword"} {
		if cnt["a:"+sz] != cnt["b:"+sz] {
			bad += fmt.Sprintf("%d %s operand(s) through a, %d through b; ", cnt["a:"+sz], sz, cnt["b:"+sz])
		}
	}
	r.Check(bad == "", "C15.R12", name, "operands-symmetric", "-", "the kernel reads its two vectors alike: as many memory operands of each width through the first data pointer as through the second ("+bad+"): one more on one side and one fewer on the other is an element of the wrong vector in one of the sums")
	// R13: a vector register zeroed in front of a loop and read in the loop is written in the loop
	idxOf := map[string]int{}
	for k, in := range ins {
		idxOf[strings.TrimLeft(in.addr, "0")] = k
	}
	vecNum := func(op string) string {
		op = strings.TrimSpace(op)
		if (strings.HasPrefix(op, "xmm") || strings.HasPrefix(op, "ymm")) && !strings.Contains(op, "[") {
			return op[3:]
		}
		return ""
	}
	nLoops, lost := 0, ""
	for j, in := range ins {
		if !strings.HasPrefix(in.mnem, "j") || in.mnem == "jmp" || len(in.ops) == 0 {
			continue
		}
		t := strings.TrimSpace(in.ops[0])
		if i := strings.Index(t, " "); i >= 0 {
			t = t[:i]
		}
		ti, ok := idxOf[strings.TrimLeft(strings.TrimPrefix(t, "0x"), "0")]
		if !ok || ti > j {
			continue
		}
		nLoops++
		// zeroing idioms in the (straight-line) instructions in front of the loop
		zeroed := map[string]bool{}
		for k := ti - 1; k >= 0 && k >= ti-8; k-- {
			p := ins[k]
			if strings.HasPrefix(p.mnem, "j") || p.mnem == "ret" {
				break
			}
			if (p.mnem == "xorps" || p.mnem == "vxorps" || p.mnem == "pxor" || p.mnem == "vpxor") && len(p.ops) >= 2 {
				a := vecNum(p.ops[0])
				same := a != ""
				for _, o := range p.ops[1:] {
					if vecNum(o) != a {
						same = false
					}
				}
				if same {
					zeroed[a] = true
				}
			}
		}
		for rg := range zeroed {
			read, written := false, false
			for k := ti; k <= j; k++ {
				b := ins[k]
				if len(b.ops) == 0 || strings.HasPrefix(b.mnem, "j") {
					continue
				}
				isAdd := strings.Contains(b.mnem, "add")
				for oi, o := range b.ops {
					if vecNum(o) != rg {
						continue
					}
					if oi == 0 && b.memIdx != 0 {
						written = true
					} else if isAdd {
						read = true // summed into something: an accumulator (a zero kept for comparisons is a constant)
					}
				}
			}
			if read && !written {
				lost = fmt.Sprintf("register %s is zeroed before the loop at %s, read in it and never written in it", "xmm"+rg, ins[ti].addr)
			}
		}
	}
	r.Check(lost == "", "C15.R13", name, "accumulators-accumulate", "-", fmt.Sprintf("%d loop(s); every vector register that is zeroed in front of a loop and read in it is also written in it (%s): an accumulator that is only read restarts the sum on every turn", nLoops, lost))
}

// ---- wiring ------------------------------------------------------------------------------------------------------------------

func round7(c *Ctx, r *Report, prop string) {
	switch prop {
	case "C01":
		r.Rule("C01.R12", "metadata comes back as stored: a length bound in front of a narrowed length prefix fits the prefix (borrowed from C08.R3)", 1)
		borrow(c, r, "C08", "C08.R3", "C01.R12", "narrow-uint8")
	case "C02":
		r.Rule("C02.R9", "the outcome reported by the apply loop is looked at by every proposing method (exact errors)", 1)
		appliedOutcomeIsInspected(c, r, "C02.R9")
	case "C03":
		r.Rule("C03.R14", "keys collected from a store iterator are copied before the iterator moves on (borrowed from C06.R10): a compaction must delete the keys it chose", 1)
		borrow(c, r, "C06", "C06.R10", "C03.R14", "")
	case "C04":
		r.Rule("C04.R11", "every length prefix is bounded where it is written (borrowed from C08.R3): a snapshot that was produced can be restored", 1)
		borrow(c, r, "C08", "C08.R3", "C04.R11", "")
		r.Rule("C04.R12", "a loop with a fixed trip count puts (or takes) its per-iteration token on every iteration: the snapshot format is positional there", 2)
		fixedCountLoopsNeverSkip(c, r, "C04.R12")
	case "C08":
		r.Rule("C08.R10", "a loop with a fixed trip count puts (or takes) its per-iteration token on every iteration", 2)
		fixedCountLoopsNeverSkip(c, r, "C08.R10")
		r.Rule("C08.R11", "every state the index can reach can be saved: a metadata map grown at apply time is validated again before the index stores it", 1)
		mergedMetadataIsValidated(c, r, "C08.R11")
	case "C07":
		r.Rule("C07.R12", "the greedy descent moves only on a strict improvement (borrowed from C12.R7): on ties it stays and the layer's best entry is found", 1)
		borrow(c, r, "C12", "C12.R7", "C07.R12", "")
	case "C05":
		r.Rule("C05.R15", "a snapshot message that could not be delivered is always reported to raft as failed", 1)
		sendFailuresAlwaysReported(c, r, "C05.R15")
	case "C10":
		r.Rule("C10.R7", "the receiving end of a forwarded batch looks its partition up by id; the local callback of the fan-out proposes the items of its own partition", 3)
		partitionEntryPointsLookUpTheirPartition(c, r, "C10.R7")
		localBatchCallbacksUseTheirItems(c, r, "C10.R7")
	case "C11":
		r.Rule("C11.R11", "the outcome reported by the apply loop is looked at by every proposing method", 1)
		appliedOutcomeIsInspected(c, r, "C11.R11")
	case "C12":
		r.Rule("C12.R12", "the queue refuses exactly the negative priorities (NaN passes, as it does through the comparison `< 0`)", 1)
		pushRefusesOnlyNegative(c, r, "C12.R12")
		r.Rule("C12.R13", "a partition that cannot be found fails the call instead of leaving a nil slot for a worker", 2)
		partitionLookupErrorsAreFinal(c, r, "C12.R13")
		r.Rule("C12.R14", "over-long metadata cannot be assembled from valid requests: a metadata map grown at apply time is validated again before the index stores it", 1)
		mergedMetadataIsValidated(c, r, "C12.R14")
	case "C13":
		r.Rule("C13.R10", "the entry point an insert links from was loaded after the new vertex was registered", 1)
		entryPointReadAfterRegistration(c, r, "C13.R10")
	case "C16":
		r.Rule("C16.R9", "the allocator adds a node only while a partition has fewer than R replicas, and one fixed replica drives a partition's membership changes", 2)
		allocatorPredicates(c, r, "C16.R9")
	case "C17":
		r.Rule("C17.R11", "lookup goroutines are registered with the WaitGroup before they are started", 1)
		waitGroupAddBeforeGo(c, r, "C17.R11", "storage")
		r.Rule("C17.R12", "taking a node out of a partition's member list takes every occurrence out (a removed replica must not go on answering size requests from its stale copy)", 1)
		memberRemovalIsTotal(c, r, "C17.R12")
	case "C18":
		r.Rule("C18.R10", "no lock of the control plane is still held when a function returns (as C13.R7, for cluster and storage)", 1)
		locksReleasedOnEveryReturn(c, r, "C18.R10", "cluster", "storage", "storage/raft")
		r.Rule("C18.R11", "an apply function never returns the outcome it reports (borrowed from C12.R11): a dataset that is gone when its partition change arrives must not stop the node", 1)
		borrow(c, r, "C12", "C12.R11", "C18.R11", "")
	case "C19":
		r.Rule("C19.R7", "Reverse builds the other kind of queue in each arm; no popping loop is bounded by the shrinking length", 3)
		reverseGivesTheOtherKind(c, r, "C19.R7")
		poppingLoopsNotBoundedByShrinkingLen(c, r, "C19.R7")
	case "C20":
		r.Rule("C20.R13", "every Ready is persisted before anything of it is applied or sent (borrowed from C05.R2): the commit index behind an applied membership change is on disk", 1)
		borrow(c, r, "C05", "C05.R2", "C20.R13", "")
		r.Rule("C20.R14", "one subscription per subscriber (borrowed from C18.R6)", 1)
		borrow(c, r, "C18", "C18.R6", "C20.R14", "")
	}
}

// ---- C17.R12: taking a node out of a partition's member list takes every occurrence out ------------------------------------------
//
// addNode appends without looking, so a list can name a node twice; a removal that leaves an occurrence behind keeps isOnNode true on
// a node that has already deleted its replica, and that node then answers size requests from its stale index. The rule finds the
// stores to Partition.NodeIds that are neither an addition (append(old list, x)) nor a copy of a caller's list, and demands of each
// that the stored list is built from a fresh slice by a loop that runs over the whole old list (no exit but the end of the range).
func memberRemovalIsTotal(c *Ctx, r *Report, rule string) {
	fNodeIds := c.Field("protobuf", "Partition", "NodeIds")
	if fNodeIds == nil {
		r.Unk(rule, "storage", "anchors", "-", "Partition.NodeIds not found")
		return
	}
	isOldList := func(v ssa.Value) bool {
		v = strip(v)
		if u, ok := v.(*ssa.UnOp); ok && u.Op == token.MUL && fieldOfAddr(u.X) == fNodeIds {
			return true
		}
		if cl, ok := v.(*ssa.Call); ok {
			if g := cl.Common().StaticCallee(); g != nil && g.Name() == "GetNodeIds" || (cl.Common().StaticCallee() != nil && returnsField(cl.Common().StaticCallee(), fNodeIds)) {
				return true
			}
		}
		return false
	}
	n := 0
	for _, f := range prodFuncs(c, "storage") {
		k := 0
		eachInstr(f, func(i ssa.Instruction) {
			st, ok := i.(*ssa.Store)
			if !ok || fieldOfAddr(st.Addr) != fNodeIds {
				return
			}
			if fa, _ := st.Addr.(*ssa.FieldAddr); fa != nil {
				if _, fresh := fa.X.(*ssa.Alloc); fresh {
					return
				}
			}
			// leaves and appends of the stored value
			var appends []*ssa.Call
			var leaves []ssa.Value
			seen := map[ssa.Value]bool{}
			var walk func(v ssa.Value)
			walk = func(v ssa.Value) {
				v = strip(v)
				if seen[v] {
					return
				}
				seen[v] = true
				switch x := v.(type) {
				case *ssa.Phi:
					for _, e := range x.Edges {
						walk(e)
					}
				case *ssa.Call:
					if b, isB := x.Common().Value.(*ssa.Builtin); isB && b.Name() == "append" && len(x.Common().Args) == 2 {
						appends = append(appends, x)
						walk(x.Common().Args[0])
						return
					}
					leaves = append(leaves, v)
				default:
					leaves = append(leaves, v)
				}
			}
			walk(st.Val)
			if len(appends) == 0 {
				return // a plain assignment of somebody's list
			}
			// addition: one append whose base is the old list; copy: the appended operand is a whole slice handed in by the caller
			if len(appends) == 1 {
				a := appends[0].Common().Args
				if isOldList(a[0]) {
					return
				}
				if _, isP := strip(a[1]).(*ssa.Parameter); isP {
					return
				}
			}
			n++
			k++
			key := fmt.Sprintf("member-removal#%d", k)
			pos := c.InstrPos(st)
			// in-place deletion: a base that is a slice of the old list
			inPlace := false
			for _, l := range leaves {
				if sl, isS := l.(*ssa.Slice); isS && (isOldList(sl.X) || sliceOfLocalOld(sl.X, isOldList)) {
					inPlace = true
				}
			}
			// the loop around the appends and its exits
			early := ""
			inLoop := false
			for _, a := range appends {
				hdr, body := naturalLoopOf(a.Block())
				if hdr == nil {
					// an append on a way out of a loop (`… = append(…); break`): the block is dominated by a body block of a loop it is not in
					for h := a.Block().Idom(); h != nil; h = h.Idom() {
						h2, body2 := naturalLoopOf(h)
						if h2 == nil || body2[a.Block()] {
							continue
						}
						for x := a.Block().Idom(); x != nil && x != h2; x = x.Idom() {
							if body2[x] {
								inLoop = true
								early = c.InstrPos(a)
							}
						}
						break
					}
					continue
				}
				inLoop = true
				for b := range body {
					if b == hdr {
						continue
					}
					for _, s := range b.Succs {
						if !body[s] && !blockNeverReturns(s) {
							early = c.InstrPos(b.Instrs[len(b.Instrs)-1])
						}
					}
				}
			}
			switch {
			case early != "":
				r.Bad(rule, fnName(f), key, pos, "the loop that rebuilds the member list is left early (at "+early+"): only the occurrences before that point are taken out, a node listed twice stays a member after its removal")
			case inPlace:
				r.Unk(rule, fnName(f), key, pos, "the member list is rewritten in place from slices of the old list; that every occurrence is removed is not recognised")
			case !inLoop:
				r.Unk(rule, fnName(f), key, pos, "the member list is rebuilt outside a loop; shape not recognised")
			default:
				r.OK(rule, fnName(f), key, pos, "the new list starts empty and the filtering loop runs over the whole old list (no exit but the end of the range)")
			}
		})
	}
	if n == 0 {
		r.Unk(rule, "storage", "member-removal", "-", "no store that filters a partition's member list found")
	}
}

// writesAMap: the function (or a module function it calls, two levels) stores into a map
func writesAMap(g *ssa.Function, depth int) bool {
	if g == nil || len(g.Blocks) == 0 || depth > 2 {
		return false
	}
	hit := false
	eachInstr(g, func(z ssa.Instruction) {
		if _, isMU := z.(*ssa.MapUpdate); isMU {
			hit = true
		}
		if cc := asCall(z); cc != nil && !hit {
			if h := cc.StaticCallee(); h != nil && modLocal(h) && writesAMap(h, depth+1) {
				hit = true
			}
		}
	})
	return hit
}

func returnsField(g *ssa.Function, fld *types.Var) bool {
	if g == nil || len(g.Blocks) == 0 {
		return false
	}
	hit := false
	for _, rt := range returnsOf(g) {
		for _, v := range rt.Results {
			if u, ok := strip(v).(*ssa.UnOp); ok && u.Op == token.MUL && fieldOfAddr(u.X) == fld {
				hit = true
			}
		}
	}
	return hit
}

func sliceOfLocalOld(v ssa.Value, isOld func(ssa.Value) bool) bool {
	v = strip(v)
	if p, ok := v.(*ssa.Phi); ok {
		for _, e := range p.Edges {
			if isOld(e) {
				return true
			}
		}
	}
	return false
}

func blockNeverReturns(b *ssa.BasicBlock) bool {
	for _, in := range b.Instrs {
		if instrNoReturn(in) {
			return true
		}
	}
	return false
}

// the innermost natural loop containing b: header (dominates b, target of a back edge from a block b reaches) and body
func naturalLoopOf(b *ssa.BasicBlock) (*ssa.BasicBlock, map[*ssa.BasicBlock]bool) {
	for h := b; h != nil; h = h.Idom() {
		var latches []*ssa.BasicBlock
		for _, p := range h.Preds {
			if h.Dominates(p) {
				latches = append(latches, p)
			}
		}
		if len(latches) == 0 {
			continue
		}
		body := map[*ssa.BasicBlock]bool{h: true}
		var up func(x *ssa.BasicBlock)
		up = func(x *ssa.BasicBlock) {
			if body[x] {
				return
			}
			body[x] = true
			for _, p := range x.Preds {
				up(p)
			}
		}
		for _, l := range latches {
			up(l)
		}
		if body[b] {
			return h, body
		}
	}
	return nil, nil
}

// ---- C04.R12 / C08.R10: a loop with a fixed trip count puts (or takes) its per-iteration token on every iteration -------------------
//
// The snapshot format is positional where the count is a constant of the program (one size word per shard): the reader runs the
// same constant number of times, so an iteration of the writer that skips its token shifts everything behind it. For every loop
// of a stream function (a function of the index package with an io.Writer / io.Reader parameter) whose header compares the
// counter with a constant and which touches the stream at its own nesting level, no path through an iteration avoids every
// own-level stream operation. Loops whose count was written to the stream are C08.R4's (count and body agree on the filter).
func fixedCountLoopsNeverSkip(c *Ctx, r *Report, rule string) {
	n := 0
	for _, f := range prodFuncs(c, "index") {
		if f.Parent() != nil {
			continue
		}
		var w *ssa.Parameter
		for _, p := range f.Params {
			if isIOType(p.Type(), "Writer") || isIOType(p.Type(), "Reader") {
				w = p
			}
		}
		if w == nil {
			continue
		}
		var ios []ssa.Instruction
		eachInstr(f, func(i ssa.Instruction) {
			cc := plainCall(i)
			if cc == nil {
				return
			}
			for _, a := range cc.Args {
				if strip(a) == ssa.Value(w) {
					ios = append(ios, i)
					return
				}
			}
		})
		if len(ios) == 0 {
			continue
		}
		k := 0
		for _, h := range f.Blocks {
			isHdr := false
			for _, p := range h.Preds {
				if h.Dominates(p) {
					isHdr = true
				}
			}
			if !isHdr {
				continue
			}
			_, body := naturalLoopOf(h)
			if body == nil {
				continue
			}
			// fixed trip count: the header's test compares a counter φ of the header with a constant
			ifi, ok := h.Instrs[len(h.Instrs)-1].(*ssa.If)
			if !ok {
				continue
			}
			bo, ok := strip(ifi.Cond).(*ssa.BinOp)
			if !ok {
				continue
			}
			fixed := false
			for _, pr := range [][2]ssa.Value{{bo.X, bo.Y}, {bo.Y, bo.X}} {
				cv := strip(pr[0])
				if inc, isInc := cv.(*ssa.BinOp); isInc && inc.Block() == h && (inc.Op == token.ADD || inc.Op == token.SUB) {
					// the rotated form of `for i := range array`: the header tests counter+1
					if _, isK := strip(inc.Y).(*ssa.Const); isK {
						cv = strip(inc.X)
					}
				}
				ph, isPhi := cv.(*ssa.Phi)
				_, isC := strip(pr[1]).(*ssa.Const)
				if isPhi && isC && ph.Block() == h {
					fixed = true
				}
			}
			if !fixed {
				continue
			}
			own := map[ssa.Instruction]bool{}
			for _, io := range ios {
				if !body[io.Block()] {
					continue
				}
				if ih, _ := naturalLoopOf(io.Block()); ih == h {
					own[io] = true
				}
			}
			if len(own) == 0 {
				continue
			}
			n++
			k++
			// a way round: from the body's entry back to the header without an own-level stream operation
			var skipAt ssa.Instruction
			seen := map[*ssa.BasicBlock]bool{}
			var dfs func(b *ssa.BasicBlock)
			dfs = func(b *ssa.BasicBlock) {
				if seen[b] || skipAt != nil || !body[b] {
					return
				}
				seen[b] = true
				for _, in := range b.Instrs {
					if own[in] || instrNoReturn(in) {
						return
					}
				}
				for _, sb := range b.Succs {
					if sb == h {
						skipAt = b.Instrs[len(b.Instrs)-1]
						return
					}
					dfs(sb)
				}
			}
			for _, sb := range h.Succs {
				if body[sb] {
					dfs(sb)
				}
			}
			key := fmt.Sprintf("fixed-count-loop#%d", k)
			if skipAt != nil {
				r.Bad(rule, fnName(f), key, c.InstrPos(ifi), "an iteration of this fixed-count loop can go round without touching the stream (back to the header from "+c.InstrPos(skipAt)+"): the other side runs the same constant number of times, so everything behind the skipped token is read one position off")
			} else {
				r.OK(rule, fnName(f), key, c.InstrPos(ifi), fmt.Sprintf("every iteration passes one of the loop's %d own-level stream operations", len(own)))
			}
		}
	}
	if n == 0 {
		r.Unk(rule, "index", "fixed-count-loop", "-", "no fixed-count loop that touches a stream found (the per-shard loops of Save and Load are two)")
	}
}

// ---- C08.R11 / C12.R14: a metadata map that grows at apply time is validated again before the index stores it ------------------------
//
// The API validates the map a request carries; the update paths then merge the stored entries into it in the apply function. Two
// valid maps can merge into one with more entries than the snapshot format's count prefix holds: a reachable index state that Save
// refuses for ever (no snapshot, no compaction, no catching up by snapshot). Rule: in every function of the storage package that
// hands a metadata map to an index function, if that map is written in the same function, every path from a write to the hand-over
// passes the validator (the Metadata method the API layer calls), and the validator's refusal does not reach the hand-over.
func mergedMetadataIsValidated(c *Ctx, r *Report, rule string) {
	md := c.Named("index", "Metadata")
	if md == nil {
		r.Unk(rule, "index", "anchors", "-", "index.Metadata not found")
		return
	}
	isValidator := func(g *ssa.Function) bool {
		if g == nil || g.Signature.Recv() == nil || namedOf(derefType(g.Signature.Recv().Type())) != md {
			return false
		}
		if g.Signature.Params().Len() != 0 || g.Signature.Results().Len() != 1 || !isErrorType(g.Signature.Results().At(0).Type()) {
			return false
		}
		return g.Object() != nil && g.Object().Exported()
	}
	rootMap := func(v ssa.Value) ssa.Value { return strip(v) }
	n := 0
	for _, f := range prodFuncs(c, "storage") {
		if f.Parent() != nil {
			continue
		}
		k := 0
		eachInstr(f, func(i ssa.Instruction) {
			cl, ok := i.(*ssa.Call)
			if !ok {
				return
			}
			g := cl.Call.StaticCallee()
			if g == nil || g.Pkg == nil || !strings.HasSuffix(g.Pkg.Pkg.Path(), "/index") || isValidator(g) {
				return
			}
			for ai, a := range cl.Call.Args {
				if g.Signature.Recv() != nil && ai == 0 {
					continue
				}
				if _, isMap := a.Type().Underlying().(*types.Map); !isMap || namedOf(a.Type()) != md {
					continue
				}
				m := rootMap(a)
				var writes []ssa.Instruction
				eachInstr(f, func(z ssa.Instruction) {
					if mu, isMU := z.(*ssa.MapUpdate); isMU && rootMap(mu.Map) == m {
						writes = append(writes, z)
					}
					// a merge helper: the map is the result of (or an argument of) a function of the module that writes a map
					if hc, isC := z.(*ssa.Call); isC && hc != cl {
						if h := hc.Call.StaticCallee(); h != nil && modLocal(h) && !isValidator(h) && writesAMap(h, 0) {
							if ssa.Value(hc) == m {
								writes = append(writes, z)
							} else {
								for _, ha := range hc.Call.Args {
									if _, isMapT := ha.Type().Underlying().(*types.Map); isMapT && rootMap(ha) == m {
										writes = append(writes, z)
									}
								}
							}
						}
					}
				})
				if len(writes) == 0 {
					continue // handed over as it was validated
				}
				n++
				k++
				key := fmt.Sprintf("grown-metadata-stored#%d", k)
				validates := func(z ssa.Instruction) bool {
					vc, isC := z.(*ssa.Call)
					return isC && isValidator(vc.Call.StaticCallee()) && len(vc.Call.Args) > 0 && rootMap(vc.Call.Args[0]) == m
				}
				bad := ""
				for _, w := range writes {
					if _, reach := reachesAvoiding(f, w, func(z ssa.Instruction) bool { return z == ssa.Instruction(cl) }, validates); reach {
						bad = "the map is written at " + c.InstrPos(w) + " and reaches the index without passing the validator"
					}
				}
				if bad == "" {
					// the refusal is honoured: from the non-nil side of the validator's test the hand-over is not reached (before the
					// next validation)
					eachInstr(f, func(z ssa.Instruction) {
						if !validates(z) {
							return
						}
						vc := z.(*ssa.Call)
						tested := false
						for _, ifi := range allIfs(f) {
							bo, isB := ifi.Cond.(*ssa.BinOp)
							if !isB || !(strip(bo.X) == ssa.Value(vc) && isNilConst(bo.Y) || strip(bo.Y) == ssa.Value(vc) && isNilConst(bo.X)) {
								continue
							}
							tested = true
							side := 0
							if bo.Op == token.EQL {
								side = 1
							}
							first := ifi.Block().Succs[side].Instrs[0]
							if first == ssa.Instruction(cl) {
								bad = "the validator's refusal at " + c.InstrPos(vc) + " still reaches the index"
							} else if _, reach := reachesAvoidingFrom(f, first, func(y ssa.Instruction) bool { return y == ssa.Instruction(cl) }, validates); reach {
								bad = "the validator's refusal at " + c.InstrPos(vc) + " still reaches the index"
							}
						}
						if !tested {
							bad = "the validator's result at " + c.InstrPos(vc) + " is not tested"
						}
					})
				}
				if bad != "" {
					r.Bad(rule, fnName(f), key, c.InstrPos(cl), "a metadata map grown in this function is stored without being validated again: "+bad+" — two valid maps can merge into one the snapshot format cannot hold, and Save then refuses this index for ever")
				} else {
					r.OK(rule, fnName(f), key, c.InstrPos(cl), "every write to the map is followed by the validator before the index gets it, and a refusal does not reach the index")
				}
			}
		})
	}
	if n == 0 {
		r.Unk(rule, "storage", "grown-metadata", "-", "no metadata map that is written and then handed to the index found (the two update paths merge)")
	}
}
