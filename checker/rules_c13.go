package main

import (
	"fmt"
	"go/token"
	"go/types"
	"strings"

	"golang.org/x/tools/go/ssa"
)

func init() { register("C13", checkC13) }

func checkC13(c *Ctx, r *Report, tier string) {
	round5(c, r, "C13")
	round6(c, r, "C13")
	round7(c, r, "C13")
	round8(c, r, "C13")
	x := newIdxLocks(c)
	r.Rule("C13.R1", "edge sets only under their lock: every map operation on v.edges[l] (and every replacement of that slot) has v.edgeMutexes[l] — same v, same l — must-held, the write lock for writes", 12)
	r.Rule("C13.R2", "edge and shard locks are leaf locks: while one may be held, no call that can acquire a mutex and no channel operation (⇒ no lock-order cycle inside the index)", 6)
	r.Rule("C13.R3", "atomic-only fields (entry point, item/byte counters, tombstone) are touched only as &field arguments of sync/atomic functions (constructors and the apply-goroutine snapshot reader excepted)", 10)
	r.Rule("C13.R5", "check-then-act atomicity: the existence test and the insert / delete of a shard-map entry happen under one hold of the shard's write lock (two concurrent inserts of one id cannot both succeed)", 2)
	r.Rule("C13.R4", "vertex fields read without a lock by searches (id, vector, metadata, level) are stored only while the vertex is still private to its constructor; their contents are never written in place", 5)
	if len(x.missing) > 0 {
		r.Unk("C13.R1", "index", "anchors", "-", "cannot resolve: "+strings.Join(x.missing, ", "))
		return
	}
	x.checkGuardedMaps(c, r, "C13.R1", x.fEdges)
	x.checkGuardedMaps(c, r, "C13.R1", x.fVertices)
	x.checkEscapedMaps(c, r, "C13.R1")
	{
		sub := NewReport("C13")
		c02R2R3R6(c, sub, x)
		for _, o := range sub.Obls {
			if o.Rule == "C02.R2" {
				o.Rule = "C13.R5"
				o.Key = strings.Replace(o.Key, "C02.R2", "C13.R5", 1)
				r.Obls = append(r.Obls, o)
			}
		}
	}
	c13R2(c, r, x)
	c13R3(c, r, x)
	c13R4(c, r, x)
	publishedVertexWrites(c, r, "C13.R4")
	r.Rule("C13.R6", "what concurrent readers rely on: a removed vertex keeps its out-edges; distance computation is re-entrant (no package-level result slot)", 2)
	removedVertexKeepsItsEdges(c, r, "C13.R6")
	distanceIsReentrant(c, r, "C13.R6")
	r.Rule("C13.R7", "no lock outlives the function that took it: every return of an index function is reached with its mutexes released (or released by a defer)", 1)
	locksReleasedOnEveryReturn(c, r, "C13.R7", "index")
}

// acquirers: module functions that may acquire a mutex or perform a channel operation (transitively).
func (c *Ctx) blockers() map[*ssa.Function]string {
	out := map[*ssa.Function]string{}
	for _, f := range c.ModFuncs {
		eachInstr(f, func(i ssa.Instruction) {
			switch y := i.(type) {
			case *ssa.Call:
				if op, _ := mutexOp(&y.Call); op == "Lock" || op == "RLock" {
					out[f] = "acquires a mutex at " + c.InstrPos(i)
				}
			case *ssa.Send:
				out[f] = "sends on a channel at " + c.InstrPos(i)
			case *ssa.Select:
				out[f] = "selects at " + c.InstrPos(i)
			case *ssa.UnOp:
				if y.Op == token.ARROW {
					out[f] = "receives from a channel at " + c.InstrPos(i)
				}
			}
		})
	}
	changed := true
	for changed {
		changed = false
		for _, f := range c.ModFuncs {
			if _, ok := out[f]; ok {
				continue
			}
			eachInstr(f, func(i ssa.Instruction) {
				if _, done := out[f]; done {
					return
				}
				call, ok := i.(*ssa.Call)
				if !ok {
					return
				}
				for _, g := range c.calleesOf(f, call) {
					if why, ok := out[g]; ok {
						out[f] = "calls " + fnName(g) + " which " + why
						changed = true
						return
					}
				}
			})
		}
	}
	return out
}

// calleesOf resolves a call site to module-local callees (static, or through the VTA call graph).
func (c *Ctx) calleesOf(f *ssa.Function, call ssa.CallInstruction) []*ssa.Function {
	if g := call.Common().StaticCallee(); g != nil {
		if modLocal(g) {
			return []*ssa.Function{g}
		}
		return nil
	}
	if _, isB := call.Common().Value.(*ssa.Builtin); isB {
		return nil
	}
	var out []*ssa.Function
	if n := c.CG().Nodes[f]; n != nil {
		for _, e := range n.Out {
			if e.Site == call && modLocal(e.Callee.Func) {
				out = append(out, e.Callee.Func)
			}
		}
	}
	return out
}

func c13R2(c *Ctx, r *Report, x *idxLocks) {
	blk := c.blockers()
	isIdxLock := func(li *lockInfo, p string) bool {
		v := li.lockVal[p]
		if v == nil {
			return false
		}
		if f := mutexField(v); f == x.fEdgeMu || f == x.fVerticesMu {
			return true
		}
		// second result of the shard selector
		if ex, ok := strip(v).(*ssa.Extract); ok && ex.Index == 1 {
			if cl, ok := ex.Tuple.(*ssa.Call); ok {
				if g := cl.Call.StaticCallee(); g != nil {
					for _, rt := range returnsOf(g) {
						if fieldOfValue(rt.Results[1]) == x.fVerticesMu {
							return true
						}
					}
				}
			}
		}
		return false
	}
	for _, f := range x.funcs {
		li := analyzeLocks(f)
		if len(li.lockVal) == 0 {
			continue
		}
		n := 0
		bad := 0
		eachInstr(f, func(i ssa.Instruction) {
			st := li.before[i]
			var held []string
			for p := range st.may {
				if isIdxLock(li, p) {
					held = append(held, p)
				}
			}
			if len(held) == 0 {
				return
			}
			n++
			why := ""
			switch y := i.(type) {
			case *ssa.Call:
				if op, mu := mutexOp(&y.Call); op == "Lock" || op == "RLock" {
					why = "acquires " + path(mu)
				} else if op != "" {
					return
				} else {
					for _, g := range c.calleesOf(f, y) {
						if w, ok := blk[g]; ok {
							why = "calls " + fnName(g) + " which " + w
						}
					}
				}
			case *ssa.Send:
				why = "channel send"
			case *ssa.Select:
				why = "select"
			case *ssa.UnOp:
				if y.Op == token.ARROW {
					why = "channel receive"
				}
			case *ssa.Go:
				return
			}
			if why != "" {
				bad++
				r.Bad("C13.R2", fnName(f), fmt.Sprintf("under-lock#%d", bad), c.InstrPos(i), fmt.Sprintf("while %s may be held this instruction %s", strings.Join(held, ","), why))
			}
		})
		if n > 0 && bad == 0 {
			r.OK("C13.R2", fnName(f), "critical-sections", c.Pos(f.Pos()), fmt.Sprintf("%d instruction(s) execute while an index lock may be held; none can block or lock", n))
		}
	}
}

func c13R3(c *Ctx, r *Report, x *idxLocks) {
	atomicFields := []*types.Var{x.fEntry, x.fLen, x.fBytes, x.fDeleted}
	// all module production functions (fields are unexported: only package index can name them)
	for _, f := range x.funcs {
		cnt := map[*types.Var]int{}
		eachInstr(f, func(i ssa.Instruction) {
			fa, ok := i.(*ssa.FieldAddr)
			if !ok {
				return
			}
			fld := structField(fa.X.Type(), fa.Field)
			isAt := false
			for _, a := range atomicFields {
				if a == fld {
					isAt = true
				}
			}
			if !isAt {
				return
			}
			cnt[fld]++
			cons := fmt.Sprintf("%s#%d", fld.Name(), cnt[fld])
			fresh := false
			if al, ok := strip(fa.X).(*ssa.Alloc); ok && al.Heap {
				fresh = true // composite literal being initialised
			}
			bad, blind := "", ""
			for _, u := range *fa.Referrers() {
				switch y := u.(type) {
				case *ssa.Call:
					if id := callID(&y.Call); id.Pkg == "sync/atomic" && len(y.Call.Args) > 0 && y.Call.Args[0] == ssa.Value(fa) {
						if fld == x.fEntry && (strings.HasPrefix(id.Name, "Store") || strings.HasPrefix(id.Name, "Swap")) && !x.applyOnly(f) {
							blind = "atomic." + id.Name + " at " + c.InstrPos(y)
						}
						continue
					}
					bad = "address passed to " + callID(&y.Call).String()
				case *ssa.Store:
					if y.Addr == ssa.Value(fa) && fresh {
						continue
					}
					bad = "plain store"
				case *ssa.UnOp:
					bad = "plain read"
				case *ssa.DebugRef:
				default:
					bad = fmt.Sprintf("%T", u)
				}
			}
			switch {
			case bad == "" && blind != "":
				r.Bad("C13.R3", fnName(f), cons, c.Pos(fa.Pos()), "the entry point is overwritten blindly ("+blind+") in a function that runs concurrently with other writers: two first inserts (or an insert racing a removal) both see the old value and the later store wins — the loser's vertex is stored and counted but unreachable from the entry point, so searches never return it; concurrent writers must publish with compare-and-swap")
			case bad == "":
				r.OK("C13.R3", fnName(f), cons, c.Pos(fa.Pos()), "used only through sync/atomic (or initialised in a constructor literal)")
			case x.applyOnly(f):
				r.Exception = append(r.Exception, fmt.Sprintf("C13.R3 %s %s: snapshot reader runs on the apply goroutine", fnName(f), cons))
				r.OKTrivial("C13.R3", fnName(f), cons, c.Pos(fa.Pos()), "exception: snapshot reader on the apply goroutine ("+bad+")")
			default:
				r.Bad("C13.R3", fnName(f), cons, c.Pos(fa.Pos()), "atomic-only field "+fld.Name()+" accessed non-atomically: "+bad)
			}
		})
	}
}

func c13R4(c *Ctx, r *Report, x *idxLocks) {
	names := []string{"id", "vector", "metadata", "level"}
	for _, nme := range names {
		fld := c.Field("index", "hnswVertex", nme)
		if fld == nil {
			r.Unk("C13.R4", "index.hnswVertex", nme, "-", "field not found")
			continue
		}
		bad := ""
		sites := 0
		for _, f := range x.funcs {
			for _, st := range fieldStoresIn(f, fld) {
				sites++
				fa := st.Addr.(*ssa.FieldAddr)
				if al, ok := strip(fa.X).(*ssa.Alloc); ok && al.Heap {
					continue
				}
				bad = fnName(f) + " at " + c.InstrPos(st)
			}
			// element writes through the field (vector[i] = …, metadata[k] = …)
			eachInstr(f, func(i ssa.Instruction) {
				switch y := i.(type) {
				case *ssa.MapUpdate:
					if fieldOfValue(y.Map) == fld {
						bad = fnName(f) + " at " + c.InstrPos(i)
					}
				case *ssa.Store:
					if ia, ok := y.Addr.(*ssa.IndexAddr); ok && fieldOfValue(ia.X) == fld {
						bad = fnName(f) + " at " + c.InstrPos(i)
					}
				}
			})
		}
		if bad != "" {
			r.Bad("C13.R4", "index.hnswVertex", nme, "-", "field is written after the vertex may have been published: "+bad)
		} else {
			r.OK("C13.R4", "index.hnswVertex", nme, c.Pos(fld.Pos()), fmt.Sprintf("%d store site(s), all into a vertex still private to its constructor", sites))
		}
	}
}
