package main

import (
	"errors"
	"fmt"
	"go/token"
	"go/types"
	"sort"
	"strings"

	"golang.org/x/tools/go/ssa"
)

func init() {
	register("C04", checkC04)
	register("C08", checkC08)
}

// ---- shared: grammar agreement ------------------------------------------------------------------

func grammarRule(c *Ctx, r *Report, rule string) {
	g := newGram(c)
	pairs := g.streamPairs()
	sort.Slice(pairs, func(i, j int) bool { return pairs[i][0].FullName() < pairs[j][0].FullName() })
	for _, p := range pairs {
		wf, rf := p[0], p[1]
		name := strings.ReplaceAll(wf.FullName(), modPath+"/", "") + "<->" + rf.Name()
		wt, err1 := g.Of(wf)
		rt, err2 := g.Of(rf)
		var fe *foreignStreamErr
		if errors.As(err2, &fe) || errors.As(err1, &fe) {
			r.Bad(rule, name, "grammar", fe.pos, "the stream is handed to "+fe.callee+", which is not an exact read/write primitive: a wrapper that buffers or transforms reads ahead of (or writes other than) what the grammar says, so the pair no longer consumes exactly the bytes written — whatever follows the snapshot in the caller's stream is lost or misaligned")
			continue
		}
		if err1 != nil || err2 != nil {
			r.Unk(rule, name, "grammar", c.Pos(g.decls[wf].Pos()), fmt.Sprintf("cannot extract the token grammar: %v %v", err1, err2))
			continue
		}
		if d := g.gramDiff(wt, rt, "top"); d != "" {
			r.Bad(rule, name, "grammar", c.Pos(g.decls[wf].Pos()), "writer and reader disagree: "+d)
		} else {
			r.OK(rule, name, "grammar", c.Pos(g.decls[wf].Pos()), "same token tree: "+gramString(wt))
		}
	}
}

// ---- shared: state table & consumers ----------------------------------------------------------------

type consumer struct {
	name                       string
	process, restore, snapshot *ssa.Function
	extraApply                 []*ssa.Function // conf-change handler for the group-level consumer
	extraSnap                  []*ssa.Function
}

func consumers(c *Ctx, ro *roles) []consumer {
	byIn := map[*ssa.Function]*consumer{}
	var order []*ssa.Function
	for _, g := range ro.regs {
		cs := byIn[g.in]
		if cs == nil {
			cs = &consumer{name: fnName(g.in)}
			byIn[g.in] = cs
			order = append(order, g.in)
		}
		switch g.kind {
		case "process":
			cs.process = g.fn
		case "processSnapshot":
			cs.restore = g.fn
		case "snapshot":
			cs.snapshot = g.fn
		}
	}
	var out []consumer
	for _, in := range order {
		out = append(out, *byIn[in])
	}
	return out
}

// stateOwner: which consumer (by receiver type of its process callback) owns a replicated field.
var stateOwner = map[string]string{}

func stateTable(c *Ctx) (map[*types.Var]string, []string) {
	spec := []struct{ pkg, typ, fld, owner string }{
		{"index", "Hnsw", "vertices", "partition"}, {"index", "Hnsw", "len", "partition"}, {"index", "Hnsw", "bytesSize", "partition"}, {"index", "Hnsw", "entrypoint", "partition"},
		{"storage", "DatasetManager", "datasets", "DatasetManager"}, {"protobuf", "Partition", "NodeIds", "DatasetManager"},
		{"cluster", "Conn", "addresses", "sharedGroup"}, {"storage/raft", "RaftGroup", "raftConfState", "sharedGroup"},
	}
	out := map[*types.Var]string{}
	var lost []string
	for _, s := range spec {
		stateOwner[s.typ+"."+s.fld] = s.owner
		if f := c.Field(s.pkg, s.typ, s.fld); f != nil {
			out[f] = s.typ + "." + s.fld
		} else {
			lost = append(lost, s.typ+"."+s.fld)
		}
	}
	return out, lost
}

// effectRule: obligations (a) snapshot covers and (b) restore resets, restricted to fields accepted by `want`.
func effectRule(c *Ctx, r *Report, rule string, want func(name string) bool) {
	ro := discoverRoles(c)
	table, lost := stateTable(c)
	for _, l := range lost {
		if want(l) {
			r.Unk(rule, "state-table", l, "-", "replicated-state field no longer resolves: anchor lost")
		}
	}
	// the function that calls through the SnapshotFn field and CreateSnapshot (snapshot path of the group)
	var snapPath []*ssa.Function
	for _, f := range c.FuncsInPkg("storage/raft") {
		eachInstr(f, func(i ssa.Instruction) {
			if cc := asCall(i); cc != nil && callID(cc).Name == "CreateSnapshot" {
				snapPath = appendUnique(snapPath, f)
			}
		})
	}
	for _, cs := range consumers(c, ro) {
		if cs.process == nil || cs.restore == nil || cs.snapshot == nil {
			r.Bad(rule, cs.name, "consumer-triple", "-", "a log consumer registers fewer than the three callbacks (process, restore, snapshot)")
			continue
		}
		applyRoots := []*ssa.Function{cs.process}
		// a consumer registered directly on a RaftGroup also owns the group's conf-change effects
		groupLevel := false
		for _, g := range ro.regs {
			if g.fn == cs.process && g.onVal != nil && typeName(g.onVal.Type()) == "RaftGroup" {
				groupLevel = true
			}
		}
		if groupLevel {
			applyRoots = append(applyRoots, ro.confChangeFns...)
		}
		applyEff, _ := c.effectsOf(applyRoots)
		snapEff, _ := c.effectsOf(append([]*ssa.Function{cs.snapshot}, snapPath...))
		restEff, restReach := c.effectsOf([]*ssa.Function{cs.restore})
		var flds []*types.Var
		for f := range applyEff.writes {
			flds = append(flds, f)
		}
		sort.Slice(flds, func(i, j int) bool { return flds[i].Pos() < flds[j].Pos() })
		var unclassified []string
		for _, fld := range flds {
			name, inTable := table[fld]
			if !inTable {
				if fld.Pkg() != nil && strings.HasPrefix(fld.Pkg().Path(), modPath) {
					unclassified = append(unclassified, typeOfField(fld)+"."+fld.Name())
				}
				continue
			}
			if !want(name) || stateOwner[name] != recvTypeName(cs.process) {
				continue
			}
			site := applyEff.writes[fld][0]
			// (a)
			_, readBySnap := snapEff.reads[fld]
			_, writtenByRestore := restEff.writes[fld]
			if readBySnap || writtenByRestore {
				how := "read by the snapshot path"
				if !readBySnap {
					how = "recomputed by the restore function"
				}
				r.OK(rule, cs.name, "covers-"+name, c.InstrPos(site.ins), "written under apply ("+fnName(site.fn)+"), "+how)
			} else {
				r.Bad(rule, cs.name, "covers-"+name, c.InstrPos(site.ins), "replicated field "+name+" is written by the apply tree ("+fnName(site.fn)+") but neither read by "+fnName(cs.snapshot)+" nor rebuilt by "+fnName(cs.restore)+": state established before a compaction is lost on restore")
			}
			// (b)
			for _, ws := range restEff.writes[fld] {
				if ws.kind != "incr" {
					continue
				}
				if !restReach[ws.fn] {
					continue
				}
				// a dominating plain store of a fresh value to the same field in the same function
				dom := false
				for _, ws2 := range restEff.writes[fld] {
					if ws2.kind == "store" && ws2.fn == ws.fn && instrDominates(ws2.ins, ws.ins) {
						dom = true
					}
				}
				cons := "resets-" + name
				if dom {
					r.OK(rule, cs.name, cons, c.InstrPos(ws.ins), "incremental write in the restore path is dominated by a plain store resetting the field")
				} else {
					r.Bad(rule, cs.name, cons, c.InstrPos(ws.ins), "restore updates "+name+" incrementally without resetting it first: whatever the replica held before the snapshot (stale items, a dataset deleted before the snapshot point) survives")
				}
			}
		}
		if len(unclassified) > 0 {
			sort.Strings(unclassified)
			r.Infof("%s %s: fields written under apply that are not in the replicated-state table (caches / runtime wiring; information only): %s", rule, cs.name, strings.Join(dedup(unclassified), ", "))
		}
	}
}

func dedup(s []string) []string {
	var out []string
	for i, x := range s {
		if i == 0 || s[i-1] != x {
			out = append(out, x)
		}
	}
	return out
}

func typeOfField(fld *types.Var) string {
	// best effort: find the struct that declares it
	if fld.Pkg() == nil {
		return "?"
	}
	sc := fld.Pkg().Scope()
	for _, n := range sc.Names() {
		if tn, ok := sc.Lookup(n).(*types.TypeName); ok {
			if st, ok := tn.Type().Underlying().(*types.Struct); ok {
				for i := 0; i < st.NumFields(); i++ {
					if st.Field(i) == fld {
						return n
					}
				}
			}
		}
	}
	return "?"
}

// ---- C04 ------------------------------------------------------------------------------------------

func nondetSource(id CallID) string {
	switch {
	case id.Pkg == "math/rand" || id.Pkg == "math/rand/v2" || id.Pkg == "crypto/rand":
		return id.String()
	case id.Pkg == "time" && (id.Name == "Now" || id.Name == "Since" || id.Name == "Until"):
		return id.String()
	case strings.HasSuffix(id.Pkg, "satori/go.uuid") && strings.HasPrefix(id.Name, "NewV"):
		return id.String()
	case id.Pkg == "os" && (strings.HasPrefix(id.Name, "Get") || id.Name == "Hostname" || id.Name == "Environ"):
		return id.String()
	case strings.HasSuffix(id.Pkg, "anndb/math") && strings.HasPrefix(id.Name, "Random"):
		return id.String()
	}
	return ""
}

func determinismRule(c *Ctx, r *Report, rule string, roots []*ssa.Function, label string) {
	reach := c.reachableFrom(roots, true, true)
	// module functions that are themselves randomness sources (draw from one)
	n := 0
	var fns []*ssa.Function
	for f := range reach {
		fns = append(fns, f)
	}
	sort.Slice(fns, func(i, j int) bool { return fns[i].String() < fns[j].String() })
	bad := 0
	for _, f := range fns {
		eachInstr(f, func(i ssa.Instruction) {
			cc := asCall(i)
			if cc == nil {
				return
			}
			n++
			if s := nondetSource(callID(cc)); s != "" {
				bad++
				r.Bad(rule, fnName(f), fmt.Sprintf("nondeterminism#%d", bad), c.InstrPos(i), "the "+label+" apply tree calls "+s+": replicas applying the same entry diverge")
			}
		})
	}
	if bad == 0 {
		r.OK(rule, label, "apply-tree-deterministic", "-", fmt.Sprintf("%d functions, %d call sites reachable from %d apply root(s); none draws randomness, time, fresh uuids or environment", len(fns), n, len(roots)))
	}
}

func checkC04(c *Ctx, r *Report, tier string) {
	round5(c, r, "C04")
	round6(c, r, "C04")
	round7(c, r, "C04")
	r.Rule("C04.R1", "the apply tree is a function of the log: no randomness / time / fresh-uuid / environment source is reachable from a partition apply root; the level of every insert in that tree comes from the log entry or from the replaced vertex, and every proposer sets it", 5)
	r.Rule("C04.R2", "single-threaded apply: calls through the registered process / restore callbacks are plain calls made by the Ready loop, by Start before the loop, or by another apply root", 4)
	r.Rule("C04.R3", "what apply mutates, the snapshot captures and restore resets (partition consumer; frozen table of replicated fields)", 6)
	r.Rule("C04.R4", "writer/reader grammar agreement for every stream pair (same fixed widths, length prefixes, loop nesting, optional header, early exits)", 4)
	ro := discoverRoles(c)
	// partition apply roots
	var proots []*ssa.Function
	for _, f := range ro.applyRoots {
		if recvTypeName(f) == "partition" {
			proots = append(proots, f)
		}
	}
	if len(proots) < 2 {
		r.Unk("C04.R1", "storage.partition", "apply-roots", "-", "partition process / restore callbacks not found among the registered consumers")
	} else {
		determinismRule(c, r, "C04.R1", proots, "partition")
		// level provenance
		reach := c.reachableFrom(proots, true, true)
		k := 0
		for f := range reach {
			eachInstr(f, func(i ssa.Instruction) {
				cl, ok := i.(*ssa.Call)
				if !ok {
					return
				}
				g := cl.Call.StaticCallee()
				if g == nil || g.Name() != "Insert" || recvTypeName(g) != "Hnsw" || len(cl.Call.Args) != 5 {
					return
				}
				k++
				okL, why := levelFromLog(c, f, cl.Call.Args[4], reach, 0)
				r.Check(okL, "C04.R1", fnName(f), fmt.Sprintf("insert-level#%d", k), c.Pos(cl.Pos()), why)
			})
		}
		// proposers set Level
		nSet := 0
		for _, f := range prodFuncs(c, "storage") {
			if reach[f] {
				continue
			}
			eachInstr(f, func(i ssa.Instruction) {
				st, ok := i.(*ssa.Store)
				if !ok {
					return
				}
				fa, ok := st.Addr.(*ssa.FieldAddr)
				if !ok || structField(fa.X.Type(), fa.Field).Name() != "Level" || !strings.HasSuffix(typePkg(fa.X.Type()), "anndb/protobuf") {
					return
				}
				nSet++
				okS := false
				for _, o := range origins(st.Val, originOpt{}) {
					if cl, ok := o.(*ssa.Call); ok && cl.Call.StaticCallee() != nil && strings.Contains(cl.Call.StaticCallee().Name(), "RandomLevel") {
						okS = true
					}
				}
				r.Check(okS, "C04.R1", fnName(f), "proposer-draws-level", c.InstrPos(st), "the proposer draws the level once and ships it in the entry")
			})
		}
		if nSet < 2 {
			r.Bad("C04.R1", "storage.partition", "proposer-draws-level", "-", fmt.Sprintf("only %d proposer(s) put a level into the entry; single and batch insert both must", nSet))
		}
	}
	// R2
	n := 0
	for _, f := range c.ModFuncs {
		if !c.isProd(f) {
			continue
		}
		eachInstr(f, func(i ssa.Instruction) {
			cc := asCall(i)
			if cc == nil || cc.StaticCallee() != nil || cc.IsInvoke() {
				return
			}
			fld := fieldOfValue(cc.Value)
			if fld == nil || typeName(fld.Type()) != "ProcessFn" {
				return
			}
			n++
			_, plain := i.(*ssa.Call)
			where := ""
			for _, l := range ro.readyLoops {
				if l == f {
					where = "the Ready loop"
				}
			}
			for _, a := range ro.applyRoots {
				if a == f {
					where = "an apply root (runs on the Ready loop's goroutine)"
				}
			}
			// a helper of the loop: every call site of f is a plain call inside a Ready loop or inside another such helper
			if where == "" && f.Parent() == nil && loopHelpers(c, ro)[f] {
				where = "a helper that only the Ready loop calls, synchronously"
			}
			// Start: spawns the loop afterwards (itself, or through a helper that only spawns)
			eachInstr(f, func(j ssa.Instruction) {
				spawns := false
				if g, ok := j.(*ssa.Go); ok {
					for _, l := range ro.readyLoops {
						if g.Call.StaticCallee() == l {
							spawns = true
						}
					}
				}
				if cl, ok := j.(*ssa.Call); ok && loopSpawners(c, ro)[cl.Call.StaticCallee()] {
					spawns = true
				}
				if spawns {
					if _, after := reachesAvoiding(f, j, func(z ssa.Instruction) bool { return z == i }, nil); !after {
						where = "Start, before the loop is spawned"
					}
				}
			})
			r.Check(plain && where != "" && f.Parent() == nil, "C04.R2", fnName(f), fmt.Sprintf("callback-call#%d", n), c.InstrPos(i), "callback "+fld.Name()+" is invoked synchronously from "+where)
		})
	}
	effectRule(c, r, "C04.R3", func(n string) bool { return strings.HasPrefix(n, "Hnsw.") })
	restoreResetsBeforeSuccess(c, r, "C04.R3")
	grammarRule(c, r, "C04.R4")
	r.Rule("C04.R5", "the snapshot callback serialises the current state on every call: the bytes it returns never come from a field (cache) or a parameter", 1)
	snapshotIsFresh(c, r, "C04.R5", "partition")
	r.Rule("C04.R6", "replay equals restart: the partition apply tree spawns no goroutine; the restore callback always runs the state reader; log compaction keeps the snapshot's anchor entry so the first entry after a snapshot is replayed; each batch item is processed completely before the next", 4)
	noGoroutinesInApply(c, r, "C04.R6", "partition")
	restoreCallbackDelegates(c, r, "C04.R6", "partition", "Hnsw")
	walCompactionKeepsAnchor(c, r, "C04.R6")
	batchItemsProcessedOneByOne(c, r, "C04.R6")
	r.Rule("C04.R7", "no committed entry is skipped or replayed twice: the Ready loop applies the committed entries of every Ready, also of one that carries a snapshot; a received snapshot wipes the whole stored log, so a restart cannot re-deliver a stale prefix on top of it", 3)
	readyPartsIndependent(c, r, "C04.R7")
	persistOrder(c, r, "C04.R7")
	r.Rule("C04.R8", "every replica is fed the same entries and serving a read changes nothing: Entries returns a contiguous prefix under the size limit (borrowed from C06.R8), decoded entries own their bytes, and no element of a search result's metadata (which is the stored vertex's map) is written or deleted", 3)
	borrow(c, r, "C06", "C06.R8", "C04.R8", "size-limit")
	decodedEntriesOwnTheirBytes(c, r, "C04.R8")
	publishedVertexWrites(c, r, "C04.R8")
}

// levelFromLog: the level value comes from GetLevel() of the entry or Level() of an existing vertex, possibly through
// a parameter of a function called only inside the apply tree.
func levelFromLog(c *Ctx, f *ssa.Function, v ssa.Value, reach map[*ssa.Function]bool, depth int) (bool, string) {
	if depth > 3 {
		return false, "level provenance too deep"
	}
	for _, o := range origins(v, originOpt{}) {
		switch y := o.(type) {
		case *ssa.Call:
			n := callID(&y.Call).Name
			if n == "GetLevel" || n == "Level" {
				continue
			}
			return false, "level comes from " + callID(&y.Call).String() + ", not from the log entry or the replaced vertex"
		case *ssa.Parameter:
			pi := -1
			for k, p := range f.Params {
				if p == y {
					pi = k
				}
			}
			cnt := 0
			for g := range reach {
				var bad string
				eachInstr(g, func(i ssa.Instruction) {
					cl, ok := i.(*ssa.Call)
					if !ok || cl.Call.StaticCallee() != f {
						return
					}
					cnt++
					if ok2, why := levelFromLog(c, g, cl.Call.Args[pi], reach, depth+1); !ok2 {
						bad = why
					}
				})
				if bad != "" {
					return false, bad
				}
			}
			if cnt == 0 {
				return false, "level parameter has no caller inside the apply tree"
			}
		default:
			return false, "level comes from " + o.String()
		}
	}
	return true, "level = entry.GetLevel() / replaced vertex.Level()"
}

// ---- C08 ------------------------------------------------------------------------------------------

func checkC08(c *Ctx, r *Report, tier string) {
	round5(c, r, "C08")
	round6(c, r, "C08")
	round7(c, r, "C08")
	round8(c, r, "C08")
	r.Rule("C08.R1", "writer/reader grammar agreement for every stream pair", 4)
	r.Rule("C08.R2", "full reads: no direct Read on an io.Reader whose byte count is discarded (io.ReadFull / binary.Read are exact)", 1)
	r.Rule("C08.R3", "length fields cannot truncate: a len(…) narrowed to uint8/uint16 that is written to the stream needs a dominating bound check (uint32 counts are bounded by memory)", 3)
	r.Rule("C08.R4", "tombstone count/body agreement: the loop that counts a vertex's links and the loop that writes them filter on the tombstone with the same (live) polarity", 1)
	r.Rule("C08.R5", "restore resets: Load replaces every shard map, resets every counter it then accumulates and stores the entry point", 4)
	grammarRule(c, r, "C08.R1")
	// R2
	n := 0
	readers := 0
	for _, f := range prodFuncs(c, "index", "math") {
		takes := false
		for _, p := range f.Params {
			if isIOType(p.Type(), "Reader") {
				takes = true
			}
		}
		for _, fv := range f.FreeVars {
			if p, ok := fv.Type().(*types.Pointer); ok && isIOType(p.Elem(), "Reader") {
				takes = true
			}
		}
		if !takes {
			continue
		}
		readers++
		eachInstr(f, func(i ssa.Instruction) {
			cl, ok := i.(*ssa.Call)
			if !ok || !cl.Call.IsInvoke() || cl.Call.Method.Name() != "Read" || !isIOType(cl.Call.Value.Type(), "Reader") {
				return
			}
			n++
			used := false
			for _, u := range *cl.Referrers() {
				if ex, ok := u.(*ssa.Extract); ok && ex.Index == 0 && ex.Referrers() != nil {
					for _, uu := range *ex.Referrers() {
						if _, dbg := uu.(*ssa.DebugRef); !dbg {
							used = true
						}
					}
				}
			}
			r.Check(used, "C08.R2", fnName(f), fmt.Sprintf("bare-Read#%d", n), c.Pos(cl.Pos()), "the byte count of a direct Read is discarded: a reader that fragments the stream leaves the buffer partly filled and every following count is garbage (use io.ReadFull)")
		})
	}
	r.OKTrivial("C08.R2", "index+math", "reader-functions", "-", fmt.Sprintf("%d functions take an io.Reader; %d direct Read calls", readers, n))
	if readers < 4 {
		r.Unk("C08.R2", "index+math", "reader-functions-count", "-", "fewer reader functions than on the reference tree: anchor lost")
	}
	// R3
	for _, f := range prodFuncs(c, "index", "math") {
		kk := map[string]int{}
		writes := false
		for _, p := range f.Params {
			if isIOType(p.Type(), "Writer") {
				writes = true
			}
		}
		if !writes {
			continue
		}
		eachInstr(f, func(i ssa.Instruction) {
			cv, ok := i.(*ssa.Convert)
			if !ok {
				return
			}
			b, ok := cv.Type().Underlying().(*types.Basic)
			if !ok || b.Info()&types.IsUnsigned == 0 {
				return
			}
			src, ok := cv.X.(*ssa.Call)
			isLen := ok && callID(&src.Call).is("builtin", "", "len")
			isCount := false
			if _, isPhi := cv.X.(*ssa.Phi); isPhi && b.Kind() == types.Uint32 {
				isCount = true
			}
			if !isLen && !isCount {
				return
			}
			kk[b.Name()]++
			cons := fmt.Sprintf("narrow-%s#%d", b.Name(), kk[b.Name()])
			switch b.Kind() {
			case types.Uint32, types.Uint64, types.Uint:
				r.OKTrivial("C08.R3", fnName(f), cons, c.Pos(cv.Pos()), "32-bit count of in-memory objects: cannot exceed the width before memory does")
			case types.Uint8, types.Uint16:
				// dominating upper-bound test on the same len
				guard := false
				wideBound := ""
				for _, ifi := range allIfs(f) {
					bo, ok := ifi.Cond.(*ssa.BinOp)
					if !ok {
						continue
					}
					for si, side := range []ssa.Value{bo.X, bo.Y} {
						if lc, ok := side.(*ssa.Call); ok && callID(&lc.Call).is("builtin", "", "len") && lc.Call.Args[0] == src.Call.Args[0] {
							onTrue, onFalse := guardedBy(cv.Block(), ifi, true), guardedBy(cv.Block(), ifi, false)
							if onTrue || onFalse {
								guard = true
								// a constant bound must fit the width the length is narrowed to
								other := bo.Y
								op := bo.Op
								if si == 1 {
									other = bo.X
									op = flipCmp(op)
								}
								if onFalse && !onTrue {
									op = negOp(op)
								}
								if cst, isK := constInt(other); isK {
									limit := int64(255)
									if b.Kind() == types.Uint16 {
										limit = 65535
									}
									switch op {
									case token.LEQ:
										if cst > limit {
											wideBound = fmt.Sprintf("the bound lets a length of %d through, %s holds at most %d", cst, b.Name(), limit)
										}
									case token.LSS:
										if cst-1 > limit {
											wideBound = fmt.Sprintf("the bound lets a length of %d through, %s holds at most %d", cst-1, b.Name(), limit)
										}
									}
								}
							}
						}
					}
				}
				// … or on the verdict of a predicate / validating helper that bounds the length of the same value: the helper is
				// handed the value (or its length) and compares it with a constant, itself or one or two helpers further down;
				// the verdict may be a bool or an error
				limit := int64(255)
				if b.Kind() == types.Uint16 {
					limit = 65535
				}
				var boundIn func(g *ssa.Function, pi int, isLen bool, d int)
				boundIn = func(g *ssa.Function, pi int, isLen bool, d int) {
					if g == nil || !modLocal(g) || len(g.Blocks) == 0 || d > 3 || pi >= len(g.Params) {
						return
					}
					p := ssa.Value(g.Params[pi])
					eachInstr(g, func(j ssa.Instruction) {
						if bo, isB := j.(*ssa.BinOp); isB {
							for si, side := range []ssa.Value{bo.X, bo.Y} {
								hit := false
								if lc, ok := side.(*ssa.Call); ok && !isLen && callID(&lc.Call).is("builtin", "", "len") && lc.Call.Args[0] == p {
									hit = true
								}
								if isLen && strip(side) == p {
									hit = true
								}
								if !hit {
									continue
								}
								other := bo.Y
								if si == 1 {
									other = bo.X
								}
								cst, isK := constInt(other)
								if !isK {
									continue
								}
								guard = true
								// `len <= C` / `len > C` bound by C, `len < C` / `len >= C` by C-1, whichever way the verdict is used
								eff := cst
								if bo.Op == token.LSS || bo.Op == token.GEQ {
									if si == 0 {
										eff = cst - 1
									}
								} else if si == 1 && (bo.Op == token.GTR || bo.Op == token.LEQ) {
									eff = cst - 1
								}
								if eff > limit {
									wideBound = fmt.Sprintf("the predicate %s lets a length of %d through, %s holds at most %d", g.Name(), eff, b.Name(), limit)
								}
							}
						}
						if cc := asCall(j); cc != nil && cc.StaticCallee() != nil && cc.StaticCallee() != g {
							for ai, a := range cc.Args {
								if strip(a) == p {
									boundIn(cc.StaticCallee(), ai, isLen, d+1)
								}
								if lc, ok := strip(a).(*ssa.Call); ok && !isLen && callID(&lc.Call).is("builtin", "", "len") && lc.Call.Args[0] == p {
									boundIn(cc.StaticCallee(), ai, true, d+1)
								}
							}
						}
					})
				}
				for _, ifi := range allIfs(f) {
					if !(guardedBy(cv.Block(), ifi, true) || guardedBy(cv.Block(), ifi, false)) {
						continue
					}
					var helpers []*ssa.Call
					for _, l := range condLeaves(ifi.Cond, 0) {
						if hc, isC := l.(*ssa.Call); isC {
							helpers = append(helpers, hc)
						}
					}
					// `if err := validate(k, v); err != nil`
					if bo, isB := ifi.Cond.(*ssa.BinOp); isB && (isNilConst(bo.X) || isNilConst(bo.Y)) {
						for _, sd := range []ssa.Value{bo.X, bo.Y} {
							if hc, isC := strip(sd).(*ssa.Call); isC {
								helpers = append(helpers, hc)
							}
						}
					}
					for _, hc := range helpers {
						if hc.Call.StaticCallee() == nil || !modLocal(hc.Call.StaticCallee()) {
							continue
						}
						for ai, a := range hc.Call.Args {
							if a == src.Call.Args[0] {
								boundIn(hc.Call.StaticCallee(), ai, false, 0)
							}
							if lc, ok := strip(a).(*ssa.Call); ok && callID(&lc.Call).is("builtin", "", "len") && lc.Call.Args[0] == src.Call.Args[0] {
								boundIn(hc.Call.StaticCallee(), ai, true, 0)
							}
						}
					}
				}
				if guard && wideBound != "" {
					r.Bad("C08.R3", fnName(f), cons, c.Pos(cv.Pos()), "the bound test in front of the narrowing is wider than the field: "+wideBound+" — the prefix wraps to a smaller number and the reader desynchronises")
				} else if guard {
					r.OK("C08.R3", fnName(f), cons, c.Pos(cv.Pos()), "narrowing is dominated by a bound test on the same length")
				} else {
					r.Bad("C08.R3", fnName(f), cons, c.Pos(cv.Pos()), fmt.Sprintf("len(…) is narrowed to %s and written as a length prefix without a bound check: a longer value is written in full behind a truncated prefix and the reader desynchronises", b.Name()))
				}
			}
		})
	}
	// R4
	x := newIdx(c)
	if len(x.missing) == 0 {
		byFn := map[*ssa.Function][]*edgeLoop{}
		for _, l := range x.edgeLoops() {
			byFn[l.fn] = append(byFn[l.fn], l)
		}
		for f, ls := range byFn {
			writes := false
			for _, p := range f.Params {
				if isIOType(p.Type(), "Writer") {
					writes = true
				}
			}
			if !writes || len(ls) < 2 {
				continue
			}
			for _, l := range ls {
				if l.key == nil {
					continue
				}
				tests := x.liveTests(f, l.key)
				// counting loop: an increment inside the loop
				var inc *ssa.BinOp
				eachInstr(f, func(i ssa.Instruction) {
					if b, ok := i.(*ssa.BinOp); ok && b.Op == token.ADD {
						if n, ok := constInt(b.Y); ok && n == 1 {
							if _, isPhi := b.X.(*ssa.Phi); isPhi && l.next.Block().Dominates(b.Block()) && b.Block() != l.next.Block() {
								if _, back := reachesAvoiding(f, b, func(z ssa.Instruction) bool { return z == ssa.Instruction(l.next) }, nil); back {
									inc = b
								}
							}
						}
					}
				})
				if inc == nil {
					continue
				}
				if guardedLive(inc.Block(), tests) {
					r.OK("C08.R4", fnName(f), fmt.Sprintf("count-loop#%d", l.order), c.Pos(inc.Pos()), "links are counted on the live side of the tombstone test, the body loop writes on the live side (C01.R1)")
				} else {
					// only a violation when the increment is inside this loop body proper
					if true {
						r.Bad("C08.R4", fnName(f), fmt.Sprintf("count-loop#%d", l.order), c.Pos(inc.Pos()), "the link count is not taken on the live side of the tombstone test while the body loop skips tombstoned links: the reader consumes the wrong number of links")
					}
				}
			}
		}
	}
	// R5
	effectRule(c, r, "C08.R5", func(n string) bool { return strings.HasPrefix(n, "Hnsw.") })
	restoreResetsBeforeSuccess(c, r, "C08.R5")
	restoreCallbackDelegates(c, r, "C08.R5", "partition", "Hnsw")
	r.Rule("C08.R6", "what is saved can be loaded and what is accepted can be saved: the entry point (saved by id) is always a live, stored vertex — the hand-over on removal skips tombstoned neighbours; the metadata validator bounds byte lengths, the quantity the writer narrows", 3)
	borrow(c, r, "C01", "C01.R1", "C08.R6", "")
	borrow(c, r, "C01", "C01.R2", "C08.R6", "")
	validatorMeasuresBytes(c, r, "C08.R6")
	r.Rule("C08.R7", "the bytes of a snapshot stay what they were when it was taken, and only states the format can express are reachable: snapshot bytes come from a buffer local to the call; every item of a value-carrying batch passes the dimension and metadata guard (borrowed from C11.R4)", 3)
	snapshotIsFresh(c, r, "C08.R7", "partition")
	borrow(c, r, "C11", "C11.R4", "C08.R7", "")
}

// loopHelpers: functions whose every call site is a plain (not go / defer) call inside a Ready loop or inside another loop
// helper — they run on the loop's goroutine, one at a time.
func loopHelpers(c *Ctx, ro *roles) map[*ssa.Function]bool {
	h := map[*ssa.Function]bool{}
	for _, l := range ro.readyLoops {
		h[l] = true
	}
	for changed := true; changed; {
		changed = false
		for _, f := range c.ModFuncs {
			if h[f] || !c.isProd(f) || f.Parent() != nil {
				continue
			}
			sites, ok := 0, true
			for _, g := range c.ModFuncs {
				if !c.isProd(g) {
					continue
				}
				eachInstr(g, func(j ssa.Instruction) {
					cc := asCall(j)
					if cc == nil || cc.StaticCallee() != f {
						return
					}
					sites++
					if _, plain := j.(*ssa.Call); !plain || !h[rootFn(g)] || g.Parent() != nil {
						ok = false
					}
				})
			}
			if sites > 0 && ok {
				h[f] = true
				changed = true
			}
		}
	}
	for _, l := range ro.readyLoops {
		delete(h, l)
	}
	return h
}

// loopSpawners: functions that contain `go <Ready loop>` and are not themselves the start function with the restore call —
// small helpers such as spawnLoop().
func loopSpawners(c *Ctx, ro *roles) map[*ssa.Function]bool {
	s := map[*ssa.Function]bool{}
	for _, f := range c.ModFuncs {
		if !c.isProd(f) || f.Parent() != nil {
			continue
		}
		hasRestore := false
		eachInstr(f, func(i ssa.Instruction) {
			if cc := plainCall(i); cc != nil && cc.StaticCallee() == nil && !cc.IsInvoke() {
				if fld := fieldOfValue(cc.Value); fld != nil && typeName(fld.Type()) == "ProcessFn" {
					hasRestore = true
				}
			}
		})
		if hasRestore {
			continue // the start function itself
		}
		eachInstr(f, func(i ssa.Instruction) {
			if g, ok := i.(*ssa.Go); ok {
				for _, l := range ro.readyLoops {
					if g.Call.StaticCallee() == l {
						s[f] = true
					}
				}
			}
		})
	}
	return s
}
