package main

import (
	"go/types"
	"sort"
	"strings"

	"golang.org/x/tools/go/ssa"
)

// SA-LOCK: forward dataflow of must-held / may-held lock sets, lock identity = access path.

type lockSet map[string]byte // path -> 'R' | 'W'

func (s lockSet) clone() lockSet {
	o := lockSet{}
	for k, v := range s {
		o[k] = v
	}
	return o
}

func (s lockSet) String() string {
	var ks []string
	for k, v := range s {
		ks = append(ks, k+":"+string(v))
	}
	sort.Strings(ks)
	return "{" + strings.Join(ks, ", ") + "}"
}

type lockState struct{ must, may lockSet }

type lockInfo struct {
	before map[ssa.Instruction]lockState
	// lockVal remembers, per path, one SSA value that designates the mutex (for field resolution)
	lockVal map[string]ssa.Value
}

// mutexOp classifies a call as a lock operation on a sync.Mutex / sync.RWMutex.
// returns op in {"Lock","RLock","Unlock","RUnlock",""} and the mutex value.
func mutexOp(cc *ssa.CallCommon) (string, ssa.Value) {
	id := callID(cc)
	if id.Pkg != "sync" || (id.Recv != "RWMutex" && id.Recv != "Mutex") {
		return "", nil
	}
	switch id.Name {
	case "Lock", "RLock", "Unlock", "RUnlock":
		if len(cc.Args) > 0 {
			return id.Name, cc.Args[0]
		}
	}
	return "", nil
}

func analyzeLocks(fn *ssa.Function) *lockInfo {
	li := &lockInfo{before: map[ssa.Instruction]lockState{}, lockVal: map[string]ssa.Value{}}
	if len(fn.Blocks) == 0 {
		return li
	}
	in := map[*ssa.BasicBlock]*lockState{}
	out := map[*ssa.BasicBlock]*lockState{}
	transfer := func(b *ssa.BasicBlock, st lockState, record bool) lockState {
		cur := lockState{st.must.clone(), st.may.clone()}
		for _, i := range b.Instrs {
			if record {
				li.before[i] = lockState{cur.must.clone(), cur.may.clone()}
			}
			call, ok := i.(*ssa.Call) // defer/go are deliberately ignored: `defer mu.Unlock()` keeps mu to exit
			if !ok {
				continue
			}
			op, mu := mutexOp(&call.Call)
			if op == "" {
				continue
			}
			p := path(mu)
			li.lockVal[p] = mu
			switch op {
			case "Lock":
				cur.must[p], cur.may[p] = 'W', 'W'
			case "RLock":
				cur.must[p], cur.may[p] = 'R', 'R'
			case "Unlock", "RUnlock":
				delete(cur.must, p)
				delete(cur.may, p)
			}
		}
		return cur
	}
	entry := fn.Blocks[0]
	in[entry] = &lockState{lockSet{}, lockSet{}}
	work := []*ssa.BasicBlock{entry}
	inWork := map[*ssa.BasicBlock]bool{entry: true}
	for len(work) > 0 {
		b := work[0]
		work = work[1:]
		inWork[b] = false
		o := transfer(b, *in[b], false)
		out[b] = &o
		for _, s := range b.Succs {
			// join
			var nm, ny lockSet
			first := true
			for _, p := range s.Preds {
				po := out[p]
				if po == nil {
					continue
				}
				if first {
					nm, ny = po.must.clone(), po.may.clone()
					first = false
					continue
				}
				for k := range nm {
					if _, ok := po.must[k]; !ok {
						delete(nm, k)
					} else if po.must[k] == 'R' {
						nm[k] = 'R'
					}
				}
				for k, v := range po.may {
					if old, ok := ny[k]; !ok || v == 'W' && old == 'R' {
						ny[k] = v
					}
				}
			}
			if nm == nil {
				continue
			}
			old := in[s]
			if old == nil || !sameSet(old.must, nm) || !sameSet(old.may, ny) {
				in[s] = &lockState{nm, ny}
				if !inWork[s] {
					work = append(work, s)
					inWork[s] = true
				}
			}
		}
	}
	for _, b := range fn.Blocks {
		if in[b] != nil {
			transfer(b, *in[b], true)
		}
	}
	return li
}

func sameSet(a, b lockSet) bool {
	if len(a) != len(b) {
		return false
	}
	for k, v := range a {
		if b[k] != v {
			return false
		}
	}
	return true
}

// ---- guarded maps ----------------------------------------------------------------

// mapOp is one operation on a map value.
type mapOp struct {
	instr ssa.Instruction
	m     ssa.Value
	write bool
	kind  string
}

func mapOpsIn(fn *ssa.Function) []mapOp {
	var out []mapOp
	isMap := func(v ssa.Value) bool { _, ok := v.Type().Underlying().(*types.Map); return ok }
	eachInstr(fn, func(i ssa.Instruction) {
		switch x := i.(type) {
		case *ssa.MapUpdate:
			out = append(out, mapOp{i, x.Map, true, "update"})
		case *ssa.Lookup:
			if isMap(x.X) {
				out = append(out, mapOp{i, x.X, false, "lookup"})
			}
		case *ssa.Range:
			if isMap(x.X) {
				out = append(out, mapOp{i, x.X, false, "range"})
			}
		case *ssa.Next:
			if rg, ok := x.Iter.(*ssa.Range); ok && isMap(rg.X) {
				out = append(out, mapOp{i, rg.X, false, "next"})
			}
		case *ssa.Call:
			id := callID(&x.Call)
			if id.Pkg == "builtin" && len(x.Call.Args) > 0 && isMap(x.Call.Args[0]) {
				switch id.Name {
				case "delete":
					out = append(out, mapOp{i, x.Call.Args[0], true, "delete"})
				case "len":
					out = append(out, mapOp{i, x.Call.Args[0], false, "len"})
				}
			}
		}
	})
	return out
}

// guardedMapField describes a map-valued (array/slice-of-map) field and the field holding its mutexes.
type guardedMapField struct {
	mapField, muField *types.Var
}

// pairedMutexPath: the access path the mutex guarding map value m must have; "" if m is not a guarded map.
// Handles (a) element of the map field: X.f[i] -> X.mu[i]; (b) first result of a shard selector call whose
// second result is the mutex: t#0 -> t#1.
func pairedMutexPath(m ssa.Value, pairs []guardedMapField) (string, *types.Var) {
	m = strip(m)
	if ex, ok := m.(*ssa.Extract); ok && ex.Index == 0 {
		if call, ok := ex.Tuple.(*ssa.Call); ok {
			sig := call.Call.Signature()
			if sig.Results().Len() == 2 && isMutexPtr(sig.Results().At(1).Type()) {
				// which field? the callee returns elements of a guarded field
				if f := call.Call.StaticCallee(); f != nil {
					for _, r := range returnsOf(f) {
						if fld := fieldOfValue(r.Results[0]); fld != nil {
							for _, p := range pairs {
								if p.mapField == fld {
									return ex.Tuple.Name() + "#1", fld
								}
							}
						}
					}
				}
			}
		}
		return "", nil
	}
	a, ok := loadOf(m)
	if !ok {
		return "", nil
	}
	ia, ok := a.(*ssa.IndexAddr)
	if !ok {
		return "", nil
	}
	var base ssa.Value = ia.X
	if l, ok := loadOf(base); ok {
		base = l
	}
	fa, ok := base.(*ssa.FieldAddr)
	if !ok {
		return "", nil
	}
	fld := structField(fa.X.Type(), fa.Field)
	for _, p := range pairs {
		if p.mapField == fld {
			return path(fa.X) + "." + p.muField.Name() + "[" + path(ia.Index) + "]", fld
		}
	}
	return "", nil
}

func isMutexPtr(t types.Type) bool {
	n := namedOf(t)
	return n != nil && n.Obj().Pkg() != nil && n.Obj().Pkg().Path() == "sync" && (n.Obj().Name() == "RWMutex" || n.Obj().Name() == "Mutex")
}

// mutexField: the struct field that a mutex value designates (X.mu, X.mus[i]) or nil.
func mutexField(mu ssa.Value) *types.Var {
	mu = strip(mu)
	if l, ok := loadOf(mu); ok {
		return fieldOfAddr(l)
	}
	return fieldOfAddr(mu)
}
