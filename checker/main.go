package main

import (
	"flag"
	"fmt"
	"os"
	"runtime/debug"
	"sort"
	"time"
)

type propCheck struct {
	id  string
	run func(c *Ctx, r *Report, tier string)
}

var registry = map[string]func(c *Ctx, r *Report, tier string){}

func register(id string, f func(c *Ctx, r *Report, tier string)) { registry[id] = f }

func main() {
	repo := flag.String("repo", "/repo", "repository root")
	prop := flag.String("prop", "", "property id (C01..C20)")
	tier := flag.String("tier", "quick", "quick|thorough")
	seed := flag.Int("seed", 0, "seed (orders sensitivity variants only)")
	verif := flag.String("verif", "/verif", "verif directory (evidence, known findings)")
	out := flag.String("out", "", "directory receiving evidence/ (default: the verif directory)")
	overlay := flag.String("overlay", "", "unified diff applied to the source as an overlay (sensitivity suite)")
	list := flag.Bool("list", false, "list properties with a check")
	flag.Parse()
	if *list {
		var ids []string
		for id := range registry {
			ids = append(ids, id)
		}
		sort.Strings(ids)
		for _, id := range ids {
			fmt.Println(id)
		}
		return
	}
	f, ok := registry[*prop]
	if !ok {
		fmt.Fprintf(os.Stderr, "no check for property %q\n", *prop)
		os.Exit(2)
	}
	start := time.Now()
	extraVerifDir = *verif
	opts := LoadOpts{}
	if *overlay != "" {
		ov, err := overlayFromDiff(*repo, *overlay)
		if err != nil {
			fmt.Println(err)
			os.Exit(3)
		}
		opts.Overlay = ov
	}
	c, err := Load(*repo, opts)
	if err != nil {
		// the tree does not load / type-check: no verdict can be given; this is a failure of the check run
		fmt.Printf("cannot analyse %s: %v\n", *repo, err)
		fmt.Printf("VIOLATION property=%s replay=%s\n", *prop, "/verif/evidence/replay/"+*prop+"-load-failure.json")
		os.Exit(1)
	}
	r := NewReport(*prop)
	func() {
		defer func() {
			if e := recover(); e != nil {
				r.Unk("internal", "-", "analyser-panic", "-", fmt.Sprintf("analyser panicked: %v\n%s", e, debug.Stack()))
			}
		}()
		f(c, r, *tier)
	}()
	extra := map[string]interface{}{}
	if *tier == "thorough" && *overlay == "" {
		runThoroughExtras(c, r, *prop, *repo, extra)
	}
	if *out == "" {
		*out = *verif
	}
	code := r.Finish(c, *tier, *seed, time.Since(start).Seconds(), *verif, *out, extra)
	os.Exit(code)
}
