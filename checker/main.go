package main

import (
	"flag"
	"fmt"
	"os"
	"path/filepath"
	"runtime/debug"
	"sort"
	"strings"
	"time"
)

type propCheck struct {
	id  string
	run func(c *Ctx, r *Report, tier string)
}

var registry = map[string]func(c *Ctx, r *Report, tier string){}

func register(id string, f func(c *Ctx, r *Report, tier string)) { registry[id] = f }

func main() {
	repo := flag.String("repo", "/repo", "repository root")
	prop := flag.String("prop", "", "property id (C01..C20)")
	tier := flag.String("tier", "quick", "quick|thorough")
	seed := flag.Int("seed", 0, "seed (orders sensitivity variants only)")
	verif := flag.String("verif", "/verif", "verif directory (evidence, known findings)")
	out := flag.String("out", "", "directory receiving evidence/ (default: the verif directory)")
	overlay := flag.String("overlay", "", "unified diff applied to the source as an overlay (sensitivity suite)")
	list := flag.Bool("list", false, "list properties with a check")
	skip := flag.String("skip", "", "with -prop all: comma-separated property ids to leave out")
	overlayDir := flag.String("overlaydir", "", "directory mirroring repo-relative paths whose files replace the repository's (rename sweep)")
	genAnch := flag.String("gen-anchors", "", "write the reference table of declarations (alpha-normalisation) to this file and exit")
	genRen := flag.String("gen-renames", "", "rename sweep: write one overlay directory per declaration under this root and exit")
	renParams := flag.Bool("rename-params", false, "with -gen-renames: also parameters and named results")
	genMut := flag.String("gen-mutants", "", "mutation sweep: write one overlay directory per single-site edit under this root and exit")
	mutOnly := flag.String("mutants-only", "", "with -gen-mutants: only files whose path contains this")
	noNorm := flag.Bool("no-normalise", false, "do not undo renames before the analysis (debugging)")
	flag.Parse()
	if *genAnch != "" {
		if err := genAnchors(*repo, *genAnch); err != nil {
			fmt.Println(err)
			os.Exit(2)
		}
		return
	}
	if *genMut != "" {
		if err := genMutants(*repo, *genMut, *mutOnly); err != nil {
			fmt.Println(err)
			os.Exit(2)
		}
		return
	}
	if *genRen != "" {
		if err := genRenames(*repo, *genRen, *renParams, "Rn"); err != nil {
			fmt.Println(err)
			os.Exit(2)
		}
		return
	}
	if *list {
		var ids []string
		for id := range registry {
			ids = append(ids, id)
		}
		sort.Strings(ids)
		for _, id := range ids {
			fmt.Println(id)
		}
		return
	}
	f, ok := registry[*prop]
	if !ok && *prop != "all" {
		fmt.Fprintf(os.Stderr, "no check for property %q\n", *prop)
		os.Exit(2)
	}
	start := time.Now()
	extraVerifDir = *verif
	opts := LoadOpts{}
	if *overlay != "" {
		ov, err := overlayFromDiff(*repo, *overlay)
		if err != nil {
			fmt.Println(err)
			os.Exit(3)
		}
		opts.Overlay = ov
	}
	if *overlayDir != "" {
		ov, err := overlayFromDir(*repo, *overlayDir)
		if err != nil {
			fmt.Println(err)
			os.Exit(3)
		}
		opts.Overlay = ov
	}
	if !*noNorm {
		opts.AnchorsFile = filepath.Join(*verif, "anchors.json")
	}
	c, err := Load(*repo, opts)
	if err != nil {
		// the tree does not load / type-check: no verdict can be given; this is a failure of the check run
		fmt.Printf("cannot analyse %s: %v\n", *repo, err)
		fmt.Printf("VIOLATION property=%s replay=%s\n", *prop, "/verif/evidence/replay/"+*prop+"-load-failure.json")
		os.Exit(1)
	}
	if *out == "" {
		*out = *verif
	}
	if *prop == "all" {
		// one load, every property in turn (used by the sweeps; the registered commands run one property per process)
		var ids []string
		for id := range registry {
			ids = append(ids, id)
		}
		sort.Strings(ids)
		worst := 0
		for _, id := range ids {
			if *skip != "" && strings.Contains(","+*skip+",", ","+id+",") {
				continue
			}
			t0 := time.Now()
			rr := NewReport(id)
			func() {
				defer func() {
					if e := recover(); e != nil {
						rr.Unk("internal", "-", "analyser-panic", "-", fmt.Sprintf("analyser panicked: %v\n%s", e, debug.Stack()))
					}
				}()
				registry[id](c, rr, *tier)
			}()
			if code := rr.Finish(c, *tier, *seed, time.Since(t0).Seconds(), *verif, *out, map[string]interface{}{}); code > worst {
				worst = code
			}
		}
		os.Exit(worst)
	}
	r := NewReport(*prop)
	func() {
		defer func() {
			if e := recover(); e != nil {
				r.Unk("internal", "-", "analyser-panic", "-", fmt.Sprintf("analyser panicked: %v\n%s", e, debug.Stack()))
			}
		}()
		f(c, r, *tier)
	}()
	extra := map[string]interface{}{}
	if *tier == "thorough" && *overlay == "" {
		runThoroughExtras(c, r, *prop, *repo, extra)
	}
	code := r.Finish(c, *tier, *seed, time.Since(start).Seconds(), *verif, *out, extra)
	os.Exit(code)
}
