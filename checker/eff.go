package main

import (
	"go/token"
	"go/types"
	"strings"

	"golang.org/x/tools/go/ssa"
)

// SA-EFF: per function, fields read and written; transitive over module-local callees.

type effSite struct {
	fn   *ssa.Function
	ins  ssa.Instruction
	kind string // store | incr | read
}

type effects struct {
	reads  map[*types.Var][]effSite
	writes map[*types.Var][]effSite
}

func newEffects() *effects {
	return &effects{reads: map[*types.Var][]effSite{}, writes: map[*types.Var][]effSite{}}
}

// fieldOfValueDeep: like fieldOfValue but looks through results of module-local selector functions.
func fieldOfValueDeep(v ssa.Value) *types.Var {
	if f := fieldOfValue(v); f != nil {
		return f
	}
	v = strip(v)
	if ex, ok := v.(*ssa.Extract); ok {
		if cl, ok := ex.Tuple.(*ssa.Call); ok {
			if g := cl.Call.StaticCallee(); g != nil && modLocal(g) {
				for _, rt := range returnsOf(g) {
					if ex.Index < len(rt.Results) {
						if f := fieldOfValue(rt.Results[ex.Index]); f != nil {
							return f
						}
					}
				}
			}
		}
	}
	if cl, ok := v.(*ssa.Call); ok {
		if g := cl.Call.StaticCallee(); g != nil && modLocal(g) {
			for _, rt := range returnsOf(g) {
				if len(rt.Results) == 1 {
					if f := fieldOfValue(rt.Results[0]); f != nil {
						return f
					}
				}
			}
		}
	}
	return nil
}

// reachableFields: fields of module struct types reachable from t (through pointers, slices, maps).
func reachableFields(t types.Type, seen map[types.Type]bool, out map[*types.Var]bool) {
	if t == nil || seen[t] {
		return
	}
	seen[t] = true
	switch y := t.(type) {
	case *types.Pointer:
		reachableFields(y.Elem(), seen, out)
	case *types.Slice:
		reachableFields(y.Elem(), seen, out)
	case *types.Array:
		reachableFields(y.Elem(), seen, out)
	case *types.Map:
		reachableFields(y.Elem(), seen, out)
		reachableFields(y.Key(), seen, out)
	case *types.Named:
		if y.Obj().Pkg() == nil || !strings.HasPrefix(y.Obj().Pkg().Path(), modPath) {
			return
		}
		if st, ok := y.Underlying().(*types.Struct); ok {
			for i := 0; i < st.NumFields(); i++ {
				out[st.Field(i)] = true
				reachableFields(st.Field(i).Type(), seen, out)
			}
		}
	case *types.Alias:
		reachableFields(types.Unalias(y), seen, out)
	}
}

func (c *Ctx) directEffects(f *ssa.Function, e *effects) {
	eachInstr(f, func(i ssa.Instruction) {
		switch y := i.(type) {
		case *ssa.Store:
			if fld := fieldOfAddr(y.Addr); fld != nil {
				kind := "store"
				// read-modify-write or append-store-back of the same field
				for _, o := range origins(y.Val, originOpt{}) {
					if b, ok := o.(*ssa.BinOp); ok && (fieldOfValue(b.X) == fld || fieldOfValue(b.Y) == fld) {
						kind = "incr"
					}
					if cl, ok := o.(*ssa.Call); ok && callID(&cl.Call).is("builtin", "", "append") && fieldOfValue(cl.Call.Args[0]) == fld {
						kind = "incr"
					}
				}
				e.writes[fld] = append(e.writes[fld], effSite{f, i, kind})
			}
		case *ssa.MapUpdate:
			if fld := fieldOfValueDeep(y.Map); fld != nil {
				e.writes[fld] = append(e.writes[fld], effSite{f, i, "incr"})
			}
		case *ssa.UnOp:
			if y.Op == token.MUL {
				if fld := fieldOfAddr(y.X); fld != nil {
					e.reads[fld] = append(e.reads[fld], effSite{f, i, "read"})
				}
			}
		case *ssa.Field:
			if fld := structField(y.X.Type(), y.Field); fld != nil {
				e.reads[fld] = append(e.reads[fld], effSite{f, i, "read"})
			}
		case *ssa.Call:
			id := callID(&y.Call)
			if id.Pkg == "builtin" && id.Name == "delete" {
				if fld := fieldOfValueDeep(y.Call.Args[0]); fld != nil {
					e.writes[fld] = append(e.writes[fld], effSite{f, i, "incr"})
				}
			}
			if id.Pkg == "sync/atomic" && len(y.Call.Args) > 0 {
				if fld := fieldOfAddr(y.Call.Args[0]); fld != nil {
					switch {
					case strings.HasPrefix(id.Name, "Load"):
						e.reads[fld] = append(e.reads[fld], effSite{f, i, "read"})
					case strings.HasPrefix(id.Name, "Add"):
						e.writes[fld] = append(e.writes[fld], effSite{f, i, "incr"})
					default:
						e.writes[fld] = append(e.writes[fld], effSite{f, i, "store"})
					}
				}
			}
			// a pointer escaping into a non-module function reads everything reachable from its type
			if g := y.Call.StaticCallee(); (g != nil && !modLocal(g)) || (g == nil && y.Call.IsInvoke() && !strings.HasPrefix(id.Pkg, modPath)) {
				for _, a := range y.Call.Args {
					a = strip(a)
					out := map[*types.Var]bool{}
					reachableFields(a.Type(), map[types.Type]bool{}, out)
					for fld := range out {
						e.reads[fld] = append(e.reads[fld], effSite{f, i, "read"})
					}
				}
			}
		}
	})
}

func (c *Ctx) effectsOf(roots []*ssa.Function) (*effects, map[*ssa.Function]bool) {
	reach := c.reachableFrom(roots, true, true)
	e := newEffects()
	for f := range reach {
		c.directEffects(f, e)
	}
	return e, reach
}
