package main

import (
	"fmt"
	"go/token"
	"go/types"
	"sort"
	"strings"

	"golang.org/x/tools/go/ssa"
)

func init() { register("C12", checkC12) }

// leafOperands: leaves of an arithmetic expression (through BinOp / conversions / φ / variadic packing).
func leafOperands(v ssa.Value) []ssa.Value {
	seen := map[ssa.Value]bool{}
	var out []ssa.Value
	var walk func(v ssa.Value)
	walk = func(v ssa.Value) {
		if v == nil || seen[v] {
			return
		}
		seen[v] = true
		switch y := v.(type) {
		case *ssa.BinOp:
			walk(y.X)
			walk(y.Y)
		case *ssa.Convert:
			walk(y.X)
		case *ssa.ChangeType:
			walk(y.X)
		case *ssa.Phi:
			for _, e := range y.Edges {
				walk(e)
			}
		case *ssa.UnOp:
			if y.Op == token.MUL {
				if al, ok := y.X.(*ssa.Alloc); ok {
					for _, st := range storesTo(al.Parent(), al) {
						walk(st.Val)
					}
					return
				}
			}
			out = append(out, v)
		case *ssa.Call:
			id := callID(&y.Call)
			if (strings.HasSuffix(id.Pkg, "anndb/math") && id.Name == "MaxInt") || (id.Pkg == "builtin" && id.Name == "max") {
				for _, a := range flatArgs(&y.Call) {
					walk(a)
				}
				return
			}
			out = append(out, v)
		default:
			out = append(out, v)
		}
	}
	walk(v)
	return out
}

type traceCtx struct {
	c       *Ctx
	in      map[*ssa.Function]bool
	callers map[*ssa.Function][]ssa.CallInstruction
}

func newTrace(c *Ctx, in map[*ssa.Function]bool) *traceCtx {
	t := &traceCtx{c: c, in: in, callers: map[*ssa.Function][]ssa.CallInstruction{}}
	for f := range in {
		eachInstr(f, func(i ssa.Instruction) {
			if ci, ok := i.(ssa.CallInstruction); ok {
				if g := ci.Common().StaticCallee(); g != nil {
					t.callers[g] = append(t.callers[g], ci)
				}
			}
		})
	}
	return t
}

// sources climbs parameters to call sites (inside the analysed set) and returns the non-parameter leaves.
func (t *traceCtx) sources(v ssa.Value, depth int) []ssa.Value {
	var out []ssa.Value
	seen := map[ssa.Value]bool{}
	var walk func(v ssa.Value, d int)
	walk = func(v ssa.Value, d int) {
		for _, l := range leafOperands(v) {
			if seen[l] {
				continue
			}
			seen[l] = true
			p, ok := l.(*ssa.Parameter)
			if !ok || d <= 0 {
				out = append(out, l)
				continue
			}
			f := p.Parent()
			pi := -1
			for k, pp := range f.Params {
				if pp == p {
					pi = k
				}
			}
			cs := t.callers[f]
			if len(cs) == 0 {
				out = append(out, l)
				continue
			}
			for _, ci := range cs {
				if pi < len(ci.Common().Args) {
					walk(ci.Common().Args[pi], d-1)
				}
			}
		}
	}
	walk(v, depth)
	return out
}

func isPbGetter(v ssa.Value) (string, string, bool) {
	cl, ok := strip(v).(*ssa.Call)
	if !ok {
		return "", "", false
	}
	id := callID(&cl.Call)
	if strings.HasSuffix(id.Pkg, "anndb/protobuf") && strings.HasPrefix(id.Name, "Get") {
		return id.Recv, id.Name, true
	}
	return "", "", false
}

func checkC12(c *Ctx, r *Report, tier string) {
	round5(c, r, "C12")
	round6(c, r, "C12")
	round7(c, r, "C12")
	round8(c, r, "C12")

	r.Rule("C12.R1", "validation must-pass-through: from every RPC root of the three client services, every path to a proposer whose payload carries a vector, and to an index search, passes a dimension guard on that vector", 5)
	r.Rule("C12.R2", "panic-capable constructs on untrusted operands reachable from an RPC root or an apply root need a dominating guard: Must-style helpers on request bytes, remainder/division by a stored count, rand.Intn(len) of a possibly empty list, &x[0] of a possibly empty vector, a write into a possibly nil request map, a make sized by a request number without upper bound", 12)
	r.Rule("C12.R3", "apply-fatal parses are proposer-guaranteed: every id that an apply function parses with a fatal error path is, at every proposer of that message, produced by uuid.UUID.Bytes() or validated before the proposal", 4)
	r.Rule("C12.R4", "the batch size cap dominates the fan-out on every public batch entry point", 3)
	r.Rule("C12.R5", "the creation proposer replaces the variable-length fields of the client's dataset message (id, partition table) with server-generated content on every path to the proposal", 2)
	proposerOwnsStructuredFields(c, r, "C12.R5")
	r.Rule("C12.R8", "an enum of a replicated message that selects an implementation is validated by the creation proposer (an unknown value would leave a nil implementation that panics on first use, on every replica and every replay)", 1)
	enumSelectsImplementation(c, r, "C12.R8")
	r.Rule("C12.R9", "a node that has a snapshot can start: log consumers are registered before the group is started (borrowed from C14.R1)", 1)
	borrow(c, r, "C14", "C14.R1", "C12.R9", "")
	r.Rule("C12.R6", "no request wedges the server on a mutex: no lock-order cycle between mutex fields, no re-acquisition of a mutex that a caller on the same object may already hold", 2)
	lockOrderRule(c, r, "C12.R6", newLockWorld(c), nil)
	r.Rule("C12.R7", "no request makes a goroutine spin or the runtime abort: running minima in the index move only on strict improvement (greedy descent terminates on ties); the metadata map of a stored vertex is never written in place (a concurrent stream.Send of a search result reads it: `concurrent map read and map write` is fatal)", 3)
	strictImprovementOnly(c, r, "C12.R7")
	publishedVertexWrites(c, r, "C12.R7")
	ro := discoverRoles(c)
	var roots []*ssa.Function
	for _, f := range ro.rpcRoots {
		switch ro.rpcService[f] {
		case "DataManager", "DatasetManager", "Search":
			roots = append(roots, f)
		}
	}
	if len(roots) < 17 {
		r.Unk("C12.R1", "services", "rpc-roots", "-", fmt.Sprintf("only %d RPC roots of the three client services found (17 on the reference tree)", len(roots)))
	}
	r.Infof("C12 universe: %d RPC roots (DataManager, DatasetManager, Search) and %d apply roots", len(roots), len(ro.applyRoots))
	guards := dimensionGuards(c)
	partT := c.Named("storage", "partition")
	dsT := c.Named("storage", "Dataset")

	// ---- R1 ---------------------------------------------------------------------------
	isSink := func(g *ssa.Function) string {
		if g == nil || g.Signature.Recv() == nil || namedOf(g.Signature.Recv().Type()) != partT {
			return ""
		}
		hasVec, hasItems := false, false
		for _, p := range g.Params[1:] {
			if isVectorType(p.Type()) || p.Type().String() == "[]float32" {
				hasVec = true
			}
			if strings.Contains(p.Type().String(), "BatchItem") {
				hasItems = true
			}
		}
		n := strings.ToLower(g.Name())
		if hasVec {
			return "vector operation " + g.Name()
		}
		if hasItems && (strings.Contains(n, "insert") || strings.Contains(n, "update")) {
			return "batch proposal " + g.Name()
		}
		return ""
	}
	// batchGuarded: function checks each item and forwards only those that passed (C11.R4 shape)
	batchGuarded := func(f *ssa.Function) bool {
		var g *ssa.Call
		eachInstr(f, func(i ssa.Instruction) {
			if cl, ok := i.(*ssa.Call); ok && guards[cl.Call.StaticCallee()] && !guardDisabledAt(cl, guards) {
				g = cl
			}
		})
		if g == nil {
			return false
		}
		ifi, errPol := errTestOf(f, g)
		if ifi == nil {
			return false
		}
		ok := true
		n := 0
		eachInstr(f, func(i ssa.Instruction) {
			cl, isC := i.(*ssa.Call)
			if !isC || !callID(&cl.Call).is("builtin", "", "append") || !strings.Contains(cl.Type().String(), "BatchItem") {
				return
			}
			n++
			if !guardedBy(cl.Block(), ifi, !errPol) {
				ok = false
			}
		})
		return ok && n > 0
	}
	filters := batchFilterHelpers(c, guards)
	guardAt := func(f *ssa.Function, site ssa.Instruction) bool {
		res := false
		eachInstr(f, func(i ssa.Instruction) {
			if cl, ok := i.(*ssa.Call); ok && filters[cl.Call.StaticCallee()] && instrDominates(i, site) {
				res = true
			}
		})
		if res {
			return true
		}
		eachInstr(f, func(i ssa.Instruction) {
			cl, ok := i.(*ssa.Call)
			if !ok || !guards[cl.Call.StaticCallee()] || guardDisabledAt(cl, guards) {
				return
			}
			if ifi, errPol := errTestOf(f, cl); ifi != nil && guardedBy(site.Block(), ifi, !errPol) {
				res = true
			}
		})
		return res
	}
	for _, root := range roots {
		type st struct {
			f       *ssa.Function
			guarded bool
		}
		seen := map[st]bool{}
		var unguarded, guardedSinks []string
		var dfs func(f *ssa.Function, guarded bool)
		dfs = func(f *ssa.Function, guarded bool) {
			if !modLocal(f) || seen[st{f, guarded}] {
				return
			}
			seen[st{f, guarded}] = true
			bg := batchGuarded(f)
			eachInstr(f, func(i ssa.Instruction) {
				g2 := guarded || bg || guardAt(f, i)
				var ops [12]*ssa.Value
				for _, op := range i.Operands(ops[:0]) {
					if fv, ok := (*op).(*ssa.Function); ok && fv.Synthetic == "" {
						if cc := asCall(i); cc == nil || cc.Value != ssa.Value(fv) {
							dfs(fv, g2)
						}
					}
					if mc, ok := (*op).(*ssa.MakeClosure); ok {
						if fv, ok := mc.Fn.(*ssa.Function); ok && fv.Synthetic == "" {
							dfs(fv, g2)
						}
					}
				}
				cc := asCall(i)
				if cc == nil {
					return
				}
				t := cc.StaticCallee()
				if t == nil {
					return
				}
				if s := isSink(t); s != "" {
					if g2 {
						guardedSinks = append(guardedSinks, s)
					} else {
						unguarded = append(unguarded, s+" at "+c.InstrPos(i))
					}
					return
				}
				dfs(t, g2)
			})
		}
		dfs(root, false)
		sort.Strings(unguarded)
		unguarded = dedup(unguarded)
		switch {
		case len(unguarded) > 0:
			r.Bad("C12.R1", fnName(root), "dimension-guard", c.Pos(root.Pos()), "a request reaches "+strings.Join(unguarded, "; ")+" without any dimension check: a vector of the wrong length is proposed (every replica then computes distances out of bounds or panics, on every replay) or searched")
		case len(guardedSinks) > 0:
			r.OK("C12.R1", fnName(root), "dimension-guard", c.Pos(root.Pos()), fmt.Sprintf("%d vector-carrying sink(s), each behind a dimension guard", len(dedup(guardedSinks))))
		}
	}

	// ---- R2 ---------------------------------------------------------------------------
	validated := validatedDatasetFields(c, ro)
	{
		var v []string
		for k := range validated {
			v = append(v, k)
		}
		sort.Strings(v)
		r.Infof("C12.R2: dataset fields validated (>= 1) before the creation proposal: %s", strings.Join(v, ", "))
	}
	S := c.reachableFrom(append(append([]*ssa.Function{}, roots...), ro.applyRoots...), true, false)
	tr := newTrace(c, S)
	var fns []*ssa.Function
	for f := range S {
		if c.isProd(f) {
			fns = append(fns, f)
		}
	}
	sort.Slice(fns, func(i, j int) bool { return fns[i].String() < fns[j].String() })
	r.Infof("C12.R2 scans %d functions reachable from the roots", len(fns))
	untrustedGetter := func(v ssa.Value) (string, bool) {
		recv, name, ok := isPbGetter(v)
		if !ok {
			return "", false
		}
		if strings.HasSuffix(recv, "Response") {
			return "", false // produced by a peer node of the same cluster
		}
		return recv + "." + name + "()", true
	}
	divSeen := map[ssa.Value]bool{}
	for _, f := range fns {
		cnt := map[string]int{}
		key := func(kind string) string {
			cnt[kind]++
			return fmt.Sprintf("%s#%d", kind, cnt[kind])
		}
		eachInstr(f, func(i ssa.Instruction) {
			switch y := i.(type) {
			case *ssa.Call:
				id := callID(&y.Call)
				// (a) Must-style helper on request bytes
				if id.Name == "Must" && strings.HasSuffix(id.Pkg, "satori/go.uuid") {
					src := ""
					for _, a := range y.Call.Args {
						if ex, ok := a.(*ssa.Extract); ok {
							if pc, ok := ex.Tuple.(*ssa.Call); ok {
								for _, pa := range pc.Call.Args {
									for _, s := range tr.sources(pa, 3) {
										if g, ok := untrustedGetter(s); ok {
											src = g
										}
									}
								}
							}
						}
					}
					if src != "" {
						r.Bad("C12.R2", fnName(f), key("uuid.Must"), c.Pos(y.Pos()), "uuid.Must panics on a malformed id taken from "+src+": one request with a 15-byte id terminates the server")
					} else {
						r.OKTrivial("C12.R2", fnName(f), key("uuid.Must"), c.Pos(y.Pos()), "operand is not client-controlled")
					}
				}
				// (b) rand.Intn(len(x))
				if id.Pkg == "math/rand" && (id.Name == "Intn" || id.Name == "Int63n" || id.Name == "Int31n") {
					arg := y.Call.Args[0]
					lc, isLen := strip(arg).(*ssa.Call)
					if !isLen || !callID(&lc.Call).is("builtin", "", "len") {
						return
					}
					guard := false
					for _, ifi := range allIfs(f) {
						if b, ok := ifi.Cond.(*ssa.BinOp); ok {
							for _, side := range []ssa.Value{b.X, b.Y} {
								if l2, ok := strip(side).(*ssa.Call); ok && callID(&l2.Call).is("builtin", "", "len") && l2.Call.Args[0] == lc.Call.Args[0] {
									if guardedBy(y.Block(), ifi, true) || guardedBy(y.Block(), ifi, false) {
										guard = true
									}
								}
							}
						}
					}
					if guard {
						r.OK("C12.R2", fnName(f), key("rand.Intn"), c.Pos(y.Pos()), "dominated by a test of the list's length")
					} else if validated["GetReplicationFactor"] {
						r.OK("C12.R2", fnName(f), key("rand.Intn"), c.Pos(y.Pos()), "the list holds min(members, replication factor) nodes and the replication factor is validated >= 1 before a dataset is proposed")
					} else {
						r.Bad("C12.R2", fnName(f), key("rand.Intn"), c.Pos(y.Pos()), "rand.Intn(len(list)) panics on an empty list and nothing bounds the list from below: a dataset created with replication factor 0 (never validated) has partitions without nodes")
					}
				}
			case *ssa.BinOp:
				// (c) remainder / division by a parameter whose source is a stored, never validated count
				if y.Op != token.REM && y.Op != token.QUO {
					return
				}
				if _, isF := y.Type().Underlying().(*types.Basic); isF && y.Type().Underlying().(*types.Basic).Info()&types.IsFloat != 0 {
					return
				}
				if _, isConst := y.Y.(*ssa.Const); isConst {
					return
				}
				var bad []string
				for _, s := range tr.sources(y.Y, 4) {
					if _, isC := s.(*ssa.Const); isC {
						continue
					}
					if g, ok := untrustedGetter(s); ok {
						recv, name, _ := isPbGetter(s)
						if recv == "Dataset" && validated[name] {
							continue
						}
						// a non-zero test of that getter value dominating its use?
						if !nonZeroGuarded(s) {
							bad = append(bad, g)
						}
					}
				}
				if divSeen[y.Y] {
					return
				}
				divSeen[y.Y] = true
				if len(bad) > 0 {
					r.Bad("C12.R2", fnName(f), key("divide"), c.Pos(y.Pos()), "integer "+y.Op.String()+" by a value that comes from "+strings.Join(dedup(bad), ",")+" with no non-zero test on the way: a dataset created with partition count 0 makes every write and lookup divide by zero")
				} else {
					r.OK("C12.R2", fnName(f), key("divide"), c.Pos(y.Pos()), "divisor is constant or tested non-zero at every call site")
				}
			case *ssa.IndexAddr:
				// (d) &x[0] on a slice parameter without a length guard
				n, isC := constInt(y.Index)
				if !isC || n != 0 {
					return
				}
				p, isP := y.X.(*ssa.Parameter)
				if !isP {
					return
				}
				if _, isSl := p.Type().Underlying().(*types.Slice); !isSl {
					return
				}
				guard := false
				for _, ifi := range allIfs(f) {
					if b, ok := ifi.Cond.(*ssa.BinOp); ok {
						for _, side := range []ssa.Value{b.X, b.Y} {
							if l2, ok := strip(side).(*ssa.Call); ok && callID(&l2.Call).is("builtin", "", "len") && l2.Call.Args[0] == ssa.Value(p) {
								guard = true
							}
						}
					}
				}
				if guard {
					r.OK("C12.R2", fnName(f), key("first-element-of-"+p.Name()), c.Pos(y.Pos()), "length is tested in this function")
				} else if validated["GetDimension"] && isFloatSlice(p.Type()) {
					r.OK("C12.R2", fnName(f), key("first-element-of-"+p.Name()), c.Pos(y.Pos()), "vectors reaching the kernels have the dataset's dimension (C12.R1) and the dimension is validated >= 1 before a dataset is proposed")
				} else {
					r.Bad("C12.R2", fnName(f), key("first-element-of-"+p.Name()), c.Pos(y.Pos()), "&"+p.Name()+"[0] panics on an empty vector; the only upstream check compares the length with the dataset's dimension, and a dimension of 0 is never rejected")
				}
			case *ssa.MapUpdate:
				// (f) write into a possibly nil request map
				src := ""
				for _, o := range origins(y.Map, originOpt{}) {
					if g, ok := untrustedGetter(o); ok {
						src = g
					}
					if p, ok := o.(*ssa.Parameter); ok {
						for _, s := range tr.sources(p, 3) {
							if g, ok := untrustedGetter(s); ok {
								src = g
							}
						}
					}
				}
				if src == "" {
					return
				}
				if ok, why := mapNonNil(f, y.Map, i); ok {
					r.OK("C12.R2", fnName(f), key("request-map-write"), c.InstrPos(i), why)
				} else {
					r.Bad("C12.R2", fnName(f), key("request-map-write"), c.InstrPos(i), "write into "+src+", which is nil when the client sent no metadata: panic in the apply loop of every replica")
				}
			}
			// (e) make sized by a request number
			var size ssa.Value
			switch y := i.(type) {
			case *ssa.MakeSlice:
				size = y.Cap
			case *ssa.MakeMap:
				size = y.Reserve
			}
			if size == nil {
				return
			}
			if _, isC := size.(*ssa.Const); isC {
				return
			}
			src := ""
			for _, s := range tr.sources(size, 5) {
				if recv, name, ok := isPbGetter(s); ok && (name == "GetK") {
					src = recv + "." + name + "()"
				}
			}
			if src == "" {
				return
			}
			// an upper-bound test on any leaf parameter in this function
			bounded := false
			for _, l := range leafOperands(size) {
				for _, ifi := range allIfs(f) {
					if b, ok := ifi.Cond.(*ssa.BinOp); ok && (b.Op == token.GTR || b.Op == token.LSS || b.Op == token.GEQ || b.Op == token.LEQ) {
						if (strip(b.X) == l || strip(b.Y) == l) && (isConstV(b.X) || isConstV(b.Y)) {
							bounded = true
						}
					}
				}
			}
			if bounded {
				r.OK("C12.R2", fnName(f), key("make-sized-by-k"), c.InstrPos(i), "size is bounded by a constant test")
			} else {
				r.Bad("C12.R2", fnName(f), key("make-sized-by-k"), c.InstrPos(i), "allocation sized by "+src+" with no upper bound: one request with k = 2^32-1 asks for more memory than the machine has and the runtime aborts the process")
			}
		})
	}

	distancesNonNegative(c, r, "C12.R2")
	notificatorChannelUnderLock(c, r, "C12.R2")
	// ---- R3 ---------------------------------------------------------------------------
	applyReach := c.reachableFrom(ro.applyRoots, true, true)
	type fieldKey struct{ typ, getter string }
	fatal := map[fieldKey]string{}
	for f := range applyReach {
		eachInstr(f, func(i ssa.Instruction) {
			cl, ok := i.(*ssa.Call)
			if !ok || !(callID(&cl.Call).Name == "FromBytes" && strings.HasSuffix(callID(&cl.Call).Pkg, "satori/go.uuid")) {
				return
			}
			recv, name, ok := isPbGetter(cl.Call.Args[0])
			if !ok {
				return
			}
			// fatal: the error is returned by the apply function
			var errV ssa.Value
			for _, u := range *cl.Referrers() {
				if ex, ok := u.(*ssa.Extract); ok && ex.Index == 1 {
					errV = ex
				}
			}
			isFatal := false
			for _, rt := range returnsOf(f) {
				if rt.Results[len(rt.Results)-1] == errV {
					isFatal = true
				}
			}
			if isFatal {
				fatal[fieldKey{recv, name}] = fnName(f) + " at " + c.Pos(cl.Pos())
			}
		})
	}
	var fks []fieldKey
	for k := range fatal {
		fks = append(fks, k)
	}
	sort.Slice(fks, func(i, j int) bool { return fks[i].typ+fks[i].getter < fks[j].typ+fks[j].getter })
	for _, fk := range fks {
		fieldName := strings.TrimPrefix(fk.getter, "Get")
		cons := fk.typ + "." + fieldName
		// stores to that field outside the apply tree
		nStores, badStore := 0, ""
		for _, f := range c.ModFuncs {
			if !c.isProd(f) || applyReach[f] {
				continue
			}
			eachInstr(f, func(i ssa.Instruction) {
				st, ok := i.(*ssa.Store)
				if !ok {
					return
				}
				fa, ok := st.Addr.(*ssa.FieldAddr)
				if !ok || typeName(fa.X.Type()) != fk.typ || structField(fa.X.Type(), fa.Field).Name() != fieldName {
					return
				}
				nStores++
				okV := false
				if bc, ok := st.Val.(*ssa.Call); ok && callID(&bc.Call).Name == "Bytes" && typeName(bc.Call.Args[0].Type()) == "UUID" {
					okV = true
				}
				if !okV {
					badStore = fnName(f) + " at " + c.InstrPos(st)
				}
			})
		}
		switch {
		case badStore != "":
			r.Bad("C12.R3", "proposers", cons, "-", fmt.Sprintf("%s is parsed with a fatal error path in %s but %s stores something other than uuid.UUID.Bytes() into it", cons, fatal[fk], badStore))
		case nStores > 0:
			r.OK("C12.R3", "proposers", cons, "-", fmt.Sprintf("parsed fatally in %s; all %d proposer store(s) write uuid.UUID.Bytes()", fatal[fk], nStores))
		default:
			// never stored by the module: the value arrives inside a request message; every proposer shipping that message type
			// must validate it
			ok, why := requestIdsValidated(c, ro, tr, fk.typ, applyReach)
			if ok {
				r.OK("C12.R3", "proposers", cons, "-", why)
			} else {
				r.Bad("C12.R3", "proposers", cons, "-", fmt.Sprintf("%s is parsed with a fatal error path in %s, comes straight from the request and %s: one request with a malformed item id writes an entry that stops every replica of the partition, again on every restart", cons, fatal[fk], why))
			}
		}
	}

	// ---- R4 ---------------------------------------------------------------------------
	for _, f := range prodFuncs(c, "storage") {
		if f.Signature.Recv() == nil || namedOf(f.Signature.Recv().Type()) != dsT || f.Object() == nil || !f.Object().Exported() {
			continue
		}
		var items *ssa.Parameter
		for _, p := range f.Params {
			if strings.Contains(p.Type().String(), "BatchItem") {
				items = p
			}
		}
		if items == nil || !strings.HasPrefix(f.Name(), "Batch") {
			continue
		}
		var capIf *ssa.If
		for _, ifi := range allIfs(f) {
			if b, ok := ifi.Cond.(*ssa.BinOp); ok && (b.Op == token.GTR || b.Op == token.GEQ) {
				if lc, ok := b.X.(*ssa.Call); ok && callID(&lc.Call).is("builtin", "", "len") && lc.Call.Args[0] == ssa.Value(items) && isConstV(b.Y) {
					capIf = ifi
				}
			}
		}
		ok := capIf != nil
		if ok {
			eachInstr(f, func(i ssa.Instruction) {
				if cc := asCall(i); cc != nil && cc.StaticCallee() != nil && modLocal(cc.StaticCallee()) && !guards[cc.StaticCallee()] {
					if !guardedBy(i.Block(), capIf, false) {
						ok = false
					}
				}
			})
		}
		r.Check(ok, "C12.R4", fnName(f), "batch-cap", c.Pos(f.Pos()), "len(items) is compared with the batch cap before anything is fanned out")
	}
}

func isConstV(v ssa.Value) bool {
	_, ok := strip(v).(*ssa.Const)
	if ok {
		return true
	}
	if l, isL := loadOf(strip(v)); isL {
		if _, isG := l.(*ssa.Global); isG {
			return true
		}
	}
	return false
}

// nonZeroGuarded: the value is compared with 0 (or >= 1) on a branch dominating its uses in its own function.
func nonZeroGuarded(v ssa.Value) bool {
	in, ok := v.(ssa.Instruction)
	if !ok {
		return false
	}
	f := in.Parent()
	for _, ifi := range allIfs(f) {
		b, ok := ifi.Cond.(*ssa.BinOp)
		if !ok {
			continue
		}
		for _, side := range []ssa.Value{b.X, b.Y} {
			for _, l := range leafOperands(side) {
				if l == v {
					return true
				}
			}
		}
	}
	return false
}

// requestIdsValidated: message type `typ` (e.g. BatchItem) arrives in requests; is its id parsed (with an error path,
// not a Must) on every route from an RPC root to a proposer that ships it?
func requestIdsValidated(c *Ctx, ro *roles, tr *traceCtx, typ string, applyReach map[*ssa.Function]bool) (bool, string) {
	var lacking []string
	for _, root := range ro.rpcRoots {
		if ro.rpcService[root] != "DataManager" {
			continue
		}
		takes := false
		for _, p := range root.Params {
			if strings.Contains(p.Type().String(), "Batch") {
				takes = true
			}
		}
		if !takes {
			continue
		}
		reach := c.reachableFrom([]*ssa.Function{root}, false, false)
		proposes, validates := false, false
		for g := range reach {
			if applyReach[g] {
				continue
			}
			for _, p := range ro.proposers {
				if p == g {
					proposes = true
				}
			}
			eachInstr(g, func(i ssa.Instruction) {
				cl, ok := i.(*ssa.Call)
				if !ok || callID(&cl.Call).Name != "FromBytes" {
					return
				}
				recv, name, ok := isPbGetter(cl.Call.Args[0])
				if !ok || recv != typ || name != "GetId" {
					return
				}
				// with an error path (its error is tested), not wrapped in Must
				for _, u := range *cl.Referrers() {
					if ex, ok := u.(*ssa.Extract); ok && ex.Index == 1 {
						if ifi, _ := errTestOf(g, ex); ifi != nil {
							validates = true
						}
					}
				}
			})
		}
		if proposes && !validates {
			lacking = append(lacking, root.Name())
		}
	}
	sort.Strings(lacking)
	if len(lacking) > 0 {
		return false, "no function between the RPC roots " + strings.Join(lacking, ", ") + " and the proposer parses it with an error path"
	}
	return true, "every batch RPC parses the item ids with an error path before proposing"
}

func isFloatSlice(t types.Type) bool {
	sl, ok := t.Underlying().(*types.Slice)
	if !ok {
		return false
	}
	b, ok := sl.Elem().Underlying().(*types.Basic)
	return ok && b.Kind() == types.Float32
}

// validationScope: where the creation proposer decides about the client's message: the proposer itself, and any helper it
// hands the message to whose error verdict keeps the proposal from being reached.
type validationScope struct {
	fn       *ssa.Function
	ds       ssa.Value
	rejected func(ifi *ssa.If, pol bool) bool // is the `pol` side of ifi a rejection (the proposal cannot follow)?
}

func validationScopes(c *Ctx) []validationScope {
	var out []validationScope
	for _, f := range prodFuncs(c, "storage", "services") {
		var ds *ssa.Parameter
		for _, p := range f.Params {
			if typeName(p.Type()) == "Dataset" && strings.HasSuffix(typePkg(p.Type()), "anndb/protobuf") {
				ds = p
			}
		}
		if ds == nil {
			continue
		}
		var prop ssa.Instruction
		eachInstr(f, func(i ssa.Instruction) {
			if cc := asCall(i); cc != nil && callID(cc).Name == "Propose" {
				prop = i
			}
		})
		if prop == nil {
			continue
		}
		ff, pp := f, prop
		rejectedHere := func(ifi *ssa.If, pol bool) bool {
			blk := succOn(ifi, pol)
			if len(blk.Instrs) == 0 {
				return false
			}
			if _, reach := reachesAvoidingFrom(ff, firstInstr(blk), func(i ssa.Instruction) bool { return i == pp }, func(ssa.Instruction) bool { return false }); !reach {
				return true
			}
			_, isRet := blk.Instrs[len(blk.Instrs)-1].(*ssa.Return)
			return isRet
		}
		out = append(out, validationScope{f, ds, rejectedHere})
		// helpers: h(ds) error, tested, error side rejected
		eachInstr(f, func(i ssa.Instruction) {
			cl, ok := i.(*ssa.Call)
			if !ok || cl.Call.StaticCallee() == nil || !modLocal(cl.Call.StaticCallee()) || len(cl.Call.StaticCallee().Blocks) == 0 {
				return
			}
			h := cl.Call.StaticCallee()
			res := h.Signature.Results()
			if res.Len() != 1 || !isErrorType(res.At(0).Type()) {
				return
			}
			ai := -1
			for k, a := range cl.Call.Args {
				if a == ssa.Value(ds) {
					ai = k
				}
			}
			if ai < 0 || ai >= len(h.Params) {
				return
			}
			ifi, errPol := errTestOf(f, cl)
			if ifi == nil || !rejectedHere(ifi, errPol) {
				return
			}
			hh := h
			out = append(out, validationScope{h, h.Params[ai], func(ifi *ssa.If, pol bool) bool {
				// in the helper a rejection is a branch on which every return carries a non-nil error
				blk := succOn(ifi, pol)
				if len(blk.Instrs) == 0 {
					return false
				}
				_, escapes := reachesAvoidingFrom(hh, firstInstr(blk), func(i ssa.Instruction) bool {
					rt, isR := i.(*ssa.Return)
					return isR && len(rt.Results) == 1 && isNilConst(rt.Results[0])
				}, func(ssa.Instruction) bool { return false })
				return !escapes
			}})
		})
	}
	return out
}

// validatedDatasetFields: getters of the *pb.Dataset being created that are compared with a constant on a branch
// that returns an error, such that the creation proposal is only reachable on the other side.
func validatedDatasetFields(c *Ctx, ro *roles) map[string]bool {
	out := map[string]bool{}
	for _, sc := range validationScopes(c) {
		f, ds := sc.fn, sc.ds
		for _, ifi := range allIfs(f) {
			b, ok := ifi.Cond.(*ssa.BinOp)
			if !ok {
				continue
			}
			var getter *ssa.Call
			var k ssa.Value
			if g, ok := strip(b.X).(*ssa.Call); ok {
				getter, k = g, b.Y
			} else if g, ok := strip(b.Y).(*ssa.Call); ok {
				getter, k = g, b.X
			}
			if getter == nil || len(getter.Call.Args) != 1 || getter.Call.Args[0] != ds {
				continue
			}
			n, isC := constInt(k)
			if !isC {
				continue
			}
			// which polarity means "value is zero"?
			var zeroPol bool
			switch {
			case b.Op == token.LSS && strip(b.X) == ssa.Value(getter) && n == 1, b.Op == token.EQL && n == 0, b.Op == token.LEQ && strip(b.X) == ssa.Value(getter) && n == 0:
				zeroPol = true
			case b.Op == token.GTR && strip(b.X) == ssa.Value(getter) && n == 0, b.Op == token.NEQ && n == 0, b.Op == token.GEQ && strip(b.X) == ssa.Value(getter) && n == 1:
				zeroPol = false
			default:
				continue
			}
			if sc.rejected(ifi, zeroPol) {
				out[callID(&getter.Call).Name] = true
			}
		}
	}
	return out
}
