package main

import (
	"fmt"
	"go/token"
	"go/types"
	"strings"

	"golang.org/x/tools/go/ssa"
)

func init() {
	register("C16", checkC16)
	register("C17", checkC17)
}

// minArgs: if v is MinInt(a,b)/min(a,b) returns its two operands.
func minArgs(v ssa.Value) []ssa.Value {
	call, ok := strip(v).(*ssa.Call)
	if !ok {
		return nil
	}
	id := callID(&call.Call)
	if !((id.Name == "MinInt" && strings.HasSuffix(id.Pkg, "anndb/math")) || (id.Pkg == "builtin" && id.Name == "min")) {
		return nil
	}
	a := flatArgs(&call.Call)
	if len(a) != 2 {
		return nil
	}
	return a
}

// ---- C16 -------------------------------------------------------------------------------

func checkC16(c *Ctx, r *Report, tier string) {
	round5(c, r, "C16")
	round6(c, r, "C16")
	round7(c, r, "C16")
	r.Rule("C16.R1", "no aliasing between partitions: a slice stored into an element of the placement result inside a loop is freshly allocated in that iteration (make+copy, append onto nil/fresh, or a fresh membership call), never a sub-slice of a buffer rewritten by the same loop", 1)
	r.Rule("C16.R2", "count: the stored slice has length min(len(members), replication factor) and nothing else", 1)
	r.Rule("C16.R3", "members, distinct: the buffer comes from Conn.NodeIds() (keys of the address map); its only element writes are a pure two-index swap inside the shuffle callback; the membership call returns a fresh slice; the address book (= the membership) is written only by its legitimate writers", 4)
	r.Rule("C16.R5", "independent placement: the order the prefix is taken from is the shuffle's — the member buffer is passed to no function that could reorder it; the proposer replaces the client's partition table on every path", 2)
	proposerOwnsStructuredFields(c, r, "C16.R5")
	r.Rule("C16.R6", "replica lists stay distinct and at most R after creation: a node is announced to the allocator once (only when it was not listed), and the allocator handles membership events one after another", 2)
	nodeAnnouncedOnce(c, r, "C16.R6")
	{
		var loops []*ssa.Function
		for _, f := range prodFuncs(c, "storage") {
			isLoop := false
			eachInstr(f, func(i ssa.Instruction) {
				if s, ok := i.(*ssa.Select); ok && s.Blocking && inCycle(f, i) {
					isLoop = true
				}
			})
			if isLoop && f.Signature.Results().Len() == 0 && recvTypeName(f) == "Allocator" {
				loops = append(loops, f)
			}
		}
		roleLoopHandlersSequential(c, r, "C16.R6", loops)
	}
	r.Rule("C16.R4", "placement travels in the proposal: the proposer stores element i of the placement result into partition i's NodeIds before marshalling; the apply side never calls the placement function", 2)
	// placement function: method returning [][]uint64 that calls Conn.NodeIds
	var place *ssa.Function
	for _, f := range c.FuncsInPkg("storage") {
		if !c.isProd(f) || f.Parent() != nil || f.Signature.Results().Len() != 1 {
			continue
		}
		if f.Signature.Results().At(0).Type().String() != "[][]uint64" {
			continue
		}
		place = f
	}
	if place == nil {
		r.Unk("C16.R1", "storage", "placement-function", "-", "no function returning [][]uint64 found")
		return
	}
	fn := fnName(place)
	// result slice
	var result *ssa.MakeSlice
	for _, rt := range returnsOf(place) {
		if ms, ok := rt.Results[0].(*ssa.MakeSlice); ok {
			result = ms
		}
	}
	if result == nil {
		r.Unk("C16.R1", fn, "result", c.Pos(place.Pos()), "result is not a slice made in this function")
		return
	}
	// the membership buffer(s): calls to NodeIds
	isMembership := func(v ssa.Value) bool {
		cl, ok := strip(v).(*ssa.Call)
		return ok && callID(&cl.Call).Name == "NodeIds" && strings.HasSuffix(callID(&cl.Call).Pkg, "anndb/cluster")
	}
	// replication parameter: the last unsigned parameter
	var repl *ssa.Parameter
	for _, p := range place.Params {
		if strings.Contains(strings.ToLower(p.Name()), "repl") {
			repl = p
		}
	}
	if repl == nil && len(place.Params) > 0 {
		repl = place.Params[len(place.Params)-1]
	}
	nStores := 0
	for _, ref := range *result.Referrers() {
		ia, ok := ref.(*ssa.IndexAddr)
		if !ok {
			continue
		}
		for _, rr := range *ia.Referrers() {
			st, ok := rr.(*ssa.Store)
			if !ok || st.Addr != ssa.Value(ia) {
				continue
			}
			nStores++
			pos := c.InstrPos(st)
			inLoop := false
			if _, again := reachesAvoiding(place, st, func(i ssa.Instruction) bool { return i == ssa.Instruction(st) }, nil); again {
				inLoop = true
			}
			// classify the stored value
			v := st.Val
			var lenExpr ssa.Value // expression giving the element count
			var src ssa.Value     // the buffer the ids come from
			fresh := false
			why := ""
			switch y := strip(v).(type) {
			case *ssa.Slice:
				// sub-slice of something: fresh only if that something is produced by a membership call inside this iteration
				base := y.X
				lenExpr = y.High
				src = base
				if cl, ok := base.(*ssa.Call); ok && isMembership(cl) && cl.Block() == st.Block() {
					fresh, why = true, "sub-slice of a membership list fetched in this iteration"
				} else {
					why = "sub-slice of " + describeVal(base) + ", a buffer that outlives the iteration"
				}
			case *ssa.MakeSlice:
				lenExpr = y.Len
				// need a copy(dst=y, src)
				for _, u := range *y.Referrers() {
					if cl, ok := u.(*ssa.Call); ok && callID(&cl.Call).is("builtin", "", "copy") && cl.Call.Args[0] == ssa.Value(y) {
						src = cl.Call.Args[1]
						fresh, why = true, "make + copy"
					}
				}
				if !fresh {
					why = "made but never filled by copy"
				}
			case *ssa.Call:
				id := callID(&y.Call)
				if id.Pkg == "builtin" && id.Name == "append" {
					b := strip(y.Call.Args[0])
					okBase := isNilConst(b)
					if !okBase {
						okBase, _ = freshSlice(b)
					}
					if okBase && len(y.Call.Args) == 2 {
						src = y.Call.Args[1]
						if sl, ok := src.(*ssa.Slice); ok {
							lenExpr = sl.High
							src = sl.X
						}
						fresh, why = true, "append onto nil/fresh"
					} else {
						why = "append onto a shared base"
					}
				} else {
					why = "result of " + id.String()
				}
			default:
				why = describeVal(v)
			}
			if !inLoop {
				fresh = fresh || true
			}
			if fresh {
				r.OK("C16.R1", fn, "placement-store", pos, why)
			} else {
				r.Bad("C16.R1", fn, "placement-store", pos, "every partition receives "+why+": all partitions end up on the same nodes")
			}
			// R2: count
			okLen := false
			if ma := minArgs(lenExpr); ma != nil {
				isLenOfMembers := func(a ssa.Value) bool {
					cl, ok := strip(a).(*ssa.Call)
					if !ok || !callID(&cl.Call).is("builtin", "", "len") {
						return false
					}
					for _, o := range origins(cl.Call.Args[0], originOpt{}) {
						if !isMembership(o) {
							return false
						}
					}
					return true
				}
				isRepl := func(a ssa.Value) bool { return strip(a) == ssa.Value(repl) }
				okLen = (isLenOfMembers(ma[0]) && isRepl(ma[1])) || (isLenOfMembers(ma[1]) && isRepl(ma[0]))
			}
			r.Check(okLen, "C16.R2", fn, "placement-count", pos, "element count = min(len(member list), replication factor)")
			// R3: provenance of ids
			okSrc := src != nil
			if src != nil {
				if sl, ok := src.(*ssa.Slice); ok {
					src = sl.X
				}
				for _, o := range origins(src, originOpt{}) {
					if !isMembership(o) {
						okSrc = false
					}
				}
			}
			r.Check(okSrc, "C16.R3", fn, "ids-from-membership", pos, "placed ids are elements of Conn.NodeIds()")
		}
	}
	if nStores == 0 {
		r.Unk("C16.R1", fn, "placement-store", c.Pos(place.Pos()), "no store into the placement result found")
	}
	// R3: element writes to the buffer only as a swap inside closures passed to rand.Shuffle
	okSwap := true
	detail := "no element writes"
	for _, cf := range append([]*ssa.Function{place}, closuresOf(place)...) {
		var stores []*ssa.Store
		eachInstr(cf, func(i ssa.Instruction) {
			if st, ok := i.(*ssa.Store); ok {
				if ia, ok := st.Addr.(*ssa.IndexAddr); ok && ia.X != ssa.Value(result) {
					if _, isArr := ia.X.(*ssa.Alloc); !isArr { // varargs arrays
						stores = append(stores, st)
					}
				}
			}
		})
		if len(stores) == 0 {
			continue
		}
		if cf == place {
			okSwap, detail = false, "the placement function writes buffer elements itself at "+c.InstrPos(stores[0])
			continue
		}
		if len(stores) != 2 || len(cf.Params) != 2 {
			okSwap, detail = false, "callback is not a two-index swap"
			continue
		}
		i, j := ssa.Value(cf.Params[0]), ssa.Value(cf.Params[1])
		idx := func(a ssa.Value) ssa.Value {
			if ia, ok := a.(*ssa.IndexAddr); ok {
				return ia.Index
			}
			return nil
		}
		ij, ji := false, false
		for _, st := range stores {
			l, isL := loadOf(st.Val)
			if !isL {
				okSwap = false
				continue
			}
			d, s := idx(st.Addr), idx(l)
			if d == i && s == j {
				ij = true
			}
			if d == j && s == i {
				ji = true
			}
		}
		if ij && ji {
			detail = "shuffle callback is a pure swap of elements i and j"
		} else {
			okSwap, detail = false, "shuffle callback does not swap exactly elements i and j"
		}
	}
	r.Check(okSwap, "C16.R3", fn, "permutation-only", c.Pos(place.Pos()), detail)
	// R5: independence — between the shuffle and the prefix nothing else sees (and could reorder) the buffer
	{
		bad := ""
		nCalls := 0
		eachInstr(place, func(i ssa.Instruction) {
			cc := asCall(i)
			if cc == nil {
				return
			}
			id := callID(cc)
			if id.Pkg == "builtin" {
				return
			}
			nCalls++
			for _, a := range cc.Args {
				if _, isSlice := strip(a).Type().Underlying().(*types.Slice); !isSlice {
					continue
				}
				for _, o := range origins(strip(a), originOpt{}) {
					if isMembership(o) {
						bad = id.String() + " at " + c.InstrPos(i)
					}
				}
			}
		})
		r.Check(bad == "", "C16.R5", fn, "order-is-the-shuffle", c.Pos(place.Pos()), "the member buffer is handed to nothing but len/append between the per-partition shuffle and the prefix ("+bad+"): any other ordering step (a sort by load, by id, …) applied after the shuffle makes every partition of the dataset prefer the same nodes")
	}
	// the membership call hands out a fresh slice (the placement shuffles it in place)
	if nf := c.Method("cluster", "Conn", "NodeIds"); nf != nil {
		okF, whyF := true, "Conn.NodeIds() returns a freshly built slice"
		for _, rt := range returnsOf(nf) {
			if ok, why := freshSlice(rt.Results[0]); !ok {
				okF, whyF = false, "Conn.NodeIds() hands out shared storage ("+why+") that the placement shuffles in place: concurrent creates tear each other's swaps (a node twice in one partition) and corrupt the member list"
			}
		}
		r.Check(okF, "C16.R3", fnName(nf), "fresh-member-list", c.Pos(nf.Pos()), whyF)
	} else {
		r.Unk("C16.R3", "cluster.Conn", "NodeIds", "-", "method not found")
	}
	// members are current: the address book is only written by its legitimate writers (C20.R1's obligations)
	{
		sub := NewReport("C16")
		checkC20(c, sub, "quick")
		for _, o := range sub.Obls {
			if o.Rule == "C20.R1" {
				o.Rule = "C16.R3"
				o.Key = strings.Replace(o.Key, "C20.R1", "C16.R3", 1)
				r.Obls = append(r.Obls, o)
			}
		}
	}
	// R4
	fNodeIds := c.Field("protobuf", "Partition", "NodeIds")
	var proposers []*ssa.Function
	for _, f := range c.ModFuncs {
		if !c.isProd(f) {
			continue
		}
		calls := false
		eachInstr(f, func(i ssa.Instruction) {
			if cc := asCall(i); cc != nil && cc.StaticCallee() == place {
				calls = true
			}
		})
		if calls {
			proposers = append(proposers, f)
		}
	}
	for _, p := range proposers {
		ok := false
		eachInstr(p, func(i ssa.Instruction) {
			st, isS := i.(*ssa.Store)
			if !isS {
				return
			}
			fa, isF := st.Addr.(*ssa.FieldAddr)
			if !isF || structField(fa.X.Type(), fa.Field) != fNodeIds {
				return
			}
			// value = load(&placement[i])
			if l, isL := loadOf(st.Val); isL {
				if ia, isIA := l.(*ssa.IndexAddr); isIA {
					if cl, isC := ia.X.(*ssa.Call); isC && cl.Call.StaticCallee() == place {
						ok = true
					}
				}
			}
		})
		r.Check(ok, "C16.R4", fnName(p), "placement-into-proposal", c.Pos(p.Pos()), "partition i's NodeIds is element i of the placement result")
	}
	// apply side never recomputes: placement function unreachable from apply roots
	roles := discoverRoles(c)
	reach := c.reachableFrom(roles.applyRoots, true, false)
	r.Check(!reach[place], "C16.R4", fn, "not-recomputed-at-apply", c.Pos(place.Pos()), fmt.Sprintf("placement function is not reachable from the %d apply roots", len(roles.applyRoots)))
}

func describeVal(v ssa.Value) string {
	if l, ok := loadOf(v); ok {
		if a, ok := l.(*ssa.Alloc); ok {
			return "variable " + a.Comment
		}
		return path(l)
	}
	return v.String()
}

// ---- C17 -------------------------------------------------------------------------------

func checkC17(c *Ctx, r *Report, tier string) {
	round5(c, r, "C17")
	round6(c, r, "C17")
	round7(c, r, "C17")
	round8(c, r, "C17")
	r.Rule("C17.R1", "no loop-variable capture by a goroutine (language version < 1.22): a closure started with `go` inside a loop must not reference the cell of a variable that the loop re-assigns", 1)
	r.Rule("C17.R2", "once, on exactly one branch: in the loop over the partitions each iteration either adds the local item count and byte size to the two accumulators or spawns exactly one remote lookup which adds the two response fields", 3)
	r.Rule("C17.R3", "failure fails the call: every error branch of the remote worker sends the error; the collector returns an error for a non-nil message and for a done context; PartitionInfo refuses when the node does not host the partition", 4)
	for _, k := range []string{"local-branch", "remote-branch", "remote-adds"} {
		r.Need("C17.R2", k, "both branches of the size loop and the remote worker must be found")
	}
	for _, k := range []string{"error-branch", "collector-error", "collector-context", "collector-bound", "hosted-only"} {
		r.Need("C17.R3", k, "worker error branches, collector and the hosting test must be found")
	}
	dsT := c.Named("storage", "Dataset")
	fParts := c.Field("storage", "Dataset", "partitions")
	if dsT == nil || fParts == nil {
		r.Unk("C17.R1", "storage.Dataset", "anchors", "-", "Dataset / partitions not found")
		return
	}
	// R1 over every `go` in package storage
	nGo := 0
	for _, f := range c.FuncsInPkg("storage") {
		if !c.isProd(f) {
			continue
		}
		eachInstr(f, func(i ssa.Instruction) {
			g, ok := i.(*ssa.Go)
			if !ok {
				return
			}
			mc, ok := g.Call.Value.(*ssa.MakeClosure)
			if !ok {
				return
			}
			nGo++
			bad := ""
			for _, b := range mc.Bindings {
				al, ok := b.(*ssa.Alloc)
				if !ok {
					continue
				}
				// is the cell stored inside a loop that also contains this go statement, while being allocated outside it?
				for _, st := range storesTo(f, al) {
					_, stLoops := reachesAvoiding(f, st, func(x ssa.Instruction) bool { return x == ssa.Instruction(st) }, nil)
					if !stLoops {
						continue
					}
					// the alloc itself must not be re-executed in that loop (per-iteration cell)
					_, allocInLoop := reachesAvoiding(f, st, func(x ssa.Instruction) bool { return x == ssa.Instruction(al) }, nil)
					if allocInLoop {
						continue
					}
					_, goAfter := reachesAvoiding(f, st, func(x ssa.Instruction) bool { return x == ssa.Instruction(g) }, nil)
					_, backTo := reachesAvoiding(f, g, func(x ssa.Instruction) bool { return x == ssa.Instruction(st) }, nil)
					if goAfter && backTo {
						bad = al.Comment
					}
				}
			}
			cons := fmt.Sprintf("go-closure#%d", nGo)
			if bad != "" {
				r.Bad("C17.R1", fnName(f), cons, c.Pos(g.Pos()), "goroutine captures loop variable `"+bad+"`: with two or more iterations the goroutines read whichever value the loop has reached (and race with it)")
			} else {
				r.OK("C17.R1", fnName(f), cons, c.Pos(g.Pos()), "no captured variable is re-assigned by an enclosing loop")
			}
		})
	}
	// size function: Dataset method returning (uint64, uint64, error) that loops over partitions
	var size *ssa.Function
	for _, f := range c.FuncsInPkg("storage") {
		if !c.isProd(f) || f.Signature.Recv() == nil || namedOf(f.Signature.Recv().Type()) != dsT {
			continue
		}
		res := f.Signature.Results()
		if res.Len() != 3 || !isErrorType(res.At(2).Type()) {
			continue
		}
		loops := false
		eachInstr(f, func(i ssa.Instruction) {
			if ia, ok := i.(*ssa.IndexAddr); ok && fieldOfValue(ia.X) == fParts && isLoopCounter(ia.Index) {
				loops = true
			}
		})
		if loops {
			size = f
		}
	}
	if size == nil {
		r.Unk("C17.R2", "storage.Dataset", "size-function", "-", "no Dataset method (uint64, uint64, error) looping over partitions")
		return
	}
	fn := fnName(size)
	// accumulators: allocs of uint64 in the size function
	isAcc := func(v ssa.Value) *ssa.Alloc {
		switch y := v.(type) {
		case *ssa.Alloc:
			return y
		case *ssa.Parameter:
			return nil
		}
		return nil
	}
	type add struct {
		acc  string
		from string
		ins  ssa.Instruction
	}
	addsIn := func(f *ssa.Function, accOf func(ssa.Value) string) []add {
		var out []add
		eachInstr(f, func(i ssa.Instruction) {
			cc := plainCall(i)
			if cc == nil {
				return
			}
			id := callID(cc)
			if id.Pkg == "sync/atomic" && strings.HasPrefix(id.Name, "Add") && len(cc.Args) == 2 {
				src := ""
				if cl, ok := strip(cc.Args[1]).(*ssa.Call); ok {
					src = callID(&cl.Call).Name
				}
				out = append(out, add{accOf(cc.Args[0]), src, i})
			}
		})
		return out
	}
	local := addsIn(size, func(v ssa.Value) string {
		if a := isAcc(v); a != nil {
			return a.Comment
		}
		return "?"
	})
	// the on-node test
	var onNode *ssa.If
	for _, ifi := range allIfs(size) {
		if cl, ok := ifi.Cond.(*ssa.Call); ok && cl.Call.StaticCallee() != nil && cl.Call.StaticCallee().Name() == "isOnNode" {
			onNode = ifi
		}
	}
	if onNode == nil {
		r.Unk("C17.R2", fn, "on-node-test", c.Pos(size.Pos()), "no isOnNode test in the partition loop")
		return
	}
	accs := map[string]bool{}
	srcs := map[string]bool{}
	okLocal := true
	for _, a := range local {
		if !guardedBy(a.ins.Block(), onNode, true) {
			okLocal = false
		}
		if accs[a.acc] {
			okLocal = false
		}
		accs[a.acc] = true
		srcs[a.from] = true
	}
	okLocal = okLocal && len(local) == 2 && srcs["len"] && srcs["bytesSize"]
	r.Check(okLocal, "C17.R2", fn, "local-branch", c.Pos(onNode.Cond.Pos()), fmt.Sprintf("local branch adds len() and bytesSize() once each to two distinct accumulators (%v)", keys(accs)))
	// remote branch: exactly one go
	var gos []*ssa.Go
	eachInstr(size, func(i ssa.Instruction) {
		if g, ok := i.(*ssa.Go); ok && guardedBy(i.Block(), onNode, false) {
			gos = append(gos, g)
		}
	})
	if len(gos) != 1 {
		r.Bad("C17.R2", fn, "remote-branch", c.Pos(onNode.Cond.Pos()), fmt.Sprintf("remote branch spawns %d lookups, want exactly 1", len(gos)))
		return
	}
	r.OK("C17.R2", fn, "remote-branch", c.Pos(gos[0].Pos()), "exactly one remote lookup per non-local partition")
	var worker *ssa.Function
	if mc, ok := gos[0].Call.Value.(*ssa.MakeClosure); ok {
		worker, _ = mc.Fn.(*ssa.Function)
	} else {
		worker = gos[0].Call.StaticCallee()
	}
	if worker == nil {
		r.Unk("C17.R2", fn, "remote-worker", c.Pos(gos[0].Pos()), "cannot resolve the worker function")
		return
	}
	// worker adds: two distinct accumulator parameters, from GetLen / GetBytesSize, mapped to the two accumulators of the caller
	wadds := addsIn(worker, func(v ssa.Value) string {
		if p, ok := v.(*ssa.Parameter); ok {
			// map to caller argument
			for k, wp := range worker.Params {
				if wp == p && k < len(gos[0].Call.Args) {
					if a, ok := gos[0].Call.Args[k].(*ssa.Alloc); ok {
						return a.Comment
					}
				}
			}
		}
		if fv, ok := v.(*ssa.FreeVar); ok {
			return fv.Name()
		}
		return "?"
	})
	waccs := map[string]string{}
	okW := len(wadds) == 2
	for _, a := range wadds {
		if _, dup := waccs[a.acc]; dup {
			okW = false
		}
		waccs[a.acc] = a.from
	}
	// the accumulator that takes len() locally must take GetLen() remotely
	for _, a := range local {
		want := map[string]string{"len": "GetLen", "bytesSize": "GetBytesSize"}[a.from]
		if waccs[a.acc] != want {
			okW = false
		}
	}
	// adds only after both error tests passed: no path from entry to an add avoiding the err tests is needed; check adds are
	// not reachable on an error branch
	for _, ifi := range allIfs(worker) {
		if b, ok := ifi.Cond.(*ssa.BinOp); ok && b.Op == token.NEQ && isNilConst(b.Y) && isErrorType(b.X.Type()) {
			for _, a := range wadds {
				if guardedBy(a.ins.Block(), ifi, true) {
					okW = false
				}
			}
		}
	}
	r.Check(okW, "C17.R2", fnName(worker), "remote-adds", c.Pos(worker.Pos()), fmt.Sprintf("worker adds GetLen()/GetBytesSize() once each to the matching accumulators %v", waccs))
	// R3: every error branch of the worker sends the error
	n := 0
	for _, ifi := range allIfs(worker) {
		b, ok := ifi.Cond.(*ssa.BinOp)
		if !ok || b.Op != token.NEQ || !isNilConst(b.Y) || !isErrorType(b.X.Type()) {
			continue
		}
		n++
		tb := ifi.Block().Succs[0]
		sent := false
		for _, in := range tb.Instrs {
			if s, ok := in.(*ssa.Send); ok && strip(s.X) == b.X {
				sent = true
			}
		}
		// and then returns without adding
		r.Check(sent, "C17.R3", fnName(worker), fmt.Sprintf("error-branch#%d", n), c.Pos(ifi.Cond.Pos()), "error is sent to the collector")
	}
	workerErrorsSent(c, r, "C17.R3", worker)
	r.Rule("C17.R4", "a size that could not be obtained fails every caller up to the RPC: each call into the size chain (SizeInfo, Len, BytesSize, List, …) has its own error tested or forwarded, never merged with later results or overwritten", 3)
	sizeErrorsPropagate(c, r, "C17.R4")
	r.Rule("C17.R5", "every replica reports the same partition: a restored index resets its counters on every successful return; applying a replica change always rewrites the member list (which decides whether a node counts its local index or asks a peer)", 5)
	restoreResetsBeforeSuccess(c, r, "C17.R5")
	replicatedWriteNotConditionalOnLocalState(c, r, "C17.R5")
	r.Rule("C17.R6", "the node list that decides `count locally or ask a peer` is the replicated one: partitions are built on the elements of the message stored in Dataset.meta (borrowed from C14.R6)", 1)
	borrow(c, r, "C14", "C14.R6", "C17.R6", "meta-aliasing")
	// collector: the select loop returns error for non-nil message and ctx.Done
	okColl := false
	okDone := false
	for _, rt := range returnsOf(size) {
		last := rt.Results[2]
		if isNilConst(last) {
			continue
		}
		// error received from the channel
		for _, o := range origins(last, originOpt{}) {
			if ex, ok := o.(*ssa.Extract); ok {
				if _, isSel := ex.Tuple.(*ssa.Select); isSel {
					okColl = true
				}
			}
			if cl, ok := o.(*ssa.Call); ok && callID(&cl.Call).Name == "Err" {
				okDone = true
			}
		}
	}
	r.Check(okColl, "C17.R3", fn, "collector-error", c.Pos(size.Pos()), "a non-nil message from a worker is returned as the call's error")
	r.Check(okDone, "C17.R3", fn, "collector-context", c.Pos(size.Pos()), "a done context fails the call")
	// collector bound = number of partitions
	okBound := false
	for _, ifi := range allIfs(size) {
		if b, ok := ifi.Cond.(*ssa.BinOp); ok && b.Op == token.LSS && isLoopCounter(b.X) {
			if cl, ok := b.Y.(*ssa.Call); ok && callID(&cl.Call).is("builtin", "", "len") && fieldOfValue(cl.Call.Args[0]) == fParts {
				okBound = true
			}
		}
	}
	r.Check(okBound, "C17.R3", fn, "collector-bound", c.Pos(size.Pos()), "collector waits for len(partitions) messages")
	// PartitionInfo refuses when not hosted
	for _, f := range c.FuncsInPkg("storage") {
		if !c.isProd(f) || f.Signature.Recv() == nil || namedOf(f.Signature.Recv().Type()) != dsT || f == size {
			continue
		}
		res := f.Signature.Results()
		if res.Len() != 3 || !isErrorType(res.At(2).Type()) {
			continue
		}
		// returns len()/bytesSize() of a partition: must be guarded by isOnNode true
		eachInstr(f, func(i ssa.Instruction) {
			cl, ok := i.(*ssa.Call)
			if !ok || cl.Call.StaticCallee() == nil || cl.Call.StaticCallee().Name() != "len" || cl.Call.StaticCallee().Signature.Recv() == nil {
				return
			}
			g := false
			for _, ifi := range allIfs(f) {
				cond := ifi.Cond
				pol := true
				if u, ok := cond.(*ssa.UnOp); ok && u.Op == token.NOT {
					cond, pol = u.X, false
				}
				if cc, ok := cond.(*ssa.Call); ok && cc.Call.StaticCallee() != nil && cc.Call.StaticCallee().Name() == "isOnNode" && guardedBy(i.Block(), ifi, pol) {
					g = true
				}
			}
			r.Check(g, "C17.R3", fnName(f), "hosted-only", c.Pos(cl.Pos()), "a partition's size is reported only by a node that hosts it")
		})
	}
	_ = types.Typ
}
