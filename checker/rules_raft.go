package main

import (
	"fmt"
	"go/token"
	"go/types"
	"sort"
	"strings"

	"golang.org/x/tools/go/ssa"
)

func init() {
	register("C03", checkC03)
	register("C05", checkC05)
}

// readyLoop gathers the sites of one Ready loop.
type readyLoop struct {
	fn       *ssa.Function
	sel      *ssa.Select
	rd       *ssa.Alloc // cell holding the Ready value
	persist  []*ssa.Call
	sends    []*ssa.Call
	applies  []ssa.Instruction // processFn / processSnapshotFn / conf-change handler calls
	applyWhy map[ssa.Instruction]string
	advance  []*ssa.Call
	other    []string // sites that are go/defer
	// apply sites inside dispatch helpers beyond the one counted for the helper call itself
	helperSites int
	// the Ready case body is a helper method: iteration ends at its returns
	helperBody bool
	// the function that contains the select receiving from Ready() (== fn unless the body is a helper)
	loopFn *ssa.Function
}

// endOfIteration: the instruction that ends one pass over a Ready: the select of the loop, or a return of the body helper.
func (rl *readyLoop) endOfIteration(i ssa.Instruction) bool {
	if rl.helperBody {
		_, isRet := i.(*ssa.Return)
		return isRet
	}
	return i == ssa.Instruction(rl.sel)
}

// readyBodyHelper: fn receives from Ready() and hands the received value to a method of the same receiver that takes a
// raft.Ready parameter; returns that method and the cell it keeps the parameter in.
func readyBodyHelper(fn *ssa.Function) (*ssa.Function, *ssa.Alloc) {
	var body *ssa.Function
	var cell *ssa.Alloc
	isReady := func(t types.Type) bool {
		return typeName(t) == "Ready" && strings.HasSuffix(typePkg(t), "etcd/raft")
	}
	eachInstr(fn, func(i ssa.Instruction) {
		cl, ok := i.(*ssa.Call)
		if !ok || cl.Call.StaticCallee() == nil || !modLocal(cl.Call.StaticCallee()) || recvTypeName(cl.Call.StaticCallee()) != recvTypeName(fn) || recvTypeName(fn) == "" {
			return
		}
		h := cl.Call.StaticCallee()
		for _, p := range h.Params {
			if !isReady(p.Type()) {
				continue
			}
			eachInstr(h, func(j ssa.Instruction) {
				if st, isS := j.(*ssa.Store); isS && st.Val == ssa.Value(p) {
					if al, isA := st.Addr.(*ssa.Alloc); isA {
						body, cell = h, al
					}
				}
			})
		}
	})
	// only when fn itself does not keep a Ready cell with field uses (the usual inline form)
	inline := false
	eachInstr(fn, func(i ssa.Instruction) {
		if fa, ok := i.(*ssa.FieldAddr); ok {
			if al, isA := fa.X.(*ssa.Alloc); isA {
				if p, isP := al.Type().(*types.Pointer); isP && isReady(p.Elem()) {
					if sf := structField(fa.X.Type(), fa.Field); sf != nil && (sf.Name() == "HardState" || sf.Name() == "Entries") {
						inline = true
					}
				}
			}
		}
	})
	if inline {
		return nil, nil
	}
	return body, cell
}

func readyField(v ssa.Value, rd *ssa.Alloc) string {
	// v = load(&rd.F) or load(&(&rd.F).G) -> "F" / "F.G"
	a, ok := loadOf(v)
	if !ok {
		return ""
	}
	var names []string
	for hops := 0; hops < 3; hops++ {
		// a local copy of a part of the Ready (`incoming := rd.Snapshot`): follow the copy back to the Ready's field
		root := a
		for {
			fa, isF := root.(*ssa.FieldAddr)
			if !isF {
				break
			}
			root = fa.X
		}
		al, isA := root.(*ssa.Alloc)
		if !isA || al == rd {
			break
		}
		st := storesTo(al.Parent(), al)
		if len(st) != 1 {
			break
		}
		src, isL := loadOf(st[0].Val)
		if !isL {
			break
		}
		// rebuild the path: fields selected on the copy, appended to the source path
		var sel []*ssa.FieldAddr
		for x := a; ; {
			fa, isF := x.(*ssa.FieldAddr)
			if !isF {
				break
			}
			sel = append([]*ssa.FieldAddr{fa}, sel...)
			x = fa.X
		}
		for _, fa := range sel {
			names2 := structField(fa.X.Type(), fa.Field).Name()
			defer func(n string) {}(names2)
		}
		// resolve the source first, then add the selections made on the copy
		base := readyField(st[0].Val, rd)
		if base == "" {
			return ""
		}
		parts := []string{base}
		for _, fa := range sel {
			parts = append(parts, structField(fa.X.Type(), fa.Field).Name())
		}
		_ = src
		return strings.Join(parts, ".")
	}
	for {
		fa, ok := a.(*ssa.FieldAddr)
		if !ok {
			break
		}
		f := structField(fa.X.Type(), fa.Field)
		names = append([]string{f.Name()}, names...)
		a = fa.X
	}
	if a != ssa.Value(rd) || len(names) == 0 {
		return ""
	}
	return strings.Join(names, ".")
}

func analyseReadyLoop(c *Ctx, fn *ssa.Function, ro *roles) *readyLoop {
	rl := &readyLoop{fn: fn, loopFn: fn, applyWhy: map[ssa.Instruction]string{}}
	// the Ready cell: an Alloc of type raft.Ready
	eachInstr(fn, func(i ssa.Instruction) {
		if al, ok := i.(*ssa.Alloc); ok {
			if p, ok := al.Type().(*types.Pointer); ok && typeName(p.Elem()) == "Ready" && strings.HasSuffix(typePkg(p.Elem()), "etcd/raft") {
				rl.rd = al
			}
		}
		if s, ok := i.(*ssa.Select); ok {
			for _, st := range s.States {
				if cl, ok := st.Chan.(*ssa.Call); ok && callID(&cl.Call).Name == "Ready" {
					rl.sel = s
				}
			}
		}
	})
	// the body of the Ready case may live in a helper that is handed the received Ready (handleReady(rd, …)): then that
	// helper is the function whose paths are examined, and its returns are the end of one iteration
	if body, cell := readyBodyHelper(fn); body != nil {
		rl.fn, rl.rd, rl.helperBody = body, cell, true
		fn = body
	}
	if rl.rd == nil {
		return rl
	}
	isConfFn := func(f *ssa.Function) bool {
		for _, g := range ro.confChangeFns {
			if g == f {
				return true
			}
		}
		return false
	}
	visit := func(f *ssa.Function) {
		eachInstr(f, func(i ssa.Instruction) {
			cc := asCall(i)
			if cc == nil {
				return
			}
			call, plain := i.(*ssa.Call)
			var flds []string
			for _, a := range cc.Args {
				if n := readyField(a, rl.rd); n != "" {
					flds = append(flds, n)
				}
			}
			has := func(n string) bool {
				for _, x := range flds {
					if x == n {
						return true
					}
				}
				return false
			}
			id := callID(cc)
			kind := ""
			switch {
			case has("HardState") || has("Entries"):
				kind = "persist"
			case has("Messages"):
				kind = "send"
			case id.Name == "Advance" && strings.HasSuffix(id.Pkg, "etcd/raft"):
				kind = "advance"
			default:
				// dynamic call through a ProcessFn-typed field
				if cc.StaticCallee() == nil && !cc.IsInvoke() {
					if fld := fieldOfValue(cc.Value); fld != nil && typeName(fld.Type()) == "ProcessFn" {
						kind = "apply"
						rl.applyWhy[i] = "call through field " + fld.Name()
					}
				}
				if g := cc.StaticCallee(); g != nil && isConfFn(g) {
					kind = "apply"
					rl.applyWhy[i] = "conf-change handler " + g.Name()
				}
				// a dispatch helper of the loop (method on the same receiver) that contains apply sites
				if g := cc.StaticCallee(); kind == "" && f == fn && g != nil && g != fn && modLocal(g) && recvTypeName(g) == recvTypeName(fn) && recvTypeName(fn) != "" {
					// (the helper may hand the work on once or twice more: applyCommitted -> applyEntry)
					var countIn func(g2 *ssa.Function, d int) int
					countIn = func(g2 *ssa.Function, d int) int {
						cnt := 0
						eachInstr(g2, func(j ssa.Instruction) {
							c2 := asCall(j)
							if c2 == nil {
								return
							}
							if c2.StaticCallee() == nil && !c2.IsInvoke() {
								if fld := fieldOfValue(c2.Value); fld != nil && typeName(fld.Type()) == "ProcessFn" {
									cnt++
								}
							}
							if h := c2.StaticCallee(); h != nil && isConfFn(h) {
								cnt++
							} else if h != nil && d < 3 && h != fn && h != g2 && modLocal(h) && recvTypeName(h) == recvTypeName(fn) {
								cnt += countIn(h, d+1)
							}
						})
						return cnt
					}
					inner := countIn(g, 0)
					if inner > 0 {
						kind = "apply"
						rl.applyWhy[i] = fmt.Sprintf("dispatch helper %s with %d apply site(s)", g.Name(), inner)
						rl.helperSites += inner - 1
					}
				}
			}
			if kind == "" {
				return
			}
			if !plain || f != fn {
				rl.other = append(rl.other, fmt.Sprintf("%s site at %s is inside a go/defer statement or a closure", kind, c.InstrPos(i)))
				return
			}
			switch kind {
			case "persist":
				rl.persist = append(rl.persist, call)
			case "send":
				rl.sends = append(rl.sends, call)
			case "advance":
				rl.advance = append(rl.advance, call)
			case "apply":
				rl.applies = append(rl.applies, i)
			}
		})
	}
	visit(fn)
	for _, cf := range closuresOf(fn) {
		visit(cf)
	}
	return rl
}

// errTestOf finds the If testing the error result of call (single error result) and the polarity meaning "error".
func errTestOf(fn *ssa.Function, errV ssa.Value) (*ssa.If, bool) {
	for _, ifi := range allIfs(fn) {
		if b, ok := ifi.Cond.(*ssa.BinOp); ok && ((b.X == errV && isNilConst(b.Y)) || (b.Y == errV && isNilConst(b.X))) {
			return ifi, b.Op == token.NEQ
		}
	}
	return nil, false
}

func firstInstr(b *ssa.BasicBlock) ssa.Instruction {
	if len(b.Instrs) == 0 {
		return nil
	}
	return b.Instrs[0]
}

func succOn(ifi *ssa.If, pol bool) *ssa.BasicBlock {
	if pol {
		return ifi.Block().Succs[0]
	}
	return ifi.Block().Succs[1]
}

// leaderTests: Ifs in fn whose condition is a call of a leader predicate (a method whose result compares the
// field assigned from SoftState.Lead with the local node id).
// leaderOnTrue tells, per leader test, whether the leader side is the true branch (a test written inline as
// `lead != self` has the leader on its false branch).
var leaderOnTrue = map[*ssa.If]bool{}

func leaderTests(c *Ctx, rl *readyLoop) (tests []*ssa.If, leadField *types.Var, leadStore *ssa.Store) {
	// the field assigned from rd.SoftState.Lead
	eachInstr(rl.fn, func(i ssa.Instruction) {
		st, ok := i.(*ssa.Store)
		if !ok {
			return
		}
		fa, ok := st.Addr.(*ssa.FieldAddr)
		if !ok {
			return
		}
		for _, o := range origins(st.Val, originOpt{}) {
			var a ssa.Value
			if cl, ok := o.(*ssa.Call); ok && callID(&cl.Call).Pkg == "sync/atomic" && len(cl.Call.Args) == 1 {
				a = cl.Call.Args[0]
			} else if l, ok := loadOf(o); ok {
				a = l
			}
			if lfa, ok := a.(*ssa.FieldAddr); ok {
				if f := structField(lfa.X.Type(), lfa.Field); f != nil && f.Name() == "Lead" {
					leadField = structField(fa.X.Type(), fa.Field)
					leadStore = st
				}
			}
		}
	})
	if leadField == nil {
		return
	}
	isPred := func(f *ssa.Function) bool {
		if f == nil || !modLocal(f) || len(f.Params) != 1 {
			return false
		}
		rets := returnsOf(f)
		if len(rets) != 1 || len(rets[0].Results) != 1 {
			return false
		}
		b, ok := rets[0].Results[0].(*ssa.BinOp)
		if !ok || b.Op != token.EQL {
			return false
		}
		readsLead := func(v ssa.Value) bool {
			for _, o := range origins(v, originOpt{throughCalls: 3}) {
				if fieldOfValue(o) == leadField {
					return true
				}
			}
			return false
		}
		readsNode := func(v ssa.Value) bool {
			for _, o := range origins(v, originOpt{throughCalls: 3}) {
				if f := fieldOfValue(o); f != nil && strings.Contains(strings.ToLower(f.Name()), "nodeid") {
					return true
				}
			}
			return false
		}
		return (readsLead(b.X) && readsNode(b.Y)) || (readsLead(b.Y) && readsNode(b.X))
	}
	readsLeadV := func(v ssa.Value) bool {
		for _, o := range origins(v, originOpt{throughCalls: 3}) {
			if fieldOfValue(o) == leadField {
				return true
			}
		}
		return false
	}
	readsNodeV := func(v ssa.Value) bool {
		for _, o := range origins(v, originOpt{throughCalls: 3}) {
			if f := fieldOfValue(o); f != nil && strings.Contains(strings.ToLower(f.Name()), "nodeid") {
				return true
			}
		}
		return false
	}
	for _, ifi := range allIfs(rl.fn) {
		if cl, ok := ifi.Cond.(*ssa.Call); ok && isPred(cl.Call.StaticCallee()) {
			tests = append(tests, ifi)
			leaderOnTrue[ifi] = true
		}
		// the predicate written inline: lead == self / lead != self
		if b, ok := ifi.Cond.(*ssa.BinOp); ok && (b.Op == token.EQL || b.Op == token.NEQ) {
			if (readsLeadV(b.X) && readsNodeV(b.Y)) || (readsLeadV(b.Y) && readsNodeV(b.X)) {
				tests = append(tests, ifi)
				leaderOnTrue[ifi] = b.Op == token.EQL
			}
		}
	}
	return
}

// raftLoopRules emits the ordering obligations of the Ready loop under rule ids built from `p`.
func raftLoopRules(c *Ctx, r *Report, ids map[string]string) *readyLoop {
	ro := discoverRoles(c)
	if len(ro.readyLoops) == 0 {
		r.Unk(ids["persist"], "storage/raft", "ready-loop", "-", "no function receives from etcd/raft Node.Ready()")
		return nil
	}
	var last *readyLoop
	for _, fn := range ro.readyLoops {
		rl := analyseReadyLoop(c, fn, ro)
		last = rl
		fn := rl.fn
		name := fnName(fn)
		if rl.rd == nil || (rl.sel == nil && !rl.helperBody) {
			r.Unk(ids["persist"], name, "ready-value", c.Pos(fn.Pos()), "cannot find the Ready value / the select receiving it")
			continue
		}
		for _, o := range rl.other {
			r.Bad(ids["persist"], name, "site-not-inline", c.Pos(fn.Pos()), o+": ordering with respect to the Ready loop is lost")
		}
		if len(rl.persist) != 1 {
			r.Bad(ids["persist"], name, "persist-site", c.Pos(fn.Pos()), fmt.Sprintf("%d persist sites (calls receiving rd.HardState / rd.Entries), want exactly 1", len(rl.persist)))
			continue
		}
		p := rl.persist[0]
		// all three fields of the same Ready
		var flds []string
		for _, a := range p.Call.Args {
			if n := readyField(a, rl.rd); n != "" {
				flds = append(flds, n)
			}
		}
		okF := strings.Contains(strings.Join(flds, ","), "HardState") && strings.Contains(strings.Join(flds, ","), "Entries") && strings.Contains(strings.Join(flds, ","), "Snapshot")
		r.Check(okF, ids["persist"], name, "persist-site", c.Pos(p.Pos()), "one persist call takes HardState, Entries and Snapshot of the same Ready: "+strings.Join(flds, ","))
		// error is fatal
		if ids["fatal"] != "" {
			ifi, errPol := errTestOf(fn, p)
			if ifi == nil {
				r.Bad(ids["fatal"], name, "persist-error", c.Pos(p.Pos()), "the error of the persist call is not tested")
			} else {
				isSite := func(i ssa.Instruction) bool {
					for _, a := range rl.applies {
						if a == i {
							return true
						}
					}
					for _, a := range rl.advance {
						if ssa.Instruction(a) == i {
							return true
						}
					}
					for _, a := range rl.sends {
						if ssa.Instruction(a) == i {
							return true
						}
					}
					return false
				}
				first := firstInstr(succOn(ifi, errPol))
				hit, found := reachesAvoidingFrom(fn, first, isSite, func(ssa.Instruction) bool { return false })
				if found {
					r.Bad(ids["fatal"], name, "persist-error", c.Pos(p.Pos()), "after a failed persist the loop still reaches "+c.InstrPos(hit)+" (apply / send / advance): the error is not fatal")
				} else {
					r.OK(ids["fatal"], name, "persist-error", c.Pos(p.Pos()), "a failed persist reaches no apply, send or advance site (no-return call on that branch)")
				}
			}
		}
		// persist dominates apply sites and Advance
		if ids["dominates"] != "" {
			for k, a := range rl.applies {
				r.Check(instrDominates(p, a), ids["dominates"], name, fmt.Sprintf("apply-site#%d", k+1), c.InstrPos(a), "persist dominates this apply site ("+rl.applyWhy[a]+")")
			}
			for k, a := range rl.advance {
				r.Check(instrDominates(p, a), ids["dominates"], name, fmt.Sprintf("advance#%d", k+1), c.InstrPos(a), "persist dominates Advance")
			}
			if len(rl.applies)+rl.helperSites < 3 {
				r.Bad(ids["dominates"], name, "apply-sites", c.Pos(fn.Pos()), fmt.Sprintf("only %d apply sites found (entries, snapshot, conf change expected)", len(rl.applies)+rl.helperSites))
			}
		}
		// send discipline
		if ids["send"] != "" {
			tests, leadField, leadStore := leaderTests(c, rl)
			unguardedAfter := false
			var leaderBefore, followerAfter bool
			for k, s := range rl.sends {
				cons := fmt.Sprintf("send#%d", k+1)
				if instrDominates(p, s) {
					// after persist: fine; note whether guarded
					g := false
					for _, t := range tests {
						if guardedBy(s.Block(), t, !leaderOnTrue[t]) {
							g = true
							followerAfter = true
						}
						if guardedBy(s.Block(), t, leaderOnTrue[t]) {
							g = true
						}
					}
					if !g {
						unguardedAfter = true
					}
					r.OK(ids["send"], name, cons, c.Pos(s.Pos()), "messages leave after the persist call")
					continue
				}
				g := false
				for _, t := range tests {
					if guardedBy(s.Block(), t, leaderOnTrue[t]) {
						g = true
						leaderBefore = true
					}
				}
				if g {
					r.OK(ids["send"], name, cons, c.Pos(s.Pos()), "send before persist is guarded by the leader test (raft thesis 10.2.1)")
				} else {
					r.Bad(ids["send"], name, cons, c.Pos(s.Pos()), "messages (votes, append acknowledgements) can leave before HardState and Entries are persisted, without the leader guard")
				}
			}
			// completeness
			complete := unguardedAfter || (leaderBefore && followerAfter)
			r.Check(complete && len(rl.sends) > 0, ids["send"], name, "send-complete", c.Pos(fn.Pos()), "every Ready's messages are sent: one unguarded send after persist, or the complementary leader-before / follower-after pair")
			if leaderBefore && leadField != nil && leadStore != nil {
				// the leader field is not stored between the two tests
				okStore := true
				for _, t := range tests {
					if _, reach := reachesAvoiding(fn, t, func(i ssa.Instruction) bool {
						st, ok := i.(*ssa.Store)
						return ok && fieldOfAddr(st.Addr) == leadField
					}, func(i ssa.Instruction) bool { return rl.endOfIteration(i) }); reach {
						okStore = false
					}
				}
				n := 1
				r.Check(okStore && n == 1, ids["send"], name, "leader-field-stable", c.InstrPos(leadStore), "the leader id is assigned once per Ready, before both leader tests")
			}
		}
		// Advance exactly once, last
		if ids["advance"] != "" {
			if len(rl.advance) != 1 {
				r.Bad(ids["advance"], name, "advance-once", c.Pos(fn.Pos()), fmt.Sprintf("%d Advance calls, want 1", len(rl.advance)))
			} else {
				adv := rl.advance[0]
				// not in an inner loop: cannot reach itself without passing the select
				_, again := reachesAvoiding(fn, adv, func(i ssa.Instruction) bool { return i == ssa.Instruction(adv) }, func(i ssa.Instruction) bool { return rl.endOfIteration(i) })
				// every path from persist to the next select passes Advance
				_, skip := reachesAvoiding(fn, p, func(i ssa.Instruction) bool { return rl.endOfIteration(i) }, func(i ssa.Instruction) bool { return i == ssa.Instruction(adv) })
				// no apply/send site after Advance in the same iteration
				var late ssa.Instruction
				for _, a := range rl.applies {
					if _, reach := reachesAvoiding(fn, adv, func(i ssa.Instruction) bool { return i == a }, func(i ssa.Instruction) bool { return rl.endOfIteration(i) }); reach {
						late = a
					}
				}
				ok := !again && !skip && late == nil
				why := "Advance is called once per Ready, after every apply site, on every path back to the select"
				if again {
					why = "Advance can be called more than once for one Ready"
				} else if skip {
					why = "a path from persist back to the select skips Advance"
				} else if late != nil {
					why = "apply site at " + c.InstrPos(late) + " runs after Advance"
				}
				r.Check(ok, ids["advance"], name, "advance-once", c.Pos(adv.Pos()), why)
			}
		}
	}
	return last
}

// ---- C03 -------------------------------------------------------------------------------

func checkC03(c *Ctx, r *Report, tier string) {
	round5(c, r, "C03")
	round6(c, r, "C03")
	round7(c, r, "C03")
	round8(c, r, "C03")
	r.Rule("C03.R1", "persist dominates apply, acknowledgement and Advance: one plain persist call per Ready taking HardState, Entries and Snapshot of the same Ready; it dominates every apply site and Advance; its error branch reaches none of them", 4)
	r.Rule("C03.R2", "acknowledgement only from the apply tree: every function that calls Notificator.Notify is reachable from an apply root and from no RPC root / background loop", 8)
	r.Rule("C03.R3", "a persist call that returns nil has flushed: in every batch function each return after the batch is created returns Flush()'s value or a tested non-nil error; Set/Delete results are never discarded; Cancel is deferred; the Badger options keep SyncWrites on", 8)
	r.Rule("C03.R4", "the snapshot is labelled with what was applied: the snapshot function is invoked only on the Ready loop's goroutine; the index handed to CreateSnapshot derives only from applied entries' Index and an installed snapshot's Metadata.Index, recorded after the apply call", 2)
	r.Rule("C03.R5", "recovery order: the stored snapshot is handed to the restore function before the Ready loop is spawned", 1)
	r.Rule("C03.R6", "restart is not bootstrap: every StartNode call is control-dependent on a condition that reads the same Storage (log freshness)", 1)
	for _, k := range []string{"persist-site", "persist-error", "apply-site", "advance"} {
		r.Need("C03.R1", k, "the Ready loop's persist / apply / advance sites must all be found")
	}
	ids := map[string]string{"persist": "C03.R1", "fatal": "C03.R1", "dominates": "C03.R1"}
	rl := raftLoopRules(c, r, ids)
	ro := discoverRoles(c)
	c03R2(c, r, ro)
	c03R3(c, r)
	if rl != nil && rl.rd != nil {
		c03R4(c, r, rl, ro)
	}
	c03R5(c, r, ro)
	startNodeRule(c, r, "C03.R6")
	r.Rule("C03.R7", "local compaction keeps the snapshot's anchor entry: the log is swept up to, not including, the snapshot index, and the sweep collects keys only while index < bound (the anchor is written in the same batch and a later Delete of the same key wins)", 2)
	walCompactionKeepsAnchor(c, r, "C03.R7")
	r.Rule("C03.R8", "nothing durable is dropped on the way: every part of a Ready (hard state, entries, snapshot) is handed to its writer on every path to Flush; the hard state is skipped only when empty; a graceful shutdown never deletes a group's log", 5)
	persistConsumesAllParts(c, r, "C03.R8")
	hardStateAlwaysWritten(c, r, "C03.R8")
	logDeletionNotOnShutdown(c, r, "C03.R8")
	r.Rule("C03.R9", "crash points inside one durable step: a local snapshot and the compaction it allows go into one write batch; entries are staged before the hard state; a received snapshot wipes the whole log; the recorded leader follows every SoftState (so that `send before persist` is only ever used by an actual leader)", 5)
	snapshotAndCompactionAtomic(c, r, "C03.R9")
	persistOrder(c, r, "C03.R9")
	readyPartsIndependent(c, r, "C03.R9")
	r.Rule("C03.R10", "what is read back after a restart is what was written: entries decoded by the log store own their payload bytes", 1)
	decodedEntriesOwnTheirBytes(c, r, "C03.R10")
}

func c03R2(c *Ctx, r *Report, ro *roles) {
	applyReach := c.reachableFrom(ro.applyRoots, true, false)
	// background / request roots: RPC roots and operands of `go` other than the ready loop
	var fg []*ssa.Function
	fg = append(fg, ro.rpcRoots...)
	for _, f := range c.ModFuncs {
		if !c.isProd(f) {
			continue
		}
		eachInstr(f, func(i ssa.Instruction) {
			if g, ok := i.(*ssa.Go); ok {
				t := g.Call.StaticCallee()
				if t == nil {
					if mc, ok := g.Call.Value.(*ssa.MakeClosure); ok {
						t, _ = mc.Fn.(*ssa.Function)
					}
				}
				isLoop := false
				for _, l := range ro.readyLoops {
					if l == t {
						isLoop = true
					}
				}
				if t != nil && !isLoop {
					fg = append(fg, t)
				}
			}
		})
	}
	fgReach := reachableStatic(c, fg)
	for _, f := range c.ModFuncs {
		if !c.isProd(f) {
			continue
		}
		n := 0
		eachInstr(f, func(i ssa.Instruction) {
			cc := asCall(i)
			if cc == nil {
				return
			}
			id := callID(cc)
			if id.Name != "Notify" || id.Recv != "Notificator" {
				return
			}
			n++
			cons := fmt.Sprintf("Notify#%d", n)
			switch {
			case !applyReach[f]:
				r.Bad("C03.R2", fnName(f), cons, c.InstrPos(i), "acknowledgement sent from a function that is not in any apply tree")
			case fgReach[f]:
				r.Bad("C03.R2", fnName(f), cons, c.InstrPos(i), "acknowledging function is also reachable from a request handler or background goroutine (could acknowledge before persist+apply)")
			default:
				r.OK("C03.R2", fnName(f), cons, c.InstrPos(i), "only reachable from an apply root, i.e. after the Ready loop's persist call")
			}
		})
	}
}

// reachableStatic: reachability through static calls and closures only (an over-approximation is not wanted here:
// we want to know whether request code can call the function directly).
func reachableStatic(c *Ctx, roots []*ssa.Function) map[*ssa.Function]bool {
	return c.reachableFrom(roots, false, false)
}

func c03R3(c *Ctx, r *Report) {
	for _, f := range c.FuncsInPkg("storage/wal") {
		if !c.isProd(f) {
			continue
		}
		var mk *ssa.Call
		eachInstr(f, func(i ssa.Instruction) {
			if cl, ok := i.(*ssa.Call); ok && callID(&cl.Call).Name == "NewWriteBatch" {
				mk = cl
			}
		})
		if mk == nil {
			continue
		}
		fn := fnName(f)
		// deferred Cancel
		canc := false
		eachInstr(f, func(i ssa.Instruction) {
			if d, ok := i.(*ssa.Defer); ok && callID(&d.Call).Name == "Cancel" && len(d.Call.Args) > 0 && d.Call.Args[0] == ssa.Value(mk) {
				canc = true
			}
		})
		r.Check(canc, "C03.R3", fn, "defer-cancel", c.Pos(mk.Pos()), "batch.Cancel() is deferred")
		k := 0
		for _, rt := range returnsOf(f) {
			if !instrDominates(mk, rt.Return) {
				continue
			}
			k++
			cons := fmt.Sprintf("return#%d", k)
			last := rt.Results[len(rt.Results)-1]
			ok, why := false, ""
			if isNilConst(last) {
				why = "returns nil without flushing the batch"
			} else if cl, isC := last.(*ssa.Call); isC && callID(&cl.Call).Name == "Flush" && cl.Call.Args[0] == ssa.Value(mk) {
				ok, why = true, "returns batch.Flush()"
			} else if ifi, pol := errTestOf(f, last); ifi != nil && guardedBy(rt.Block(), ifi, pol) {
				ok, why = true, "returns a tested non-nil error"
			} else {
				why = "returns an error value that is neither Flush()'s nor tested non-nil: " + last.String()
			}
			r.Check(ok, "C03.R3", fn, cons, c.Pos(rt.Pos()), why)
		}
	}
	// Set/Delete results never discarded
	for _, f := range c.FuncsInPkg("storage/wal") {
		if !c.isProd(f) {
			continue
		}
		n := 0
		eachInstr(f, func(i ssa.Instruction) {
			cl, ok := i.(*ssa.Call)
			if !ok {
				return
			}
			id := callID(&cl.Call)
			if id.Recv != "WriteBatch" || (id.Name != "Set" && id.Name != "Delete" && id.Name != "Flush") {
				return
			}
			n++
			used := cl.Referrers() != nil && len(*cl.Referrers()) > 0
			r.Check(used, "C03.R3", fnName(f), fmt.Sprintf("batch.%s#%d", id.Name, n), c.Pos(cl.Pos()), "the error result of the batch operation is used")
		})
	}
	// SyncWrites
	found := false
	for _, f := range c.ModFuncs {
		if !c.isProd(f) {
			continue
		}
		eachInstr(f, func(i ssa.Instruction) {
			cl, ok := i.(*ssa.Call)
			if !ok || !callID(&cl.Call).is("badger/v2", "", "Open") {
				return
			}
			found = true
			bad := ""
			v := cl.Call.Args[0]
			for depth := 0; depth < 20; depth++ {
				oc, ok := v.(*ssa.Call)
				if !ok {
					if _, isP := v.(*ssa.Parameter); isP {
						bad = "options come from a parameter"
					}
					break
				}
				id := callID(&oc.Call)
				if id.Name == "WithSyncWrites" {
					if k, ok := oc.Call.Args[1].(*ssa.Const); !ok || k.Value == nil || k.Value.String() != "true" {
						bad = "WithSyncWrites(" + oc.Call.Args[1].String() + ")"
					}
				}
				if id.Name == "WithInMemory" {
					if k, ok := oc.Call.Args[1].(*ssa.Const); !ok || k.Value.String() != "false" {
						bad = "WithInMemory(" + oc.Call.Args[1].String() + ")"
					}
				}
				if id.Recv == "" {
					break
				}
				v = oc.Call.Args[0]
			}
			r.Check(bad == "", "C03.R3", fnName(f), "badger-options", c.Pos(cl.Pos()), "options reaching badger.Open keep synchronous writes (Badger's default) "+bad)
		})
	}
	if !found {
		r.Unk("C03.R3", "anndb", "badger-options", "-", "no badger.Open call found")
	}
}

func c03R4(c *Ctx, r *Report, rl *readyLoop, ro *roles) {
	// functions calling through a SnapshotFn-typed field
	var snapCallers []*ssa.Function
	for _, f := range c.ModFuncs {
		if !c.isProd(f) {
			continue
		}
		eachInstr(f, func(i ssa.Instruction) {
			cc := asCall(i)
			if cc == nil || cc.StaticCallee() != nil || cc.IsInvoke() {
				return
			}
			if fld := fieldOfValue(cc.Value); fld != nil && typeName(fld.Type()) == "SnapshotFn" && typePkg(fld.Type()) == modPath+"/storage/raft" {
				if namedOf(f.Signature.Recv().Type()) != nil && recvTypeName(f) == recvTypeName(rl.fn) {
					snapCallers = appendUnique(snapCallers, f)
				}
			}
		})
	}
	for _, sc := range snapCallers {
		// called only by plain calls from the ready loop
		ok := true
		why := ""
		n := 0
		for _, f := range c.ModFuncs {
			if !c.isProd(f) {
				continue
			}
			eachInstr(f, func(i ssa.Instruction) {
				cc := asCall(i)
				if cc == nil || cc.StaticCallee() != sc {
					return
				}
				n++
				if _, plain := i.(*ssa.Call); !plain || (f != rl.fn && f != rl.loopFn) {
					ok = false
					why = "called from " + fnName(f) + " at " + c.InstrPos(i)
				}
			})
		}
		r.Check(ok && n > 0, "C03.R4", fnName(sc), "snapshot-on-loop-goroutine", c.Pos(sc.Pos()), "the function invoking the snapshot callback is called only, synchronously, from the Ready loop "+why)
		// index provenance: CreateSnapshot's index argument is a parameter of sc; at the ready-loop call site its origins
		eachInstr(sc, func(i ssa.Instruction) {
			cl, ok := i.(*ssa.Call)
			if !ok || callID(&cl.Call).Name != "CreateSnapshot" {
				return
			}
			idx := explicitArgs(&cl.Call)[0]
			p, ok := idx.(*ssa.Parameter)
			if !ok {
				r.Bad("C03.R4", fnName(sc), "snapshot-index", c.Pos(cl.Pos()), "index passed to CreateSnapshot is not the caller-supplied applied index: "+idx.String())
				return
			}
			pi := -1
			for k, pp := range sc.Params {
				if pp == p {
					pi = k
				}
			}
			scanFns := []*ssa.Function{rl.fn}
			if rl.loopFn != rl.fn {
				scanFns = append(scanFns, rl.loopFn)
			}
			for _, scanFn := range scanFns {
				eachInstr(scanFn, func(j ssa.Instruction) {
					cc, ok := j.(*ssa.Call)
					if !ok || cc.Call.StaticCallee() != sc {
						return
					}
					arg := cc.Call.Args[pi]
					bad := ""
					nSrc := 0
					// the applied index may be carried by the loop function and updated by the body helper's result
					var srcs []ssa.Value
					seenSrc := map[ssa.Value]bool{}
					seenCall := map[*ssa.Call]bool{}
					var expand func(v ssa.Value, frames []*ssa.Call, depth int)
					expand = func(v ssa.Value, frames []*ssa.Call, depth int) {
						for _, o := range origins(v, originOpt{}) {
							if depth < 8 {
								var hc *ssa.Call
								idx := 0
								if cl, isC := o.(*ssa.Call); isC {
									hc = cl
								} else if ex, isE := o.(*ssa.Extract); isE {
									if cl, isC := ex.Tuple.(*ssa.Call); isC {
										hc, idx = cl, ex.Index
									}
								}
								// the applied index carried through helpers of the loop (handleReady, applyCommittedEntries, …)
								if hc != nil && seenCall[hc] {
									continue // the loop-carried value coming round again
								}
								if hc != nil && hc.Call.StaticCallee() != nil && modLocal(hc.Call.StaticCallee()) && len(hc.Call.StaticCallee().Blocks) > 0 && recvTypeName(hc.Call.StaticCallee()) == recvTypeName(rl.loopFn) && recvTypeName(rl.loopFn) != "" {
									seenCall[hc] = true
									for _, rt := range returnsOf(hc.Call.StaticCallee()) {
										if idx < len(rt.Results) {
											expand(rt.Results[idx], append(frames, hc), depth+1)
										}
									}
									continue
								}
								if p, isP := o.(*ssa.Parameter); isP && len(frames) > 0 {
									fr := frames[len(frames)-1]
									for k, q := range fr.Call.StaticCallee().Params {
										if q == p && k < len(fr.Call.Args) {
											expand(fr.Call.Args[k], frames[:len(frames)-1], depth+1)
										}
									}
									continue
								}
							}
							if _, isP := o.(*ssa.Parameter); isP && depth > 0 {
								continue // the carried value itself, handed down by the loop
							}
							if !seenSrc[o] {
								seenSrc[o] = true
								srcs = append(srcs, o)
							}
						}
					}
					expand(arg, nil, 0)
					for _, o := range srcs {
						if _, isC := o.(*ssa.Const); isC {
							continue
						}
						a, isL := loadOf(o)
						if !isL {
							bad = o.String()
							continue
						}
						fa, isF := a.(*ssa.FieldAddr)
						if !isF || structField(fa.X.Type(), fa.Field).Name() != "Index" {
							bad = o.String()
							continue
						}
						nSrc++
						// either entry.Index of the committed-entries element, or rd.Snapshot.Metadata.Index
						if n := readyField(o, rl.rd); n == "Snapshot.Metadata.Index" {
							continue
						}
						// the same field of a snapshot value that a helper was handed (applyReadySnapshot(rd.Snapshot, …))
						if fa2, isF2 := fa.X.(*ssa.FieldAddr); isF2 && typeName(derefType(fa2.X.Type())) == "Snapshot" && structField(fa2.X.Type(), fa2.Field).Name() == "Metadata" && o.(ssa.Instruction).Parent() != rl.fn {
							continue
						}
						if al, isA := fa.X.(*ssa.Alloc); isA && typeName(al.Type().(*types.Pointer).Elem()) == "Entry" {
							// recorded after the apply calls of this iteration: no apply site reachable from the load before the next element is fetched
							var late ssa.Instruction
							for _, ap := range rl.applies {
								if _, reach := reachesAvoiding(rl.fn, o.(ssa.Instruction), func(x ssa.Instruction) bool { return x == ap }, func(x ssa.Instruction) bool {
									if _, isSel := x.(*ssa.Select); isSel {
										return true
									}
									st, isS := x.(*ssa.Store)
									return isS && st.Addr == ssa.Value(al)
								}); reach {
									late = ap
								}
							}
							if late != nil {
								bad = "entry.Index is recorded before the entry is applied (" + c.InstrPos(late) + ")"
							}
							continue
						}
						bad = o.String()
					}
					r.Check(bad == "" && nSrc >= 2, "C03.R4", fnName(rl.fn), "snapshot-index", c.Pos(cc.Pos()), "applied index = φ(0, applied entry.Index, installed snapshot Metadata.Index) "+bad)
				})
			}
		})
	}
	if len(snapCallers) == 0 {
		r.Unk("C03.R4", fnName(rl.fn), "snapshot-caller", "-", "no function of the raft group calls through a SnapshotFn field")
	}
}

func c03R5(c *Ctx, r *Report, ro *roles) {
	for _, f := range c.ModFuncs {
		if !c.isProd(f) {
			continue
		}
		var goLoop ssa.Instruction
		isGo := false
		eachInstr(f, func(i ssa.Instruction) {
			if g, ok := i.(*ssa.Go); ok {
				for _, l := range ro.readyLoops {
					if g.Call.StaticCallee() == l {
						goLoop = g
						isGo = true
					}
				}
			}
			// the spawn may be wrapped in a small helper (spawnLoop())
			if cl, ok := i.(*ssa.Call); ok && loopSpawners(c, ro)[cl.Call.StaticCallee()] && cl.Call.StaticCallee() != f {
				goLoop = cl
			}
		})
		if goLoop == nil {
			continue
		}
		if isGo {
			// a pure spawn helper: judged at its callers
			hasRestore, called := false, false
			eachInstr(f, func(i ssa.Instruction) {
				if cc := plainCall(i); cc != nil && cc.StaticCallee() == nil && !cc.IsInvoke() {
					if fld := fieldOfValue(cc.Value); fld != nil && typeName(fld.Type()) == "ProcessFn" {
						hasRestore = true
					}
				}
			})
			for _, g := range c.ModFuncs {
				eachInstr(g, func(i ssa.Instruction) {
					if cl, ok := i.(*ssa.Call); ok && cl.Call.StaticCallee() == f && g != f {
						called = true
					}
				})
			}
			if !hasRestore && called {
				continue
			}
		}
		// restore call through a ProcessFn field with Snapshot().Data
		var restore ssa.Instruction
		eachInstr(f, func(i ssa.Instruction) {
			cc := plainCall(i)
			if cc == nil || cc.StaticCallee() != nil || cc.IsInvoke() {
				return
			}
			if fld := fieldOfValue(cc.Value); fld != nil && typeName(fld.Type()) == "ProcessFn" {
				restore = i
			}
		})
		if restore == nil {
			r.Bad("C03.R5", fnName(f), "restore-before-loop", c.Pos(goLoop.Pos()), "the Ready loop is spawned without handing the stored snapshot to the restore function")
			continue
		}
		// on the non-empty-snapshot side, the go is not reachable without passing restore
		var emptyIf *ssa.If
		emptyPol := true
		for _, ifi := range allIfs(f) {
			cond := ifi.Cond
			pol := true
			if u, ok := cond.(*ssa.UnOp); ok && u.Op == token.NOT {
				cond, pol = u.X, false
			}
			if cl, ok := cond.(*ssa.Call); ok && callID(&cl.Call).Name == "IsEmptySnap" {
				emptyIf, emptyPol = ifi, pol
			}
		}
		if emptyIf == nil {
			r.Unk("C03.R5", fnName(f), "restore-before-loop", c.Pos(goLoop.Pos()), "no IsEmptySnap test found")
			continue
		}
		first := firstInstr(succOn(emptyIf, !emptyPol))
		_, skip := reachesAvoidingFrom(f, first, func(i ssa.Instruction) bool { return i == goLoop }, func(i ssa.Instruction) bool { return i == restore })
		// and a failed restore does not start the loop
		okErr := true
		if call, ok := restore.(*ssa.Call); ok {
			if ifi, pol := errTestOf(f, call); ifi != nil {
				if _, reach := reachesAvoidingFrom(f, firstInstr(succOn(ifi, pol)), func(i ssa.Instruction) bool { return i == goLoop }, func(ssa.Instruction) bool { return false }); reach {
					okErr = false
				}
			} else {
				okErr = false
			}
		}
		r.Check(!skip && okErr, "C03.R5", fnName(f), "restore-before-loop", c.Pos(goLoop.Pos()), "with a non-empty stored snapshot the restore call precedes `go run()`, and a failed restore does not start the loop")
	}
}

// startNodeRule: StartNode only when the log is fresh.
func startNodeRule(c *Ctx, r *Report, rule string) {
	n := 0
	for _, f := range c.ModFuncs {
		if !c.isProd(f) {
			continue
		}
		eachInstr(f, func(i ssa.Instruction) {
			cl, ok := i.(*ssa.Call)
			if !ok || !callID(&cl.Call).is("etcd/raft", "", "StartNode") {
				return
			}
			n++
			// a dominating If whose condition depends on a read of a Storage-typed value
			okG := false
			reads := map[string]bool{}
			for _, ifi := range allIfs(f) {
				if !(guardedBy(cl.Block(), ifi, true) || guardedBy(cl.Block(), ifi, false)) {
					continue
				}
				if condReadsStorage(ifi.Cond, 0) {
					okG = true
					storageMethodsRead(ifi.Cond, 0, reads)
				}
			}
			if okG {
				r.OK(rule, fnName(f), "StartNode", c.Pos(cl.Pos()), "bootstrap is control-dependent on a read of the log store (fresh-log test)")
				hs := reads["InitialState"]
				ext := reads["LastIndex"] || reads["FirstIndex"] || reads["Entries"]
				var names []string
				for k := range reads {
					names = append(names, k)
				}
				sort.Strings(names)
				r.Check(hs && ext, rule, fnName(f), "StartNode-fresh-means-nothing-persisted", c.Pos(cl.Pos()), "the fresh-storage test reads both the hard state and the extent of the log (reads: "+strings.Join(names, ", ")+"): a replica added to an existing group persists a term and a vote before its first entry — judged by the log alone it would be re-bootstrapped after a crash in that window, forget its vote and fabricate committed ConfChange entries")
			} else {
				r.Bad(rule, fnName(f), "StartNode", c.Pos(cl.Pos()), "StartNode is reached without consulting the log store: a restart with an existing log re-bootstraps (term reset to 1, bootstrap ConfChange entries appended on top of the old log and marked committed)")
			}
		})
	}
	if n == 0 {
		r.Infof("%s: no StartNode call in the module (groups are only restarted)", rule)
		r.OKTrivial(rule, "storage/raft", "StartNode", "-", "no StartNode call in the module")
	}
}

// storageMethodsRead collects the names of the Storage methods a condition (through helpers taking the storage) reads.
func storageMethodsRead(v ssa.Value, depth int, out map[string]bool) {
	if depth > 8 || v == nil {
		return
	}
	switch y := v.(type) {
	case *ssa.BinOp:
		storageMethodsRead(y.X, depth+1, out)
		storageMethodsRead(y.Y, depth+1, out)
	case *ssa.UnOp:
		storageMethodsRead(y.X, depth+1, out)
	case *ssa.Phi:
		for _, e := range y.Edges {
			storageMethodsRead(e, depth+1, out)
		}
		for _, p := range y.Block().Preds {
			if ifi := condOf(p); ifi != nil {
				storageMethodsRead(ifi.Cond, depth+1, out)
			}
		}
	case *ssa.Extract:
		storageMethodsRead(y.Tuple, depth+1, out)
	case *ssa.Convert:
		storageMethodsRead(y.X, depth+1, out)
	case *ssa.ChangeType:
		storageMethodsRead(y.X, depth+1, out)
	case *ssa.Call:
		if rv := recvArg(&y.Call); rv != nil && isStorageType(rv.Type()) {
			out[callID(&y.Call).Name] = true
			return
		}
		for _, a := range y.Call.Args {
			if !isStorageType(a.Type()) {
				continue
			}
			g := y.Call.StaticCallee()
			if g == nil || !modLocal(g) {
				continue
			}
			// the helper's result: which storage reads do its returned values depend on?
			for _, rt := range returnsOf(g) {
				for _, res := range rt.Results {
					helperReads(g, res, 0, out)
				}
			}
		}
	}
}

// helperReads: storage methods whose results flow (through operators and the error tests that guard the return) into v.
func helperReads(g *ssa.Function, v ssa.Value, depth int, out map[string]bool) {
	if depth > 8 || v == nil {
		return
	}
	switch y := v.(type) {
	case *ssa.BinOp:
		helperReads(g, y.X, depth+1, out)
		helperReads(g, y.Y, depth+1, out)
	case *ssa.UnOp:
		helperReads(g, y.X, depth+1, out)
	case *ssa.Phi:
		for _, e := range y.Edges {
			helperReads(g, e, depth+1, out)
		}
		for _, p := range y.Block().Preds {
			if ifi := condOf(p); ifi != nil {
				helperReads(g, ifi.Cond, depth+1, out)
			}
		}
	case *ssa.Extract:
		helperReads(g, y.Tuple, depth+1, out)
	case *ssa.Convert:
		helperReads(g, y.X, depth+1, out)
	case *ssa.ChangeType:
		helperReads(g, y.X, depth+1, out)
	case *ssa.Call:
		if rv := recvArg(&y.Call); rv != nil && isStorageType(rv.Type()) {
			out[callID(&y.Call).Name] = true
			return
		}
		for _, a := range y.Call.Args {
			helperReads(g, a, depth+1, out)
		}
	}
}

func isStorageType(t types.Type) bool {
	n := namedOf(t)
	if n == nil || n.Obj().Pkg() == nil {
		return false
	}
	p := n.Obj().Pkg().Path()
	return (strings.HasSuffix(p, "anndb/storage/wal") && (n.Obj().Name() == "WAL" || n.Obj().Name() == "badgerWAL")) || (strings.HasSuffix(p, "etcd/raft") && (n.Obj().Name() == "Storage" || n.Obj().Name() == "MemoryStorage"))
}

func condReadsStorage(v ssa.Value, depth int) bool {
	if depth > 8 || v == nil {
		return false
	}
	switch y := v.(type) {
	case *ssa.BinOp:
		return condReadsStorage(y.X, depth+1) || condReadsStorage(y.Y, depth+1)
	case *ssa.UnOp:
		return condReadsStorage(y.X, depth+1)
	case *ssa.Phi:
		for _, e := range y.Edges {
			if condReadsStorage(e, depth+1) {
				return true
			}
		}
		// a φ of booleans produced by short-circuit evaluation: look at the conditions of the predecessor Ifs
		for _, p := range y.Block().Preds {
			if ifi := condOf(p); ifi != nil && condReadsStorage(ifi.Cond, depth+1) {
				return true
			}
		}
	case *ssa.Extract:
		return condReadsStorage(y.Tuple, depth+1)
	case *ssa.Convert:
		return condReadsStorage(y.X, depth+1)
	case *ssa.ChangeType:
		return condReadsStorage(y.X, depth+1)
	case *ssa.Call:
		if rv := recvArg(&y.Call); rv != nil && isStorageType(rv.Type()) {
			return true
		}
		for _, a := range y.Call.Args {
			if isStorageType(a.Type()) {
				// a helper taking the storage: accept when it reads it
				if g := y.Call.StaticCallee(); g != nil && modLocal(g) {
					reads := false
					eachInstr(g, func(i ssa.Instruction) {
						if cc := asCall(i); cc != nil {
							if rv := recvArg(cc); rv != nil && isStorageType(rv.Type()) {
								reads = true
							}
						}
					})
					if reads {
						return true
					}
				}
			}
		}
	}
	return false
}

// ---- C05 -------------------------------------------------------------------------------

func checkC05(c *Ctx, r *Report, tier string) {
	round5(c, r, "C05")
	round6(c, r, "C05")
	round7(c, r, "C05")
	r.Rule("C05.R1", "send discipline (etcd/raft host contract): every send of rd.Messages is dominated by the persist call or guarded by the leader test; messages are never dropped; the leader id is assigned once per Ready before both tests", 3)
	r.Rule("C05.R2", "persist is one plain call on the same Ready, dominates every apply site, and its failure is fatal", 4)
	r.Rule("C05.R3", "Advance exactly once per Ready, after every apply site, on every path back to the select", 1)
	r.Rule("C05.R4", "every committed ConfChange reaches ApplyConfChange: the EntryConfChange branch of the in-order loop over CommittedEntries calls the handler with that entry; every non-error return of the handler is dominated by ApplyConfChange on the value unmarshalled from the entry", 3)
	r.Rule("C05.R5", "restart is not bootstrap: StartNode only under a fresh-log test on the same Storage", 1)
	r.Rule("C05.R7", "Step errors surface: the transport's receive path returns the error of Node.Step to the sender", 1)
	for _, k := range []string{"send#", "send-complete"} {
		r.Need("C05.R1", k, "the Ready loop's send sites must be found")
	}
	for _, k := range []string{"persist-site", "persist-error", "apply-site"} {
		r.Need("C05.R2", k, "the Ready loop's persist / apply sites must be found")
	}
	for _, k := range []string{"committed-loop", "confchange-branch", "apply-conf-change"} {
		r.Need("C05.R4", k, "the conf-change path must be found")
	}
	ids := map[string]string{"persist": "C05.R2", "fatal": "C05.R2", "dominates": "C05.R2", "send": "C05.R1", "advance": "C05.R3"}
	rl := raftLoopRules(c, r, ids)
	ro := discoverRoles(c)
	if rl != nil && rl.rd != nil {
		c05R4(c, r, rl, ro)
	}
	startNodeRule(c, r, "C05.R5")
	bootstrapOnlyWhenNothingPersisted(c, r, "C05.R5")
	r.Rule("C05.R8", "the log store never tells raft about entries it does not have: every path from an entry write to a successful return updates (or discards) the cached last index", 1)
	walCacheFollowsWrites(c, r, "C05.R8")
	r.Rule("C05.R9", "after a restart raft finds what it persisted: the hard state is written whenever it is not empty, all parts of a Ready reach their writer, compaction keeps the snapshot's anchor entry", 6)
	hardStateAlwaysWritten(c, r, "C05.R9")
	persistConsumesAllParts(c, r, "C05.R9")
	walCompactionKeepsAnchor(c, r, "C05.R9")
	r.Rule("C05.R10", "what raft finds after a crash is consistent: entries are staged before the hard state in one Save, a received snapshot wipes the whole log, snapshot and compaction are one batch; every Ready's committed entries are applied and its SoftState recorded", 5)
	persistOrder(c, r, "C05.R10")
	snapshotAndCompactionAtomic(c, r, "C05.R10")
	readyPartsIndependent(c, r, "C05.R10")
	r.Rule("C05.R11", "the membership record of a group is nil, ApplyConfChange's result or a snapshot's ConfState — never an invented value", 1)
	confStateOnlyFromRaft(c, r, "C05.R11")
	// R7: Step error propagation
	for _, f := range c.FuncsInPkg("storage/raft") {
		if !c.isProd(f) {
			continue
		}
		eachInstr(f, func(i ssa.Instruction) {
			cl, ok := i.(*ssa.Call)
			if !ok {
				return
			}
			id := callID(&cl.Call)
			if !(id.Name == "Step" && id.Recv == "Node") {
				return
			}
			ok2 := false
			for _, rt := range returnsOf(f) {
				if rt.Results[len(rt.Results)-1] == ssa.Value(cl) {
					ok2 = true
				}
			}
			r.Check(ok2, "C05.R7", fnName(f), "step-error", c.Pos(cl.Pos()), "the result of Node.Step is returned")
			// callers return it too
			for _, g := range c.FuncsInPkg("storage/raft") {
				eachInstr(g, func(j ssa.Instruction) {
					cc, ok := j.(*ssa.Call)
					if !ok || cc.Call.StaticCallee() != f {
						return
					}
					ifi, pol := errTestOf(g, cc)
					okc := false
					if ifi != nil {
						for _, rt := range returnsOf(g) {
							if guardedBy(rt.Block(), ifi, pol) && rt.Results[len(rt.Results)-1] == ssa.Value(cc) {
								okc = true
							}
						}
					}
					r.Check(okc, "C05.R7", fnName(g), "step-error-caller", c.Pos(cc.Pos()), "the receive handler returns the step error to the sender")
				})
			}
		})
	}
}

func c05R4(c *Ctx, r *Report, rl *readyLoop, ro *roles) {
	fn := rl.fn
	name := fnName(fn)
	// the entry cell: Alloc of raftpb.Entry stored from CommittedEntries elements
	var entry *ssa.Alloc
	eachInstr(fn, func(i ssa.Instruction) {
		st, ok := i.(*ssa.Store)
		if !ok {
			return
		}
		al, ok := st.Addr.(*ssa.Alloc)
		if !ok {
			return
		}
		if l, ok := loadOf(st.Val); ok {
			if ia, ok := l.(*ssa.IndexAddr); ok && readyField(ia.X, rl.rd) == "CommittedEntries" && isLoopCounter(ia.Index) {
				entry = al
			}
		}
	})
	if entry == nil {
		// the loop may live in a helper of the same receiver that is handed rd.CommittedEntries (applyCommittedEntries(entries, …))
		eachInstr(fn, func(i ssa.Instruction) {
			cl, ok := i.(*ssa.Call)
			if !ok || cl.Call.StaticCallee() == nil || !modLocal(cl.Call.StaticCallee()) || recvTypeName(cl.Call.StaticCallee()) != recvTypeName(fn) {
				return
			}
			g := cl.Call.StaticCallee()
			for k, a := range cl.Call.Args {
				if readyField(a, rl.rd) != "CommittedEntries" || k >= len(g.Params) {
					continue
				}
				p := g.Params[k]
				eachInstr(g, func(j ssa.Instruction) {
					st, ok := j.(*ssa.Store)
					if !ok {
						return
					}
					al, ok := st.Addr.(*ssa.Alloc)
					if !ok {
						return
					}
					if l, ok := loadOf(st.Val); ok {
						if ia, ok := l.(*ssa.IndexAddr); ok && strip(ia.X) == ssa.Value(p) && isLoopCounter(ia.Index) {
							entry = al
							fn = g
							name = fnName(g)
						}
					}
				})
			}
		})
	}
	if entry == nil {
		r.Unk("C05.R4", name, "committed-loop", c.Pos(fn.Pos()), "no in-order range loop over rd.CommittedEntries found")
		return
	}
	r.OK("C05.R4", name, "committed-loop", c.Pos(entry.Pos()), "CommittedEntries are processed by a plain in-order range loop on the loop goroutine")
	// the ConfChange branch: in the loop itself, or in the dispatch helper the loop hands each entry to
	findBranch := func(scope *ssa.Function, cell *ssa.Alloc) (*ssa.If, bool) {
		for _, ifi := range allIfs(scope) {
			b, ok := ifi.Cond.(*ssa.BinOp)
			if !ok || (b.Op != token.EQL && b.Op != token.NEQ) {
				continue
			}
			l, isL := loadOf(b.X)
			if !isL {
				continue
			}
			fa, isF := l.(*ssa.FieldAddr)
			if !isF || fa.X != ssa.Value(cell) || structField(fa.X.Type(), fa.Field).Name() != "Type" {
				continue
			}
			if k, ok := b.Y.(*ssa.Const); ok && k.Value != nil && k.Value.String() == "1" { // raftpb.EntryConfChange == 1
				return ifi, b.Op == token.EQL
			}
		}
		return nil, true
	}
	ccIf, ccPol := findBranch(fn, entry)
	outerEntry := entry
	if ccIf == nil {
		// dispatch helper: a plain call in the loop passing the loaded entry to a method of the same receiver
		var via *ssa.Call
		eachInstr(fn, func(i ssa.Instruction) {
			cl, ok := i.(*ssa.Call)
			if !ok || cl.Call.StaticCallee() == nil || !modLocal(cl.Call.StaticCallee()) || recvTypeName(cl.Call.StaticCallee()) != recvTypeName(fn) {
				return
			}
			for ai, a := range cl.Call.Args {
				if l, isL := loadOf(a); isL && l == ssa.Value(entry) && ai < len(cl.Call.StaticCallee().Params) {
					g := cl.Call.StaticCallee()
					// the helper's cell for that parameter
					eachInstr(g, func(j ssa.Instruction) {
						if st, isS := j.(*ssa.Store); isS && st.Val == ssa.Value(g.Params[ai]) {
							if al, isA := st.Addr.(*ssa.Alloc); isA {
								if ifi, pol := findBranch(g, al); ifi != nil {
									ccIf, ccPol, via = ifi, pol, cl
									entry = al
								}
							}
						}
					})
				}
			}
		})
		if via != nil {
			// the helper is called for every entry: no path from the entry store back to it avoids the call
			_, skipsHelper := reachesAvoiding(fn, via, func(ssa.Instruction) bool { return false }, nil)
			_ = skipsHelper
			fn = via.Call.StaticCallee()
			r.OK("C05.R4", name, "dispatch-helper", c.Pos(via.Pos()), "each committed entry is handed to "+fn.Name()+", which branches on its type")
		}
	}
	if ccIf == nil {
		r.Bad("C05.R4", name, "confchange-branch", c.Pos(outerEntry.Pos()), "no branch on entry.Type == EntryConfChange in the committed-entries loop")
		return
	}
	var handlerCall *ssa.Call
	eachInstr(fn, func(a ssa.Instruction) {
		if cl, ok := a.(*ssa.Call); ok && cl.Call.StaticCallee() != nil && guardedBy(cl.Block(), ccIf, ccPol) {
			for _, h := range ro.confChangeFns {
				if cl.Call.StaticCallee() == h {
					handlerCall = cl
				}
			}
		}
	})
	if handlerCall == nil {
		r.Bad("C05.R4", name, "confchange-branch", c.Pos(ccIf.Cond.Pos()), "the EntryConfChange branch does not call a function that reaches ApplyConfChange")
		return
	}
	// argument is the entry
	okArg := false
	for _, a := range handlerCall.Call.Args {
		if l, ok := loadOf(a); ok && l == ssa.Value(entry) {
			okArg = true
		}
	}
	// every path through the branch passes the handler: from the branch start to the loop latch avoiding the call
	first := firstInstr(succOn(ccIf, ccPol))
	_, skip := reachesAvoidingFrom(fn, first, func(i ssa.Instruction) bool {
		st, isS := i.(*ssa.Store)
		_, isRet := i.(*ssa.Return)
		return (isS && st.Addr == ssa.Value(entry) && fn == rl.fn) || (isRet && fn != rl.fn) || func() bool { _, ok := i.(*ssa.Select); return ok }()
	}, func(i ssa.Instruction) bool { return i == ssa.Instruction(handlerCall) })
	r.Check(okArg && !skip, "C05.R4", name, "confchange-branch", c.Pos(handlerCall.Pos()), "every committed EntryConfChange is handed to the handler")
	h := handlerCall.Call.StaticCallee()
	// handler: each nil-error return dominated by ApplyConfChange(cc) where cc.Unmarshal(entry.Data)
	var applyCC *ssa.Call
	eachInstr(h, func(i ssa.Instruction) {
		if cl, ok := i.(*ssa.Call); ok && callID(&cl.Call).Name == "ApplyConfChange" {
			applyCC = cl
		}
	})
	okH := applyCC != nil
	why := "every successful return of the handler is dominated by ApplyConfChange on the change unmarshalled from the entry"
	if applyCC != nil {
		for _, rt := range returnsOf(h) {
			last := rt.Results[len(rt.Results)-1]
			if isNilConst(last) && !instrDominates(applyCC, rt.Return) {
				okH = false
				why = "a successful return at " + c.Pos(rt.Pos()) + " skips ApplyConfChange"
			}
		}
		// the argument was unmarshalled from the entry's Data
		arg := explicitArgs(&applyCC.Call)[0]
		cell, isL := loadOf(arg)
		okU := false
		if isL {
			eachInstr(h, func(i ssa.Instruction) {
				if cl, ok := i.(*ssa.Call); ok && callID(&cl.Call).Name == "Unmarshal" && len(cl.Call.Args) == 2 && cl.Call.Args[0] == cell {
					if l, ok := loadOf(cl.Call.Args[1]); ok {
						if fa, ok := l.(*ssa.FieldAddr); ok && structField(fa.X.Type(), fa.Field).Name() == "Data" {
							okU = true
						}
					}
				}
			})
		}
		if !okU {
			okH = false
			why = "the value given to ApplyConfChange is not the change unmarshalled from entry.Data"
		}
	} else {
		why = "handler does not call ApplyConfChange"
	}
	r.Check(okH, "C05.R4", fnName(h), "apply-conf-change", c.Pos(h.Pos()), why)
}
