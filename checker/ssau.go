package main

import (
	"fmt"
	"go/constant"
	"go/token"
	"go/types"
	"strings"

	"golang.org/x/tools/go/ssa"
)

// ---- callee identity ----------------------------------------------------------

type CallID struct{ Pkg, Recv, Name string }

func (c CallID) String() string {
	if c.Recv != "" {
		return c.Pkg + ".(" + c.Recv + ")." + c.Name
	}
	return c.Pkg + "." + c.Name
}

func namedOf(t types.Type) *types.Named {
	for {
		switch x := t.(type) {
		case *types.Pointer:
			t = x.Elem()
			continue
		case *types.Named:
			return x
		case *types.Alias:
			t = types.Unalias(x)
			continue
		}
		return nil
	}
}

func typeName(t types.Type) string {
	if n := namedOf(t); n != nil {
		return n.Obj().Name()
	}
	return t.String()
}

func typePkg(t types.Type) string {
	if n := namedOf(t); n != nil && n.Obj().Pkg() != nil {
		return n.Obj().Pkg().Path()
	}
	return ""
}

func callID(cc *ssa.CallCommon) CallID {
	if cc.IsInvoke() {
		m := cc.Method
		id := CallID{Name: m.Name(), Recv: typeName(cc.Value.Type())}
		if m.Pkg() != nil {
			id.Pkg = m.Pkg().Path()
		}
		if p := typePkg(cc.Value.Type()); p != "" {
			id.Pkg = p
		}
		return id
	}
	switch v := cc.Value.(type) {
	case *ssa.Builtin:
		return CallID{Pkg: "builtin", Name: v.Name()}
	case *ssa.Function:
		return fnID(v)
	case *ssa.MakeClosure:
		if f, ok := v.Fn.(*ssa.Function); ok {
			return fnID(f)
		}
	}
	return CallID{Pkg: "?", Name: "dynamic"}
}

func fnID(f *ssa.Function) CallID {
	id := CallID{Name: f.Name(), Pkg: fnPkgPath(f)}
	if f.Signature != nil && f.Signature.Recv() != nil {
		id.Recv = typeName(f.Signature.Recv().Type())
		if p := typePkg(f.Signature.Recv().Type()); p != "" {
			id.Pkg = p
		}
	}
	if o := f.Object(); o != nil && o.Pkg() != nil && id.Recv == "" {
		id.Pkg = o.Pkg().Path()
	}
	return id
}

// is reports whether the call id matches; pkg is matched by suffix ("sync", "badger/v2", ...).
func (c CallID) is(pkgSuffix, recv, name string) bool {
	if c.Name != name || c.Recv != recv {
		return false
	}
	return pkgSuffix == "" || c.Pkg == pkgSuffix || strings.HasSuffix(c.Pkg, "/"+pkgSuffix)
}

func asCall(i ssa.Instruction) *ssa.CallCommon {
	switch x := i.(type) {
	case *ssa.Call:
		return &x.Call
	case *ssa.Go:
		return &x.Call
	case *ssa.Defer:
		return &x.Call
	}
	return nil
}

// plainCall: a *ssa.Call (not go / defer)
func plainCall(i ssa.Instruction) *ssa.CallCommon {
	if x, ok := i.(*ssa.Call); ok {
		return &x.Call
	}
	return nil
}

func staticCallee(cc *ssa.CallCommon) *ssa.Function {
	if f := cc.StaticCallee(); f != nil {
		return f
	}
	return nil
}

// recvArg returns the receiver value of a method call (invoke or static).
func recvArg(cc *ssa.CallCommon) ssa.Value {
	if cc.IsInvoke() {
		return cc.Value
	}
	if f := cc.StaticCallee(); f != nil && f.Signature.Recv() != nil && len(cc.Args) > 0 {
		return cc.Args[0]
	}
	return nil
}

// explicit args (without receiver)
func explicitArgs(cc *ssa.CallCommon) []ssa.Value {
	if cc.IsInvoke() {
		return cc.Args
	}
	if f := cc.StaticCallee(); f != nil && f.Signature.Recv() != nil && len(cc.Args) > 0 {
		return cc.Args[1:]
	}
	return cc.Args
}

// ---- no-return table (SA-NORET) ---------------------------------------------------

func noReturnCall(cc *ssa.CallCommon) bool {
	id := callID(cc)
	if id.Pkg == "builtin" && id.Name == "panic" {
		return true
	}
	if id.is("os", "", "Exit") {
		return true
	}
	if strings.HasSuffix(id.Pkg, "sirupsen/logrus") || id.Pkg == "log" {
		if strings.HasPrefix(id.Name, "Fatal") || strings.HasPrefix(id.Name, "Panic") {
			return true
		}
	}
	return false
}

func instrNoReturn(i ssa.Instruction) bool {
	if c, ok := i.(*ssa.Call); ok {
		return noReturnCall(&c.Call)
	}
	if _, ok := i.(*ssa.Panic); ok {
		return true
	}
	return false
}

// ---- iteration ---------------------------------------------------------------

func eachInstr(fn *ssa.Function, f func(ssa.Instruction)) {
	for _, b := range fn.Blocks {
		for _, i := range b.Instrs {
			f(i)
		}
	}
}

func indexIn(b *ssa.BasicBlock, i ssa.Instruction) int {
	for k, x := range b.Instrs {
		if x == i {
			return k
		}
	}
	return -1
}

// ---- path search on the pruned CFG (SA-PATH) -----------------------------------------

// reachesAvoiding reports whether some execution path starting right after `from` reaches an
// instruction satisfying target without first passing an instruction satisfying avoid. No-return
// calls terminate a path. If from is nil the search starts at function entry.
func reachesAvoiding(fn *ssa.Function, from ssa.Instruction, target, avoid func(ssa.Instruction) bool) (ssa.Instruction, bool) {
	type st struct {
		b *ssa.BasicBlock
		i int
	}
	var work []st
	seen := map[*ssa.BasicBlock]bool{}
	if from == nil {
		if len(fn.Blocks) == 0 {
			return nil, false
		}
		work = append(work, st{fn.Blocks[0], 0})
		seen[fn.Blocks[0]] = true
	} else {
		b := from.Block()
		work = append(work, st{b, indexIn(b, from) + 1})
	}
	for len(work) > 0 {
		s := work[len(work)-1]
		work = work[:len(work)-1]
		stopped := false
		for k := s.i; k < len(s.b.Instrs); k++ {
			in := s.b.Instrs[k]
			if target(in) {
				return in, true
			}
			if avoid != nil && avoid(in) {
				stopped = true
				break
			}
			if instrNoReturn(in) {
				stopped = true
				break
			}
		}
		if stopped {
			continue
		}
		for _, nb := range s.b.Succs {
			if !seen[nb] {
				seen[nb] = true
				work = append(work, st{nb, 0})
			}
		}
	}
	return nil, false
}

// instrDominates: a executes before b on every path from entry to b (same function).
func instrDominates(a, b ssa.Instruction) bool {
	ba, bb := a.Block(), b.Block()
	if ba == bb {
		return indexIn(ba, a) < indexIn(bb, b)
	}
	return ba.Dominates(bb)
}

// guardedBy: block blk can only be entered through the `polarity` edge of the If terminating ifBlk.
func guardedBy(blk *ssa.BasicBlock, ifi *ssa.If, polarity bool) bool {
	ib := ifi.Block()
	idx := 0
	if !polarity {
		idx = 1
	}
	s := ib.Succs[idx]
	other := ib.Succs[1-idx]
	if s == other {
		return false
	}
	// s must be entered only from ib (or from blocks s itself dominates: loop back edges)
	for _, p := range s.Preds {
		if p != ib && !s.Dominates(p) {
			return false
		}
	}
	return s == blk || s.Dominates(blk)
}

// condOf returns the If instruction ending the block, if any.
func condOf(b *ssa.BasicBlock) *ssa.If {
	if len(b.Instrs) == 0 {
		return nil
	}
	ifi, _ := b.Instrs[len(b.Instrs)-1].(*ssa.If)
	return ifi
}

// allIfs lists every If in the function.
func allIfs(fn *ssa.Function) []*ssa.If {
	var out []*ssa.If
	for _, b := range fn.Blocks {
		if i := condOf(b); i != nil {
			out = append(out, i)
		}
	}
	return out
}

// ---- value helpers ------------------------------------------------------------

// strip peels conversions that keep identity of the underlying value.
func strip(v ssa.Value) ssa.Value {
	for {
		switch x := v.(type) {
		case *ssa.ChangeType:
			v = x.X
		case *ssa.Convert:
			v = x.X
		case *ssa.MakeInterface:
			v = x.X
		case *ssa.ChangeInterface:
			v = x.X
		case *ssa.TypeAssert:
			v = x.X
		case *ssa.MultiConvert:
			v = x.X
		default:
			return v
		}
	}
}

func isNilConst(v ssa.Value) bool {
	c, ok := v.(*ssa.Const)
	return ok && c.Value == nil
}

func constInt(v ssa.Value) (int64, bool) {
	c, ok := strip(v).(*ssa.Const)
	if !ok || c.Value == nil || c.Value.Kind() != constant.Int {
		return 0, false
	}
	n, ok := constant.Int64Val(c.Value)
	if !ok {
		if u, ok2 := constant.Uint64Val(c.Value); ok2 {
			return int64(u), true
		}
	}
	return n, ok
}

// loadOf: if v is a load `*addr`, return addr.
func loadOf(v ssa.Value) (ssa.Value, bool) {
	if u, ok := v.(*ssa.UnOp); ok && u.Op == token.MUL {
		return u.X, true
	}
	return nil, false
}

// fieldOfAddr: the struct field an address designates (through IndexAddr), or nil.
func fieldOfAddr(addr ssa.Value) *types.Var {
	for {
		switch x := addr.(type) {
		case *ssa.FieldAddr:
			return structField(x.X.Type(), x.Field)
		case *ssa.IndexAddr:
			// element of an array/slice stored in a field: x.X is either the address of an array
			// field or a loaded slice
			if l, ok := loadOf(x.X); ok {
				addr = l
			} else {
				addr = x.X
			}
		default:
			return nil
		}
	}
}

func structField(t types.Type, idx int) *types.Var {
	if p, ok := t.Underlying().(*types.Pointer); ok {
		t = p.Elem()
	}
	st, ok := t.Underlying().(*types.Struct)
	if !ok || idx >= st.NumFields() {
		return nil
	}
	return st.Field(idx)
}

// fieldOfValue: the field whose content v is (a load of a field address, or a Field of a struct value,
// or an element of such a field).
func fieldOfValue(v ssa.Value) *types.Var {
	v = strip(v)
	switch x := v.(type) {
	case *ssa.UnOp:
		if x.Op == token.MUL {
			return fieldOfAddr(x.X)
		}
	case *ssa.Field:
		return structField(x.X.Type(), x.Field)
	case *ssa.Index:
		return fieldOfValue(x.X)
	case *ssa.Lookup:
		return fieldOfValue(x.X)
	}
	return nil
}

// path is a function-local textual access path used as identity for locks / maps.
func path(v ssa.Value) string {
	switch x := v.(type) {
	case nil:
		return "<nil>"
	case *ssa.Parameter:
		return x.Name()
	case *ssa.FreeVar:
		return "^" + x.Name()
	case *ssa.FieldAddr:
		f := structField(x.X.Type(), x.Field)
		n := fmt.Sprint(x.Field)
		if f != nil {
			n = f.Name()
		}
		return path(x.X) + "." + n
	case *ssa.Field:
		f := structField(x.X.Type(), x.Field)
		n := fmt.Sprint(x.Field)
		if f != nil {
			n = f.Name()
		}
		return path(x.X) + "." + n
	case *ssa.IndexAddr:
		return path(x.X) + "[" + path(x.Index) + "]"
	case *ssa.Index:
		return path(x.X) + "[" + path(x.Index) + "]"
	case *ssa.UnOp:
		if x.Op == token.MUL {
			return path(x.X)
		}
		return x.Name()
	case *ssa.Const:
		if x.Value == nil {
			return "nil"
		}
		return x.Value.ExactString()
	case *ssa.Extract:
		return x.Tuple.Name() + "#" + fmt.Sprint(x.Index)
	case *ssa.ChangeType:
		return path(x.X)
	case *ssa.Convert:
		return path(x.X)
	case *ssa.Global:
		return "global:" + x.Name()
	case *ssa.Alloc:
		return "&" + x.Name()
	}
	return v.Name()
}

// storesTo lists values stored into the given address value within fn (direct Stores only).
func storesTo(fn *ssa.Function, addr ssa.Value) []*ssa.Store {
	var out []*ssa.Store
	if addr.Referrers() == nil {
		return nil
	}
	for _, r := range *addr.Referrers() {
		if s, ok := r.(*ssa.Store); ok && s.Addr == addr {
			out = append(out, s)
		}
	}
	return out
}

// origins computes a backward slice of v: the set of "leaf" values it may derive from, looking through
// phis, conversions, extracts, loads of local allocs (via the values stored to them), slices, and
// optionally through calls to module-local functions (their returned values) up to depth.
type originOpt struct {
	throughCalls int // depth of module-local call results to follow
	keepCalls    bool
}

func origins(v ssa.Value, opt originOpt) []ssa.Value {
	seen := map[ssa.Value]bool{}
	var out []ssa.Value
	var walk func(v ssa.Value, depth int)
	walk = func(v ssa.Value, depth int) {
		if v == nil || seen[v] {
			return
		}
		seen[v] = true
		switch x := v.(type) {
		case *ssa.Phi:
			for _, e := range x.Edges {
				walk(e, depth)
			}
		case *ssa.ChangeType:
			walk(x.X, depth)
		case *ssa.Convert:
			walk(x.X, depth)
		case *ssa.MakeInterface:
			walk(x.X, depth)
		case *ssa.ChangeInterface:
			walk(x.X, depth)
		case *ssa.TypeAssert:
			walk(x.X, depth)
		case *ssa.Slice:
			walk(x.X, depth)
		case *ssa.Extract:
			if c, ok := x.Tuple.(*ssa.Call); ok && depth > 0 {
				if f := c.Call.StaticCallee(); f != nil && strings.HasPrefix(fnPkgPath(f), modPath) && len(f.Blocks) > 0 {
					for _, r := range returnsOf(f) {
						if x.Index < len(r.Results) {
							walk(r.Results[x.Index], depth-1)
						}
					}
					if opt.keepCalls {
						out = append(out, v)
					}
					return
				}
			}
			out = append(out, v)
		case *ssa.Call:
			if f := x.Call.StaticCallee(); f != nil && depth > 0 && strings.HasPrefix(fnPkgPath(f), modPath) && len(f.Blocks) > 0 {
				for _, r := range returnsOf(f) {
					if len(r.Results) == 1 {
						walk(r.Results[0], depth-1)
					}
				}
				if opt.keepCalls {
					out = append(out, v)
				}
				return
			}
			out = append(out, v)
		case *ssa.UnOp:
			if x.Op == token.MUL {
				if a, ok := x.X.(*ssa.Alloc); ok {
					st := storesTo(a.Parent(), a)
					if len(st) > 0 {
						for _, s := range st {
							walk(s.Val, depth)
						}
						return
					}
				}
			}
			out = append(out, v)
		default:
			out = append(out, v)
		}
	}
	walk(v, opt.throughCalls)
	return out
}

// usesValue reports whether instruction i has v among its operands (after stripping conversions on the operand side).
func usesValue(i ssa.Instruction, v ssa.Value) bool {
	var buf [8]*ssa.Value
	for _, op := range i.Operands(buf[:0]) {
		if *op == v {
			return true
		}
	}
	return false
}

// transitive users of v within its function (through conversions/phis/extracts), calling f for each instruction.
func eachTransitiveUse(v ssa.Value, f func(user ssa.Instruction, via ssa.Value)) {
	seen := map[ssa.Value]bool{}
	var walk func(v ssa.Value)
	walk = func(v ssa.Value) {
		if seen[v] || v.Referrers() == nil {
			return
		}
		seen[v] = true
		for _, r := range *v.Referrers() {
			f(r, v)
			switch x := r.(type) {
			case *ssa.Phi:
				walk(x)
			case *ssa.ChangeType:
				walk(x)
			case *ssa.Convert:
				walk(x)
			case *ssa.MakeInterface:
				walk(x)
			case *ssa.ChangeInterface:
				walk(x)
			case *ssa.TypeAssert:
				walk(x)
			case *ssa.Extract:
				walk(x)
			case *ssa.Slice:
				walk(x)
			}
		}
	}
	walk(v)
}

// Ret is a return site with defer-spilled results resolved: in a function with `defer`, the builder
// stores each result into a named-result cell, runs the defers and reloads; Results then holds the stored values.
type Ret struct {
	*ssa.Return
	Results []ssa.Value
}

// returnsOf lists the normal return sites of fn (the synthetic recover block is skipped).
func returnsOf(fn *ssa.Function) []*Ret {
	var out []*Ret
	for _, b := range fn.Blocks {
		if len(b.Instrs) == 0 || b == fn.Recover {
			continue
		}
		r, ok := b.Instrs[len(b.Instrs)-1].(*ssa.Return)
		if !ok {
			continue
		}
		rt := &Ret{Return: r, Results: append([]ssa.Value{}, r.Results...)}
		for k, v := range rt.Results {
			a, ok := loadOf(v)
			if !ok {
				continue
			}
			al, ok := a.(*ssa.Alloc)
			if !ok {
				continue
			}
			// last store to the cell in this block before the return
			for j := len(b.Instrs) - 1; j >= 0; j-- {
				if st, ok := b.Instrs[j].(*ssa.Store); ok && st.Addr == al {
					rt.Results[k] = st.Val
					break
				}
			}
		}
		out = append(out, rt)
	}
	return out
}

// callsTo lists call instructions (any kind) in fn whose callee id satisfies pred.
func callsTo(fn *ssa.Function, pred func(CallID) bool) []ssa.CallInstruction {
	var out []ssa.CallInstruction
	eachInstr(fn, func(i ssa.Instruction) {
		if ci, ok := i.(ssa.CallInstruction); ok {
			if pred(callID(ci.Common())) {
				out = append(out, ci)
			}
		}
	})
	return out
}

// closuresOf lists anonymous functions (transitively) defined in fn.
func closuresOf(fn *ssa.Function) []*ssa.Function {
	var out []*ssa.Function
	for _, a := range fn.AnonFuncs {
		out = append(out, a)
		out = append(out, closuresOf(a)...)
	}
	return out
}

// modLocal reports whether f is a hand-written module function with a body.
func modLocal(f *ssa.Function) bool {
	return f != nil && len(f.Blocks) > 0 && strings.HasPrefix(fnPkgPath(f), modPath)
}

// reachableFrom computes the set of module-local functions reachable from roots via static calls,
// closures created, and (if cg != nil) call-graph edges. `go`/`defer` calls are followed too unless skipGo.
func (c *Ctx) reachableFrom(roots []*ssa.Function, useCG bool, skipGo bool) map[*ssa.Function]bool {
	seen := map[*ssa.Function]bool{}
	var work []*ssa.Function
	push := func(f *ssa.Function) {
		if modLocal(f) && !seen[f] {
			seen[f] = true
			work = append(work, f)
		}
	}
	for _, r := range roots {
		push(r)
	}
	for len(work) > 0 {
		f := work[len(work)-1]
		work = work[:len(work)-1]
		eachInstr(f, func(i ssa.Instruction) {
			if _, isGo := i.(*ssa.Go); isGo && skipGo {
				return
			}
			if mc, ok := i.(*ssa.MakeClosure); ok {
				if af, ok := mc.Fn.(*ssa.Function); ok && !(af.Synthetic != "" && !useCG) {
					// (without a call graph, a bound-method value is a reference, not a call: not followed)
					// a closure created here may be called by anyone it is handed to: follow it,
					// unless it is only the operand of a `go` statement and skipGo is set.
					onlyGo := skipGo
					if onlyGo && mc.Referrers() != nil {
						for _, r := range *mc.Referrers() {
							if _, g := r.(*ssa.Go); !g {
								onlyGo = false
							}
						}
					}
					if !onlyGo {
						push(af)
					}
				}
			}
			// function values used as operands (func literals without captures, method expressions)
			var ops [12]*ssa.Value
			for _, op := range i.Operands(ops[:0]) {
				if fv, ok := (*op).(*ssa.Function); ok && (fv.Synthetic == "" || useCG) {
					if _, isGo := i.(*ssa.Go); !(isGo && skipGo) {
						push(fv)
					}
				}
			}
			cc := asCall(i)
			if cc == nil {
				return
			}
			if sf := cc.StaticCallee(); sf != nil {
				push(sf)
				return
			}
			if useCG {
				if n := c.CG().Nodes[f]; n != nil {
					for _, e := range n.Out {
						if e.Site == i {
							push(e.Callee.Func)
						}
					}
				}
			}
		})
	}
	return seen
}

// flatArgs expands a variadic call's packed argument slice (new [n]T (varargs) + stores + slice) into its elements.
func flatArgs(cc *ssa.CallCommon) []ssa.Value {
	args := explicitArgs(cc)
	if len(args) == 0 || !cc.Signature().Variadic() {
		return args
	}
	last := args[len(args)-1]
	sl, ok := last.(*ssa.Slice)
	if !ok {
		return args
	}
	al, ok := sl.X.(*ssa.Alloc)
	if !ok || al.Comment != "varargs" {
		return args
	}
	out := append([]ssa.Value{}, args[:len(args)-1]...)
	elems := map[int64]ssa.Value{}
	var max int64 = -1
	for _, r := range *al.Referrers() {
		ia, ok := r.(*ssa.IndexAddr)
		if !ok {
			continue
		}
		n, ok := constInt(ia.Index)
		if !ok {
			continue
		}
		for _, rr := range *ia.Referrers() {
			if st, ok := rr.(*ssa.Store); ok && st.Addr == ia {
				elems[n] = st.Val
				if n > max {
					max = n
				}
			}
		}
	}
	for i := int64(0); i <= max; i++ {
		out = append(out, elems[i])
	}
	return out
}
