package main

import (
	"bufio"
	"bytes"
	"encoding/json"
	"fmt"
	"go/token"
	"os"
	"os/exec"
	"path/filepath"
	"regexp"
	"sort"
	"strconv"
	"strings"

	"golang.org/x/tools/go/ssa"
)

func init() { register("C15", checkC15) }

// SA-ASM -----------------------------------------------------------------------------------------------

type asmInstr struct {
	addr     string
	mnem     string
	ops      []string
	raw      string
	vex      bool
	memIdx   int    // index of the memory operand in ops, -1 if none
	memSize  string // byte|word|dword|qword|xmmword|ymmword
	memBase  string
	memIndex string
}

var memRe = regexp.MustCompile(`(?:(byte|word|dword|qword|xmmword|ymmword|zmmword) ptr )?\[([^\]]+)\]`)
var regRe = regexp.MustCompile(`\b(r[a-z0-9]+|e[a-z]{2}|[a-z]{2}l?)\b`)

func parseObjdump(out []byte) []asmInstr {
	var ins []asmInstr
	sc := bufio.NewScanner(bytes.NewReader(out))
	sc.Buffer(make([]byte, 1<<20), 1<<20)
	line := regexp.MustCompile(`^\s*([0-9a-f]+):\s+(\S+)\s*(.*)$`)
	for sc.Scan() {
		m := line.FindStringSubmatch(sc.Text())
		if m == nil {
			continue
		}
		rest := m[3]
		if i := strings.Index(rest, "#"); i >= 0 {
			rest = rest[:i]
		}
		rest = strings.TrimSpace(rest)
		a := asmInstr{addr: m[1], mnem: m[2], raw: strings.TrimSpace(m[2] + " " + rest), memIdx: -1}
		if a.mnem == "int3" || a.mnem == "nop" || a.mnem == "nopw" || a.mnem == "nopl" {
			continue
		}
		a.vex = strings.HasPrefix(a.mnem, "v")
		if rest != "" {
			// split operands on commas outside brackets
			depth := 0
			cur := ""
			for _, ch := range rest {
				switch ch {
				case '[':
					depth++
				case ']':
					depth--
				}
				if ch == ',' && depth == 0 {
					a.ops = append(a.ops, strings.TrimSpace(cur))
					cur = ""
					continue
				}
				cur += string(ch)
			}
			a.ops = append(a.ops, strings.TrimSpace(cur))
		}
		for k, op := range a.ops {
			if mm := memRe.FindStringSubmatch(op); mm != nil {
				a.memIdx = k
				a.memSize = mm[1]
				parts := strings.FieldsFunc(mm[2], func(r rune) bool { return r == '+' || r == '-' })
				for _, p := range parts {
					p = strings.TrimSpace(p)
					if strings.Contains(p, "*") {
						f := strings.Split(p, "*")
						a.memIndex = strings.TrimSpace(f[len(f)-1])
						if regRe.MatchString(strings.TrimSpace(f[0])) && !regRe.MatchString(a.memIndex) {
							a.memIndex = strings.TrimSpace(f[0])
						}
					} else if regRe.MatchString(p) && !isNumber(p) {
						if a.memBase == "" {
							a.memBase = p
						} else if a.memIndex == "" {
							a.memIndex = p
						}
					}
				}
			}
		}
		ins = append(ins, a)
	}
	return ins
}

func isNumber(s string) bool {
	if s == "" {
		return false
	}
	for _, r := range s {
		if !(r >= '0' && r <= '9') && r != 'x' && !(r >= 'a' && r <= 'f') {
			return false
		}
	}
	return s[0] >= '0' && s[0] <= '9'
}

// canonical 64-bit name of a general register
func reg64(r string) string {
	m := map[string]string{"eax": "rax", "ebx": "rbx", "ecx": "rcx", "edx": "rdx", "esi": "rsi", "edi": "rdi", "ebp": "rbp", "esp": "rsp",
		"ax": "rax", "bx": "rbx", "cx": "rcx", "dx": "rdx", "si": "rsi", "di": "rdi", "al": "rax", "bl": "rbx", "cl": "rcx", "dl": "rdx", "sil": "rsi", "dil": "rdi"}
	if v, ok := m[r]; ok {
		return v
	}
	if strings.HasPrefix(r, "r") && len(r) >= 2 && r[1] >= '0' && r[1] <= '9' {
		return strings.TrimRight(r, "dwb")
	}
	return r
}

func isGPR(op string) bool {
	op = strings.TrimSpace(op)
	if strings.ContainsAny(op, "[ ") {
		return false
	}
	switch reg64(op) {
	case "rax", "rbx", "rcx", "rdx", "rsi", "rdi", "rbp", "rsp", "r8", "r9", "r10", "r11", "r12", "r13", "r14", "r15":
		return true
	}
	return false
}

func isVecReg(op string) bool {
	op = strings.TrimSpace(op)
	return strings.HasPrefix(op, "xmm") || strings.HasPrefix(op, "ymm") || strings.HasPrefix(op, "zmm")
}

var unalignedOK = map[string]bool{"movups": true, "movupd": true, "movdqu": true, "lddqu": true, "vmovups": true, "vmovupd": true, "vmovdqu": true, "vlddqu": true}
var alignedVex = map[string]bool{"vmovaps": true, "vmovapd": true, "vmovdqa": true, "vmovntps": true, "vmovntpd": true, "vmovntdq": true, "vmovntdqa": true}

// alignmentChecked: does this instruction fault on a misaligned 16/32-byte memory operand?
func (a asmInstr) alignmentChecked() bool {
	if a.memIdx < 0 || (a.memSize != "xmmword" && a.memSize != "ymmword") {
		return false
	}
	if a.vex {
		return alignedVex[a.mnem] // VEX arithmetic tolerates misalignment
	}
	return !unalignedOK[a.mnem] // every legacy-SSE instruction with an m128 operand requires alignment, except the explicit unaligned moves
}

func checkC15(c *Ctx, r *Report, tier string) {
	round5(c, r, "C15")
	round6(c, r, "C15")
	round7(c, r, "C15")
	r.Rule("C15.R1", "alignment independence (object code built from the current .s files): no instruction with an alignment-checked memory operand (movaps/movdqa/…, their VEX forms, and every legacy-SSE packed instruction with an m128 source) addresses memory through one of the two data pointers (the linker-aligned constant pool is exempt)", 6)
	r.Rule("C15.R2", "stores go only to the result slots (the pointers loaded from the 4th/5th argument) or the stack; the data pointers and the length register are never written", 6)
	r.Rule("C15.R3", "control flow is a function of the length alone: no move from a vector register or from data memory into a general register, no comiss/ucomiss/ptest/movmsk feeding flags", 6)
	r.Rule("C15.R9", "the kernels leave the floating-point control state alone: no ldmxcsr / vldmxcsr / fldcw / fxrstor / xrstor — rounding mode, flush-to-zero and denormals-are-zero belong to the Go runtime's thread, and a kernel that changes them changes every later result on that thread, the portable kernels' included", 6)
	r.Rule("C15.R12", "the kernel reads its two vectors alike: as many memory operands of each width through one data pointer as through the other", 6)
	r.Rule("C15.R13", "a vector register zeroed in front of a loop and read in it is written in it (accumulators accumulate)", 6)
	r.Rule("C15.R10", "the unrolled loop is entered exactly when a full round of it fits: where a kernel reduces the block count modulo its unroll factor U (`and r32, U-1`), the test that follows compares the rounded length minus one with (U-1)·W, W = floats per vector load (`test blocks-1` for U = 2)", 2)
	r.Rule("C15.R11", "every accumulated value reaches the result: on every path from a scalar accumulate (addss / vaddss) to ret the result slot is stored", 6)
	r.Rule("C15.R5", "head/tail split is consistent with the vector width: with W = floats per widest load through a data pointer, every `and reg, -M` rounding the length has M = W, and every `not reg; or reg, K` (the complement of that rounding, used to count the scalar tail) has K = W-1", 6)
	r.Rule("C15.R6", "non-negative: every Space.Distance result is, by sign analysis of the Go wrappers, a sum of squares / absolute values, a square root, or passed through Abs/Max(0,·) — never the raw result of a floating-point subtraction such as 1 - cos", 3)
	distancesNonNegative(c, r, "C15.R6")
	r.Rule("C15.R7", "each Space implementation dispatches to the kernels of one instruction set only", 2)
	implUsesOneInstructionSet(c, r, "C15.R7")
	r.Rule("C15.R8", "the kernels are only ever given equal-length vectors: every RPC path to a vector operation passes the dimension guard (borrowed from C12.R1)", 3)
	borrow(c, r, "C12", "C12.R1", "C15.R8", "")
	r.Rule("C15.R4", "wrapper contract (Go SSA): the length argument is len of the first slice parameter, the data arguments are &p0[0] and &p1[0] in that order, result arguments are addresses of fresh locals; the dispatch wrappers pass (a, b) through unchanged", 12)
	// ---- R4 first (pure SSA) ----
	kernels := map[string][]string{} // pkg rel -> stub names
	for _, rel := range []string{"simd/avx", "simd/sse"} {
		sp := c.SSAPkg(rel)
		if sp == nil {
			r.Unk("C15.R4", rel, "package", "-", "package not found")
			continue
		}
		for _, f := range c.FuncsInPkg(rel) {
			if !c.isProd(f) || f.Parent() != nil {
				continue
			}
			n := 0
			eachInstr(f, func(i ssa.Instruction) {
				cl, ok := i.(*ssa.Call)
				if !ok {
					return
				}
				stub := cl.Call.StaticCallee()
				if stub == nil || len(stub.Blocks) != 0 || fnPkgPath(stub) != modPath+"/"+rel {
					return
				}
				n++
				kernels[rel] = append(kernels[rel], stub.Name())
				args := cl.Call.Args
				if len(args) < 4 || len(f.Params) != 2 {
					r.Bad("C15.R4", fnName(f), "stub-call", c.Pos(cl.Pos()), "unexpected arity of the kernel call / wrapper")
					return
				}
				p0, p1 := ssa.Value(f.Params[0]), ssa.Value(f.Params[1])
				// arg0: unsafe.Pointer(uintptr(len(p0)))
				okLen := false
				for _, o := range leafOperands(args[0]) {
					if lc, ok := o.(*ssa.Call); ok && callID(&lc.Call).is("builtin", "", "len") && lc.Call.Args[0] == p0 {
						okLen = true
					} else {
						okLen = false
						break
					}
				}
				first := func(v ssa.Value, p ssa.Value) bool {
					ia, ok := strip(v).(*ssa.IndexAddr)
					if !ok || ia.X != p {
						return false
					}
					n, isC := constInt(ia.Index)
					return isC && n == 0
				}
				okA, okB := first(args[1], p0), first(args[2], p1)
				okRes := true
				seen := map[ssa.Value]bool{}
				for _, a := range args[3:] {
					al, ok := strip(a).(*ssa.Alloc)
					if !ok || seen[al] {
						okRes = false
					}
					seen[strip(a)] = true
				}
				r.Check(okLen && okA && okB && okRes, "C15.R4", fnName(f), "stub-call", c.Pos(cl.Pos()),
					fmt.Sprintf("length=len(%s): %v, a=&%s[0]: %v, b=&%s[0]: %v, results are distinct fresh locals: %v", f.Params[0].Name(), okLen, f.Params[0].Name(), okA, f.Params[1].Name(), okB, okRes))
			})
		}
	}
	// dispatch wrappers in index/space
	for _, f := range c.FuncsInPkg("index/space") {
		if !c.isProd(f) || f.Parent() != nil || len(f.Params) != 3 {
			continue
		}
		eachInstr(f, func(i ssa.Instruction) {
			cl, ok := i.(*ssa.Call)
			if !ok || cl.Call.StaticCallee() == nil {
				return
			}
			t := cl.Call.StaticCallee()
			if !strings.HasPrefix(fnPkgPath(t), modPath+"/simd/") || len(cl.Call.Args) != 2 {
				return
			}
			ok2 := strip(cl.Call.Args[0]) == ssa.Value(f.Params[1]) && strip(cl.Call.Args[1]) == ssa.Value(f.Params[2])
			// the kernel matches the method's name (Euclidean -> Euclidean …)
			okName := t.Name() == f.Name()
			r.Check(ok2 && okName, "C15.R4", fnName(f), "dispatch", c.Pos(cl.Pos()), fmt.Sprintf("calls %s with (a, b) in order", fnName(t)))
		})
	}
	// ---- disassembly ----
	tmp, err := os.MkdirTemp("", "anndb-c15-")
	if err != nil {
		r.Unk("C15.R1", "build", "tmpdir", "-", err.Error())
		return
	}
	defer os.RemoveAll(tmp)
	bin := filepath.Join(tmp, "anndb-bin")
	args := []string{"build", "-o", bin}
	if len(c.Overlay) > 0 {
		// the sensitivity suite analyses variants through an overlay: hand the same overlay to the build
		repl := map[string]string{}
		for path, content := range c.Overlay {
			f := filepath.Join(tmp, fmt.Sprintf("ov%d_%s", len(repl), filepath.Base(path)))
			os.WriteFile(f, content, 0o644)
			repl[path] = f
		}
		js, _ := json.Marshal(map[string]interface{}{"Replace": repl})
		ovf := filepath.Join(tmp, "overlay.json")
		os.WriteFile(ovf, js, 0o644)
		args = append(args, "-overlay", ovf)
	}
	args = append(args, "./cmd/anndb")
	cmd := exec.Command("go", args...)
	cmd.Dir = c.Repo
	cmd.Env = append(os.Environ(), "GOFLAGS=-mod=mod", "GOPROXY=off", "GOSUMDB=off", "GOTOOLCHAIN=local", "GOWORK=off")
	if out, err := cmd.CombinedOutput(); err != nil {
		r.Unk("C15.R1", "build", "go-build", "-", "cannot build ./cmd/anndb to obtain the kernels' object code: "+err.Error()+" "+string(out))
		return
	}
	objdump := "llvm-objdump-14"
	if _, err := exec.LookPath(objdump); err != nil {
		objdump = "llvm-objdump"
	}
	var rels []string
	for rel := range kernels {
		rels = append(rels, rel)
	}
	sort.Strings(rels)
	nK := 0
	for _, rel := range rels {
		ks := dedupSorted(kernels[rel])
		for _, k := range ks {
			nK++
			sym := modPath + "/" + rel + "." + k + ".abi0"
			out, err := exec.Command(objdump, "-d", "-M", "intel", "--no-show-raw-insn", "--disassemble-symbols="+sym, bin).CombinedOutput()
			name := rel + "." + k
			ins := parseObjdump(out)
			if err != nil || len(ins) < 10 {
				r.Unk("C15.R1", name, "disassembly", "-", fmt.Sprintf("cannot disassemble %s (%d instructions): %v", sym, len(ins), err))
				continue
			}
			analyseKernel(c, r, name, ins)
		}
	}
	if nK < 6 {
		r.Unk("C15.R1", "simd", "kernel-count", "-", fmt.Sprintf("only %d kernels found through the wrappers (6 on the reference tree)", nK))
	}
	_ = token.NoPos
}

func dedupSorted(s []string) []string {
	sort.Strings(s)
	return dedup(s)
}

func analyseKernel(c *Ctx, r *Report, name string, ins []asmInstr) {
	// R9
	{
		var cs []string
		ctl := map[string]bool{"ldmxcsr": true, "vldmxcsr": true, "fldcw": true, "fxrstor": true, "fxrstor64": true, "xrstor": true, "xrstor64": true, "fninit": true, "finit": true}
		for _, in := range ins {
			if ctl[in.mnem] {
				cs = append(cs, in.addr+": "+in.raw)
			}
		}
		if len(cs) > 0 {
			r.Bad("C15.R9", name, "fp-control-state", "-", "the kernel writes the floating-point control state: "+strings.Join(cs, "; "))
		} else {
			r.OK("C15.R9", name, "fp-control-state", "-", "no instruction loads MXCSR or the x87 control word")
		}
	}
	// roles from the prologue: mov REG, qword ptr [rsp + N]
	role := map[string]string{} // reg -> len|a|b|res1|res2
	byOff := map[string]string{"8": "len", "16": "a", "24": "b", "32": "res1", "40": "res2"}
	pro := regexp.MustCompile(`^\[rsp \+ (\d+)\]$`)
	prologue := 0
	for k, in := range ins {
		if in.mnem == "mov" && len(in.ops) == 2 && isGPR(in.ops[0]) && in.memIdx == 1 {
			if m := pro.FindStringSubmatch(strings.TrimPrefix(in.ops[1], "qword ptr ")); m != nil {
				if ro, ok := byOff[m[1]]; ok {
					role[reg64(in.ops[0])] = ro
					prologue = k + 1
					continue
				}
			}
		}
		break
	}
	defer func() { roundingConstantsAgree(c, r, name, ins, role) }()
	defer func() { kernelDataflowShape(c, r, name, ins, role) }()
	var dataRegs, resRegs []string
	lenReg := ""
	for rg, ro := range role {
		switch ro {
		case "a", "b":
			dataRegs = append(dataRegs, rg)
		case "res1", "res2":
			resRegs = append(resRegs, rg)
		case "len":
			lenReg = rg
		}
	}
	sort.Strings(dataRegs)
	if len(dataRegs) != 2 || len(resRegs) < 1 || lenReg == "" {
		r.Unk("C15.R1", name, "prologue", "-", fmt.Sprintf("cannot identify the argument registers from the prologue (roles: %v)", role))
		return
	}
	isData := func(rg string) bool { return rg != "" && (reg64(rg) == dataRegs[0] || reg64(rg) == dataRegs[1]) }
	isRes := func(rg string) bool {
		for _, x := range resRegs {
			if reg64(rg) == x {
				return true
			}
		}
		return false
	}
	// R1
	var al []string
	for _, in := range ins[prologue:] {
		if in.alignmentChecked() && (isData(in.memBase) || isData(in.memIndex)) {
			al = append(al, in.addr+": "+in.raw)
		}
	}
	if len(al) > 0 {
		r.Bad("C15.R1", name, "aligned-access-to-caller-memory", "-", fmt.Sprintf("%d instruction(s) require 16-byte alignment of caller memory, e.g. %s: any vector of >= 4 elements whose address is 4, 8 or 12 mod 16 faults", len(al), al[0]))
	} else {
		r.OK("C15.R1", name, "aligned-access-to-caller-memory", "-", fmt.Sprintf("%d instructions; none applies an alignment-checked access to the data pointers (%s, %s)", len(ins), dataRegs[0], dataRegs[1]))
	}
	// R2
	var st []string
	for _, in := range ins[prologue:] {
		if len(in.ops) == 0 {
			continue
		}
		readOnly := map[string]bool{"cmp": true, "test": true, "ucomiss": true, "comiss": true, "vucomiss": true, "vcomiss": true, "push": true, "jmp": true, "call": true}
		if in.memIdx == 0 && !readOnly[in.mnem] && !strings.HasPrefix(in.mnem, "j") {
			if !(isRes(in.memBase) && in.memIndex == "") && reg64(in.memBase) != "rsp" {
				st = append(st, in.addr+": "+in.raw+" (stores outside the result slots)")
			}
		}
		// writes to data / length registers
		if in.memIdx != 0 && isGPR(in.ops[0]) && !readOnly[in.mnem] && !strings.HasPrefix(in.mnem, "j") {
			d := reg64(in.ops[0])
			if isData(d) || d == lenReg {
				st = append(st, in.addr+": "+in.raw+" (overwrites an argument register)")
			}
		}
	}
	if len(st) > 0 {
		r.Bad("C15.R2", name, "stores", "-", strings.Join(st, "; "))
	} else {
		r.OK("C15.R2", name, "stores", "-", "memory is written only through the result pointer(s) "+strings.Join(resRegs, ",")+"; argument registers are never overwritten")
	}
	// R11: every path from a scalar accumulate to ret passes a store to a result slot
	{
		idxOf := map[string]int{}
		for k, in := range ins {
			idxOf[strings.TrimLeft(in.addr, "0")] = k
		}
		target := func(in asmInstr) int {
			if len(in.ops) == 0 {
				return -1
			}
			t := strings.TrimSpace(in.ops[0])
			if i := strings.Index(t, " "); i >= 0 {
				t = t[:i]
			}
			t = strings.TrimLeft(strings.TrimPrefix(t, "0x"), "0")
			if k, ok := idxOf[t]; ok {
				return k
			}
			return -1
		}
		succ := func(k int) []int {
			in := ins[k]
			switch {
			case in.mnem == "ret":
				return nil
			case in.mnem == "jmp":
				if t := target(in); t >= 0 {
					return []int{t}
				}
				return nil
			case strings.HasPrefix(in.mnem, "j"):
				out := []int{}
				if t := target(in); t >= 0 {
					out = append(out, t)
				}
				if k+1 < len(ins) {
					out = append(out, k+1)
				}
				return out
			}
			if k+1 < len(ins) {
				return []int{k + 1}
			}
			return nil
		}
		storesResult := func(in asmInstr) bool {
			return in.memIdx == 0 && isRes(in.memBase) && in.memIndex == "" && len(in.ops) == 2 && isVecReg(in.ops[1])
		}
		nAcc, lost := 0, ""
		for k, in := range ins {
			if in.mnem != "addss" && in.mnem != "vaddss" {
				continue
			}
			nAcc++
			seen := map[int]bool{}
			work := succ(k)
			for len(work) > 0 {
				j := work[len(work)-1]
				work = work[:len(work)-1]
				if seen[j] {
					continue
				}
				seen[j] = true
				if storesResult(ins[j]) {
					continue
				}
				if ins[j].mnem == "ret" {
					lost = in.addr + ": " + in.raw + " reaches ret at " + ins[j].addr + " without a store to the result slot"
					break
				}
				work = append(work, succ(j)...)
			}
		}
		if nAcc == 0 {
			r.Unk("C15.R11", name, "accumulate-then-store", "-", "no scalar accumulate found")
		} else {
			r.Check(lost == "", "C15.R11", name, "accumulate-then-store", "-", fmt.Sprintf("%d scalar accumulate(s); each is followed by a store of the result on every path to ret (%s): a tail element added to the sum in a register and never written back is dropped for the lengths that end in that path", nAcc, lost))
		}
	}
	// R3
	var cf []string
	flagSetters := map[string]bool{"comiss": true, "ucomiss": true, "vcomiss": true, "vucomiss": true, "comisd": true, "ucomisd": true, "ptest": true, "vptest": true, "vtestps": true}
	for _, in := range ins[prologue:] {
		if flagSetters[in.mnem] {
			cf = append(cf, in.addr+": "+in.raw)
		}
		if len(in.ops) >= 2 && isGPR(in.ops[0]) {
			// destination is a general register: source must not be a vector register nor data memory
			for _, s := range in.ops[1:] {
				if isVecReg(s) {
					cf = append(cf, in.addr+": "+in.raw)
				}
			}
			if in.memIdx >= 1 && in.mnem != "lea" && (isData(in.memBase) || isData(in.memIndex)) {
				cf = append(cf, in.addr+": "+in.raw)
			}
		}
	}
	if len(cf) > 0 {
		r.Bad("C15.R3", name, "data-independent-control-flow", "-", "values of the vectors can reach general registers / flags: "+strings.Join(cf, "; "))
	} else {
		r.OK("C15.R3", name, "data-independent-control-flow", "-", "branches depend on the length register only")
	}
}

// roundingConstantsAgree: the constants that split the length into a vector part and a scalar tail derive from one
// vector width.
func roundingConstantsAgree(c *Ctx, r *Report, name string, ins []asmInstr, role map[string]string) {
	w := 0
	for _, in := range ins {
		if in.memIdx < 0 {
			continue
		}
		if ro := role[reg64(in.memBase)]; ro != "a" && ro != "b" {
			continue
		}
		switch in.memSize {
		case "ymmword":
			if w < 8 {
				w = 8
			}
		case "xmmword":
			if w < 4 {
				w = 4
			}
		}
	}
	if w == 0 {
		r.Unk("C15.R5", name, "vector-width", "-", "no packed load through a data pointer found")
		return
	}
	// R10: unroll threshold
	{
		nT, badT := 0, ""
		for k, in := range ins {
			if in.mnem != "and" || len(in.ops) != 2 || !isGPR(in.ops[0]) {
				continue
			}
			m, err := strconv.ParseInt(strings.TrimSpace(in.ops[1]), 0, 64)
			if err != nil || (m != 1 && m != 3 && m != 7) {
				continue
			}
			// the block count was formed just before: lea r32, [rax + 1]
			if k == 0 || ins[k-1].mnem != "lea" {
				continue
			}
			for j := k + 1; j < len(ins) && j <= k+2; j++ {
				if ins[j].mnem == "cmp" && len(ins[j].ops) == 2 {
					if kv, err := strconv.ParseInt(strings.TrimSpace(ins[j].ops[1]), 0, 64); err == nil {
						nT++
						if kv != m*int64(w) {
							badT = fmt.Sprintf("`%s` at %s follows `%s` (unroll factor %d, %d floats per load): the unrolled loop must be entered from %d rounded elements on, i.e. compare with %d", ins[j].raw, ins[j].addr, in.raw, m+1, w, (m+1)*int64(w), m*int64(w))
						}
					}
				}
			}
		}
		if nT > 0 || badT != "" {
			r.Check(badT == "", "C15.R10", name, "unroll-threshold", "-", fmt.Sprintf("%d unroll threshold(s) agree with the unroll factor and the vector width (%s): with a larger threshold the lengths that hold exactly one full round skip the unrolled loop, and the remainder loop (rounds mod U = 0) sums nothing", nT, badT))
		}
	}
	n, bad := 0, ""
	imm := func(s string) (int64, bool) {
		v, err := strconv.ParseInt(strings.TrimSpace(s), 0, 64)
		return v, err == nil
	}
	for k, in := range ins {
		if len(in.ops) != 2 || !isGPR(in.ops[0]) {
			continue
		}
		v, ok := imm(in.ops[1])
		if !ok {
			continue
		}
		switch in.mnem {
		case "and":
			if v < -2 && (-v)&(-v-1) == 0 {
				n++
				if int(-v) != w {
					bad = fmt.Sprintf("`%s` at %s rounds the length to a multiple of %d, the widest data load holds %d floats", in.raw, in.addr, -v, w)
				}
			}
		case "or":
			// complement idiom: not r ; or r, K
			isCompl := false
			for j := k - 1; j >= 0 && j >= k-2; j-- {
				if ins[j].mnem == "not" && len(ins[j].ops) == 1 && reg64(ins[j].ops[0]) == reg64(in.ops[0]) {
					isCompl = true
				}
			}
			if isCompl {
				n++
				if int(v) != w-1 {
					bad = fmt.Sprintf("`%s` at %s complements the length with mask %d, but the vector part was rounded to multiples of %d (mask %d): for some lengths the scalar tail ends early or runs past the end", in.raw, in.addr, v, w, w-1)
				}
			}
		}
	}
	if bad != "" {
		r.Bad("C15.R5", name, "rounding-constants", "-", bad)
	} else {
		r.OK("C15.R5", name, "rounding-constants", "-", fmt.Sprintf("vector width %d floats; %d rounding / complement constant(s) agree with it", w, n))
	}
}
