package main

import (
	"go/types"
	"sort"
	"strings"

	"golang.org/x/tools/go/ssa"
)

// SA-ROLE: roles are discovered from types and external API use.

type registration struct {
	kind  string // "process" | "processSnapshot" | "snapshot"
	fn    *ssa.Function
	in    *ssa.Function // function performing the registration
	call  *ssa.Call
	onVal ssa.Value // the group value registered on
}

type roles struct {
	rpcRoots      []*ssa.Function
	rpcService    map[*ssa.Function]string
	regs          []registration
	applyRoots    []*ssa.Function // process + processSnapshot functions
	processFns    []*ssa.Function
	restoreFns    []*ssa.Function
	snapshotFns   []*ssa.Function
	readyLoops    []*ssa.Function
	confChangeFns []*ssa.Function
	proposers     []*ssa.Function // functions calling Node.Propose / ProposeConfChange
}

// unwrapBound resolves a method value (bound method closure) or function value to the declared function.
func unwrapBound(v ssa.Value) *ssa.Function {
	switch y := v.(type) {
	case *ssa.MakeClosure:
		f, _ := y.Fn.(*ssa.Function)
		if f == nil {
			return nil
		}
		if f.Synthetic != "" {
			// bound method wrapper: single call to the real method
			var target *ssa.Function
			eachInstr(f, func(i ssa.Instruction) {
				if cc := asCall(i); cc != nil && cc.StaticCallee() != nil {
					target = cc.StaticCallee()
				}
			})
			return target
		}
		return f
	case *ssa.Function:
		return y
	case *ssa.ChangeType:
		return unwrapBound(y.X)
	}
	return nil
}

var rolesCache = map[*Ctx]*roles{}

func discoverRoles(c *Ctx) *roles {
	if r, ok := rolesCache[c]; ok {
		return r
	}
	r := &roles{rpcService: map[*ssa.Function]string{}}
	rolesCache[c] = r
	// RPC roots
	pbPkg := c.Pkg("protobuf")
	if pbPkg != nil {
		var ifaces []*types.Named
		sc := pbPkg.Types.Scope()
		for _, n := range sc.Names() {
			if !strings.HasSuffix(n, "Server") || strings.Contains(n, "_") || strings.HasPrefix(n, "Unimplemented") {
				continue
			}
			if tn, ok := sc.Lookup(n).(*types.TypeName); ok {
				if nm, ok := tn.Type().(*types.Named); ok {
					if _, isI := nm.Underlying().(*types.Interface); isI {
						ifaces = append(ifaces, nm)
					}
				}
			}
		}
		for _, p := range c.Pkgs {
			if p == pbPkg || strings.HasSuffix(p.ID, ".test") || strings.Contains(p.ID, "[") {
				continue
			}
			sc := p.Types.Scope()
			for _, n := range sc.Names() {
				tn, ok := sc.Lookup(n).(*types.TypeName)
				if !ok {
					continue
				}
				nm, ok := tn.Type().(*types.Named)
				if !ok {
					continue
				}
				if _, isI := nm.Underlying().(*types.Interface); isI {
					continue
				}
				pt := types.NewPointer(nm)
				for _, iface := range ifaces {
					it := iface.Underlying().(*types.Interface)
					if !types.Implements(pt, it) {
						continue
					}
					for k := 0; k < it.NumMethods(); k++ {
						m := it.Method(k)
						sel := c.Prog.MethodSets.MethodSet(pt).Lookup(m.Pkg(), m.Name())
						if sel == nil {
							continue
						}
						if f := c.Prog.MethodValue(sel); f != nil && f.Synthetic == "" {
							r.rpcRoots = append(r.rpcRoots, f)
							r.rpcService[f] = strings.TrimSuffix(iface.Obj().Name(), "Server")
						}
					}
				}
			}
		}
	}
	sort.Slice(r.rpcRoots, func(i, j int) bool { return r.rpcRoots[i].String() < r.rpcRoots[j].String() })
	// registrations, ready loops, conf-change handlers, proposers
	for _, f := range c.ModFuncs {
		if !c.isProd(f) {
			continue
		}
		eachInstr(f, func(i ssa.Instruction) {
			cc := asCall(i)
			if cc == nil {
				return
			}
			id := callID(cc)
			switch id.Name {
			case "RegisterProcessFn", "RegisterProcessSnapshotFn", "RegisterSnapshotFn":
				if !strings.HasSuffix(id.Pkg, "anndb/storage/raft") {
					return
				}
				args := explicitArgs(cc)
				if len(args) != 1 {
					return
				}
				target := unwrapBound(args[0])
				if target == nil {
					return
				}
				call, _ := i.(*ssa.Call)
				kind := map[string]string{"RegisterProcessFn": "process", "RegisterProcessSnapshotFn": "processSnapshot", "RegisterSnapshotFn": "snapshot"}[id.Name]
				r.regs = append(r.regs, registration{kind: kind, fn: target, in: f, call: call, onVal: recvArg(cc)})
			case "Ready":
				if strings.HasSuffix(id.Pkg, "etcd/raft") && id.Recv == "Node" {
					r.readyLoops = appendUnique(r.readyLoops, f)
				}
			case "ApplyConfChange":
				if strings.HasSuffix(id.Pkg, "etcd/raft") {
					r.confChangeFns = appendUnique(r.confChangeFns, f)
				}
			case "Propose", "ProposeConfChange":
				if strings.HasSuffix(id.Pkg, "etcd/raft") && id.Recv == "Node" {
					r.proposers = appendUnique(r.proposers, f)
				}
			}
		})
	}
	for _, g := range r.regs {
		switch g.kind {
		case "process":
			r.processFns = appendUnique(r.processFns, g.fn)
			r.applyRoots = appendUnique(r.applyRoots, g.fn)
		case "processSnapshot":
			r.restoreFns = appendUnique(r.restoreFns, g.fn)
			r.applyRoots = appendUnique(r.applyRoots, g.fn)
		case "snapshot":
			r.snapshotFns = appendUnique(r.snapshotFns, g.fn)
		}
	}
	return r
}

func appendUnique(l []*ssa.Function, f *ssa.Function) []*ssa.Function {
	for _, x := range l {
		if x == f {
			return l
		}
	}
	return append(l, f)
}

// recvTypeName of a method ("" for plain functions)
func recvTypeName(f *ssa.Function) string {
	if f.Signature.Recv() == nil {
		return ""
	}
	return typeName(f.Signature.Recv().Type())
}
