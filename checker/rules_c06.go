package main

import (
	"fmt"
	"go/token"
	"go/types"
	"sort"
	"strings"

	"golang.org/x/tools/go/ssa"
)

func init() { register("C06", checkC06) }

// cellStores: every Store into a variable cell, including stores made by closures that capture it.
func cellStores(v ssa.Value) []*ssa.Store {
	seen := map[ssa.Value]bool{}
	var out []*ssa.Store
	var walk func(v ssa.Value)
	walk = func(v ssa.Value) {
		if v == nil || seen[v] {
			return
		}
		seen[v] = true
		if v.Referrers() != nil {
			for _, r := range *v.Referrers() {
				switch y := r.(type) {
				case *ssa.Store:
					if y.Addr == v {
						out = append(out, y)
					}
				case *ssa.MakeClosure:
					f, _ := y.Fn.(*ssa.Function)
					for k, b := range y.Bindings {
						if b == v && f != nil && k < len(f.FreeVars) {
							walk(f.FreeVars[k])
						}
					}
				}
			}
		}
		if fv, ok := v.(*ssa.FreeVar); ok {
			// go up to the cell in the parent
			p := fv.Parent().Parent()
			if p != nil {
				eachInstr(p, func(i ssa.Instruction) {
					if mc, ok := i.(*ssa.MakeClosure); ok && mc.Fn == ssa.Value(fv.Parent()) {
						for k, f := range fv.Parent().FreeVars {
							if f == fv && k < len(mc.Bindings) {
								walk(mc.Bindings[k])
							}
						}
					}
				})
			}
		}
	}
	walk(v)
	return out
}

type walInfo struct {
	c        *Ctx
	typ      *types.Named
	fGroup   *types.Var
	funcs    []*ssa.Function
	ctors    map[*ssa.Function]bool // key constructors (embed groupId)
	callersC map[*ssa.Function][]*ssa.Call
}

func newWal(c *Ctx) *walInfo {
	w := &walInfo{c: c, ctors: map[*ssa.Function]bool{}, callersC: map[*ssa.Function][]*ssa.Call{}}
	w.typ = c.Named("storage/wal", "badgerWAL")
	w.fGroup = c.Field("storage/wal", "badgerWAL", "groupId")
	for _, f := range c.FuncsInPkg("storage/wal") {
		if c.isProd(f) {
			w.funcs = append(w.funcs, f)
		}
	}
	if w.typ == nil || w.fGroup == nil {
		return w
	}
	// constructors: methods of the WAL type returning []byte that read groupId directly or via another constructor
	changed := true
	for changed {
		changed = false
		for _, f := range w.funcs {
			if w.ctors[f] || f.Signature.Recv() == nil || namedOf(f.Signature.Recv().Type()) != w.typ {
				continue
			}
			if f.Signature.Results().Len() != 1 || f.Signature.Results().At(0).Type().String() != "[]byte" {
				continue
			}
			reads := false
			eachInstr(f, func(i ssa.Instruction) {
				if fa, ok := i.(*ssa.FieldAddr); ok && structField(fa.X.Type(), fa.Field) == w.fGroup {
					reads = true
				}
				if cc := asCall(i); cc != nil && cc.StaticCallee() != nil && w.ctors[cc.StaticCallee()] {
					reads = true
				}
			})
			if reads {
				w.ctors[f] = true
				changed = true
			}
		}
	}
	for _, f := range w.funcs {
		eachInstr(f, func(i ssa.Instruction) {
			if cl, ok := i.(*ssa.Call); ok && cl.Call.StaticCallee() != nil {
				w.callersC[cl.Call.StaticCallee()] = append(w.callersC[cl.Call.StaticCallee()], cl)
			}
		})
	}
	return w
}

// keyKinds classifies where a key value comes from.
func (w *walInfo) keyKinds(v ssa.Value) map[string]bool {
	out := map[string]bool{}
	seen := map[ssa.Value]bool{}
	seenE := map[ssa.Value]bool{}
	var walk func(v ssa.Value, d int)
	var elems func(s ssa.Value, d int)
	walk = func(v ssa.Value, d int) {
		if v == nil {
			return
		}
		v = strip(v)
		if seen[v] {
			return
		}
		seen[v] = true
		if d > 12 {
			out["too-deep"] = true
			return
		}
		switch y := v.(type) {
		case *ssa.Call:
			id := callID(&y.Call)
			if g := y.Call.StaticCallee(); g != nil && w.ctors[g] {
				out["ctor:"+g.Name()] = true
				return
			}
			if id.Name == "Bytes" && len(y.Call.Args) == 1 && fieldOfValue(y.Call.Args[0]) == w.fGroup {
				// the bytes of the receiver's own group id, written out instead of through the prefix constructor
				out["ctor:groupId.Bytes"] = true
				return
			}
			if (id.Name == "Key" || id.Name == "KeyCopy") && id.Recv == "Item" {
				out["iterator-item-key"] = true
				return
			}
			out["call:"+id.String()] = true
		case *ssa.Phi:
			for _, e := range y.Edges {
				walk(e, d+1)
			}
		case *ssa.Slice:
			walk(y.X, d+1)
		case *ssa.UnOp:
			if y.Op != token.MUL {
				out["op"] = true
				return
			}
			switch a := y.X.(type) {
			case *ssa.Global:
				out["global:"+a.Name()] = true
			case *ssa.IndexAddr:
				elems(a.X, d+1)
			case *ssa.Alloc, *ssa.FreeVar:
				st := cellStores(a)
				if len(st) == 0 {
					out["uninitialised-cell"] = true
				}
				for _, s := range st {
					walk(s.Val, d+1)
				}
			default:
				out["load:"+path(y.X)] = true
			}
		case *ssa.Parameter:
			f := y.Parent()
			k := -1
			for i, p := range f.Params {
				if p == y {
					k = i
				}
			}
			calls := w.callersC[f]
			if len(calls) == 0 || k < 0 {
				out["parameter:"+y.Name()] = true
				return
			}
			for _, cl := range calls {
				walk(cl.Call.Args[k], d+1)
			}
		case *ssa.Const:
			out["constant"] = true
		case *ssa.Alloc:
			// a local array/buffer filled in place (make + copy): treat as literal-built
			out["local-buffer"] = true
		case *ssa.MakeSlice:
			out["local-buffer"] = true
		default:
			out[fmt.Sprintf("%T", v)] = true
		}
	}
	elems = func(s ssa.Value, d int) {
		s = strip(s)
		if seenE[s] {
			return
		}
		seenE[s] = true
		if d > 12 {
			out["too-deep"] = true
			return
		}
		switch y := s.(type) {
		case *ssa.UnOp:
			if y.Op == token.MUL {
				switch a := y.X.(type) {
				case *ssa.Alloc, *ssa.FreeVar:
					for _, st := range cellStores(a) {
						elems(st.Val, d+1)
					}
					return
				}
			}
			out["elements-of:"+path(y)] = true
		case *ssa.Call:
			if id := callID(&y.Call); id.Pkg == "builtin" && id.Name == "append" {
				elems(y.Call.Args[0], d+1)
				for _, e := range flatArgs(&y.Call)[1:] {
					walk(e, d+1)
				}
				return
			}
			out["elements-of-call"] = true
		case *ssa.Const:
			// nil slice
		case *ssa.Phi:
			for _, e := range y.Edges {
				elems(e, d+1)
			}
		case *ssa.Parameter:
			f := y.Parent()
			k := -1
			for i, p := range f.Params {
				if p == y {
					k = i
				}
			}
			calls := w.callersC[f]
			if len(calls) == 0 || k < 0 {
				out["elements-of-parameter:"+y.Name()] = true
				return
			}
			for _, cl := range calls {
				elems(cl.Call.Args[k], d+1)
			}
		case *ssa.Slice:
			elems(y.X, d+1)
		default:
			out[fmt.Sprintf("elements-of-%T", s)] = true
		}
	}
	walk(v, 0)
	return out
}

func kindsOK(k map[string]bool) (bool, string) {
	var bad []string
	for s := range k {
		if strings.HasPrefix(s, "ctor:") || s == "iterator-item-key" {
			continue
		}
		bad = append(bad, s)
	}
	sort.Strings(bad)
	return len(bad) == 0, strings.Join(bad, ",")
}

func checkC06(c *Ctx, r *Report, tier string) {
	round5(c, r, "C06")
	round6(c, r, "C06")
	round7(c, r, "C06")
	round8(c, r, "C06")
	r.Rule("C06.R1", "every iterator is bounded by the group: the options value given to NewIterator has its Prefix stored, before the call, from a constructor that embeds the receiver's group id", 1)
	r.Rule("C06.R2", "key provenance: every key handed to txn.Get/Set, batch.Set/Delete or iterator.Seek in a method of the log store derives from a group-embedding key constructor or from Item().Key() of a prefix-bounded iterator (the package-level node-id accessors use a constant key: named exception)", 6)
	r.Rule("C06.R3", "DeleteGroup covers every key family: for each key constructor that reaches a Set, the call tree of DeleteGroup contains a Delete of that family or a prefix sweep whose prefix is a prefix of the family", 3)
	r.Rule("C06.R4", "batch commit discipline: Cancel deferred, every return after batch creation returns Flush()'s value or a tested error, no batch result discarded", 8)
	r.Rule("C06.R5", "wipe before write: within one batch function no full-range sweep of the entry family is reachable after a Set into the same family (Badger's batch is last-write-wins per key and the sweep is computed from the committed view); a wipe also discards the cached last index", 2)
	r.Rule("C06.R7", "the key codec is order preserving and agrees with its decoder: the entry index is written big-endian at the offsets where the decoder reads it big-endian, behind the group id", 2)
	r.Rule("C06.R8", "boundary conditions agree with the reference MemoryStorage: Entries returns ErrCompacted iff lo < first and ErrUnavailable iff hi > last+1; Term returns ErrCompacted iff i < first-1; CreateSnapshot returns ErrSnapOutOfDate iff i < first; the size limit never drops the first entry", 5)
	w := newWal(c)
	if w.typ == nil || w.fGroup == nil {
		r.Unk("C06.R1", "storage/wal", "anchors", "-", "type badgerWAL / field groupId not found")
		return
	}
	// R1
	for _, f := range w.funcs {
		n := 0
		eachInstr(f, func(i ssa.Instruction) {
			cl, ok := i.(*ssa.Call)
			if !ok || callID(&cl.Call).Name != "NewIterator" {
				return
			}
			n++
			cons := fmt.Sprintf("NewIterator#%d", n)
			opt := cl.Call.Args[1]
			cell, isL := loadOf(opt)
			if !isL {
				r.Bad("C06.R1", fnName(f), cons, c.Pos(cl.Pos()), "iterator options are not a local variable whose Prefix is set: "+opt.String())
				return
			}
			okP := false
			late := false
			if cell.Referrers() != nil {
				for _, u := range *cell.Referrers() {
					fa, ok := u.(*ssa.FieldAddr)
					if !ok || structField(fa.X.Type(), fa.Field).Name() != "Prefix" {
						continue
					}
					for _, st := range storesTo(f, fa) {
						if instrDominates(st, cl) {
							if ok2, _ := kindsOK(w.keyKinds(st.Val)); ok2 {
								okP = true
							} else {
								okP = false
								late = true
							}
						} else {
							late = true
						}
					}
				}
			}
			if okP && !late {
				r.OK("C06.R1", fnName(f), cons, c.Pos(cl.Pos()), "Prefix = group-id constructor, stored before NewIterator")
			} else {
				r.Bad("C06.R1", fnName(f), cons, c.Pos(cl.Pos()), "iterator is not confined to this group's keys (no dominating store of a group-id prefix, or the prefix is changed afterwards): other groups' entries become visible")
			}
		})
	}
	// R2
	for _, f := range w.funcs {
		n := 0
		eachInstr(f, func(i ssa.Instruction) {
			cl, ok := i.(*ssa.Call)
			if !ok {
				return
			}
			id := callID(&cl.Call)
			if !strings.HasSuffix(id.Pkg, "badger/v2") {
				return
			}
			isKeyOp := (id.Recv == "Txn" && (id.Name == "Get" || id.Name == "Set" || id.Name == "Delete")) ||
				(id.Recv == "WriteBatch" && (id.Name == "Set" || id.Name == "Delete")) || (id.Recv == "Iterator" && id.Name == "Seek")
			if !isKeyOp {
				return
			}
			n++
			cons := fmt.Sprintf("%s.%s#%d", id.Recv, id.Name, n)
			key := cl.Call.Args[1]
			kinds := w.keyKinds(key)
			ok2, bad := kindsOK(kinds)
			root := rootFn(f)
			if !ok2 && root.Signature.Recv() == nil && bad == "global:badgerRaftIdKey" {
				r.Exception = append(r.Exception, "C06.R2 "+fnName(f)+": package-level node-id accessor uses the constant key "+bad)
				r.OKTrivial("C06.R2", fnName(f), cons, c.Pos(cl.Pos()), "exception: node-id accessor, constant key outside every group's key space")
				return
			}
			if ok2 {
				r.OK("C06.R2", fnName(f), cons, c.Pos(cl.Pos()), "key from "+strings.Join(keys(kinds), ","))
			} else {
				r.Bad("C06.R2", fnName(f), cons, c.Pos(cl.Pos()), "key does not derive from a group-embedding constructor or a bounded iterator: "+bad)
			}
		})
	}
	// R3
	dg := c.Method("storage/wal", "badgerWAL", "DeleteGroup")
	if dg == nil {
		r.Unk("C06.R3", "storage/wal.badgerWAL", "DeleteGroup", "-", "method not found")
	} else {
		tree := c.reachableFrom([]*ssa.Function{dg}, false, false)
		// families: constructors reaching a Set
		fam := map[*ssa.Function]bool{}
		for _, f := range w.funcs {
			eachInstr(f, func(i ssa.Instruction) {
				cl, ok := i.(*ssa.Call)
				if !ok {
					return
				}
				if id := callID(&cl.Call); id.Name == "Set" && (id.Recv == "WriteBatch" || id.Recv == "Txn") && strings.HasSuffix(id.Pkg, "badger/v2") {
					for k := range w.keyKinds(cl.Call.Args[1]) {
						if strings.HasPrefix(k, "ctor:") {
							for g := range w.ctors {
								if g.Name() == strings.TrimPrefix(k, "ctor:") {
									fam[g] = true
								}
							}
						}
					}
				}
			})
		}
		// deletes in the tree
		deleted := map[string]bool{}
		sweepPrefix := map[string]bool{}
		for f := range tree {
			eachInstr(f, func(i ssa.Instruction) {
				cl, ok := i.(*ssa.Call)
				if !ok {
					return
				}
				id := callID(&cl.Call)
				if id.Name == "Delete" && (id.Recv == "WriteBatch" || id.Recv == "Txn") {
					for k := range w.keyKinds(cl.Call.Args[1]) {
						deleted[k] = true
					}
				}
			})
		}
		if deleted["iterator-item-key"] {
			// which prefix bounds the sweeping iterators in the tree
			for f := range tree {
				eachInstr(f, func(i ssa.Instruction) {
					st, ok := i.(*ssa.Store)
					if !ok {
						return
					}
					if fa, ok := st.Addr.(*ssa.FieldAddr); ok && structField(fa.X.Type(), fa.Field).Name() == "Prefix" {
						for k := range w.keyKinds(st.Val) {
							sweepPrefix[k] = true
						}
					}
				})
			}
		}
		var fams []*ssa.Function
		for g := range fam {
			fams = append(fams, g)
		}
		sort.Slice(fams, func(i, j int) bool { return fams[i].Name() < fams[j].Name() })
		for _, g := range fams {
			covered := deleted["ctor:"+g.Name()]
			why := "deleted explicitly"
			if !covered {
				// prefix of the family: the source of the first copy into b[0:…]
				pfx := familyPrefix(w, g)
				if pfx != "" && sweepPrefix[pfx] {
					covered, why = true, "covered by the prefix sweep ("+pfx+")"
				} else {
					why = "keys of this family start with " + pfx + "; the sweep's prefix is " + strings.Join(keys(sweepPrefix), ",")
				}
			}
			if covered {
				r.OK("C06.R3", fnName(dg), "family-"+g.Name(), c.Pos(g.Pos()), why)
			} else {
				r.Bad("C06.R3", fnName(dg), "family-"+g.Name(), c.Pos(g.Pos()), "DeleteGroup never deletes keys built by "+g.Name()+" ("+why+"): a later group with the same id starts with the old state")
			}
		}
	}
	// R4 (= C03.R3 restricted to the batch discipline)
	sub := NewReport("C06")
	c03R3(c, sub)
	for _, o := range sub.Obls {
		if strings.Contains(o.Key, "badger-options") {
			continue
		}
		o.Rule = "C06.R4"
		o.Key = strings.Replace(o.Key, "C03.R3", "C06.R4", 1)
		r.Obls = append(r.Obls, o)
	}
	// R5
	c06R5(c, r, w)
	// R7
	c06R7(c, r, w)
	// R8
	c06R8(c, r, w)
	r.Rule("C06.R6", "cache writes follow disk writes: every path from an entry write to a successful return updates (or discards) the cached last index", 1)
	walCacheFollowsWrites(c, r, "C06.R6")
	r.Rule("C06.R9", "compaction keeps the snapshot's anchor entry (sweep bound exclusive, bound = snapshot index)", 2)
	walCompactionKeepsAnchor(c, r, "C06.R9")
	r.Rule("C06.R10", "an iterator's key buffer is never retained: Item().Key() is copied (string conversion) or only read before the iterator advances", 2)
	walIteratorKeyNotRetained(c, r, "C06.R10")
	r.Rule("C06.R11", "cache lookups agree with the reference: FirstIndex consults the cached snapshot before the memoized first index (or every snapshot store refreshes the memo); the previous last index is read before the cache is overwritten", 2)
	walCacheOrdering(c, r, "C06.R11")
	persistConsumesAllParts(c, r, "C06.R4")
	r.Rule("C06.R12", "the constructor re-initialises a group only on `not found`; what is cached under the snapshot key is the persisted snapshot itself; a received snapshot wipes the whole log; snapshot and compaction share one batch", 5)
	constructorResetsOnlyOnAbsence(c, r, "C06.R12")
	cachedSnapshotIsTheWrittenOne(c, r, "C06.R12")
	persistOrder(c, r, "C06.R12")
	snapshotAndCompactionAtomic(c, r, "C06.R12")
	r.Rule("C06.R13", "Entries agrees with the reference on sizes and contents: the size limit is measured with Entry.Size() of the decoded entry; decoded entries own their payload bytes", 2)
	sizeLimitMeasuresEntries(c, r, "C06.R13")
	decodedEntriesOwnTheirBytes(c, r, "C06.R13")
}

// familyPrefix: what the constructor copies to offset 0 of its buffer.
func familyPrefix(w *walInfo, g *ssa.Function) string {
	res := ""
	eachInstr(g, func(i ssa.Instruction) {
		cl, ok := i.(*ssa.Call)
		if !ok || !callID(&cl.Call).is("builtin", "", "copy") {
			return
		}
		dst, ok := cl.Call.Args[0].(*ssa.Slice)
		if !ok {
			return
		}
		if dst.Low != nil {
			if n, ok := constInt(dst.Low); !ok || n != 0 {
				return
			}
		}
		src := cl.Call.Args[1]
		if sc, ok := strip(src).(*ssa.Call); ok && sc.Call.StaticCallee() != nil && w.ctors[sc.Call.StaticCallee()] {
			res = "ctor:" + sc.Call.StaticCallee().Name()
			return
		}
		if sc, ok := strip(src).(*ssa.Call); ok && callID(&sc.Call).Name == "Bytes" && len(sc.Call.Args) == 1 && fieldOfValue(sc.Call.Args[0]) == w.fGroup {
			res = "ctor:groupId.Bytes"
			return
		}
		res = "literal " + src.String()
	})
	if res == "" {
		// the constructor may simply return another constructor's value
		for _, rt := range returnsOf(g) {
			if sc, ok := strip(rt.Results[0]).(*ssa.Call); ok && sc.Call.StaticCallee() != nil && w.ctors[sc.Call.StaticCallee()] {
				return "ctor:" + sc.Call.StaticCallee().Name()
			}
			if sc, ok := strip(rt.Results[0]).(*ssa.Call); ok && callID(&sc.Call).Name == "Bytes" {
				return "ctor:" + g.Name()
			}
		}
	}
	return res
}

func c06R5(c *Ctx, r *Report, w *walInfo) {
	// functions that (transitively) Set into the entry family / sweep the entry family from index 0
	entryCtor := ""
	for g := range w.ctors {
		// the family whose constructor takes an index parameter
		if len(g.Params) == 2 {
			entryCtor = "ctor:" + g.Name()
		}
	}
	if entryCtor == "" {
		r.Unk("C06.R5", "storage/wal", "entry-family", "-", "no indexed key constructor found")
		return
	}
	setsEntry := map[*ssa.Function]bool{}
	for _, f := range w.funcs {
		eachInstr(f, func(i ssa.Instruction) {
			if cl, ok := i.(*ssa.Call); ok {
				if id := callID(&cl.Call); id.Name == "Set" && id.Recv == "WriteBatch" && w.keyKinds(cl.Call.Args[1])[entryCtor] {
					setsEntry[rootFn(f)] = true
				}
			}
		})
	}
	// sweepers: functions with a uint64 start parameter that Seek(entryKey(start)) and delete iterator keys
	isSweeper := func(f *ssa.Function) bool {
		if f.Signature.Recv() == nil || len(f.Params) != 3 {
			return false
		}
		del := false
		for g := range c.reachableFrom([]*ssa.Function{f}, false, false) {
			eachInstr(g, func(i ssa.Instruction) {
				if cl, ok := i.(*ssa.Call); ok {
					if id := callID(&cl.Call); id.Name == "Delete" && id.Recv == "WriteBatch" && w.keyKinds(cl.Call.Args[1])["iterator-item-key"] {
						del = true
					}
				}
			})
		}
		return del
	}
	for _, f := range w.funcs {
		var mk *ssa.Call
		eachInstr(f, func(i ssa.Instruction) {
			if cl, ok := i.(*ssa.Call); ok && callID(&cl.Call).Name == "NewWriteBatch" {
				mk = cl
			}
		})
		if mk == nil {
			continue
		}
		var sets, sweeps []*ssa.Call
		eachInstr(f, func(i ssa.Instruction) {
			cl, ok := i.(*ssa.Call)
			if !ok {
				return
			}
			g := cl.Call.StaticCallee()
			if id := callID(&cl.Call); id.Name == "Set" && id.Recv == "WriteBatch" && w.keyKinds(cl.Call.Args[1])[entryCtor] {
				sets = append(sets, cl)
			}
			if g == nil || !modLocal(g) {
				return
			}
			if setsEntry[g] {
				sets = append(sets, cl)
			}
			if isSweeper(g) {
				if n, ok := constInt(cl.Call.Args[2]); ok && n == 0 {
					sweeps = append(sweeps, cl)
				}
			}
		})
		if len(sweeps) == 0 {
			continue
		}
		for k, sw := range sweeps {
			cons := fmt.Sprintf("full-sweep#%d", k+1)
			var before *ssa.Call
			for _, s := range sets {
				if _, reach := reachesAvoiding(f, s, func(i ssa.Instruction) bool { return i == ssa.Instruction(sw) }, nil); reach {
					before = s
				}
			}
			// the cached last index must not survive a wipe of the log
			discard := false
			eachInstr(f, func(i ssa.Instruction) {
				switch y := i.(type) {
				case *ssa.Call:
					id := callID(&y.Call)
					if (id.Name == "Delete" || id.Name == "Store") && id.Recv == "Map" && id.Pkg == "sync" {
						for _, a := range y.Call.Args {
							if mi, ok := a.(*ssa.MakeInterface); ok {
								if g := globalOf(mi.X); g != nil && strings.Contains(strings.ToLower(g.Name()), "lastindex") {
									discard = true
								}
							}
						}
					}
				case *ssa.Store:
					if fld := fieldOfAddr(y.Addr); fld != nil && fld.Name() == "cache" {
						discard = true
					}
				}
			})
			r.Check(discard, "C06.R5", fnName(f), cons+"-cache", c.Pos(sw.Pos()), "a wipe of the whole log discards (or resets) the cached last index")
			if before != nil {
				r.Bad("C06.R5", fnName(f), cons, c.Pos(sw.Pos()), "a sweep of the whole entry range follows the entry write at "+c.Pos(before.Pos())+" in the same batch: a key written by this batch that already exists on disk (the snapshot anchor) is deleted again")
			} else {
				r.OK("C06.R5", fnName(f), cons, c.Pos(sw.Pos()), "the full-range sweep precedes every entry write of this batch")
			}
		}
	}
}

func c06R7(c *Ctx, r *Report, w *walInfo) {
	type codec struct {
		order    string
		lo, hi   int64
		fn       *ssa.Function
		pos      token.Pos
		writeLen int64
	}
	var enc, dec []codec
	for _, f := range prodFuncs(c, "storage/wal") {
		eachInstr(f, func(i ssa.Instruction) {
			cl, ok := i.(*ssa.Call)
			if !ok {
				return
			}
			id := callID(&cl.Call)
			if id.Pkg != "encoding/binary" || (id.Name != "PutUint64" && id.Name != "Uint64") {
				return
			}
			order := typeName(recvArg(&cl.Call).Type())
			if cl.Call.IsInvoke() {
				order = "dynamic byte order"
				for _, o := range origins(cl.Call.Value, originOpt{}) {
					if g, ok := o.(*ssa.UnOp); ok {
						if gl, ok := g.X.(*ssa.Global); ok {
							order = gl.Name()
						}
					}
				}
			}
			args := explicitArgs(&cl.Call)
			sl, ok := args[0].(*ssa.Slice)
			if !ok {
				return
			}
			var lo, hi int64 = 0, -1
			if sl.Low != nil {
				lo, _ = constInt(sl.Low)
			}
			if sl.High != nil {
				hi, _ = constInt(sl.High)
			}
			if id.Name == "PutUint64" && w.ctors[f] {
				enc = append(enc, codec{order: order, lo: lo, hi: hi, fn: f, pos: cl.Pos()})
			}
			if id.Name == "Uint64" && (f.Signature.Recv() == nil || namedOf(f.Signature.Recv().Type()) == w.typ) {
				dec = append(dec, codec{order: order, lo: lo, hi: hi, fn: f, pos: cl.Pos()})
			}
		})
	}
	if len(enc) != 1 || len(dec) != 1 {
		r.Unk("C06.R7", "storage/wal", "key-codec", "-", fmt.Sprintf("found %d index encoders and %d decoders, want 1 and 1", len(enc), len(dec)))
		return
	}
	e, d := enc[0], dec[0]
	okO := strings.Contains(e.order, "bigEndian") || strings.Contains(e.order, "BigEndian")
	r.Check(okO, "C06.R7", fnName(e.fn), "encoder-byte-order", c.Pos(e.pos), "index is written with "+e.order+" (lexicographic key order = numeric order only for big-endian)")
	okD := e.order == d.order && e.lo == d.lo && (e.hi == d.hi || d.hi == -1 || e.hi == -1)
	r.Check(okD && e.lo >= 16, "C06.R7", fnName(d.fn), "decoder-agrees", c.Pos(d.pos), fmt.Sprintf("encoder %s [%d:%d], decoder %s [%d:%d], group id in front", e.order, e.lo, e.hi, d.order, d.lo, d.hi))
}

// ---- R8: boundary table -------------------------------------------------------------------

type boundary struct {
	method   string
	sentinel string // name of the etcd/raft error variable
	param    int    // index in Params (0 = receiver)
	op       token.Token
	base     string // "FirstIndex" | "LastIndex"
	off      int64
}

func c06R8(c *Ctx, r *Report, w *walInfo) {
	table := []boundary{
		{"Entries", "ErrCompacted", 1, token.LSS, "FirstIndex", 0},
		{"Entries", "ErrUnavailable", 2, token.GTR, "LastIndex", 1},
		{"Term", "ErrCompacted", 1, token.LSS, "FirstIndex", -1},
		{"CreateSnapshot", "ErrSnapOutOfDate", 1, token.LSS, "FirstIndex", 0},
	}
	for _, b := range table {
		f := c.Method("storage/wal", "badgerWAL", b.method)
		cons := b.method + "-" + b.sentinel
		if f == nil {
			r.Unk("C06.R8", "storage/wal.badgerWAL", cons, "-", "method not found")
			continue
		}
		entryFn := f
		// the test may live in a validation helper that is handed the index parameter
		hasSentinel := func(g *ssa.Function) bool {
			for _, rt := range returnsOf(g) {
				if gl := globalOf(rt.Results[len(rt.Results)-1]); gl != nil && gl.Name() == b.sentinel {
					return true
				}
			}
			return false
		}
		if !hasSentinel(f) {
			eachInstr(entryFn, func(i ssa.Instruction) {
				cl, ok := i.(*ssa.Call)
				if !ok || cl.Call.StaticCallee() == nil || !modLocal(cl.Call.StaticCallee()) || !hasSentinel(cl.Call.StaticCallee()) {
					return
				}
				for ai, a := range cl.Call.Args {
					if a == ssa.Value(entryFn.Params[b.param]) && ai < len(cl.Call.StaticCallee().Params) {
						f = cl.Call.StaticCallee()
						b.param = ai
					}
				}
			})
		}
		// first return of the sentinel (in block order)
		found := false
		for _, rt := range returnsOf(f) {
			last := rt.Results[len(rt.Results)-1]
			g := globalOf(last)
			if g == nil || g.Name() != b.sentinel {
				continue
			}
			// the guarding If
			var guard *ssa.If
			pol := true
			for _, ifi := range allIfs(f) {
				for _, p := range []bool{true, false} {
					if succOn(ifi, p) == rt.Block() && len(rt.Block().Preds) == 1 {
						guard, pol = ifi, p
					}
				}
			}
			if guard == nil {
				continue
			}
			cmp, ok := guard.Cond.(*ssa.BinOp)
			if !ok {
				continue
			}
			// normalise to: param OP base+off
			isBase := func(v ssa.Value) bool {
				ex, ok := v.(*ssa.Extract)
				if !ok || ex.Index != 0 {
					return false
				}
				cl, ok := ex.Tuple.(*ssa.Call)
				return ok && callID(&cl.Call).Name == b.base
			}
			lhs, ok1 := normLin(cmp.X, func(v ssa.Value) bool { return isBase(v) || v == ssa.Value(f.Params[b.param]) })
			rhs, ok2 := normLin(cmp.Y, func(v ssa.Value) bool { return isBase(v) || v == ssa.Value(f.Params[b.param]) })
			if !ok1 || !ok2 || lhs.x == nil || rhs.x == nil || lhs.a != 1 || rhs.a != 1 {
				continue
			}
			op := cmp.Op
			if !pol {
				op = negateCmp(op)
			}
			// orient: parameter on the left
			if isBase(lhs.x) && rhs.x == ssa.Value(f.Params[b.param]) {
				lhs, rhs = rhs, lhs
				op = flipCmp(op)
			}
			if lhs.x != ssa.Value(f.Params[b.param]) || !isBase(rhs.x) {
				continue
			}
			found = true
			off := int64(rhs.b) - int64(lhs.b)
			// canonical: strict form. p <= base+k  ==  p < base+k+1 ; p >= base+k == p > base+k-1
			switch op {
			case token.LEQ:
				op, off = token.LSS, off+1
			case token.GEQ:
				op, off = token.GTR, off-1
			}
			okB := op == b.op && off == b.off
			r.Check(okB, "C06.R8", fnName(f), cons, c.Pos(rt.Pos()), fmt.Sprintf("%s is returned iff %s %s %s()%+d (reference: %s %s %s()%+d)", b.sentinel, f.Params[b.param].Name(), op, b.base, off, f.Params[b.param].Name(), b.op, b.base, b.off))
			break
		}
		if !found {
			r.Bad("C06.R8", fnName(f), cons, c.Pos(f.Pos()), "no return of "+b.sentinel+" guarded by a comparison of the index parameter with "+b.base+"()")
		}
	}
	// size limit never drops the first entry: in the function that accumulates entry sizes, the break on size > max is
	// conjoined with "not the first entry"
	for _, f := range w.funcs {
		if !measuresEntries(f) {
			continue
		}
		for _, ifi := range allIfs(f) {
			b, ok := ifi.Cond.(*ssa.BinOp)
			if !ok || (b.Op != token.GTR && b.Op != token.LSS) {
				continue
			}
			// size > maxSize (or maxSize < size): one side loads the maxSize cell / parameter
			maxSide := b.Y
			if b.Op == token.LSS {
				maxSide = b.X
			}
			if !isSizeLimitOperand(maxSide) {
				continue
			}
			// on the true side another test on a boolean "first" flag must stand between this test and the break
			tb := succOn(ifi, true)
			okFirst := false
			isFlag := func(v ssa.Value) bool {
				if u, ok := v.(*ssa.UnOp); ok && u.Op == token.NOT {
					v = u.X
				}
				if b, ok := v.Type().Underlying().(*types.Basic); !ok || b.Kind() != types.Bool {
					return false
				}
				switch v.(type) {
				case *ssa.Phi, *ssa.UnOp:
					return true // a boolean loop variable (φ) or a captured boolean cell
				}
				return false
			}
			if nx := condOf(tb); nx != nil && isFlag(nx.Cond) {
				okFirst = true // size test first, then the flag
			}
			for _, t := range allIfs(f) {
				if t != ifi && isFlag(t.Cond) && (guardedBy(ifi.Block(), t, true) || guardedBy(ifi.Block(), t, false)) {
					okFirst = true // flag first, then the size test
				}
			}
			r.Check(okFirst, "C06.R8", fnName(f), "size-limit-keeps-first", c.Pos(ifi.Cond.Pos()), "the size-limit break is conditional on at least one entry having been collected")
		}
	}
}

func negateCmp(op token.Token) token.Token {
	switch op {
	case token.LSS:
		return token.GEQ
	case token.GEQ:
		return token.LSS
	case token.GTR:
		return token.LEQ
	case token.LEQ:
		return token.GTR
	case token.EQL:
		return token.NEQ
	case token.NEQ:
		return token.EQL
	}
	return op
}

func flipCmp(op token.Token) token.Token {
	switch op {
	case token.LSS:
		return token.GTR
	case token.GTR:
		return token.LSS
	case token.LEQ:
		return token.GEQ
	case token.GEQ:
		return token.LEQ
	}
	return op
}
