package main

import (
	"fmt"
	"go/types"
	"sort"
	"strings"

	"golang.org/x/tools/go/ssa"
)

// lock-order and re-entrancy at field granularity ------------------------------------------------------------

type acqSite struct {
	fn   *ssa.Function
	ins  ssa.Instruction
	mode byte
}

// isRecv: v is f's receiver, directly or re-loaded from the cell go/ssa spills it into when a closure captures it.
func isRecv(f *ssa.Function, v ssa.Value) bool {
	if f.Signature.Recv() == nil || len(f.Params) == 0 {
		return false
	}
	v = strip(v)
	if v == ssa.Value(f.Params[0]) {
		return true
	}
	l, ok := loadOf(v)
	if !ok {
		return false
	}
	al, ok := l.(*ssa.Alloc)
	if !ok {
		return false
	}
	n, okAll := 0, true
	for _, u := range *al.Referrers() {
		if st, isS := u.(*ssa.Store); isS && st.Addr == ssa.Value(al) {
			n++
			if st.Val != ssa.Value(f.Params[0]) {
				okAll = false
			}
		}
	}
	return n == 1 && okAll
}

// recvRooted: the mutex designated by mu is a field of f's receiver object.
func recvRooted(f *ssa.Function, mu ssa.Value) bool {
	if f.Signature.Recv() == nil || len(f.Params) == 0 {
		return false
	}
	mu = strip(mu)
	if l, isLoad := loadOf(mu); isLoad {
		mu = strip(l) // the field holds a *sync.RWMutex
	}
	fa, ok := mu.(*ssa.FieldAddr)
	if !ok {
		return false
	}
	return isRecv(f, fa.X)
}

// lockOrderRule: (a) the may-hold-while-acquiring relation between mutex fields has no cycle; (b) no mutex is acquired
// again on the same object while it may already be held (Go's RWMutex blocks new readers once a writer waits, so a
// recursive read lock deadlocks as soon as a writer arrives in between).
func lockOrderRule(c *Ctx, r *Report, rule string, w *lockWorld, skipSameField func(*types.Var) bool) {
	// locks on the receiver object that may be held when a method is entered
	recvHeld := map[*ssa.Function]heldSet{}
	for _, f := range w.fns {
		recvHeld[f] = heldSet{}
	}
	ownRecvHeld := func(f *ssa.Function, i ssa.Instruction) heldSet {
		out := heldSet{}
		for k, v := range recvHeld[f] {
			out[k] = v
		}
		li := w.intra[f]
		for p, m := range li.before[i].may {
			if recvRooted(f, li.lockVal[p]) {
				if fld := mutexField(li.lockVal[p]); fld != nil && out[fld] != 'W' {
					out[fld] = m
				}
			}
		}
		return out
	}
	for changed := true; changed; {
		changed = false
		for _, f := range w.fns {
			if f.Signature.Recv() == nil || len(f.Params) == 0 {
				continue
			}
			eachInstr(f, func(i ssa.Instruction) {
				cl, ok := i.(*ssa.Call)
				if !ok {
					return
				}
				t := cl.Call.StaticCallee()
				if t == nil || recvHeld[t] == nil || t.Signature.Recv() == nil || len(cl.Call.Args) == 0 || !isRecv(f, cl.Call.Args[0]) {
					return
				}
				for k, v := range ownRecvHeld(f, i) {
					if old, ok := recvHeld[t][k]; !ok || (v == 'W' && old != 'W') {
						recvHeld[t][k] = v
						changed = true
					}
				}
			})
		}
	}
	writers := map[*types.Var]bool{}
	type edge struct{ from, to *types.Var }
	edges := map[edge]acqSite{}
	nAcq, nRe := 0, 0
	for _, f := range w.fns {
		eachInstr(f, func(i ssa.Instruction) {
			if cc := asCall(i); cc != nil {
				if op, mu := mutexOp(cc); op == "Lock" {
					if fld := mutexField(mu); fld != nil {
						writers[fld] = true
					}
				}
			}
		})
	}
	for _, f := range w.fns {
		li := w.intra[f]
		eachInstr(f, func(i ssa.Instruction) {
			cl, ok := i.(*ssa.Call)
			if !ok {
				return
			}
			op, mu := mutexOp(&cl.Call)
			if op != "Lock" && op != "RLock" {
				return
			}
			fld := mutexField(mu)
			if fld == nil {
				return
			}
			nAcq++
			mode := byte('R')
			if op == "Lock" {
				mode = 'W'
				writers[fld] = true
			}
			for h, hm := range w.heldAt(f, i) {
				if h == fld {
					continue
				}
				if _, seen := edges[edge{h, fld}]; !seen || hm == 'W' {
					edges[edge{h, fld}] = acqSite{f, i, mode}
				}
			}
			// re-entrancy on the same object
			if skipSameField != nil && skipSameField(fld) {
				return
			}
			var heldMode byte
			how := ""
			if m, ok := li.before[i].may[path(mu)]; ok {
				heldMode, how = m, "already held in this function"
			} else if recvRooted(f, mu) {
				if m, ok := recvHeld[f][fld]; ok {
					heldMode, how = m, "held by a caller on the same receiver"
				}
			}
			if heldMode == 0 || (heldMode == 'R' && mode == 'R' && !writers[fld]) {
				return
			}
			nRe++
			r.Bad(rule, fnName(f), "reacquires-"+fieldLabel(fld), c.InstrPos(i), fmt.Sprintf("%s is acquired (%c) while it may be %s (%c): a write lock deadlocks at once; a recursive read lock deadlocks as soon as a writer asks for the lock in between (sync.RWMutex then blocks new readers) — the request, and everything queued behind the writer, hang forever whatever their deadline", fieldLabel(fld), mode, how, heldMode))
		})
	}
	if nRe == 0 {
		r.OK(rule, "module", "no-reentrant-lock", "-", fmt.Sprintf("%d lock acquisitions in %d functions; none re-acquires a mutex of the same object that may already be held (own frame or callers on the same receiver)", nAcq, len(w.fns)))
	}
	// cycles
	adj := map[*types.Var][]*types.Var{}
	for e := range edges {
		adj[e.from] = append(adj[e.from], e.to)
	}
	var nodes []*types.Var
	for n := range adj {
		nodes = append(nodes, n)
	}
	sort.Slice(nodes, func(i, j int) bool { return fieldLabel(nodes[i]) < fieldLabel(nodes[j]) })
	reported := map[string]bool{}
	nCyc := 0
	for _, s := range nodes {
		// shortest cycle through s (BFS)
		prev := map[*types.Var]*types.Var{}
		q := []*types.Var{s}
		var hit *types.Var
		for len(q) > 0 && hit == nil {
			x := q[0]
			q = q[1:]
			for _, y := range adj[x] {
				if y == s {
					hit = x
					break
				}
				if _, ok := prev[y]; !ok && y != s {
					prev[y] = x
					q = append(q, y)
				}
			}
		}
		if hit == nil {
			continue
		}
		cyc := []*types.Var{hit}
		for x := hit; x != s; {
			x = prev[x]
			cyc = append([]*types.Var{x}, cyc...)
		}
		// a cycle can only bite when somebody takes each of its locks exclusively, or holds them exclusively
		var names []string
		for _, x := range cyc {
			names = append(names, fieldLabel(x))
		}
		sorted := append([]string{}, names...)
		sort.Strings(sorted)
		key := strings.Join(sorted, "<>")
		if reported[key] {
			continue
		}
		reported[key] = true
		allExclusive := true
		for _, x := range cyc {
			if !writers[x] {
				allExclusive = false
			}
		}
		var desc []string
		for k, x := range cyc {
			y := cyc[(k+1)%len(cyc)]
			st := edges[edge{x, y}]
			desc = append(desc, fmt.Sprintf("%s acquires %s (%c) at %s while %s may be held", fnName(st.fn), fieldLabel(y), st.mode, c.InstrPos(st.ins), fieldLabel(x)))
		}
		if !allExclusive {
			r.OKTrivial(rule, "module", "lock-order-"+key, "-", "cycle among locks of which one is never taken exclusively: "+strings.Join(desc, "; "))
			continue
		}
		nCyc++
		r.Bad(rule, "module", "lock-order-"+key, c.InstrPos(edges[edge{cyc[0], cyc[(1)%len(cyc)]}].ins), "the mutexes are acquired in both orders: "+strings.Join(desc, "; ")+" — two goroutines taking them in opposite order wait for each other forever, and every later user of either lock with them")
	}
	if nCyc == 0 {
		r.OK(rule, "module", "lock-order-acyclic", "-", fmt.Sprintf("%d hold-while-acquiring pairs among %d mutex fields; no cycle", len(edges), len(nodes)))
	}
}
