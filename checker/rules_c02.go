package main

import (
	"fmt"
	"go/constant"
	"go/token"
	"go/types"
	"strings"

	"golang.org/x/tools/go/ssa"
)

func init() { register("C02", checkC02) }

type idxLocks struct {
	*idxInfo
	fVertices, fVerticesMu, fEdges, fEdgeMu, fLen, fBytes *types.Var
	pairs                                                 []guardedMapField
}

func newIdxLocks(c *Ctx) *idxLocks {
	x := &idxLocks{idxInfo: newIdx(c)}
	x.fVertices = c.Field("index", "Hnsw", "vertices")
	x.fVerticesMu = c.Field("index", "Hnsw", "verticesMu")
	x.fEdges = c.Field("index", "hnswVertex", "edges")
	x.fEdgeMu = c.Field("index", "hnswVertex", "edgeMutexes")
	x.fLen = c.Field("index", "Hnsw", "len")
	x.fBytes = c.Field("index", "Hnsw", "bytesSize")
	for n, f := range map[string]*types.Var{"Hnsw.vertices": x.fVertices, "Hnsw.verticesMu": x.fVerticesMu, "hnswVertex.edges": x.fEdges,
		"hnswVertex.edgeMutexes": x.fEdgeMu, "Hnsw.len": x.fLen, "Hnsw.bytesSize": x.fBytes} {
		if f == nil {
			x.missing = append(x.missing, "field "+n)
		}
	}
	if len(x.missing) == 0 {
		x.pairs = []guardedMapField{{x.fVertices, x.fVerticesMu}, {x.fEdges, x.fEdgeMu}}
	}
	return x
}

// apply-goroutine-only functions: the snapshot writer and reader of the index run on the raft apply
// goroutine, the only writer (C04.R2 checks that fact).
func (x *idxLocks) applyOnly(f *ssa.Function) bool {
	takesStream := func(g *ssa.Function) bool {
		for _, p := range g.Params {
			if n := namedOf(p.Type()); n != nil && n.Obj().Pkg() != nil && n.Obj().Pkg().Path() == "io" && (n.Obj().Name() == "Writer" || n.Obj().Name() == "Reader") {
				return true
			}
		}
		return false
	}
	if f.Signature.Recv() != nil && namedOf(f.Signature.Recv().Type()) == x.hnsw {
		// role: a method of the index that takes an io.Writer or io.Reader
		return len(f.Params) > 1 && takesStream(f)
	}
	// a part of the writer / reader moved into a function of its own (saveVertexEdges(w, vertex)): it takes the stream and
	// is called by nothing but stream functions of the index
	if f.Parent() != nil || !takesStream(f) {
		return false
	}
	sites, ok := 0, true
	for _, g := range x.funcs {
		eachInstr(g, func(i ssa.Instruction) {
			if cc := asCall(i); cc != nil && cc.StaticCallee() == f {
				sites++
				if !takesStream(rootFn(g)) {
					ok = false
				}
			}
		})
	}
	return sites > 0 && ok
}

// checkGuardedMaps emits one obligation per map operation on a guarded field (`which`).
func (x *idxLocks) checkGuardedMaps(c *Ctx, r *Report, rule string, which *types.Var) {
	for _, f := range x.funcs {
		ops := mapOpsIn(f)
		var li *lockInfo
		n := map[string]int{}
		for _, op := range ops {
			want, fld := pairedMutexPath(op.m, x.pairs)
			if fld != which || want == "" {
				continue
			}
			n[op.kind]++
			cons := fmt.Sprintf("%s-%s#%d", fld.Name(), op.kind, n[op.kind])
			pos := c.InstrPos(op.instr)
			if x.applyOnly(f) {
				r.Exception = append(r.Exception, fmt.Sprintf("%s %s %s: snapshot writer/reader, runs on the apply goroutine (single writer)", rule, fnName(f), cons))
				r.OKTrivial(rule, fnName(f), cons, pos, "exception: snapshot writer/reader on the apply goroutine")
				continue
			}
			if li == nil {
				li = analyzeLocks(f)
			}
			st := li.before[op.instr]
			mode, held := st.must[want]
			switch {
			case !held:
				r.Bad(rule, fnName(f), cons, pos, fmt.Sprintf("%s on %s without its lock %s held on every path (held: %s)", op.kind, path(op.m), want, st.must))
			case op.write && mode != 'W':
				r.Bad(rule, fnName(f), cons, pos, fmt.Sprintf("%s on %s under a read lock only", op.kind, path(op.m)))
			default:
				r.OK(rule, fnName(f), cons, pos, fmt.Sprintf("%s held (%c)", want, mode))
			}
		}
		// slot stores: X.f[i] = newMap
		k := 0
		eachInstr(f, func(i ssa.Instruction) {
			st, ok := i.(*ssa.Store)
			if !ok {
				return
			}
			ia, ok := st.Addr.(*ssa.IndexAddr)
			if !ok {
				return
			}
			var base ssa.Value = ia.X
			fresh := false
			if l, ok := loadOf(base); ok {
				base = l
			}
			fa, ok := base.(*ssa.FieldAddr)
			if !ok || structField(fa.X.Type(), fa.Field) != which {
				return
			}
			k++
			cons := fmt.Sprintf("%s-slot-store#%d", which.Name(), k)
			// fresh container: the struct was allocated here, or the slice in the field was made here
			if al, ok := strip(fa.X).(*ssa.Alloc); ok && al.Heap {
				fresh = true
			}
			for _, s2 := range fieldStoresIn(f, which) {
				if _, isMk := s2.Val.(*ssa.MakeSlice); isMk && path(s2.Addr.(*ssa.FieldAddr).X) == path(fa.X) && instrDominates(s2, i) {
					fresh = true
				}
			}
			if fresh {
				r.OKTrivial(rule, fnName(f), cons, c.InstrPos(i), "construction: container allocated in this function, not yet published")
				return
			}
			if x.applyOnly(f) {
				r.OKTrivial(rule, fnName(f), cons, c.InstrPos(i), "exception: snapshot reader on the apply goroutine")
				return
			}
			var muf *types.Var
			for _, p := range x.pairs {
				if p.mapField == which {
					muf = p.muField
				}
			}
			want := path(fa.X) + "." + muf.Name() + "[" + path(ia.Index) + "]"
			if li == nil {
				li = analyzeLocks(f)
			}
			if li.before[i].must[want] == 'W' {
				r.OK(rule, fnName(f), cons, c.InstrPos(i), want+" held (W)")
			} else {
				r.Bad(rule, fnName(f), cons, c.InstrPos(i), "map slot replaced without the write lock "+want)
			}
		})
	}
}

// checkEscapedMaps: a guarded map obtained through a call (an accessor that returns the map after releasing its lock)
// cannot be shown to be used under the lock.
func (x *idxLocks) checkEscapedMaps(c *Ctx, r *Report, rule string) {
	for _, f := range x.funcs {
		if x.applyOnly(f) {
			continue
		}
		n := 0
		for _, op := range mapOpsIn(f) {
			if want, _ := pairedMutexPath(op.m, x.pairs); want != "" {
				continue
			}
			cl, ok := strip(op.m).(*ssa.Call)
			if !ok {
				continue
			}
			fld := fieldOfValueDeep(cl)
			if fld != x.fEdges && fld != x.fVertices {
				continue
			}
			n++
			r.Bad(rule, fnName(f), fmt.Sprintf("escaped-%s-%s#%d", fld.Name(), op.kind, n), c.InstrPos(op.instr), fmt.Sprintf("%s on a %s map obtained from %s(), which returns the map after releasing its lock: the operation runs unlocked while writers modify the map (fatal error: concurrent map iteration and map write)", op.kind, fld.Name(), callID(&cl.Call).Name))
		}
	}
}

func fieldStoresIn(f *ssa.Function, fld *types.Var) []*ssa.Store {
	var out []*ssa.Store
	eachInstr(f, func(i ssa.Instruction) {
		if st, ok := i.(*ssa.Store); ok {
			if fa, ok := st.Addr.(*ssa.FieldAddr); ok && structField(fa.X.Type(), fa.Field) == fld {
				out = append(out, st)
			}
		}
	})
	return out
}

func checkC02(c *Ctx, r *Report, tier string) {
	round5(c, r, "C02")
	round6(c, r, "C02")
	round7(c, r, "C02")
	round8(c, r, "C02")
	x := newIdxLocks(c)
	r.Rule("C02.R1", "shard-lock discipline: every operation on a shard map of the index happens with the mutex paired with it must-held (write lock for writes)", 4)
	r.Rule("C02.R2", "insert-if-absent / delete-if-present: every insertion into a shard map is guarded by the absent polarity of a lookup of the same key in the same map, every deletion by the present polarity, in the same critical section", 2)
	r.Rule("C02.R3", "counter pairing, exact: every shard-map insertion is followed in its block by len += 1 and bytesSize += size(inserted); every deletion by len += -1 and bytesSize += -size(deleted), normalised in Z/2^64; a plain read-modify-write of a counter is dominated by a plain reset", 5)
	r.Rule("C02.R4", "failed operations change nothing: a mutator call dominated by a fallible index operation is on the success side of that operation's error test; an error return of the store/remove primitive is not preceded by a mutation", 6)
	r.Rule("C02.R5", "update = merge with the old level: inside the loop over the old metadata the write into the new map is guarded by `key absent in the new map`; re-insert uses the same id and the old vertex's level; no write into a possibly-nil request map", 4)
	r.Rule("C02.R6", "the right error on the right branch: the insert primitive returns the `already exists` variable, lookups/removals the `not found` variable; the two are distinct", 4)
	if len(x.missing) > 0 {
		r.Unk("C02.R1", "index", "anchors", "-", "cannot resolve: "+strings.Join(x.missing, ", "))
		return
	}
	x.checkGuardedMaps(c, r, "C02.R1", x.fVertices)
	c02R2R3R6(c, r, x)
	c02R4(c, r, x)
	noMutationBeforeErrorReturn(c, r, "C02.R4")
	restoreResetsBeforeSuccess(c, r, "C02.R3")
	c02R5(c, r, x)
	publishedVertexWrites(c, r, "C02.R5")
	batchItemsProcessedOneByOne(c, r, "C02.R5")
	sharedMapAcrossItems(c, r, "C02.R5")
	r.Rule("C02.R6", "an update cannot turn into a deletion: every error the index's Insert can return is decided by the id-exists test of the shard map (the update path removes first and re-inserts)", 1)
	insertFailsOnlyOnDuplicate(c, r, "C02.R6")
	metadataMergeKeepsNewKeys(c, r, "C02.R5")
	r.Rule("C02.R7", "exact errors come from the log position: a proposing partition method does not consult the local index; the dimension guard of every value-carrying write cannot be bypassed by an empty vector", 4)
	proposersDoNotReadTheIndex(c, r, "C02.R7")
	borrow(c, r, "C11", "C11.R4", "C02.R7", "")
	restoreCallbackDelegates(c, r, "C02.R3", "partition", "Hnsw")
}

// shardMapWrites lists MapUpdate/delete on shard maps in f.
func (x *idxLocks) shardMapOps(f *ssa.Function) []mapOp {
	var out []mapOp
	for _, op := range mapOpsIn(f) {
		if _, fld := pairedMutexPath(op.m, x.pairs); fld == x.fVertices {
			out = append(out, op)
		}
	}
	return out
}

// ---- SA-LIN ---------------------------------------------------------------------------

type lin struct {
	a, b uint64
	x    ssa.Value // the symbolic term (a size call), nil if constant
}

func normLin(v ssa.Value, isTerm func(ssa.Value) bool) (lin, bool) {
	switch y := v.(type) {
	case *ssa.Const:
		if y.Value == nil || y.Value.Kind() != constant.Int {
			return lin{}, false
		}
		if u, ok := constant.Uint64Val(y.Value); ok {
			return lin{0, u, nil}, true
		}
		if s, ok := constant.Int64Val(y.Value); ok {
			return lin{0, uint64(s), nil}, true
		}
		return lin{}, false
	case *ssa.Convert:
		// conversions between 64-bit integer types keep the value mod 2^64
		if b, ok := y.Type().Underlying().(*types.Basic); ok && (b.Kind() == types.Uint64 || b.Kind() == types.Int64 || b.Kind() == types.Uint || b.Kind() == types.Int) {
			if isTerm(y) {
				return lin{1, 0, y}, true
			}
			return normLin(y.X, isTerm)
		}
		return lin{}, false
	case *ssa.ChangeType:
		return normLin(y.X, isTerm)
	case *ssa.UnOp:
		if y.Op == token.XOR { // ^e = -e-1
			l, ok := normLin(y.X, isTerm)
			if !ok {
				return lin{}, false
			}
			return lin{-l.a, -l.b - 1, l.x}, true
		}
		if y.Op == token.SUB {
			l, ok := normLin(y.X, isTerm)
			if !ok {
				return lin{}, false
			}
			return lin{-l.a, -l.b, l.x}, true
		}
	case *ssa.BinOp:
		if y.Op == token.ADD || y.Op == token.SUB {
			l, ok1 := normLin(y.X, isTerm)
			rr, ok2 := normLin(y.Y, isTerm)
			if !ok1 || !ok2 {
				return lin{}, false
			}
			if l.x != nil && rr.x != nil && l.x != rr.x {
				return lin{}, false
			}
			xx := l.x
			if xx == nil {
				xx = rr.x
			}
			if y.Op == token.ADD {
				return lin{l.a + rr.a, l.b + rr.b, xx}, true
			}
			return lin{l.a - rr.a, l.b - rr.b, xx}, true
		}
	}
	if isTerm(v) {
		return lin{1, 0, v}, true
	}
	return lin{}, false
}

func (l lin) String() string {
	if l.x == nil {
		return fmt.Sprintf("%d", int64(l.b))
	}
	return fmt.Sprintf("%d·size + %d", int64(l.a), int64(l.b))
}

// atomicAddOn: call is atomic.AddUint64(&X.fld, delta)
func atomicAddOn(i ssa.Instruction, fld *types.Var) (ssa.Value, bool) {
	cc := plainCall(i)
	if cc == nil {
		return nil, false
	}
	id := callID(cc)
	if id.Pkg != "sync/atomic" || !strings.HasPrefix(id.Name, "Add") || len(cc.Args) != 2 {
		return nil, false
	}
	fa, ok := cc.Args[0].(*ssa.FieldAddr)
	if !ok || structField(fa.X.Type(), fa.Field) != fld {
		return nil, false
	}
	return cc.Args[1], true
}

func c02R2R3R6(c *Ctx, r *Report, x *idxLocks) {
	alreadyVar, notFoundVar := x.errorVars(c, r)
	for _, f := range x.funcs {
		if x.applyOnly(f) {
			continue
		}
		ops := x.shardMapOps(f)
		if len(ops) == 0 {
			continue
		}
		fn := fnName(f)
		// lookups by map value
		type look struct {
			lk  *ssa.Lookup
			ifi *ssa.If
		}
		var looks []look
		for _, ifi := range allIfs(f) {
			if ex, ok := ifi.Cond.(*ssa.Extract); ok && ex.Index == 1 {
				if lk, ok := ex.Tuple.(*ssa.Lookup); ok && lk.CommaOk {
					looks = append(looks, look{lk, ifi})
				}
			}
		}
		inserts, deletes := false, false
		for _, op := range ops {
			if !op.write {
				continue
			}
			var key ssa.Value
			if mu, ok := op.instr.(*ssa.MapUpdate); ok {
				key = mu.Key
				inserts = true
			} else {
				key = op.instr.(*ssa.Call).Call.Args[1]
				deletes = true
			}
			wantPresent := op.kind == "delete"
			ok := false
			var theLook *ssa.Lookup
			for _, l := range looks {
				if l.lk.X == op.m && sameKey(l.lk.Index, key) && guardedBy(op.instr.Block(), l.ifi, wantPresent) {
					ok = true
					theLook = l.lk
				}
			}
			cons := "shard-" + op.kind
			if !ok {
				r.Bad("C02.R2", fn, cons, c.InstrPos(op.instr), fmt.Sprintf("%s of a shard map entry is not guarded by a lookup of the same key (need polarity present=%v)", op.kind, wantPresent))
			} else {
				// same critical section: no unlock between lookup and act
				li := analyzeLocks(f)
				want, _ := pairedMutexPath(op.m, x.pairs)
				_, h1 := li.before[theLook].must[want]
				_, h2 := li.before[op.instr].must[want]
				unl := false
				eachInstr(f, func(i ssa.Instruction) {
					if cl, ok := i.(*ssa.Call); ok {
						if o, mu := mutexOp(&cl.Call); (o == "Unlock" || o == "RUnlock") && path(mu) == want && instrDominates(theLook, i) && instrDominates(i, op.instr) {
							unl = true
						}
					}
				})
				if h1 && h2 && !unl {
					r.OK("C02.R2", fn, cons, c.InstrPos(op.instr), "test and act under one hold of "+want)
				} else {
					r.Bad("C02.R2", fn, cons, c.InstrPos(op.instr), "existence test and "+op.kind+" are not in one critical section of "+want)
				}
			}
			// R3 counters in the same block
			var dLen, dBytes ssa.Value
			for _, in := range op.instr.Block().Instrs {
				if d, ok := atomicAddOn(in, x.fLen); ok {
					if dLen != nil {
						r.Bad("C02.R3", fn, cons+"-len", c.InstrPos(in), "item counter updated twice for one map write")
					}
					dLen = d
				}
				if d, ok := atomicAddOn(in, x.fBytes); ok {
					if dBytes != nil {
						r.Bad("C02.R3", fn, cons+"-bytes", c.InstrPos(in), "byte counter updated twice for one map write")
					}
					dBytes = d
				}
			}
			var subject ssa.Value // the vertex inserted / deleted
			if mu, ok := op.instr.(*ssa.MapUpdate); ok {
				subject = strip(mu.Value)
			} else if theLook != nil {
				for _, rr := range *theLook.Referrers() {
					if ex, ok := rr.(*ssa.Extract); ok && ex.Index == 0 {
						subject = ex
					}
				}
			}
			isSize := func(v ssa.Value) bool {
				cl, ok := v.(*ssa.Call)
				if !ok {
					return false
				}
				g := cl.Call.StaticCallee()
				return g != nil && g.Name() == "bytesSize" && len(cl.Call.Args) == 1 && subject != nil && strip(cl.Call.Args[0]) == subject
			}
			wantLen, wantA := uint64(1), uint64(1)
			if wantPresent {
				wantLen, wantA = ^uint64(0), ^uint64(0)
			}
			if dLen == nil {
				r.Bad("C02.R3", fn, cons+"-len", c.InstrPos(op.instr), "no atomic update of the item counter accompanies this map write")
			} else if l, ok := normLin(dLen, func(ssa.Value) bool { return false }); !ok || l.x != nil || l.b != wantLen {
				r.Bad("C02.R3", fn, cons+"-len", c.InstrPos(op.instr), fmt.Sprintf("item counter delta normalises to %v, want %d", l, int64(wantLen)))
			} else {
				r.OK("C02.R3", fn, cons+"-len", c.InstrPos(op.instr), fmt.Sprintf("len += %d (mod 2^64)", int64(wantLen)))
			}
			if dBytes == nil {
				r.Bad("C02.R3", fn, cons+"-bytes", c.InstrPos(op.instr), "no atomic update of the byte counter accompanies this map write")
			} else if l, ok := normLin(dBytes, isSize); !ok || l.x == nil || l.a != wantA || l.b != 0 {
				r.Bad("C02.R3", fn, cons+"-bytes", c.InstrPos(op.instr), fmt.Sprintf("byte counter delta normalises to %v (ok=%v), want %d·size(subject vertex) + 0", l, ok, int64(wantA)))
			} else {
				r.OK("C02.R3", fn, cons+"-bytes", c.InstrPos(op.instr), fmt.Sprintf("bytesSize += %d·size(vertex) (mod 2^64)", int64(wantA)))
			}
		}
		// R6: error variables (functions that address a shard map by key; a function that only ranges over the shards — a scan
		// for any stored vertex — has no `exists` / `not found` verdict of its own)
		keyed := false
		for _, op := range ops {
			if op.kind == "lookup" || op.kind == "update" || op.kind == "delete" {
				keyed = true
			}
		}
		if alreadyVar != nil && notFoundVar != nil && keyed {
			k := 0
			for _, ret := range returnsOf(f) {
				last := ret.Results[len(ret.Results)-1]
				if !isErrorType(last.Type()) || isNilConst(last) {
					continue
				}
				k++
				cons := fmt.Sprintf("error-return#%d", k)
				g := globalOf(last)
				want := notFoundVar
				wname := "not found"
				if inserts && !deletes {
					want, wname = alreadyVar, "already exists"
				}
				if g == want {
					r.OK("C02.R6", fn, cons, c.Pos(ret.Pos()), "returns the `"+wname+"` variable")
				} else {
					r.Bad("C02.R6", fn, cons, c.Pos(ret.Pos()), fmt.Sprintf("error return of a shard-map %s does not return the `%s` variable (returns %s)", map[bool]string{true: "insert", false: "lookup/removal"}[inserts && !deletes], wname, last))
				}
			}
		}
	}
	// R3: plain read-modify-write of counters needs a dominating reset
	for _, f := range x.funcs {
		for _, fld := range []*types.Var{x.fLen, x.fBytes} {
			var resets, rmws []*ssa.Store
			for _, st := range fieldStoresIn(f, fld) {
				if b, ok := st.Val.(*ssa.BinOp); ok && (fieldOfValue(b.X) == fld || fieldOfValue(b.Y) == fld) {
					rmws = append(rmws, st)
				} else if _, ok := st.Val.(*ssa.Const); ok {
					resets = append(resets, st)
				}
			}
			for k, m := range rmws {
				dom := false
				for _, rs := range resets {
					if instrDominates(rs, m) {
						dom = true
					}
				}
				cons := fmt.Sprintf("accumulate-%s#%d", fld.Name(), k+1)
				if dom {
					r.OK("C02.R3", fnName(f), cons, c.InstrPos(m), "accumulation is dominated by a reset of the counter")
				} else {
					r.Bad("C02.R3", fnName(f), cons, c.InstrPos(m), "counter "+fld.Name()+" is accumulated without being reset first: loading into a used index leaves a stale value")
				}
			}
		}
	}
}

func sameKey(a, b ssa.Value) bool {
	a, b = strip(a), strip(b)
	if a == b {
		return true
	}
	// loads of the same field of the same value (vertex.id read twice)
	return path(a) == path(b) && !strings.HasPrefix(path(a), "t")
}

func globalOf(v ssa.Value) *ssa.Global {
	v = strip(v)
	if a, ok := loadOf(v); ok {
		if g, ok := a.(*ssa.Global); ok {
			return g
		}
	}
	return nil
}

// errorVars finds the two sentinel errors of package index by their message.
func (x *idxLocks) errorVars(c *Ctx, r *Report) (already, notFound *ssa.Global) {
	sp := c.SSAPkg("index")
	if sp == nil {
		return
	}
	init := sp.Func("init")
	if init == nil {
		return
	}
	eachInstr(init, func(i ssa.Instruction) {
		st, ok := i.(*ssa.Store)
		if !ok {
			return
		}
		g, ok := st.Addr.(*ssa.Global)
		if !ok {
			return
		}
		cl, ok := strip(st.Val).(*ssa.Call)
		if !ok || !callID(&cl.Call).is("errors", "", "New") {
			return
		}
		if k, ok := cl.Call.Args[0].(*ssa.Const); ok && k.Value != nil && k.Value.Kind() == constant.String {
			s := strings.ToLower(constant.StringVal(k.Value))
			if strings.Contains(s, "already exists") {
				already = g
			}
			if strings.Contains(s, "not found") {
				notFound = g
			}
		}
	})
	if already == nil || notFound == nil || already == notFound {
		r.Bad("C02.R6", "index.init", "sentinel-errors", "-", "package index does not define two distinct error variables whose messages contain `already exists` and `not found`")
		return nil, nil
	}
	r.OKTrivial("C02.R6", "index.init", "sentinel-errors", c.Pos(already.Pos()), already.Name()+" / "+notFound.Name())
	return
}

// ---- R4 ------------------------------------------------------------------------------

// mutators: functions of package index that (transitively) write a guarded map, an edge slot, the entry
// point, the tombstone or a counter.
func (x *idxLocks) mutators() map[*ssa.Function]bool {
	direct := map[*ssa.Function]bool{}
	for _, f := range x.funcs {
		eachInstr(f, func(i ssa.Instruction) {
			switch y := i.(type) {
			case *ssa.MapUpdate:
				if _, fld := pairedMutexPath(y.Map, x.pairs); fld != nil {
					direct[f] = true
				}
			case *ssa.Store:
				if fld := fieldOfAddr(y.Addr); fld == x.fEdges || fld == x.fVertices {
					direct[f] = true
				}
			case *ssa.Call:
				id := callID(&y.Call)
				if id.Pkg == "builtin" && id.Name == "delete" {
					if _, fld := pairedMutexPath(y.Call.Args[0], x.pairs); fld != nil {
						direct[f] = true
					}
				}
				if id.Pkg == "sync/atomic" && !strings.HasPrefix(id.Name, "Load") && len(y.Call.Args) > 0 {
					if fa, ok := y.Call.Args[0].(*ssa.FieldAddr); ok {
						switch structField(fa.X.Type(), fa.Field) {
						case x.fEntry, x.fDeleted, x.fLen, x.fBytes:
							direct[f] = true
						}
					}
				}
			}
		})
	}
	// transitive closure over static calls inside the package
	changed := true
	for changed {
		changed = false
		for _, f := range x.funcs {
			if direct[f] {
				continue
			}
			eachInstr(f, func(i ssa.Instruction) {
				if cc := asCall(i); cc != nil {
					if g := cc.StaticCallee(); g != nil && direct[g] && !direct[f] {
						direct[f] = true
						changed = true
					}
				}
			})
		}
	}
	return direct
}

func c02R4(c *Ctx, r *Report, x *idxLocks) {
	mut := x.mutators()
	isIdxFallible := func(f *ssa.Function) bool {
		if f == nil || fnPkgPath(f) != modPath+"/index" {
			return false
		}
		if f.Signature.Recv() == nil || namedOf(f.Signature.Recv().Type()) != x.hnsw {
			return false
		}
		res := f.Signature.Results()
		if res.Len() == 0 || !isErrorType(res.At(res.Len()-1).Type()) {
			return false
		}
		// reads or writes the shard maps (store / remove / get primitives and their public callers)
		return mut[f] || len(x.shardMapOps(f)) > 0
	}
	scope := append([]*ssa.Function{}, x.funcs...)
	for _, f := range c.FuncsInPkg("storage") {
		if c.isProd(f) {
			scope = append(scope, f)
		}
	}
	for _, g := range scope {
		if x.applyOnly(g) {
			continue
		}
		var falls []*ssa.Call
		var muts []ssa.Instruction
		eachInstr(g, func(i ssa.Instruction) {
			if cl, ok := i.(*ssa.Call); ok {
				if f := cl.Call.StaticCallee(); f != nil {
					if isIdxFallible(f) {
						falls = append(falls, cl)
					}
					if mut[f] {
						muts = append(muts, i)
					}
				}
			}
			if x.isEntryWrite(i) {
				muts = append(muts, i)
			}
		})
		for k, fc := range falls {
			cons := fmt.Sprintf("after-%s#%d", fc.Call.StaticCallee().Name(), k+1)
			// error value of fc
			var errV ssa.Value
			if fc.Call.Signature().Results().Len() == 1 {
				errV = fc
			} else {
				for _, rr := range *fc.Referrers() {
					if ex, ok := rr.(*ssa.Extract); ok && ex.Index == fc.Call.Signature().Results().Len()-1 {
						errV = ex
					}
				}
			}
			var test *ssa.If
			okPol := false
			for _, ifi := range allIfs(g) {
				if b, ok := ifi.Cond.(*ssa.BinOp); ok && errV != nil && ((b.X == errV && isNilConst(b.Y)) || (b.Y == errV && isNilConst(b.X))) {
					test = ifi
					okPol = b.Op == token.EQL
				}
			}
			var after []ssa.Instruction
			for _, m := range muts {
				if m != ssa.Instruction(fc) && instrDominates(fc, m) {
					after = append(after, m)
				}
			}
			if len(after) == 0 {
				r.OKTrivial("C02.R4", fnName(g), cons, c.Pos(fc.Pos()), "no mutator follows")
				continue
			}
			if test == nil {
				r.Bad("C02.R4", fnName(g), cons, c.Pos(fc.Pos()), fmt.Sprintf("the error of %s is not tested although %d mutator call(s) follow", fc.Call.StaticCallee().Name(), len(after)))
				continue
			}
			bad := ""
			for _, m := range after {
				if !guardedBy(m.Block(), test, okPol) {
					bad = c.InstrPos(m)
				}
			}
			if bad != "" {
				r.Bad("C02.R4", fnName(g), cons, c.Pos(fc.Pos()), "a mutator at "+bad+" is reachable on the failure side of this operation")
			} else {
				r.OK("C02.R4", fnName(g), cons, c.Pos(fc.Pos()), fmt.Sprintf("%d following mutator call(s) are all on the success side", len(after)))
			}
		}
	}
	// primitives: error return not preceded by a mutation
	for _, f := range x.funcs {
		if x.applyOnly(f) || !hasKeyedOp(x.shardMapOps(f)) {
			continue
		}
		var mutIns []ssa.Instruction
		eachInstr(f, func(i ssa.Instruction) {
			switch y := i.(type) {
			case *ssa.MapUpdate:
				mutIns = append(mutIns, i)
			case *ssa.Call:
				id := callID(&y.Call)
				if (id.Pkg == "builtin" && id.Name == "delete") || (id.Pkg == "sync/atomic" && !strings.HasPrefix(id.Name, "Load")) {
					mutIns = append(mutIns, i)
				} else if g := y.Call.StaticCallee(); g != nil && mut[g] {
					mutIns = append(mutIns, i)
				}
			}
		})
		k := 0
		for _, ret := range returnsOf(f) {
			last := ret.Results[len(ret.Results)-1]
			if !isErrorType(last.Type()) || isNilConst(last) {
				continue
			}
			k++
			cons := fmt.Sprintf("error-return#%d", k)
			bad := ""
			for _, m := range mutIns {
				if _, reach := reachesAvoiding(f, m, func(i ssa.Instruction) bool { return i == ssa.Instruction(ret.Return) }, nil); reach {
					bad = c.InstrPos(m)
				}
			}
			if bad != "" {
				r.Bad("C02.R4", fnName(f), cons, c.Pos(ret.Pos()), "this error return can be reached after the mutation at "+bad)
			} else {
				r.OK("C02.R4", fnName(f), cons, c.Pos(ret.Pos()), "no mutation on any path to this error return")
			}
		}
	}
}

// ---- R5 ------------------------------------------------------------------------------

func c02R5(c *Ctx, r *Report, x *idxLocks) {
	metaT := c.Named("index", "Metadata")
	for _, g := range c.FuncsInPkg("storage") {
		if !c.isProd(g) {
			continue
		}
		// loops over vertex.Metadata()
		eachInstr(g, func(i ssa.Instruction) {
			rg, ok := i.(*ssa.Range)
			if !ok {
				return
			}
			src, ok := rg.X.(*ssa.Call)
			if !ok || callID(&src.Call).Name != "Metadata" || namedOf(rg.X.Type()) != metaT {
				return
			}
			oldVertex := strip(src.Call.Args[0])
			fn := fnName(g)
			var key *ssa.Extract
			for _, rr := range *rg.Referrers() {
				if nx, ok := rr.(*ssa.Next); ok {
					for _, e := range *nx.Referrers() {
						if ex, ok := e.(*ssa.Extract); ok && ex.Index == 1 {
							key = ex
						}
					}
				}
			}
			// map updates keyed by the loop key
			found := false
			eachInstr(g, func(j ssa.Instruction) {
				mu, ok := j.(*ssa.MapUpdate)
				if !ok || key == nil || strip(mu.Key) != ssa.Value(key) {
					return
				}
				found = true
				guard := false
				for _, ifi := range allIfs(g) {
					if ex, ok := ifi.Cond.(*ssa.Extract); ok && ex.Index == 1 {
						if lk, ok := ex.Tuple.(*ssa.Lookup); ok && lk.CommaOk && lk.X == mu.Map && strip(lk.Index) == ssa.Value(key) && guardedBy(j.Block(), ifi, false) {
							guard = true
						}
					}
				}
				r.Check(guard, "C02.R5", fn, "merge-guard", c.InstrPos(j), map[bool]string{true: "old key copied only when absent in the new metadata (new keys win)", false: "old metadata overwrites the new value: the copy is not guarded by `key absent in the new map`"}[guard])
				// R5b: the target map may be nil
				nilSafe, why := mapNonNil(g, mu.Map, j)
				if nilSafe {
					r.OK("C02.R5", fn, "merge-target-non-nil", c.InstrPos(j), why)
				} else {
					r.Bad("C02.R5", fn, "merge-target-non-nil", c.InstrPos(j), "write into a map that may be nil ("+why+"): an update without metadata of an item that has some panics in the apply loop")
				}
				// the re-insert after the loop
				var ins *ssa.Call
				eachInstr(g, func(k ssa.Instruction) {
					if cl, ok := k.(*ssa.Call); ok {
						if f := cl.Call.StaticCallee(); f != nil && f.Name() == "Insert" && f.Signature.Recv() != nil && namedOf(f.Signature.Recv().Type()) == x.hnsw && instrDominates(rg, k) {
							ins = cl
						}
					}
				})
				if ins == nil {
					r.Bad("C02.R5", fn, "re-insert", c.InstrPos(j), "no re-insert follows the merge")
					return
				}
				args := ins.Call.Args // recv, id, value, metadata, level
				okLevel := false
				if lc, ok := strip(args[4]).(*ssa.Call); ok && callID(&lc.Call).Name == "Level" && strip(lc.Call.Args[0]) == oldVertex {
					okLevel = true
				}
				okMeta := strip(args[3]) == strip(mu.Map)
				// same id as the one looked up for oldVertex
				okId := false
				for _, o := range origins(oldVertex, originOpt{}) {
					if ex, ok := o.(*ssa.Extract); ok {
						if gc, ok := ex.Tuple.(*ssa.Call); ok && len(gc.Call.Args) >= 2 && gc.Call.Args[1] == args[1] {
							okId = true
						}
					}
				}
				r.Check(okLevel && okMeta && okId, "C02.R5", fn, "re-insert", c.Pos(ins.Pos()),
					fmt.Sprintf("re-insert with the looked-up id=%v, the merged metadata=%v, the old vertex's level=%v", okId, okMeta, okLevel))
			})
			if !found {
				r.Bad("C02.R5", fn, "merge-guard", c.Pos(rg.Pos()), "loop over the old metadata does not copy into the new map")
			}
		})
	}
}

// mapNonNil: the map value is known non-nil at instruction `at`: made here, or a dominating nil test
// whose nil side makes/replaces it, or it is a φ of such.
func mapNonNil(g *ssa.Function, m ssa.Value, at ssa.Instruction) (bool, string) {
	switch y := m.(type) {
	case *ssa.MakeMap:
		return true, "made in this function"
	case *ssa.Phi:
		all := true
		for i, e := range y.Edges {
			if _, ok := e.(*ssa.MakeMap); ok {
				continue
			}
			// edge from the non-nil side of a nil test on e
			pb := y.Block().Preds[i]
			okEdge := false
			for _, ifi := range allIfs(g) {
				if b, ok := ifi.Cond.(*ssa.BinOp); ok && ((b.X == e && isNilConst(b.Y)) || (b.Y == e && isNilConst(b.X))) {
					nonNilPol := b.Op == token.NEQ
					if guardedBy(pb, ifi, nonNilPol) || (ifi.Block() == pb) {
						// pb is the if block itself: edge taken on one polarity
						idx := 0
						if !nonNilPol {
							idx = 1
						}
						if ifi.Block() == pb && pb.Succs[idx] == y.Block() {
							okEdge = true
						}
						if guardedBy(pb, ifi, nonNilPol) {
							okEdge = true
						}
					}
				}
			}
			if !okEdge {
				all = false
			}
		}
		if all {
			return true, "φ of fresh maps and values tested non-nil"
		}
		return false, "φ with an unchecked edge"
	}
	// dominating nil test
	for _, ifi := range allIfs(g) {
		if b, ok := ifi.Cond.(*ssa.BinOp); ok && ((b.X == m && isNilConst(b.Y)) || (b.Y == m && isNilConst(b.X))) {
			if guardedBy(at.Block(), ifi, b.Op == token.NEQ) {
				return true, "dominated by a non-nil test"
			}
		}
	}
	switch y := m.(type) {
	case *ssa.Parameter:
		return false, "parameter " + y.Name() + " comes from the request"
	case *ssa.Call:
		return false, "result of " + callID(&y.Call).Name + "() may be nil"
	}
	return false, "provenance " + m.String()
}

// hasKeyedOp: the function addresses a shard map by key (a scan over the shards is not a membership primitive).
func hasKeyedOp(ops []mapOp) bool {
	for _, op := range ops {
		if op.kind == "lookup" || op.kind == "update" || op.kind == "delete" {
			return true
		}
	}
	return false
}
