package main

// Rules added after the third seeded round (DESIGN §16). Each is a general obligation over the current source; each was
// first run on the unchanged tree and on the refactoring corpus (silent) and then on the seeded change that motivated it.

import (
	"fmt"
	"go/token"
	"go/types"
	"sort"
	"strings"

	"golang.org/x/tools/go/ssa"
)

var _ = sort.Strings

func inCycle(f *ssa.Function, i ssa.Instruction) bool {
	_, again := reachesAvoiding(f, i, func(z ssa.Instruction) bool { return z == i }, nil)
	return again
}

// ---- Ready loop ------------------------------------------------------------------------------------------

// readyPartsIndependent: the Ready loop handles committed entries whether or not the same Ready carries a snapshot, and
// records the leader of every SoftState it is given.
func readyPartsIndependent(c *Ctx, r *Report, rule string) {
	ro := discoverRoles(c)
	n := 0
	var bodies []*ssa.Function
	for _, f := range ro.readyLoops {
		bodies = append(bodies, f)
		if h, _ := readyBodyHelper(f); h != nil {
			bodies = append(bodies, h)
		}
	}
	for _, f := range bodies {
		// reads of rd.CommittedEntries
		eachInstr(f, func(i ssa.Instruction) {
			var fld *types.Var
			switch y := i.(type) {
			case *ssa.FieldAddr:
				fld = structField(y.X.Type(), y.Field)
			case *ssa.Field:
				fld = structField(y.X.Type(), y.Field)
			}
			if fld == nil || fld.Name() != "CommittedEntries" || typeName(fld.Type()) == "" && false {
				return
			}
			n++
			bad := ""
			for _, ifi := range allIfs(f) {
				cl, ok := ifi.Cond.(*ssa.Call)
				isSnapTest := ok && callID(&cl.Call).Name == "IsEmptySnap"
				if !isSnapTest {
					if u, isU := ifi.Cond.(*ssa.UnOp); isU && u.Op == token.NOT {
						if cl2, ok2 := u.X.(*ssa.Call); ok2 && callID(&cl2.Call).Name == "IsEmptySnap" {
							isSnapTest = true
						}
					}
				}
				if isSnapTest && (guardedBy(i.Block(), ifi, true) || guardedBy(i.Block(), ifi, false)) {
					bad = c.InstrPos(ifi)
				}
			}
			r.Check(bad == "", rule, fnName(f), "committed-entries-always-applied", c.InstrPos(i), "the committed entries of a Ready are applied whether or not the same Ready carries a snapshot (snapshot test at "+bad+"): etcd/raft hands a follower that is being caught up the snapshot and the entries after it in one Ready — skipped, they are saved and acknowledged but never applied")
		})
		// stores to the leader field
		// the leader field, by role: the field that is stored a value read from SoftState.Lead
		var leaderFields []*types.Var
		eachInstr(f, func(i ssa.Instruction) {
			st, ok := i.(*ssa.Store)
			if !ok {
				return
			}
			fld := fieldOfAddr(st.Addr)
			if fld == nil {
				return
			}
			fromLead := false
			var walk func(v ssa.Value, d int)
			walk = func(v ssa.Value, d int) {
				if d > 5 || v == nil {
					return
				}
				if fa, isF := v.(*ssa.FieldAddr); isF {
					if sf := structField(fa.X.Type(), fa.Field); sf != nil && sf.Name() == "Lead" {
						fromLead = true
					}
					return
				}
				switch y := v.(type) {
				case *ssa.UnOp:
					walk(y.X, d+1)
				case *ssa.Call:
					for _, a := range y.Call.Args {
						walk(a, d+1)
					}
				case *ssa.Convert:
					walk(y.X, d+1)
				}
			}
			walk(st.Val, 0)
			if fromLead {
				leaderFields = append(leaderFields, fld)
			}
		})
		for _, fld := range leaderFields {
			for k, st := range fieldStoresIn(f, fld) {
				n++
				bad := ""
				for _, ifi := range allIfs(f) {
					if !(guardedBy(st.Block(), ifi, true) || guardedBy(st.Block(), ifi, false)) {
						continue
					}
					if _, isSel := ifi.Cond.(*ssa.BinOp); isSel {
						b := ifi.Cond.(*ssa.BinOp)
						// select dispatch (index == k) and the SoftState nil test are the only legitimate guards
						if ex, isEx := b.X.(*ssa.Extract); isEx {
							if _, isSelect := ex.Tuple.(*ssa.Select); isSelect {
								continue
							}
						}
						if (b.Op == token.NEQ || b.Op == token.EQL) && (isNilConst(b.Y) || isNilConst(b.X)) {
							v := b.X
							if isNilConst(v) {
								v = b.Y
							}
							if typeName(v.Type()) == "SoftState" {
								continue
							}
						}
					}
					bad = c.InstrPos(ifi)
				}
				r.Check(bad == "", rule, fnName(f), fmt.Sprintf("leader-follows-soft-state#%d", k+1), c.InstrPos(st), "the recorded leader is overwritten by every SoftState the Ready loop receives (extra condition at "+bad+"): a deposed leader that keeps believing it leads sends its vote response before term and vote are on disk — after a crash in that window it can vote twice in one term")
			}
		}
	}
	if n == 0 {
		r.Unk(rule, "storage/raft", "ready-loop", "-", "no read of CommittedEntries / leader store found in a Ready loop")
	}
}

// ---- WAL ----------------------------------------------------------------------------------------------------

func walSweeper(c *Ctx, g *ssa.Function) bool {
	if g == nil || !modLocal(g) || g.Signature.Recv() == nil || len(g.Params) != 3 {
		return false
	}
	if b, ok := g.Params[2].Type().Underlying().(*types.Basic); !ok || b.Kind() != types.Uint64 {
		return false
	}
	del := false
	for h := range c.reachableFrom([]*ssa.Function{g}, false, false) {
		eachInstr(h, func(i ssa.Instruction) {
			if cc := asCall(i); cc != nil {
				if id := callID(cc); id.Name == "Delete" && id.Recv == "WriteBatch" {
					del = true
				}
			}
		})
	}
	return del
}

// partConsumers: instructions of the persist function that hand the given Ready part to its writer (see
// persistConsumesAllParts).
func partConsumers(c *Ctx, f *ssa.Function, p *ssa.Parameter) []*ssa.Call {
	var out []*ssa.Call
	eachInstr(f, func(i ssa.Instruction) {
		cl, isC := i.(*ssa.Call)
		if !isC {
			return
		}
		if g := cl.Call.StaticCallee(); g != nil && modLocal(g) {
			for _, a := range cl.Call.Args {
				if (a == ssa.Value(p) || paramRoot(a) == ssa.Value(p)) && setsBatch(c, g) {
					out = append(out, cl)
					return
				}
			}
		} else if id := callID(&cl.Call); id.Name == "Set" && id.Recv == "WriteBatch" {
			for _, a := range cl.Call.Args {
				for _, o := range origins(a, originOpt{}) {
					if ex, isEx := o.(*ssa.Extract); isEx {
						if mc, isM := ex.Tuple.(*ssa.Call); isM && callID(&mc.Call).Name == "Marshal" && len(mc.Call.Args) > 0 && paramRoot(mc.Call.Args[0]) == ssa.Value(p) {
							out = append(out, cl)
							return
						}
					}
				}
			}
		}
	})
	return out
}

func persistFunction(c *Ctx) *ssa.Function {
	for _, f := range prodFuncs(c, "storage/wal") {
		if f.Parent() != nil || f.Signature.Recv() == nil || len(f.Params) != 4 {
			continue
		}
		if typeName(f.Params[1].Type()) == "HardState" && typeName(f.Params[3].Type()) == "Snapshot" && recvTypeName(f) == "badgerWAL" {
			return f
		}
	}
	return nil
}

// persistOrder: inside one Save the entries are staged before the hard state that may declare them committed, and a
// received snapshot wipes the whole stored log.
func persistOrder(c *Ctx, r *Report, rule string) {
	f := persistFunction(c)
	if f == nil {
		r.Unk(rule, "storage/wal.badgerWAL", "Save", "-", "persist function not found")
		return
	}
	ent := partConsumers(c, f, f.Params[2])
	hs := partConsumers(c, f, f.Params[1])
	if len(ent) == 0 || len(hs) == 0 {
		r.Unk(rule, fnName(f), "entries-before-hard-state", c.Pos(f.Pos()), "writers of the Ready parts not found")
	} else {
		bad := ""
		for _, h := range hs {
			for _, e := range ent {
				if _, after := reachesAvoiding(f, h, func(z ssa.Instruction) bool { return z == ssa.Instruction(e) }, nil); after {
					bad = c.InstrPos(e) + " after " + c.InstrPos(h)
				}
			}
		}
		r.Check(bad == "", rule, fnName(f), "entries-before-hard-state", c.Pos(f.Pos()), "entries are staged before the hard state ("+bad+"): a Badger WriteBatch commits in staging order and splits when it outgrows one transaction, so after a crash in between a hard state staged first is durable with a commit index beyond the durable log — raft panics on every restart")
	}
	// a received snapshot replaces the log: the sweep starts at 0
	k := 0
	eachInstr(f, func(i ssa.Instruction) {
		cl, ok := i.(*ssa.Call)
		if !ok || !walSweeper(c, cl.Call.StaticCallee()) {
			return
		}
		k++
		n, isC := constInt(cl.Call.Args[2])
		r.Check(isC && n == 0, rule, fnName(f), fmt.Sprintf("received-snapshot-wipes-log#%d", k), c.InstrPos(i), "the sweep made when a snapshot is received starts at index 0: entries left below the snapshot are invisible while the snapshot is cached, but after a restart the first index is derived from the first key on disk and raft re-delivers the stale prefix on top of the snapshot's state (removed items come back)")
	})
	if k == 0 {
		r.Unk(rule, fnName(f), "received-snapshot-wipes-log", c.Pos(f.Pos()), "no sweep found in the persist function")
	}
}

// snapshotAndCompactionAtomic: the function that creates a local snapshot writes it and compacts the log in one batch.
func snapshotAndCompactionAtomic(c *Ctx, r *Report, rule string) {
	n := 0
	for _, f := range prodFuncs(c, "storage/wal") {
		if f.Parent() != nil || recvTypeName(f) != "badgerWAL" {
			continue
		}
		var cs *ssa.Parameter
		for _, p := range f.Params {
			if typeName(p.Type()) == "ConfState" {
				cs = p
			}
		}
		if cs == nil {
			continue
		}
		var batches []ssa.Value
		var writers []*ssa.Call
		eachInstr(f, func(i ssa.Instruction) {
			cl, ok := i.(*ssa.Call)
			if !ok {
				return
			}
			if callID(&cl.Call).Name == "NewWriteBatch" {
				batches = append(batches, cl)
			}
			if g := cl.Call.StaticCallee(); g != nil && modLocal(g) && (setsBatch(c, g) || walSweeper(c, g)) {
				writers = append(writers, cl)
			}
		})
		if len(writers) < 2 {
			continue
		}
		n++
		used := map[ssa.Value]bool{}
		for _, w := range writers {
			for _, a := range w.Call.Args {
				if typeName(a.Type()) == "WriteBatch" {
					used[strip(a)] = true
				}
			}
		}
		r.Check(len(batches) == 1 && len(used) == 1, rule, fnName(f), "one-batch", c.Pos(f.Pos()), fmt.Sprintf("the snapshot record and the compaction deletes go into one write batch (%d batches created, %d used by the writers): flushed separately, a crash (or a failed snapshot write) in between leaves the log compacted with no snapshot covering the deleted entries — every acknowledged write in that range is gone", len(batches), len(used)))
	}
	if n == 0 {
		r.Unk(rule, "storage/wal", "CreateSnapshot", "-", "no function that both writes a snapshot and compacts the log was found")
	}
}

// cachedSnapshotIsTheWrittenOne: what is cached under the snapshot key is the snapshot that was persisted, payload included.
func cachedSnapshotIsTheWrittenOne(c *Ctx, r *Report, rule string) {
	w := newWal(c)
	n := 0
	for _, f := range w.funcs {
		eachInstr(f, func(i ssa.Instruction) {
			cc := asCall(i)
			if cc == nil {
				return
			}
			id := callID(cc)
			if !(id.Recv == "Map" && id.Pkg == "sync" && id.Name == "Store") {
				return
			}
			for _, a := range cc.Args {
				mi, isMI := a.(*ssa.MakeInterface)
				if !isMI || typeName(mi.X.Type()) != "Snapshot" {
					continue
				}
				n++
				var snapParam ssa.Value
				for _, p := range f.Params {
					if typeName(p.Type()) == "Snapshot" {
						snapParam = p
					}
				}
				ok := snapParam != nil && paramRoot(mi.X) == snapParam
				r.Check(ok, rule, fnName(f), fmt.Sprintf("snapshot-cache-store#%d", n), c.InstrPos(i), "the value cached under the snapshot key is the snapshot this function persisted (its parameter), not a partial copy: Snapshot() serves the cached value, and raft sends exactly that to a follower that needs compacted entries — a copy without Data installs an empty catalogue / index there")
			}
		})
	}
	if n == 0 {
		r.Unk(rule, "storage/wal", "snapshot-cache", "-", "no store of a raftpb.Snapshot into the cache found")
	}
}

// constructorResetsOnlyOnAbsence: the constructor's destructive (re-)initialisation runs only on proof that the group has no
// entry key at all — never on a value read from the log.
func constructorResetsOnlyOnAbsence(c *Ctx, r *Report, rule string) {
	n := 0
	for _, g := range prodFuncs(c, "storage/wal") {
		if g.Signature.Recv() != nil || g.Parent() != nil {
			continue
		}
		builds := false
		eachInstr(g, func(i ssa.Instruction) {
			if al, ok := i.(*ssa.Alloc); ok && al.Heap && typeName(al.Type()) == "badgerWAL" {
				builds = true
			}
		})
		if !builds {
			continue
		}
		eachInstr(g, func(i ssa.Instruction) {
			cl, ok := i.(*ssa.Call)
			if !ok || cl.Call.StaticCallee() == nil || !modLocal(cl.Call.StaticCallee()) {
				return
			}
			// destructive: reaches a WriteBatch.Delete
			del := false
			for h := range c.reachableFrom([]*ssa.Function{cl.Call.StaticCallee()}, false, false) {
				eachInstr(h, func(j ssa.Instruction) {
					if cc := asCall(j); cc != nil {
						if id := callID(cc); id.Name == "Delete" && id.Recv == "WriteBatch" {
							del = true
						}
					}
				})
			}
			if !del {
				return
			}
			n++
			bad := ""
			guards := 0
			for _, ifi := range allIfs(g) {
				if !(guardedBy(cl.Block(), ifi, true) || guardedBy(cl.Block(), ifi, false)) {
					continue
				}
				guards++
				// polarity: the destructive call sits on the side where the error *is* the sentinel
				if bo, isBo := ifi.Cond.(*ssa.BinOp); isBo && (bo.Op == token.EQL || bo.Op == token.NEQ) && (globalOf(bo.X) != nil || globalOf(bo.Y) != nil) {
					if !guardedBy(cl.Block(), ifi, bo.Op == token.EQL) {
						bad = fmt.Sprintf("%s (the re-initialisation is on the side where the error is NOT the sentinel — success included)", c.InstrPos(ifi))
					}
				}
				// errors.Is(err, sentinel): the same test; the destructive call sits on its true side
				if ic, isIC := ifi.Cond.(*ssa.Call); isIC && callID(&ic.Call).Pkg == "errors" && callID(&ic.Call).Name == "Is" {
					if !guardedBy(cl.Block(), ifi, true) {
						bad = fmt.Sprintf("%s (the re-initialisation is on the side where the error is NOT the sentinel — success included)", c.InstrPos(ifi))
					}
					continue
				}
				for _, l := range condLeaves(ifi.Cond, 0) {
					if _, isC := l.(*ssa.Const); isC {
						continue
					}
					if isErrorType(l.Type()) {
						continue
					}
					if ld, isL := loadOf(l); isL {
						if _, isG := ld.(*ssa.Global); isG && isErrorType(l.Type()) {
							continue
						}
					}
					bad = fmt.Sprintf("%s (a %s value)", c.InstrPos(ifi), l.Type().String())
				}
			}
			r.Check(guards > 0 && bad == "", rule, fnName(g), fmt.Sprintf("reset-only-when-absent#%d", n), c.InstrPos(i), "the constructor re-initialises a group (which deletes its hard state and snapshot keys) only when a read reports `not found`; a test on an index value "+bad+" is also true for a group that has persisted a term and a vote but no entry yet — re-opened, it forgets its vote")
		})
	}
	if n == 0 {
		r.Unk(rule, "storage/wal", "constructor-reset", "-", "no destructive initialisation found in the constructors")
	}
}

// ---- index ---------------------------------------------------------------------------------------------------

// strictImprovementOnly: a running minimum carried around a loop is replaced only by a strictly smaller value. With `<=`
// the greedy descent moves on ties and two equidistant neighbours make it bounce forever (a search handler, or the apply
// loop through Insert, spins on every replica and on every replay).
func strictImprovementOnly(c *Ctx, r *Report, rule string) {
	n := 0
	for _, f := range prodFuncs(c, "index") {
		k := 0
		for _, ifi := range allIfs(f) {
			cm, ok := resolveCmp(ifi.Cond, 0)
			if !ok || cm.x.isLen || cm.y.isLen {
				continue
			}
			b := struct {
				Op   token.Token
				X, Y ssa.Value
			}{cm.op, cm.x.v, cm.y.v}
			bx, okx := b.X.Type().Underlying().(*types.Basic)
			if !okx || bx.Info()&types.IsFloat == 0 {
				continue
			}
			// which operand is the loop-carried running value, which the candidate?
			var run *ssa.Phi
			var cand ssa.Value
			if p, isP := b.X.(*ssa.Phi); isP && phiTakes(p, b.Y, 0) {
				run, cand = p, b.Y
			}
			if p, isP := b.Y.(*ssa.Phi); isP && phiTakes(p, b.X, 0) {
				run, cand = p, b.X
			}
			if run == nil || !inCycle(f, run) {
				continue
			}
			_ = cand
			switch b.Op {
			case token.LSS, token.GTR, token.LEQ, token.GEQ:
			default:
				continue
			}
			k++
			n++
			strict := b.Op == token.LSS || b.Op == token.GTR
			r.Check(strict, rule, fnName(f), fmt.Sprintf("running-minimum#%d", k), c.InstrPos(ifi), "the running best distance of this loop is replaced only on a strict improvement ("+b.Op.String()+"): a non-strict test moves on ties, and the greedy descent then oscillates between two equidistant vertices without ever terminating")
		}
	}
	if n == 0 {
		r.Unk(rule, "index", "running-minimum", "-", "no loop-carried running minimum found in the index")
	}
}

// phiTakes: does the φ (possibly through other φs) take the value v on some edge?
func phiTakes(p *ssa.Phi, v ssa.Value, depth int) bool {
	if depth > 6 {
		return false
	}
	for _, e := range p.Edges {
		if e == v {
			return true
		}
		if q, ok := e.(*ssa.Phi); ok && q != p && phiTakes(q, v, depth+1) {
			return true
		}
	}
	// the φ may live in an outer header and be fed by an inner φ that takes v
	for _, u := range *p.Referrers() {
		if q, ok := u.(*ssa.Phi); ok && q != p {
			for _, e := range q.Edges {
				if e == v {
					for _, e2 := range p.Edges {
						if e2 == ssa.Value(q) {
							return true
						}
					}
				}
			}
		}
	}
	return false
}

// removedVertexKeepsItsEdges: the function that tombstones a vertex never mutates that vertex's own edge sets (concurrent
// searches and inserts that already hold a pointer to it continue through its out-edges).
func removedVertexKeepsItsEdges(c *Ctx, r *Report, rule string) {
	x := newIdx(c)
	if len(x.missing) > 0 {
		return
	}
	fEdges := c.Field("index", "hnswVertex", "edges")
	// edge mutators: methods of the vertex that write the edges field or its maps
	mut := map[*ssa.Function]bool{}
	for _, f := range prodFuncs(c, "index") {
		if recvTypeName(f) != "hnswVertex" {
			continue
		}
		eachInstr(f, func(i ssa.Instruction) {
			switch y := i.(type) {
			case *ssa.MapUpdate:
				if fieldOfValueDeep(y.Map) == fEdges {
					mut[f] = true
				}
			case *ssa.Store:
				if fieldOfAddr(y.Addr) == fEdges {
					mut[f] = true
				}
			case *ssa.Call:
				if callID(&y.Call).is("builtin", "", "delete") && fieldOfValueDeep(y.Call.Args[0]) == fEdges {
					mut[f] = true
				}
			}
		})
	}
	n := 0
	for _, f := range prodFuncs(c, "index") {
		if recvTypeName(f) != "Hnsw" || !x.tombstones(f, 2) || x.tombstones(f, 0) {
			continue
		}
		// the removed vertex: result of the call that tombstones (or the parameter)
		var victim ssa.Value
		eachInstr(f, func(i ssa.Instruction) {
			if cl, ok := i.(*ssa.Call); ok && cl.Call.StaticCallee() != nil && modLocal(cl.Call.StaticCallee()) && x.tombstones(cl.Call.StaticCallee(), 1) {
				for _, u := range *cl.Referrers() {
					if ex, isEx := u.(*ssa.Extract); isEx && ex.Index == 0 {
						victim = ex
					}
				}
			}
		})
		if victim == nil {
			continue
		}
		n++
		bad := ""
		eachInstr(f, func(i ssa.Instruction) {
			cl, ok := i.(*ssa.Call)
			if !ok || cl.Call.StaticCallee() == nil || !mut[cl.Call.StaticCallee()] || len(cl.Call.Args) == 0 {
				return
			}
			if strip(cl.Call.Args[0]) == victim {
				bad = cl.Call.StaticCallee().Name() + " at " + c.InstrPos(i)
			}
		})
		r.Check(bad == "", rule, fnName(f), "removed-vertex-keeps-out-edges", c.Pos(f.Pos()), "the removal unlinks the vertex from its neighbours but leaves its own edge sets alone ("+bad+"): an insert or search that loaded this vertex (e.g. as entry point) before the removal continues through its out-edges — emptied, a concurrent insert links the new item to nothing live (stored, counted, never found) and a search returns only the removed vertex")
	}
	if n == 0 {
		r.Unk(rule, "index.Hnsw", "Remove", "-", "no function that tombstones a vertex through a helper found")
	}
}

// insertFailsOnlyOnDuplicate: every error the index's Insert can return is decided by the existence test on the shard map.
// An update is Remove followed by Insert; any other failure of the second half deletes the item.
func insertFailsOnlyOnDuplicate(c *Ctx, r *Report, rule string) {
	ins := c.Method("index", "Hnsw", "Insert")
	fShards := c.Field("index", "Hnsw", "vertices")
	if ins == nil || fShards == nil {
		r.Unk(rule, "index.Hnsw", "Insert", "-", "method or field not found")
		return
	}
	var check func(f *ssa.Function, depth int) string
	check = func(f *ssa.Function, depth int) string {
		if depth > 3 {
			return "call chain too deep to follow"
		}
		for _, rt := range returnsOf(f) {
			last := rt.Results[len(rt.Results)-1]
			if !isErrorType(last.Type()) || isNilConst(last) {
				continue
			}
			for _, o := range origins(last, originOpt{}) {
				if isNilConst(o) {
					continue
				}
				switch y := o.(type) {
				case *ssa.Call:
					g := y.Call.StaticCallee()
					if g == nil || !modLocal(g) {
						return "error produced by " + callID(&y.Call).String() + " at " + c.InstrPos(y)
					}
					if why := check(g, depth+1); why != "" {
						return why
					}
				case *ssa.Extract:
					cl, isC := y.Tuple.(*ssa.Call)
					if !isC || cl.Call.StaticCallee() == nil || !modLocal(cl.Call.StaticCallee()) {
						return "error produced at " + c.InstrPos(y)
					}
					if why := check(cl.Call.StaticCallee(), depth+1); why != "" {
						return why
					}
				default:
					// a sentinel: the return must be on the `exists` side of a comma-ok lookup in a shard map
					okG := false
					for _, ifi := range allIfs(f) {
						ex, isEx := ifi.Cond.(*ssa.Extract)
						if !isEx || ex.Index != 1 {
							continue
						}
						lk, isL := ex.Tuple.(*ssa.Lookup)
						if !isL || !lk.CommaOk {
							continue
						}
						if guardedBy(rt.Block(), ifi, true) {
							okG = true
						}
					}
					if !okG {
						return "error returned at " + c.Pos(rt.Pos()) + " in " + fnName(f) + " is not the outcome of the id-exists test"
					}
				}
			}
		}
		return ""
	}
	why := check(ins, 0)
	r.Check(why == "", rule, fnName(ins), "fails-only-on-duplicate", c.Pos(ins.Pos()), "Insert can fail only because the id is already stored ("+why+"): the update path removes the item and re-inserts it, relying on the second half not failing once the first succeeded — any other error turns an update of a present id into its deletion")
}

// sharedMapAcrossItems: a map allocated before a loop over batch items is not both written inside the loop and handed to
// the index inside the loop (every item would end up holding the same map).
func sharedMapAcrossItems(c *Ctx, r *Report, rule string) {
	n := 0
	for _, f := range prodFuncs(c, "storage") {
		if recvTypeName(f) != "partition" {
			continue
		}
		eachInstr(f, func(i ssa.Instruction) {
			mk, ok := i.(*ssa.MakeMap)
			if !ok || inCycle(f, mk) {
				return
			}
			written, handed := "", ""
			flows := func(v ssa.Value) bool {
				for _, o := range origins(v, originOpt{}) {
					if o == ssa.Value(mk) {
						return true
					}
				}
				return false
			}
			eachInstr(f, func(j ssa.Instruction) {
				if !inCycle(f, j) {
					return
				}
				switch y := j.(type) {
				case *ssa.MapUpdate:
					if flows(y.Map) {
						written = c.InstrPos(j)
					}
				case *ssa.Call:
					if g := y.Call.StaticCallee(); g != nil && modLocal(g) && recvTypeName(g) == "Hnsw" {
						for _, a := range y.Call.Args {
							if _, isMap := a.Type().Underlying().(*types.Map); isMap && flows(a) {
								handed = c.InstrPos(j)
							}
						}
					}
				}
			})
			if written == "" && handed == "" {
				return
			}
			n++
			r.Check(!(written != "" && handed != ""), rule, fnName(f), fmt.Sprintf("map-per-item#%d", n), c.InstrPos(mk), "a map allocated once before the loop is written in the loop ("+written+") and handed to the index in the loop ("+handed+"): every item of the batch that takes this path stores the same map, so each ends up with the union of the others' metadata")
		})
	}
	if n == 0 {
		r.OKTrivial(rule, "storage.partition", "map-per-item", "-", "no map allocated outside a loop is used inside one by the apply functions")
	}
}

// validatorMeasuresBytes: the metadata validator bounds the same quantity the writer narrows — byte lengths (builtin len).
func validatorMeasuresBytes(c *Ctx, r *Report, rule string) {
	v := c.Method("index", "Metadata", "Validate")
	if v == nil {
		r.Unk(rule, "index.Metadata", "Validate", "-", "validator not found")
		return
	}
	n, bad := 0, ""
	var measure func(f *ssa.Function, l ssa.Value, depth int)
	measure = func(f *ssa.Function, l ssa.Value, depth int) {
		y, isC := l.(*ssa.Call)
		if !isC {
			return
		}
		if callID(&y.Call).is("builtin", "", "len") {
			n++
			return
		}
		// a predicate helper of the module: what its result is computed from (and what it is handed: `tooMany(len(m))`)
		if g := y.Call.StaticCallee(); g != nil && modLocal(g) && depth < 3 {
			for _, a := range y.Call.Args {
				if ac, isAC := strip(a).(*ssa.Call); isAC && callID(&ac.Call).is("builtin", "", "len") {
					n++
				}
			}
			for _, rt := range returnsOf(g) {
				for _, res := range rt.Results {
					for _, l2 := range condLeaves(res, 0) {
						measure(g, l2, depth+1)
					}
				}
			}
			for _, ifi := range allIfs(g) {
				for _, l2 := range condLeaves(ifi.Cond, 0) {
					measure(g, l2, depth+1)
				}
			}
			return
		}
		n++
		bad = callID(&y.Call).String() + " at " + c.InstrPos(y)
	}
	for _, ifi := range allIfs(v) {
		for _, l := range condLeaves(ifi.Cond, 0) {
			measure(v, l, 0)
		}
	}
	r.Check(n >= 3 && bad == "", rule, fnName(v), "bounds-byte-lengths", c.Pos(v.Pos()), fmt.Sprintf("the validator compares builtin len() of the map, keys and values (%d length tests; other measure: %s): the writer narrows byte lengths, so a validator counting anything else (runes) accepts metadata that Save then refuses — one such item makes the whole partition impossible to snapshot", n, bad))
}

// ---- storage / cluster / utils ----------------------------------------------------------------------------------

// streamOpenedOnce: a fan-out worker that accumulates a node's answer opens the node's stream exactly once, outside any
// loop (a retry that keeps the first attempt's items consults partitions twice and returns duplicates with success).
func streamOpenedOnce(c *Ctx, r *Report, rule string) {
	n := 0
	for _, f := range prodFuncs(c, "storage") {
		var opens []*ssa.Call
		var recv ssa.Instruction
		eachInstr(f, func(i ssa.Instruction) {
			cc := asCall(i)
			if cc == nil || !cc.IsInvoke() {
				return
			}
			// a client-streaming open: invoke on a *Client interface returning (stream, error) where stream has Recv
			res := cc.Signature().Results()
			if res.Len() == 2 && isErrorType(res.At(1).Type()) && strings.HasSuffix(typeName(cc.Value.Type()), "Client") {
				if iface, ok := res.At(0).Type().Underlying().(*types.Interface); ok {
					for k := 0; k < iface.NumMethods(); k++ {
						if iface.Method(k).Name() == "Recv" {
							if cl, isCall := i.(*ssa.Call); isCall {
								opens = append(opens, cl)
							}
						}
					}
				}
			}
			if cc.Method != nil && cc.Method.Name() == "Recv" {
				recv = i
			}
		})
		if len(opens) == 0 || recv == nil {
			continue
		}
		n++
		looped := false
		for _, o := range opens {
			if inCycle(f, o) {
				looped = true
			}
		}
		r.Check(len(opens) == 1 && !looped, rule, fnName(f), "stream-opened-once", c.Pos(opens[0].Pos()), fmt.Sprintf("the worker opens the node's result stream once and outside any loop (%d open site(s), in a loop: %v): re-opening while the accumulated list is kept consults the node's partitions twice and merges a partial answer with a full one", len(opens), looped))
	}
	if n == 0 {
		r.Unk(rule, "storage", "stream-worker", "-", "no worker that opens and drains a result stream found")
	}
}

// notificationChannelsClosedByOwnerOnly: a notification channel is closed only through the removal of exactly one id, and
// that removal is requested only by the function that created the id. A close-all (on unload, on shutdown) makes every
// waiter read the zero value — nil — which the write path reports as success.
func notificationChannelsClosedByOwnerOnly(c *Ctx, r *Report, rule string) {
	fChans := c.Field("utils", "Notificator", "chans")
	if fChans == nil {
		r.Unk(rule, "utils.Notificator", "chans", "-", "field not found")
		return
	}
	n := 0
	closers := map[*ssa.Function]bool{}
	// every id gets a channel of its own: what is registered under an id was made by that very call
	for _, f := range prodFuncs(c, "utils") {
		k := 0
		eachInstr(f, func(i ssa.Instruction) {
			mu, ok := i.(*ssa.MapUpdate)
			if !ok || fieldOfValueDeep(mu.Map) != fChans {
				return
			}
			k++
			fresh := true
			os := origins(mu.Value, originOpt{})
			for _, o := range os {
				if _, isMk := o.(*ssa.MakeChan); !isMk {
					fresh = false
				}
			}
			r.Check(fresh && len(os) > 0, rule, fnName(f), fmt.Sprintf("fresh-channel#%d", k), c.InstrPos(i), "the channel registered under a new id is made by this call: a recycled channel can still hold the outcome delivered to its previous owner after that owner gave up — the next writer reads it at once and is acknowledged with somebody else's result before its own proposal is even committed")
		})
	}
	for _, f := range prodFuncs(c, "utils") {
		eachInstr(f, func(i ssa.Instruction) {
			cc := asCall(i)
			if cc == nil || !callID(cc).is("builtin", "", "close") {
				return
			}
			fromMap := false
			byParam := false
			for _, o := range origins(cc.Args[0], originOpt{}) {
				ex, isEx := o.(*ssa.Extract)
				if !isEx {
					if lk, isL := o.(*ssa.Lookup); isL && fieldOfValueDeep(lk.X) == fChans {
						fromMap = true
						_, byParam = strip(lk.Index).(*ssa.Parameter)
					}
					continue
				}
				switch t := ex.Tuple.(type) {
				case *ssa.Lookup:
					if fieldOfValueDeep(t.X) == fChans {
						fromMap = true
						_, byParam = strip(t.Index).(*ssa.Parameter)
					}
				case *ssa.Next:
					fromMap = true // ranging over the map
				}
			}
			if !fromMap {
				return
			}
			n++
			closers[f] = true
			r.Check(byParam, rule, fnName(f), fmt.Sprintf("close-one-id#%d", n), c.InstrPos(i), "a notification channel is closed only as the one channel looked up under the id parameter of this function: closing the channels of other waiters makes them receive nil, and a nil outcome is reported to the client as a successful, applied write")
		})
	}
	// callers of the closing function pass the id they obtained from Create
	k := 0
	for _, f := range append(prodFuncs(c, "storage"), prodFuncs(c, "storage/raft")...) {
		eachInstr(f, func(i ssa.Instruction) {
			cc := asCall(i)
			if cc == nil || cc.StaticCallee() == nil || !closers[cc.StaticCallee()] || len(cc.Args) < 2 {
				return
			}
			k++
			own := false
			fromCreate := func(v ssa.Value) bool {
				for _, o := range origins(v, originOpt{}) {
					if ex, isEx := o.(*ssa.Extract); isEx {
						if cl, isC := ex.Tuple.(*ssa.Call); isC && isNotificatorCall(&cl.Call, "Create") {
							return true
						}
					}
				}
				return false
			}
			own = fromCreate(cc.Args[1])
			if !own && f.Parent() != nil {
				// the deferred clean-up closure: the id is a captured variable of the enclosing function
				for _, o := range origins(cc.Args[1], originOpt{}) {
					fv, isFV := o.(*ssa.FreeVar)
					if !isFV {
						if l, isL := loadOf(strip(o)); isL {
							fv, isFV = l.(*ssa.FreeVar)
						}
					}
					if !isFV {
						continue
					}
					idx := -1
					for k, q := range f.FreeVars {
						if q == fv {
							idx = k
						}
					}
					eachInstr(f.Parent(), func(j ssa.Instruction) {
						mc, isMC := j.(*ssa.MakeClosure)
						if !isMC || mc.Fn != ssa.Value(f) || idx < 0 || idx >= len(mc.Bindings) {
							return
						}
						b := mc.Bindings[idx]
						if fromCreate(b) {
							own = true
						}
						if al, isA := b.(*ssa.Alloc); isA {
							for _, st := range storesTo(f.Parent(), al) {
								if fromCreate(st.Val) {
									own = true
								}
							}
						}
					})
				}
			}
			r.Check(own, rule, fnName(f), fmt.Sprintf("removes-own-id#%d", k), c.InstrPos(i), "the id whose channel is removed is the one this function obtained from Create")
		})
	}
	if n == 0 {
		r.Unk(rule, "utils.Notificator", "close", "-", "no close of a notification channel found")
	}
}

// implUsesOneInstructionSet: each Space implementation type calls the kernels of exactly one simd package (the two kernel
// families have different memory contracts; see D17).
func implUsesOneInstructionSet(c *Ctx, r *Report, rule string) {
	per := map[string]map[string]bool{}
	for _, f := range prodFuncs(c, "index/space") {
		rt := recvTypeName(f)
		if rt == "" {
			continue
		}
		eachInstr(f, func(i ssa.Instruction) {
			if cc := asCall(i); cc != nil && cc.StaticCallee() != nil {
				p := fnPkgPath(cc.StaticCallee())
				if strings.Contains(p, "/simd/") {
					if per[rt] == nil {
						per[rt] = map[string]bool{}
					}
					per[rt][p[strings.LastIndex(p, "/")+1:]] = true
				}
			}
		})
	}
	if len(per) == 0 {
		r.Unk(rule, "index/space", "implementations", "-", "no Space implementation calling a simd package found")
		return
	}
	var names []string
	for k := range per {
		names = append(names, k)
	}
	sort.Strings(names)
	for _, k := range names {
		var sets []string
		for s := range per[k] {
			sets = append(sets, s)
		}
		sort.Strings(sets)
		r.Check(len(sets) == 1, rule, "index/space."+k, "one-instruction-set", "-", "the implementation dispatches to one kernel family ("+strings.Join(sets, ", ")+"): the SSE kernels load with alignment-checked instructions (finding D17), so routing some lengths of the AVX implementation to them puts that restriction — a CPU fault on ordinary misaligned slices — on the default path of every AVX machine")
	}
}

// replicatedWriteNotConditionalOnLocalState: in an apply-tree function that rewrites a partition's member list, no return
// that skips the write is decided by the result of a call on local, unreplicated state.
func replicatedWriteNotConditionalOnLocalState(c *Ctx, r *Report, rule string) {
	n := 0
	for _, f := range prodFuncs(c, "storage") {
		if recvTypeName(f) != "partition" || f.Parent() != nil {
			continue
		}
		var store *ssa.Store
		eachInstr(f, func(i ssa.Instruction) {
			if st, ok := i.(*ssa.Store); ok {
				if fld := fieldOfAddr(st.Addr); fld != nil && fld.Name() == "NodeIds" {
					store = st
				}
			}
		})
		if store == nil {
			continue
		}
		n++
		bad := ""
		for _, rt := range returnsOf(f) {
			if instrDominates(store, rt.Return) {
				continue
			}
			for _, ifi := range allIfs(f) {
				if !(guardedBy(rt.Block(), ifi, true) || guardedBy(rt.Block(), ifi, false)) {
					continue
				}
				for _, l := range condLeaves(ifi.Cond, 0) {
					if cl, isC := l.(*ssa.Call); isC && cl.Call.StaticCallee() != nil && modLocal(cl.Call.StaticCallee()) && !strings.HasPrefix(cl.Call.StaticCallee().Name(), "Get") {
						bad = "return at " + c.Pos(rt.Pos()) + " decided by " + cl.Call.StaticCallee().Name() + "()"
					}
					if ex, isEx := l.(*ssa.Extract); isEx {
						if cl, isC := ex.Tuple.(*ssa.Call); isC && cl.Call.StaticCallee() != nil && modLocal(cl.Call.StaticCallee()) {
							bad = "return at " + c.Pos(rt.Pos()) + " decided by " + cl.Call.StaticCallee().Name() + "()"
						}
					}
				}
			}
		}
		r.Check(bad == "", rule, fnName(f), "member-list-always-updated", c.InstrPos(store), "applying a replica change rewrites the member list on every path ("+bad+"): whether the local raft group happens to be loaded is not replicated state — a node that skips the update keeps believing it hosts the partition and answers size and search requests from a dead local index")
	}
	if n == 0 {
		r.Unk(rule, "storage.partition", "member-list", "-", "no function storing a partition's NodeIds found")
	}
}

// backingArrayOnlyThroughHeap: outside the heap.Interface methods nothing reorders or overwrites the backing array of a queue,
// and a constructor never adopts a caller's slice as that array.
func backingArrayOnlyThroughHeap(c *Ctx, r *Report, rule string) {
	heapMethod := map[string]bool{"Len": true, "Less": true, "Swap": true, "Push": true, "Pop": true}
	isQueueSlice := func(t types.Type) bool {
		n := typeName(t)
		return n == "minPriorityQueue" || n == "maxPriorityQueue"
	}
	nF, bad := 0, ""
	for _, f := range prodFuncs(c, "utils") {
		if f.Signature.Recv() != nil && isQueueSlice(f.Signature.Recv().Type()) && heapMethod[f.Name()] {
			continue
		}
		nF++
		// values that are (views of) a queue's backing array: conversions / loads of queue-typed values
		view := func(v ssa.Value) bool {
			os := origins(v, originOpt{})
			allFresh := len(os) > 0
			for _, o := range os {
				if _, isMk := o.(*ssa.MakeSlice); !isMk {
					allFresh = false
				}
			}
			if allFresh {
				return false // a slice this function has just made: filling it element by element is a copy
			}
			for _, o := range os {
				if isQueueSlice(o.Type()) {
					if _, isMk := o.(*ssa.MakeSlice); isMk {
						continue
					}
					return true
				}
				if l, ok := loadOf(o); ok && isQueueSlice(l.Type()) {
					return true
				}
				if cl, ok := o.(*ssa.Call); ok && cl.Call.StaticCallee() != nil && cl.Call.StaticCallee().Name() == "ToSlice" {
					return true
				}
			}
			return isQueueSlice(v.Type())
		}
		eachInstr(f, func(i ssa.Instruction) {
			switch y := i.(type) {
			case *ssa.Call:
				id := callID(&y.Call)
				if id.Pkg == "sort" {
					for _, a := range y.Call.Args {
						if view(strip(a)) {
							bad = fnName(f) + " sorts the live array at " + c.InstrPos(i)
						}
					}
				}
			case *ssa.Store:
				if ia, ok := y.Addr.(*ssa.IndexAddr); ok {
					if _, isAlloc := ia.X.(*ssa.Alloc); !isAlloc && view(ia.X) {
						if _, fresh := strip(ia.X).(*ssa.MakeSlice); !fresh {
							bad = fnName(f) + " overwrites an element at " + c.InstrPos(i)
						}
					}
				}
			case *ssa.ChangeType:
				// adopting a parameter slice as a queue
				if isQueueSlice(y.Type()) {
					if _, isP := strip(y.X).(*ssa.Parameter); isP && f.Signature.Recv() == nil {
						bad = fnName(f) + " adopts its caller's slice as the heap's storage at " + c.InstrPos(i)
					}
				}
			case *ssa.Convert:
				if isQueueSlice(y.Type()) {
					if _, isP := strip(y.X).(*ssa.Parameter); isP && f.Signature.Recv() == nil {
						bad = fnName(f) + " adopts its caller's slice as the heap's storage at " + c.InstrPos(i)
					}
				}
			}
		})
	}
	if bad != "" {
		r.Bad(rule, "utils.priorityQueue", "array-only-through-heap", "-", bad+": the heap order of a queue lives in the order of that array — sorted ascending it is no max-heap any more (Peek returns the minimum), shared with a caller's slice two queues scramble each other")
	} else {
		r.OK(rule, "utils.priorityQueue", "array-only-through-heap", "-", fmt.Sprintf("%d functions outside heap.Interface: none sorts, overwrites or adopts a backing array", nF))
	}
}

// loopsSurvivePanics: a role loop that the apply trees send to does not recover panics at function level (the recover must
// sit around the single operation inside the loop body, otherwise a recovered panic ends the loop and every later sender
// blocks forever).
func loopsSurvivePanics(c *Ctx, r *Report, rule string, loops []*ssa.Function) {
	n := 0
	for _, f := range loops {
		n++
		bad := ""
		eachInstr(f, func(i ssa.Instruction) {
			d, ok := i.(*ssa.Defer)
			if !ok {
				return
			}
			g := d.Call.StaticCallee()
			if mc, isMC := d.Call.Value.(*ssa.MakeClosure); isMC {
				g, _ = mc.Fn.(*ssa.Function)
			}
			if g == nil {
				return
			}
			eachInstr(g, func(j ssa.Instruction) {
				if cc := asCall(j); cc != nil && callID(cc).is("builtin", "", "recover") {
					bad = c.InstrPos(i)
				}
			})
		})
		r.Check(bad == "", rule, fnName(f), "no-function-level-recover", c.Pos(f.Pos()), "the loop does not defer a recover for its whole body ("+bad+"): after a recovered panic the function returns, nobody receives from the loop's channels any more and the next catalogue change blocks the zero group's apply loop forever")
	}
	if n == 0 {
		r.Unk(rule, "storage", "role-loops", "-", "no role loop found")
	}
}

// contextsAreForwarded: a function that receives a context and calls something taking a context passes its own (or one
// derived from it), never a longer-lived one from a field.
func contextsAreForwarded(c *Ctx, r *Report, rule string, pkgs ...string) {
	isCtx := func(t types.Type) bool { return typeName(t) == "Context" && typePkg(t) == "context" }
	n := 0
	for _, f := range prodFuncs(c, pkgs...) {
		var own *ssa.Parameter
		for _, p := range f.Params {
			if isCtx(p.Type()) {
				own = p
			}
		}
		if own == nil || f.Parent() != nil {
			continue
		}
		k := 0
		eachInstr(f, func(i ssa.Instruction) {
			cc := asCall(i)
			if cc == nil {
				return
			}
			if id := callID(cc); id.Pkg == "context" {
				return
			}
			if id := callID(cc); id.Name == "Step" && strings.HasSuffix(id.Pkg, "etcd/raft") {
				// a received raft message is stepped under the group's own context by design (the sender's RPC deadline must
				// not cancel the local state machine's step); written inside the group's receive method or inline, it is the same call
				return
			}
			for _, a := range cc.Args {
				if !isCtx(a.Type()) {
					continue
				}
				k++
				n++
				derived := false
				var walk func(v ssa.Value, d int)
				walk = func(v ssa.Value, d int) {
					if d > 6 || derived {
						return
					}
					for _, o := range origins(v, originOpt{}) {
						if o == ssa.Value(own) {
							derived = true
							return
						}
						if ex, isEx := o.(*ssa.Extract); isEx {
							if cl, isC := ex.Tuple.(*ssa.Call); isC && callID(&cl.Call).Pkg == "context" && len(cl.Call.Args) > 0 {
								walk(cl.Call.Args[0], d+1)
							}
						}
						if cl, isC := o.(*ssa.Call); isC && callID(&cl.Call).Pkg == "context" && len(cl.Call.Args) > 0 {
							walk(cl.Call.Args[0], d+1)
						}
					}
				}
				walk(a, 0)
				r.Check(derived, rule, fnName(f), fmt.Sprintf("forwards-context#%d", k), c.InstrPos(i), "the context handed on is the caller's (or derived from it): replaced by a longer-lived one, the caller's deadline is silently dropped — the allocator's bounded proposals then block for as long as the group lives, and with them the apply loop that feeds the allocator")
			}
		})
	}
	if n == 0 {
		r.Unk(rule, "storage", "context-forwarding", "-", "no function forwarding a context found")
	}
}

// joinIsUnconditional: a node configured with peers to join performs the join handshake on every start.
func joinIsUnconditional(c *Ctx, r *Report, rule string) {
	f := c.Method("", "Server", "JoinCluster")
	if f == nil {
		r.Unk(rule, "anndb.Server", "JoinCluster", "-", "method not found")
		return
	}
	var join *ssa.Call
	eachInstr(f, func(i ssa.Instruction) {
		if cl, ok := i.(*ssa.Call); ok && cl.Call.StaticCallee() != nil && recvTypeName(cl.Call.StaticCallee()) == "NodesManager" {
			join = cl
		}
	})
	if join == nil {
		r.Bad(rule, fnName(f), "handshake", c.Pos(f.Pos()), "JoinCluster never calls the nodes manager's join handshake")
		return
	}
	bad := ""
	for _, ifi := range allIfs(f) {
		if !(guardedBy(join.Block(), ifi, true) || guardedBy(join.Block(), ifi, false)) {
			continue
		}
		// the only legitimate guard: there is nobody to join (len(config.JoinNodes) == 0)
		okG := false
		for _, l := range condLeaves(ifi.Cond, 0) {
			if cl, isC := l.(*ssa.Call); isC && callID(&cl.Call).is("builtin", "", "len") {
				if fld := fieldOfValueDeep(cl.Call.Args[0]); fld != nil && strings.Contains(strings.ToLower(fld.Name()), "join") {
					okG = true
				}
			}
		}
		if !okG {
			bad = c.InstrPos(ifi)
		}
	}
	r.Check(bad == "", rule, fnName(f), "handshake-unconditional", c.Pos(join.Pos()), "the join handshake runs on every start of a node that has peers configured (extra condition at "+bad+"): peer addresses are in no snapshot (finding D22), so after the membership log is compacted the handshake's reply is the only thing that gives a restarting member its peers' addresses back")
}

// borrow runs another property's rules into a scratch report and re-labels the obligations of one of its rules (optionally
// only those whose key contains sub) as obligations of rule `to` of this report.
var borrowDepth = 0

func borrow(c *Ctx, r *Report, fromProp, fromRule, to, sub string) int {
	f := registry[fromProp]
	if f == nil {
		return 0
	}
	if borrowDepth > 0 {
		// a borrowed check does not borrow in turn (properties borrow from each other: C14 <-> C17)
		return 0
	}
	borrowDepth++
	defer func() { borrowDepth-- }()
	tmp := NewReport(r.Prop)
	f(c, tmp, "quick")
	n := 0
	for _, o := range tmp.Obls {
		if o.Rule != fromRule || (sub != "" && !strings.Contains(o.Key, sub)) {
			continue
		}
		o.Rule = to
		o.Key = strings.Replace(o.Key, fromRule, to, 1)
		r.Obls = append(r.Obls, o)
		n++
	}
	if n == 0 {
		r.Unk(to, fromProp, "borrowed-"+fromRule, "-", "no obligation of "+fromRule+" (filter `"+sub+"`) was produced: the anchor of the borrowed rule is lost")
	}
	return n
}

// distanceIsReentrant: nothing reachable from a Space.Distance implementation writes package-level state or hands the address
// of a package-level variable to a kernel: distances are computed by every goroutine at once with nothing serialising them.
func distanceIsReentrant(c *Ctx, r *Report, rule string) {
	var roots []*ssa.Function
	for _, f := range prodFuncs(c, "index/space") {
		if f.Name() == "Distance" && f.Signature.Recv() != nil {
			roots = append(roots, f)
		}
	}
	if len(roots) == 0 {
		r.Unk(rule, "index/space", "Distance", "-", "no Distance method found")
		return
	}
	reach := c.reachableFrom(roots, true, true)
	bad := ""
	for f := range reach {
		if !strings.HasPrefix(fnPkgPath(f), modPath) {
			continue
		}
		eachInstr(f, func(i ssa.Instruction) {
			switch y := i.(type) {
			case *ssa.Store:
				if g := globalOf(y.Addr); g != nil {
					bad = fnName(f) + " stores to " + g.Name() + " at " + c.InstrPos(i)
				}
			case *ssa.Call:
				if g := y.Call.StaticCallee(); g != nil && len(g.Blocks) == 0 && strings.HasPrefix(fnPkgPath(g), modPath) {
					for _, a := range y.Call.Args {
						for _, o := range leafOperands(a) {
							if gl, isG := o.(*ssa.Global); isG {
								bad = fnName(f) + " hands the address of " + gl.Name() + " to " + g.Name() + " at " + c.InstrPos(i)
							}
						}
					}
				}
			}
		})
	}
	r.Check(bad == "", rule, "index/space", "distance-is-reentrant", "-", fmt.Sprintf("%d functions reachable from the Distance implementations write no package-level state (%s): a shared result slot is overwritten between one goroutine's kernel call and its load — a search returns a score that is another pair's distance, an insert links by it (the write happens in assembly, so the race detector does not see it)", len(reach), bad))
}

// ---- C12: an enum of the request selects an implementation ------------------------------------------------------

// enumSelectsImplementation: where an interface value is chosen by a switch on an enum field of a replicated message and
// stays nil for values outside the cases, the creation proposer must reject such values before anything is proposed —
// otherwise one request with an out-of-range enum commits an entry whose application leaves a nil implementation behind,
// and the first operation that invokes it panics on every replica and on every replay.
func enumSelectsImplementation(c *Ctx, r *Report, rule string) {
	n := 0
	for _, f := range prodFuncs(c, "storage", "index", "index/space") {
		eachInstr(f, func(i ssa.Instruction) {
			phi, ok := i.(*ssa.Phi)
			if !ok {
				return
			}
			if _, isI := phi.Type().Underlying().(*types.Interface); !isI || isErrorType(phi.Type()) {
				return
			}
			hasNil, hasImpl := false, false
			for _, e := range phi.Edges {
				if isNilConst(e) {
					hasNil = true
				} else if _, isMI := e.(*ssa.MakeInterface); isMI {
					hasImpl = true
				} else if _, isCall := e.(*ssa.Call); isCall {
					hasImpl = true
				}
			}
			if !hasNil || !hasImpl {
				return
			}
			// the selecting enum: a getter call compared in the Ifs that lead to the φ's predecessors
			getter := ""
			for _, ifi := range allIfs(f) {
				for _, l := range condLeaves(ifi.Cond, 0) {
					if cl, isC := l.(*ssa.Call); isC {
						if _, name, okG := isPbGetter(cl); okG {
							getter = name
						}
					}
				}
			}
			if getter == "" {
				return
			}
			// does the φ reach a use (argument / invoke)?
			used := false
			for _, u := range *phi.Referrers() {
				if cc := asCall(u); cc != nil {
					used = true
				}
			}
			if !used {
				return
			}
			n++
			ok2, where := enumValidatedAtCreation(c, getter)
			r.Check(ok2, rule, fnName(f), "enum-"+getter+"-selects-implementation", c.InstrPos(phi), "the implementation chosen by "+getter+"() stays nil for values outside the switch; "+where)
		})
	}
	if n == 0 {
		r.OKTrivial(rule, "storage", "enum-selects-implementation", "-", "no interface value is left nil by a switch on a message enum")
	}
}

// enumValidatedAtCreation: some proposer that marshals a client-supplied message tests the getter (comparison, or
// membership in the generated name table) and returns an error on one side of the test, before the proposal.
func enumValidatedAtCreation(c *Ctx, getter string) (bool, string) {
	oneSided := ""
	defer func() { _ = oneSided }()
	for _, sc := range validationScopes(c) {
		f := sc.fn
		for _, ifi := range allIfs(f) {
			uses := false
			var walk func(v ssa.Value, d int)
			walk = func(v ssa.Value, d int) {
				if d > 6 || v == nil {
					return
				}
				switch y := v.(type) {
				case *ssa.Call:
					if _, name, okG := isPbGetter(y); okG && name == getter && len(y.Call.Args) == 1 && y.Call.Args[0] == sc.ds {
						uses = true
					}
					for _, a := range y.Call.Args {
						walk(a, d+1)
					}
				case *ssa.BinOp:
					walk(y.X, d+1)
					walk(y.Y, d+1)
				case *ssa.UnOp:
					walk(y.X, d+1)
				case *ssa.Extract:
					walk(y.Tuple, d+1)
				case *ssa.Lookup:
					walk(y.Index, d+1)
				case *ssa.Convert:
					walk(y.X, d+1)
				case *ssa.ChangeType:
					walk(y.X, d+1)
				case *ssa.Phi:
					for _, e := range y.Edges {
						walk(e, d+1)
					}
					for _, p := range y.Block().Preds {
						if pi := condOf(p); pi != nil {
							walk(pi.Cond, d+1)
						}
					}
				}
			}
			walk(ifi.Cond, 0)
			if !uses {
				continue
			}
			// the test must be closed: membership in a table (comma-ok lookup keyed by the value), or an equality
			// against a known value; a single ordering comparison leaves the other side of the signed range open
			closed := false
			for _, l := range condLeaves(ifi.Cond, 0) {
				if ex, isEx := l.(*ssa.Extract); isEx {
					if lk, isL := ex.Tuple.(*ssa.Lookup); isL && lk.CommaOk {
						closed = true
					}
				}
			}
			if b, isB := ifi.Cond.(*ssa.BinOp); isB && (b.Op == token.EQL || b.Op == token.NEQ) {
				closed = true
			}
			if !closed {
				oneSided = c.InstrPos(ifi)
				continue
			}
			for _, pol := range []bool{true, false} {
				if sc.rejected(ifi, pol) {
					return true, "the creation path (" + fnName(f) + ") rejects values it does not know before proposing"
				}
			}
		}
	}
	if oneSided != "" {
		return false, "the only test of " + getter + "() before the proposal is a one-sided comparison (" + oneSided + "): a proto3 enum is an open, signed int32, so values on the other side (negative ones) are committed, every replica builds the object with a nil implementation and panics on the first operation that uses it — again on every replay"
	}
	return false, "no proposer tests " + getter + "() before the proposal: a request with an out-of-range value is committed, every replica builds the object with a nil implementation and panics on the first operation that uses it — again on every replay"
}

// ---- C20: an empty bootstrap address must not shadow the announced one -------------------------------------------------

// emptyAddressDoesNotShadow: if the group is bootstrapped with peers that carry no Context (so the bootstrap ConfChange
// entries announce an empty address), the address-book writer must still accept a later, non-empty address for a node it
// already lists — the insert must be reachable on the `already present` side of its existence test.
func emptyAddressDoesNotShadow(c *Ctx, r *Report, rule string) {
	// (1) are there bootstrap peers without an address?
	bare := ""
	for _, f := range prodFuncs(c, "storage/raft") {
		eachInstr(f, func(i ssa.Instruction) {
			cl, ok := i.(*ssa.Call)
			if !ok || !callID(&cl.Call).is("etcd/raft", "", "StartNode") {
				return
			}
			// Peer literals built in this function: is the Context field ever stored?
			stored := false
			eachInstr(f, func(j ssa.Instruction) {
				if st, isS := j.(*ssa.Store); isS {
					if fld := fieldOfAddr(st.Addr); fld != nil && fld.Name() == "Context" && typeName(fld.Type()) == "" {
						stored = true
					}
					if fa, isF := st.Addr.(*ssa.FieldAddr); isF {
						if sf := structField(fa.X.Type(), fa.Field); sf != nil && sf.Name() == "Context" {
							stored = true
						}
					}
				}
			})
			if !stored {
				bare = c.InstrPos(i)
			}
		})
	}
	if bare == "" {
		r.OKTrivial(rule, "storage/raft", "bootstrap-peers-carry-addresses", "-", "no StartNode call with address-less peers: every ConfChange announces an address")
		return
	}
	// (2) the writer of the address book
	fAddr := c.Field("cluster", "Conn", "addresses")
	if fAddr == nil {
		r.Unk(rule, "cluster.Conn", "addresses", "-", "field not found")
		return
	}
	n := 0
	for _, f := range prodFuncs(c, "cluster") {
		eachInstr(f, func(i ssa.Instruction) {
			mu, ok := i.(*ssa.MapUpdate)
			if !ok || fieldOfValueDeep(mu.Map) != fAddr {
				return
			}
			if _, isP := strip(mu.Value).(*ssa.Parameter); !isP {
				return
			}
			n++
			// the existence test on the same key
			reachableWhenPresent := false
			tests := 0
			for _, ifi := range allIfs(f) {
				ex, isEx := ifi.Cond.(*ssa.Extract)
				neg := false
				if !isEx {
					if u, isU := ifi.Cond.(*ssa.UnOp); isU && u.Op == token.NOT {
						ex, isEx = u.X.(*ssa.Extract)
						neg = true
					}
				}
				if !isEx || ex.Index != 1 {
					continue
				}
				lk, isL := ex.Tuple.(*ssa.Lookup)
				if !isL || !lk.CommaOk || fieldOfValueDeep(lk.X) != fAddr {
					continue
				}
				tests++
				present := succOn(ifi, !neg)
				if len(present.Instrs) == 0 {
					continue
				}
				if _, reach := reachesAvoidingFrom(f, present.Instrs[0], func(z ssa.Instruction) bool { return z == ssa.Instruction(mu) }, func(ssa.Instruction) bool { return false }); reach {
					reachableWhenPresent = true
				}
			}
			if tests == 0 {
				reachableWhenPresent = true // unconditional insert
			}
			r.Check(reachableWhenPresent, rule, fnName(f), fmt.Sprintf("address-insert#%d", n), c.InstrPos(mu), "the address book accepts an address for a node it already lists (at least when the listed one is empty): the bootstrap peers of StartNode at "+bare+" carry no Context, so a member that replays its log lists the bootstrap node with an empty address first — and the real address in the join handshake's reply is then dropped as `already present`; the restarted member can never dial that node again")
		})
	}
	if n == 0 {
		r.Unk(rule, "cluster.Conn", "address-insert", "-", "no insert of a parameter into the address book found")
	}
}
