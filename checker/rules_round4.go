package main

// Rules added after the fourth seeded round (DESIGN §16).

import (
	"fmt"
	"go/token"
	"go/types"
	"strings"

	"golang.org/x/tools/go/ssa"
)

// ---- stream receive errors ---------------------------------------------------------------------------------------

// recvErrorsHandled: in every function that drains a gRPC stream, the error of Recv is told apart from io.EOF, and on the
// non-EOF error side every path reports it (sends it, or returns a non-nil error) — a failed stream is not the end of a
// successful one.
func recvErrorsHandled(c *Ctx, r *Report, rule string, pkgs ...string) {
	n := 0
	for _, f := range prodFuncs(c, pkgs...) {
		k := 0
		eachInstr(f, func(i ssa.Instruction) {
			cl, ok := i.(*ssa.Call)
			if !ok || !cl.Call.IsInvoke() || cl.Call.Method == nil || cl.Call.Method.Name() != "Recv" {
				return
			}
			var e ssa.Value
			for _, u := range *cl.Referrers() {
				if ex, isEx := u.(*ssa.Extract); isEx && isErrorType(ex.Type()) {
					e = ex
				}
			}
			if e == nil {
				return
			}
			n++
			k++
			cons := fmt.Sprintf("recv-error#%d", k)
			// (a) compared with io.EOF (== or errors.Is)
			eofTest := false
			eachInstr(f, func(z ssa.Instruction) {
				if ic, isIC := z.(*ssa.Call); isIC && callID(&ic.Call).Pkg == "errors" && callID(&ic.Call).Name == "Is" && len(ic.Call.Args) == 2 && strip(ic.Call.Args[0]) == e {
					if g := globalOf(ic.Call.Args[1]); g != nil && g.Name() == "EOF" {
						eofTest = true
					}
				}
			})
			for _, ifi := range allIfs(f) {
				if b, isB := ifi.Cond.(*ssa.BinOp); isB && (b.Op == token.EQL || b.Op == token.NEQ) {
					for _, pair := range [][2]ssa.Value{{b.X, b.Y}, {b.Y, b.X}} {
						if strip(pair[0]) == e {
							if g := globalOf(pair[1]); g != nil && g.Name() == "EOF" {
								eofTest = true
							}
						}
					}
				}
			}
			// (b) the non-nil side acts
			res := f.Signature.Results()
			returnsErr := res.Len() > 0 && isErrorType(res.At(res.Len()-1).Type())
			acted, why := errorActedOn(f, e, func(j ssa.Instruction, ev ssa.Value) bool {
				if s, isS := j.(*ssa.Send); isS && strip(s.X) == ev {
					return true
				}
				if rt, isR := j.(*ssa.Return); isR && returnsErr && len(rt.Results) > 0 && !isNilConst(rt.Results[len(rt.Results)-1]) {
					return true
				}
				return false
			})
			r.Check(eofTest && acted, rule, fnName(f), cons, c.Pos(cl.Pos()), fmt.Sprintf("the error of Recv is compared with io.EOF (%v) and every other error is reported (%s): a stream that fails — unknown dataset on the peer, a crash in mid-answer, an expired context — must not be read as the regular end of the answer, or the caller returns a partial or empty list with success", eofTest, why))
		})
	}
	if n == 0 {
		r.Unk(rule, strings.Join(pkgs, ","), "stream-recv", "-", "no stream Recv found")
	}
}

// ---- merge shape wherever the merge lives ---------------------------------------------------------------------------

// metadataMergeKeepsNewKeys: a loop that copies the entries of one metadata map into another overwrites nothing the
// destination already has: the copy is on the `absent` side of a comma-ok lookup of the same key in the destination.
func metadataMergeKeepsNewKeys(c *Ctx, r *Report, rule string) {
	isMeta := func(t types.Type) bool {
		if typeName(t) == "Metadata" {
			return true
		}
		m, ok := t.Underlying().(*types.Map)
		return ok && m.Key().String() == "string" && m.Elem().String() == "string"
	}
	n := 0
	for _, f := range prodFuncs(c, "storage", "index") {
		eachInstr(f, func(i ssa.Instruction) {
			mu, ok := i.(*ssa.MapUpdate)
			if !ok || !isMeta(mu.Map.Type()) || !inCycle(f, mu) {
				return
			}
			// key and value come from ranging over another metadata map
			var next *ssa.Next
			for _, v := range []ssa.Value{mu.Key, mu.Value} {
				if ex, isEx := strip(v).(*ssa.Extract); isEx {
					if nx, isN := ex.Tuple.(*ssa.Next); isN {
						if rg, isR := nx.Iter.(*ssa.Range); isR && isMeta(rg.X.Type()) {
							next = nx
						}
					}
				}
			}
			if next == nil {
				return
			}
			n++
			okG := false
			for _, ifi := range allIfs(f) {
				ex, isEx := ifi.Cond.(*ssa.Extract)
				if !isEx || ex.Index != 1 {
					continue
				}
				lk, isL := ex.Tuple.(*ssa.Lookup)
				if !isL || !lk.CommaOk || strip(lk.Index) != strip(mu.Key) {
					continue
				}
				sameDest := lk.X == mu.Map
				if !sameDest {
					for _, a := range origins(lk.X, originOpt{}) {
						for _, b := range origins(mu.Map, originOpt{}) {
							if a == b {
								sameDest = true
							}
						}
					}
				}
				if sameDest && guardedBy(mu.Block(), ifi, false) {
					okG = true
				}
			}
			r.Check(okG, rule, fnName(f), fmt.Sprintf("merge-copy#%d", n), c.InstrPos(mu), "old entries are copied into the new metadata only for keys the new metadata does not have (comma-ok lookup, absent side): a test on the value (`== \"\"`) lets an explicit empty value be overwritten by the old one — the update is acknowledged and lost")
		})
	}
	if n == 0 {
		r.Unk(rule, "storage/index", "metadata-merge", "-", "no loop copying one metadata map into another found")
	}
}

// ---- proposers do not answer from the local index -------------------------------------------------------------------

// proposersDoNotReadTheIndex: the outcome of a write is decided where it is applied. A function that proposes a partition
// change must not consult the local index first: on a lagging replica, or while the log is being replayed after a
// restart, the local index is behind the acknowledged history.
func proposersDoNotReadTheIndex(c *Ctx, r *Report, rule string) {
	n := 0
	for _, f := range prodFuncs(c, "storage") {
		if recvTypeName(f) != "partition" || f.Parent() != nil {
			continue
		}
		proposes := false
		eachInstr(f, func(i ssa.Instruction) {
			if cc := asCall(i); cc != nil && cc.StaticCallee() != nil {
				g := cc.StaticCallee()
				if g.Name() == "Propose" || (recvTypeName(g) == "partition" && strings.HasPrefix(g.Name(), "propose")) {
					proposes = true
				}
			}
		})
		if !proposes || strings.HasPrefix(f.Name(), "propose") {
			continue
		}
		n++
		bad := ""
		eachInstr(f, func(i ssa.Instruction) {
			cc := asCall(i)
			if cc == nil || cc.StaticCallee() == nil || recvTypeName(cc.StaticCallee()) != "Hnsw" {
				return
			}
			// does the callee read the index's contents (a lookup in the shard maps, the counters, the entry point)?
			reads := false
			for h := range c.reachableFrom([]*ssa.Function{cc.StaticCallee()}, false, true) {
				eachInstr(h, func(j ssa.Instruction) {
					switch y := j.(type) {
					case *ssa.Lookup:
						if fld := fieldOfValueDeep(y.X); fld != nil && fld.Name() == "vertices" {
							reads = true
						}
					case *ssa.FieldAddr:
						if sf := structField(y.X.Type(), y.Field); sf != nil && typeName(y.X.Type()) == "Hnsw" && (sf.Name() == "len" || sf.Name() == "bytesSize" || sf.Name() == "entrypoint" || sf.Name() == "vertices") {
							reads = true
						}
					}
				})
			}
			if reads {
				bad = cc.StaticCallee().Name() + " at " + c.InstrPos(i)
			}
		})
		r.Check(bad == "", rule, fnName(f), "decides-at-apply", c.Pos(f.Pos()), "the proposing function does not read the local index ("+bad+"): `not found` / `already exists` must come from the operation's position in the replicated log, not from a replica that may not have applied the acknowledged history yet")
	}
	if n == 0 {
		r.Unk(rule, "storage.partition", "proposers", "-", "no proposing partition method found")
	}
}

// ---- decoded log entries do not share buffers ----------------------------------------------------------------------

// decodedEntriesOwnTheirBytes: a log entry that is decoded in a loop and appended to the result is not seeded with the
// previous iteration's payload buffer (generated Unmarshal re-uses m.Data[:0]: equally sized entries would all replay as
// the last one).
func decodedEntriesOwnTheirBytes(c *Ctx, r *Report, rule string) {
	n, bad := 0, ""
	isEntryCell := func(v ssa.Value) bool {
		p, ok := v.Type().Underlying().(*types.Pointer)
		return ok && typeName(p.Elem()) == "Entry"
	}
	for _, f := range prodFuncs(c, "storage/wal") {
		eachInstr(f, func(i ssa.Instruction) {
			if cl, ok := i.(*ssa.Call); ok && callID(&cl.Call).Name == "Unmarshal" && len(cl.Call.Args) > 0 && typeName(cl.Call.Args[0].Type()) == "Entry" {
				n++
			}
			// x.Data = x.Data[:…]  /  x = Entry{Data: x.Data[:…]}: a slice of an entry variable's own payload stored into
			// the payload field of an entry
			sl, isS := i.(*ssa.Slice)
			if !isS {
				return
			}
			src, isL := loadOf(sl.X)
			if !isL {
				return
			}
			fa, isF := src.(*ssa.FieldAddr)
			if !isF || !isEntryCell(fa.X) || structField(fa.X.Type(), fa.Field).Name() != "Data" {
				return
			}
			for _, u := range *sl.Referrers() {
				if st, isSt := u.(*ssa.Store); isSt {
					if fa2, isF2 := st.Addr.(*ssa.FieldAddr); isF2 && isEntryCell(fa2.X) && structField(fa2.X.Type(), fa2.Field).Name() == "Data" {
						bad = fnName(f) + " at " + c.InstrPos(st)
					}
				}
			}
		})
	}
	if n == 0 {
		r.Unk(rule, "storage/wal", "entry-decode", "-", "no Entry.Unmarshal found in the log store")
		return
	}
	r.Check(bad == "", rule, "storage/wal", "decoded-entries-own-their-bytes", "-", fmt.Sprintf("%d decode site(s); no entry variable is seeded with a slice of its own previous payload (%s): the generated decoder re-uses that buffer, and entries already appended to the result are overwritten by later ones — after a restart raft replays equally sized writes as copies of the last", n, bad))
}

// ---- the conf state of a group is only ever what raft said --------------------------------------------------------------

func confStateOnlyFromRaft(c *Ctx, r *Report, rule string) {
	fld := c.Field("storage/raft", "RaftGroup", "raftConfState")
	if fld == nil {
		r.Unk(rule, "storage/raft.RaftGroup", "raftConfState", "-", "field not found")
		return
	}
	n, bad := 0, ""
	for _, f := range prodFuncs(c, "storage/raft") {
		for _, st := range fieldStoresIn(f, fld) {
			n++
			ok := true
			for _, o := range origins(st.Val, originOpt{}) {
				switch y := o.(type) {
				case *ssa.Const:
				case *ssa.Call:
					if callID(&y.Call).Name != "ApplyConfChange" {
						ok = false
					}
				case *ssa.FieldAddr:
					if sf := structField(y.X.Type(), y.Field); sf == nil || sf.Name() != "ConfState" {
						ok = false
					}
				default:
					ok = false
				}
			}
			if !ok {
				bad = fnName(f) + " at " + c.InstrPos(st)
			}
		}
	}
	r.Check(n > 0 && bad == "", rule, "storage/raft.RaftGroup", "conf-state-from-raft", "-", fmt.Sprintf("%d store(s) to the group's membership record; each stores nil, the result of ApplyConfChange or a snapshot's ConfState (%s): an invented empty value passes the `nil` guard of CreateSnapshot and the next compaction writes a snapshot without voters", n, bad))
}

// ---- the size limit is measured on the entry ----------------------------------------------------------------------------

func sizeLimitMeasuresEntries(c *Ctx, r *Report, rule string) {
	n := 0
	for _, f := range prodFuncs(c, "storage/wal") {
		if !measuresEntries(f) {
			continue
		}
		for _, ifi := range allIfs(f) {
			b, ok := ifi.Cond.(*ssa.BinOp)
			if !ok || (b.Op != token.GTR && b.Op != token.LSS && b.Op != token.GEQ && b.Op != token.LEQ) {
				continue
			}
			isMax := isSizeLimitOperand
			var sizeSide ssa.Value
			if isMax(b.Y) {
				sizeSide = b.X
			} else if isMax(b.X) {
				sizeSide = b.Y
			}
			if sizeSide == nil {
				continue
			}
			n++
			good, other := false, ""
			var walk func(v ssa.Value, d int)
			seen := map[ssa.Value]bool{}
			walk = func(v ssa.Value, d int) {
				if d > 8 || v == nil || seen[v] {
					return
				}
				seen[v] = true
				switch y := v.(type) {
				case *ssa.Call:
					id := callID(&y.Call)
					if id.Name == "Size" && len(y.Call.Args) > 0 && typeName(y.Call.Args[0].Type()) == "Entry" {
						good = true
					} else if id.Pkg != "builtin" {
						other = id.String()
					}
				case *ssa.BinOp:
					walk(y.X, d+1)
					walk(y.Y, d+1)
				case *ssa.Convert:
					walk(y.X, d+1)
				case *ssa.Phi:
					for _, e := range y.Edges {
						walk(e, d+1)
					}
				case *ssa.UnOp:
					if al, isA := y.X.(*ssa.Alloc); isA {
						for _, st := range storesTo(f, al) {
							walk(st.Val, d+1)
						}
						if f.Parent() != nil {
							for _, st := range storesTo(f.Parent(), al) {
								walk(st.Val, d+1)
							}
						}
					}
					if fv, isFV := y.X.(*ssa.FreeVar); isFV && f.Parent() != nil {
						// the captured accumulator: its stores in this closure
						eachInstr(f, func(j ssa.Instruction) {
							if st, isS := j.(*ssa.Store); isS && st.Addr == ssa.Value(fv) {
								walk(st.Val, d+1)
							}
						})
					}
				}
			}
			walk(sizeSide, 0)
			r.Check(good && other == "", rule, fnName(f), fmt.Sprintf("size-limit-measure#%d", n), c.InstrPos(ifi), "the size compared with maxSize is the sum of Entry.Size() of the decoded entries (other measure: "+other+"): an estimate taken from the store (ValueSize of a value-log pointer) counts a few bytes more per large entry, and the range is cut earlier than raft's limitSize and the reference do")
		}
	}
	if n == 0 {
		r.Unk(rule, "storage/wal", "size-limit", "-", "no comparison with the maxSize limit found in the entry scan")
	}
}

// ---- connections of removed nodes are closed at once --------------------------------------------------------------------

func removedNodeConnectionClosedAtOnce(c *Ctx, r *Report, rule string) {
	fConns := c.Field("cluster", "Conn", "conns")
	if fConns == nil {
		r.Unk(rule, "cluster.Conn", "conns", "-", "field not found")
		return
	}
	n := 0
	for _, f := range prodFuncs(c, "cluster") {
		if f.Parent() != nil {
			continue
		}
		var del ssa.Instruction
		eachInstr(f, func(i ssa.Instruction) {
			if cc := asCall(i); cc != nil && callID(cc).is("builtin", "", "delete") && fieldOfValueDeep(cc.Args[0]) == fConns {
				del = i
			}
		})
		if del == nil {
			continue
		}
		n++
		closedHere := false
		eachInstr(f, func(i ssa.Instruction) {
			cl, ok := i.(*ssa.Call)
			if !ok {
				return
			}
			id := callID(&cl.Call)
			if id.Name == "Close" && id.Recv == "ClientConn" {
				closedHere = true
			}
		})
		r.Check(closedHere, rule, fnName(f), "connection-closed-synchronously", c.InstrPos(del), "the function that drops a node's cached connection closes it itself, before it returns: clients built on that connection are cached elsewhere (per dataset) and never evicted, so only the closed connection makes a search planned on the departed node fail loudly — a delayed close lets it get an empty answer with OK from whoever now listens there")
	}
	if n == 0 {
		r.Unk(rule, "cluster.Conn", "conns-delete", "-", "no function deleting from the connection cache found")
	}
}

// ---- the catalogue record's partition list keeps its order --------------------------------------------------------------

func catalogueRecordOrderStable(c *Ctx, r *Report, rule string) {
	fld := c.Field("protobuf", "Dataset", "Partitions")
	if fld == nil {
		r.Unk(rule, "protobuf.Dataset", "Partitions", "-", "field not found")
		return
	}
	n, bad := 0, ""
	for _, f := range prodFuncs(c, "storage", "services", "") {
		eachInstr(f, func(i ssa.Instruction) {
			cl, ok := i.(*ssa.Call)
			if !ok {
				return
			}
			id := callID(&cl.Call)
			if !(id.Pkg == "sort" || (id.Pkg == "math/rand" && id.Name == "Shuffle")) {
				return
			}
			n++
			for _, a := range cl.Call.Args {
				for _, o := range origins(strip(a), originOpt{}) {
					if fieldOfValue(o) == fld || fieldOfValueDeep(o) == fld {
						bad = fnName(f) + " passes the record's partition list to " + id.String() + " at " + c.InstrPos(i)
					}
					if gc, isC := o.(*ssa.Call); isC && callID(&gc.Call).Name == "GetPartitions" {
						bad = fnName(f) + " passes GetPartitions() to " + id.String() + " at " + c.InstrPos(i)
					}
				}
			}
		})
	}
	r.Check(bad == "", rule, "protobuf.Dataset", "record-partition-order", "-", fmt.Sprintf("%d sort/shuffle calls in the storage and service layers; none reorders the partition list of a catalogue record (%s): position i of that list is partition i of the routing table on every node built from a snapshot of it — a copy of the record struct still shares the list", n, bad))
}

// ---- dialling never blocks without a deadline ----------------------------------------------------------------------

func dialDoesNotBlock(c *Ctx, r *Report, rule string) {
	block, dial := "", 0
	for _, f := range prodFuncs(c, "cluster", "storage/raft", "storage", "") {
		eachInstr(f, func(i ssa.Instruction) {
			cc := asCall(i)
			if cc == nil {
				return
			}
			id := callID(cc)
			if strings.HasSuffix(id.Pkg, "google.golang.org/grpc") {
				if id.Name == "WithBlock" {
					block = fnName(f) + " at " + c.InstrPos(i)
				}
				if id.Name == "Dial" {
					dial++
				}
			}
		})
	}
	if dial == 0 {
		r.Unk(rule, "cluster", "grpc.Dial", "-", "no grpc.Dial in the cluster layer")
		return
	}
	r.Check(block == "", rule, "cluster.Conn", "dial-is-lazy", "-", fmt.Sprintf("%d grpc.Dial call(s) without a context; no dial option makes them wait for the connection (%s): Dial is called synchronously from the raft Ready loop and from the write path — with WithBlock the first message to a member that is down parks the loop for as long as that member stays down, and a write to an unreachable owner never returns", dial, block))
}

// ---- role loops handle their events one after another ------------------------------------------------------------------

func roleLoopHandlersSequential(c *Ctx, r *Report, rule string, loops []*ssa.Function) {
	n := 0
	for _, f := range loops {
		n++
		bad := ""
		eachInstr(f, func(i ssa.Instruction) {
			g, ok := i.(*ssa.Go)
			if !ok || !inCycle(f, i) {
				return
			}
			callee := g.Call.StaticCallee()
			if mc, isMC := g.Call.Value.(*ssa.MakeClosure); isMC {
				callee, _ = mc.Fn.(*ssa.Function)
			}
			if callee == nil {
				return
			}
			proposes := false
			for h := range c.reachableFrom([]*ssa.Function{callee}, true, true) {
				eachInstr(h, func(j ssa.Instruction) {
					if cc := asCall(j); cc != nil && strings.HasPrefix(callID(cc).Name, "Propose") {
						proposes = true
					}
				})
			}
			if proposes {
				bad = callee.Name() + " at " + c.InstrPos(i)
			}
		})
		r.Check(bad == "", rule, fnName(f), "handlers-run-in-order", c.Pos(f.Pos()), "the loop handles its events itself, one after another (`go "+bad+"`): its handlers check the replicated state and then propose a change — run concurrently, two membership changes both see `under-replicated` and both add a node (R+1 replicas), or an add overtakes the removal of the same node")
	}
	if n == 0 {
		r.Unk(rule, "storage", "role-loops", "-", "no role loop found")
	}
}

// ---- start-up order: receivers before senders ------------------------------------------------------------------------------

// receiversStartBeforeTheLog: in the server's set-up, the goroutine that receives what the catalogue's apply tree sends
// (the allocator loop) is spawned before the zero group is started — Start() applies a stored snapshot synchronously.
func receiversStartBeforeTheLog(c *Ctx, r *Report, rule string) {
	setup := c.Method("", "Server", "setup")
	if setup == nil {
		r.Unk(rule, "anndb.Server", "setup", "-", "method not found")
		return
	}
	// functions that (transitively, without `go`) spawn a role loop of the allocator
	spawns := func(g *ssa.Function) bool {
		found := false
		for h := range c.reachableFrom([]*ssa.Function{g}, true, true) {
			eachInstr(h, func(i ssa.Instruction) {
				if gi, ok := i.(*ssa.Go); ok && gi.Call.StaticCallee() != nil && recvTypeName(gi.Call.StaticCallee()) == "Allocator" {
					found = true
				}
			})
		}
		return found
	}
	var spawnCall, startCall ssa.Instruction
	eachInstr(setup, func(i ssa.Instruction) {
		cl, ok := i.(*ssa.Call)
		if !ok || cl.Call.StaticCallee() == nil {
			return
		}
		g := cl.Call.StaticCallee()
		if spawnCall == nil && modLocal(g) && spawns(g) {
			spawnCall = i
		}
		if g.Name() == "Start" && recvTypeName(g) == "RaftGroup" && startCall == nil {
			startCall = i
		}
	})
	if startCall == nil {
		r.Unk(rule, fnName(setup), "zero-group-start", c.Pos(setup.Pos()), "no RaftGroup.Start call found in set-up")
		return
	}
	r.Check(spawnCall != nil && instrDominates(spawnCall, startCall), rule, fnName(setup), "allocator-loop-before-log", c.InstrPos(startCall), "the allocator loop is running before the zero group is started: Start() hands a stored catalogue snapshot to the dataset manager synchronously, which sends every partition to the allocator on an unbuffered channel — without a receiver set-up blocks forever inside Start(), holding the catalogue lock, and the node never opens its listener")
}

// ---- the node's identity is durable before it is used -----------------------------------------------------------------------

func nodeIdentityPersisted(c *Ctx, r *Report, rule string) {
	f := c.Method("", "Server", "getRaftNodeId")
	if f == nil {
		r.Unk(rule, "anndb.Server", "getRaftNodeId", "-", "method not found")
		return
	}
	var get, set *ssa.Call
	eachInstr(f, func(i ssa.Instruction) {
		if cl, ok := i.(*ssa.Call); ok && cl.Call.StaticCallee() != nil && strings.HasSuffix(fnPkgPath(cl.Call.StaticCallee()), "storage/wal") {
			switch {
			case strings.HasPrefix(cl.Call.StaticCallee().Name(), "Get"):
				get = cl
			case strings.HasPrefix(cl.Call.StaticCallee().Name(), "Set"):
				set = cl
			}
		}
	})
	if get == nil || set == nil {
		r.Bad(rule, fnName(f), "identity-read-and-written", c.Pos(f.Pos()), "the node id is not both read from and written to the store")
		return
	}
	k := 0
	for _, rt := range returnsOf(f) {
		if !isNilConst(rt.Results[len(rt.Results)-1]) {
			continue
		}
		k++
		// the returned id is the stored one, or the store call dominates the return
		fromStore := false
		for _, o := range origins(rt.Results[0], originOpt{}) {
			if ex, isEx := o.(*ssa.Extract); isEx && ex.Tuple == ssa.Value(get) {
				fromStore = true
			}
		}
		ok := instrDominates(set, rt.Return) || (fromStore && len(origins(rt.Results[0], originOpt{})) == 1)
		r.Check(ok, rule, fnName(f), fmt.Sprintf("identity-durable#%d", k), c.Pos(rt.Pos()), "every id this function hands out is the stored one or has just been stored: a node started once with an explicit id and later without it must come back as the same member — otherwise it replays the old membership log under a new identity, the old member never returns and a two-node cluster loses quorum")
	}
}

// ---- announce a node once -----------------------------------------------------------------------------------------------

func nodeAnnouncedOnce(c *Ctx, r *Report, rule string) {
	fAddr := c.Field("cluster", "Conn", "addresses")
	if fAddr == nil {
		return
	}
	n := 0
	for _, f := range prodFuncs(c, "cluster") {
		var insert *ssa.MapUpdate
		eachInstr(f, func(i ssa.Instruction) {
			if mu, ok := i.(*ssa.MapUpdate); ok && fieldOfValueDeep(mu.Map) == fAddr {
				insert = mu
			}
		})
		if insert == nil {
			continue
		}
		eachInstr(f, func(i ssa.Instruction) {
			cl, ok := i.(*ssa.Call)
			if !ok || cl.Call.StaticCallee() == nil || !modLocal(cl.Call.StaticCallee()) {
				return
			}
			// the notifier, by role: a module function that sends on channels
			// (directly, or through one more helper: announce = notify + log)
			sends := false
			var look func(g *ssa.Function, d int)
			look = func(g *ssa.Function, d int) {
				eachInstr(g, func(j ssa.Instruction) {
					if _, isS := j.(*ssa.Send); isS {
						sends = true
					}
					if c2, isC := j.(*ssa.Call); isC && d < 2 && c2.Call.StaticCallee() != nil && modLocal(c2.Call.StaticCallee()) {
						look(c2.Call.StaticCallee(), d+1)
					}
				})
			}
			look(cl.Call.StaticCallee(), 0)
			if !sends {
				return
			}
			n++
			bad := ""
			for _, ifi := range allIfs(f) {
				ex, isEx := ifi.Cond.(*ssa.Extract)
				if !isEx || ex.Index != 1 {
					continue
				}
				lk, isL := ex.Tuple.(*ssa.Lookup)
				if !isL || !lk.CommaOk || fieldOfValueDeep(lk.X) != fAddr {
					continue
				}
				present := succOn(ifi, true)
				if len(present.Instrs) == 0 {
					continue
				}
				// paths on which the node was present never take the `absent` edge of a later test of the same value:
				// block-level search that follows only the `present` edge of such tests
				seen := map[*ssa.BasicBlock]bool{present: true}
				work := []*ssa.BasicBlock{present}
				reach := false
				for len(work) > 0 {
					blk := work[len(work)-1]
					work = work[:len(work)-1]
					if blk == i.Block() {
						reach = true
						break
					}
					succs := blk.Succs
					if len(blk.Instrs) > 0 {
						if other, isIf := blk.Instrs[len(blk.Instrs)-1].(*ssa.If); isIf {
							if other.Cond == ifi.Cond {
								succs = []*ssa.BasicBlock{succOn(other, true)}
							} else if u, isU := other.Cond.(*ssa.UnOp); isU && u.Op == token.NOT && u.X == ifi.Cond {
								succs = []*ssa.BasicBlock{succOn(other, false)}
							}
						}
					}
					for _, sb := range succs {
						if !seen[sb] {
							seen[sb] = true
							work = append(work, sb)
						}
					}
				}
				if reach {
					bad = c.InstrPos(ifi)
				}
			}
			r.Check(bad == "", rule, fnName(f), fmt.Sprintf("announce-only-new#%d", n), c.InstrPos(i), "the `node added` notification is sent only for a node that was not listed before (reachable on the `present` side of the test at "+bad+"): the allocator appends the announced node to every under-replicated partition it leads without looking — announced twice, a node is listed twice in a partition (not distinct, more than min(R,N) entries)")
		})
	}
	if n == 0 {
		// the insertion may live in a helper that reports whether the node was new, the announcement in its caller: every way
		// of reaching the announcement must have the helper's presence test false (path conditions, the helper inlined)
		for _, g := range prodFuncs(c, "cluster") {
			var okv *ssa.Extract
			inserts := false
			eachInstr(g, func(i ssa.Instruction) {
				if mu, ok := i.(*ssa.MapUpdate); ok && fieldOfValueDeep(mu.Map) == fAddr {
					inserts = true
				}
				if ex, ok := i.(*ssa.Extract); ok && ex.Index == 1 {
					if lk, isL := ex.Tuple.(*ssa.Lookup); isL && lk.CommaOk && fieldOfValueDeep(lk.X) == fAddr {
						okv = ex
					}
				}
			})
			if !inserts || okv == nil {
				continue
			}
			key := "atom:" + g.String() + ":" + okv.Name()
			for _, f := range prodFuncs(c, "cluster") {
				callsG := false
				eachInstr(f, func(i ssa.Instruction) {
					if cc := asCall(i); cc != nil && cc.StaticCallee() == g {
						callsG = true
					}
				})
				if !callsG {
					continue
				}
				eachInstr(f, func(i ssa.Instruction) {
					cl, ok := i.(*ssa.Call)
					if !ok || cl.Call.StaticCallee() == nil || cl.Call.StaticCallee() == g || !modLocal(cl.Call.StaticCallee()) {
						return
					}
					sends := false
					var look func(h *ssa.Function, d int)
					look = func(h *ssa.Function, d int) {
						eachInstr(h, func(j ssa.Instruction) {
							if _, isS := j.(*ssa.Send); isS {
								sends = true
							}
							if c2, isC := j.(*ssa.Call); isC && d < 2 && c2.Call.StaticCallee() != nil && modLocal(c2.Call.StaticCallee()) {
								look(c2.Call.StaticCallee(), d+1)
							}
						})
					}
					look(cl.Call.StaticCallee(), 0)
					if !sends {
						return
					}
					e := &condEngine{budget: 4000, atomKey: func(ssa.Value) (string, bool, bool) { return "", false, false }}
					paths := e.pathsTo(f, cl.Block(), 0)
					if e.failed || len(paths) == 0 {
						return
					}
					n++
					bad := false
					for _, p := range paths {
						if present, tested := p.asg[key]; !tested || present {
							bad = true
						}
					}
					r.Check(!bad, rule, fnName(f), fmt.Sprintf("announce-only-new#%d", n), c.InstrPos(i), "the `node added` notification is sent only for a node that was not listed before: every way of reaching it has the presence test of the inserting helper false")
				})
			}
		}
	}
	if n == 0 {
		r.Unk(rule, "cluster.Conn", "add-notification", "-", "no notification call found in the function that inserts into the address book (or in its callers)")
	}
}

// ---- locks taken in a function are released on every return ------------------------------------------------------------------

func locksReleasedOnEveryReturn(c *Ctx, r *Report, rule string, pkgs ...string) {
	n, leaks := 0, 0
	for _, f := range prodFuncs(c, pkgs...) {
		li := analyzeLocks(f)
		if len(li.lockVal) == 0 {
			continue
		}
		n++
		// paths released by a deferred unlock
		deferred := map[string]bool{}
		eachInstr(f, func(i ssa.Instruction) {
			if d, ok := i.(*ssa.Defer); ok {
				if op, mu := mutexOp(&d.Call); op == "Unlock" || op == "RUnlock" {
					deferred[path(mu)] = true
				}
				if mc, isMC := d.Call.Value.(*ssa.MakeClosure); isMC {
					if g, _ := mc.Fn.(*ssa.Function); g != nil {
						eachInstr(g, func(j ssa.Instruction) {
							if cc := asCall(j); cc != nil {
								if op, mu := mutexOp(cc); op == "Unlock" || op == "RUnlock" {
									deferred[path(mu)] = true
									_ = mu
								}
							}
						})
					}
				}
			}
		})
		eachInstr(f, func(i ssa.Instruction) {
			rt, ok := i.(*ssa.Return)
			if !ok {
				return
			}
			for p := range li.before[rt].may {
				if deferred[p] || len(deferred) > 0 && strings.Contains(p, "φ") {
					continue
				}
				// a lock handed to the caller on purpose: the function returns the mutex itself
				handed := false
				for _, res := range rt.Results {
					if isMutexPtr(res.Type()) {
						handed = true
					}
				}
				if handed {
					continue
				}
				leaks++
				r.Bad(rule, fnName(f), fmt.Sprintf("returns-holding-%s", p), c.InstrPos(rt), "this return can be reached while "+p+" is still held (no unlock on the path, none deferred): the next writer of that lock blocks forever — for an edge-set lock that is the partition's apply goroutine, and every reader queues behind it")
			}
		})
	}
	if leaks == 0 {
		r.OK(rule, strings.Join(pkgs, ","), "no-lock-leak", "-", fmt.Sprintf("%d functions take a mutex; every return is reached with all of them released or released by a defer", n))
	}
}

// measuresEntries: the function (or closure) is part of the entry scan: it decodes raft entries (Entry.Unmarshal) or asks
// for their size; the scan may live in getEntries, in its closure, or in a helper it was moved to.
func measuresEntries(f *ssa.Function) bool {
	hit := false
	for _, h := range append([]*ssa.Function{f}, closuresOf(f)...) {
		eachInstr(h, func(i ssa.Instruction) {
			if cl, ok := i.(*ssa.Call); ok {
				id := callID(&cl.Call)
				if (id.Name == "Size" || id.Name == "Unmarshal") && id.Recv == "Entry" {
					hit = true
				}
			}
		})
	}
	if f.Parent() != nil && !hit {
		return measuresEntries(f.Parent())
	}
	return hit
}

// isSizeLimitOperand: the operand is the caller's byte limit: an unsigned integer parameter (of this function, or captured
// from the enclosing one) that is not an entry index — told apart by use: it is compared, never used to build a key.
func isSizeLimitOperand(v ssa.Value) bool {
	for _, o := range origins(v, originOpt{}) {
		var p ssa.Value
		if q, ok := o.(*ssa.Parameter); ok {
			p = q
		}
		if l, ok := loadOf(o); ok {
			if fv, ok := l.(*ssa.FreeVar); ok {
				p = fv
			}
		}
		if p == nil {
			continue
		}
		t := p.Type()
		if pt, ok := t.Underlying().(*types.Pointer); ok {
			t = pt.Elem()
		}
		if b, ok := t.Underlying().(*types.Basic); !ok || b.Kind() != types.Uint64 {
			continue
		}
		// an index parameter flows into a key constructor call; the limit does not
		usedForKey := false
		var refs []ssa.Instruction
		if p.Referrers() != nil {
			refs = append(refs, *p.Referrers()...)
		}
		for k := 0; k < len(refs) && k < 64; k++ {
			switch u := refs[k].(type) {
			case *ssa.Call:
				if g := u.Call.StaticCallee(); g != nil && g.Signature.Results().Len() == 1 && g.Signature.Results().At(0).Type().String() == "[]byte" {
					usedForKey = true
				}
			case *ssa.UnOp:
				if u.Referrers() != nil {
					refs = append(refs, *u.Referrers()...)
				}
			}
		}
		if !usedForKey {
			return true
		}
	}
	return false
}
