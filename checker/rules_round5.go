package main

// Rules added after the fifth seeded round (DESIGN §16).

import (
	"fmt"
	"go/token"
	"go/types"
	"sort"
	"strings"

	"golang.org/x/tools/go/ssa"
)

// ---- path-sensitive nil-ness of pointer values (small abstract interpreter) -------------------------------------------

type absNil int

const (
	absUnknown absNil = iota
	absIsNil
	absNonNil
)

// nilPathSearch explores the CFG of f path-sensitively, tracking for every φ of pointer type whether it is nil on the
// current path, pruning branches on `x == nil` / `x != nil` accordingly. `elem` tells which values are known non-nil
// (elements drawn from a container); `mark` is asked on every edge whether the path has now "iterated"; `target` returns
// the value to test at an instruction. It returns the first instruction reached on an iterated path with a value that is
// nil on that path.
func nilPathSearch(f *ssa.Function, elem func(ssa.Value) bool, mark func(from, to *ssa.BasicBlock) bool, needMark bool, target func(ssa.Instruction) ssa.Value) ssa.Instruction {
	if len(f.Blocks) == 0 {
		return nil
	}
	type env map[*ssa.Phi]absNil
	var eval func(v ssa.Value, e env) absNil
	eval = func(v ssa.Value, e env) absNil {
		v = strip(v)
		if isNilConst(v) {
			return absIsNil
		}
		if elem != nil && elem(v) {
			return absNonNil
		}
		switch x := v.(type) {
		case *ssa.Phi:
			return e[x]
		case *ssa.Alloc, *ssa.MakeMap, *ssa.MakeSlice, *ssa.MakeChan, *ssa.MakeClosure, *ssa.MakeInterface, *ssa.FieldAddr, *ssa.IndexAddr:
			return absNonNil
		}
		return absUnknown
	}
	key := func(b *ssa.BasicBlock, e env, it bool) string {
		var ks []string
		for p, a := range e {
			if a != absUnknown {
				ks = append(ks, fmt.Sprintf("%s=%d", p.Name(), a))
			}
		}
		sort.Strings(ks)
		return fmt.Sprintf("%d|%v|%s", b.Index, it, strings.Join(ks, ","))
	}
	seen := map[string]bool{}
	var hit ssa.Instruction
	var visit func(b *ssa.BasicBlock, e env, it bool)
	visit = func(b *ssa.BasicBlock, e env, it bool) {
		if hit != nil {
			return
		}
		k := key(b, e, it)
		if seen[k] {
			return
		}
		seen[k] = true
		for _, in := range b.Instrs {
			if instrNoReturn(in) {
				return
			}
			if v := target(in); v != nil && (it || !needMark) && eval(v, e) == absIsNil {
				hit = in
				return
			}
		}
		if len(b.Instrs) == 0 {
			return
		}
		feasible := []bool{true, true}
		var refine *ssa.Phi
		var refineOnTrue absNil
		if ifi, ok := b.Instrs[len(b.Instrs)-1].(*ssa.If); ok {
			if bo, ok := ifi.Cond.(*ssa.BinOp); ok && (bo.Op == token.EQL || bo.Op == token.NEQ) {
				var x ssa.Value
				if isNilConst(bo.Y) {
					x = bo.X
				} else if isNilConst(bo.X) {
					x = bo.Y
				}
				if x != nil {
					a := eval(x, e)
					isNilOnTrue := bo.Op == token.EQL
					switch a {
					case absIsNil:
						feasible[0], feasible[1] = isNilOnTrue, !isNilOnTrue
					case absNonNil:
						feasible[0], feasible[1] = !isNilOnTrue, isNilOnTrue
					default:
						if p, ok := strip(x).(*ssa.Phi); ok {
							refine = p
							if isNilOnTrue {
								refineOnTrue = absIsNil
							} else {
								refineOnTrue = absNonNil
							}
						}
					}
				}
			}
		}
		for si, s := range b.Succs {
			if len(b.Succs) == 2 && !feasible[si] {
				continue
			}
			ne := env{}
			for p, a := range e {
				ne[p] = a
			}
			if refine != nil && len(b.Succs) == 2 {
				a := refineOnTrue
				if si == 1 {
					if a == absIsNil {
						a = absNonNil
					} else {
						a = absIsNil
					}
				}
				ne[refine] = a
			}
			// φ of the successor, evaluated simultaneously in the old environment
			pi := -1
			for k, p := range s.Preds {
				if p == b {
					pi = k
				}
			}
			upd := env{}
			for _, in := range s.Instrs {
				p, ok := in.(*ssa.Phi)
				if !ok {
					break
				}
				if pi >= 0 && pi < len(p.Edges) {
					upd[p] = eval(p.Edges[pi], ne)
				}
			}
			for p, a := range upd {
				ne[p] = a
			}
			visit(s, ne, it || (mark != nil && mark(b, s)))
		}
	}
	visit(f.Blocks[0], env{}, false)
	return hit
}

// shardElem: v is an element (or key) drawn from a range over a map whose values are vertices.
func (x *idxInfo) rangeElem(v ssa.Value) bool {
	ex, ok := strip(v).(*ssa.Extract)
	if !ok {
		return false
	}
	nx, ok := ex.Tuple.(*ssa.Next)
	if !ok {
		return false
	}
	_, isR := nx.Iter.(*ssa.Range)
	return isR && namedOf(derefType(ex.Type())) == x.vertex
}

func derefType(t types.Type) types.Type {
	if p, ok := t.Underlying().(*types.Pointer); ok {
		return p.Elem()
	}
	return t
}

// shardMapRangeOK: the edge b -> s is the `has next` edge of a range over a map id -> vertex (a shard of the id map).
func (x *idxInfo) shardIterEdge(from, to *ssa.BasicBlock) bool {
	if len(from.Instrs) == 0 {
		return false
	}
	ifi, ok := from.Instrs[len(from.Instrs)-1].(*ssa.If)
	if !ok || from.Succs[0] != to {
		return false
	}
	ex, ok := ifi.Cond.(*ssa.Extract)
	if !ok || ex.Index != 0 {
		return false
	}
	nx, ok := ex.Tuple.(*ssa.Next)
	if !ok {
		return false
	}
	rg, ok := nx.Iter.(*ssa.Range)
	if !ok {
		return false
	}
	m, ok := rg.X.Type().Underlying().(*types.Map)
	return ok && namedOf(derefType(m.Elem())) == x.vertex && namedOf(m.Key()) != x.vertex
}

// entryPointNeverLostWhileItemsRemain: (a) in every function that tombstones a vertex (and the helpers it hands the vertex
// to) no path reaches a write of the entry point with a value that is nil on that path; (b) a function that selects a vertex
// by scanning the shards of the id map — the fall-back that supplies the entry point when no live neighbour exists — returns
// a vertex whenever an iteration ran (a conditional pick must also fire for the first vertex seen).
func entryPointNeverLostWhileItemsRemain(c *Ctx, r *Report, rule string) {
	x := newIdx(c)
	if len(x.missing) > 0 {
		r.Unk(rule, "index", "anchors", "-", "anchors missing: "+strings.Join(x.missing, ", "))
		return
	}
	n := 0
	for _, f := range x.funcs {
		// (a)
		hasWrite := false
		eachInstr(f, func(i ssa.Instruction) {
			if x.isEntryWrite(i) {
				hasWrite = true
			}
		})
		if hasWrite && (x.tombstones(f, 2) || x.handedByTombstoner(f)) {
			n++
			// when the fall-back scan is written inline, a nil hand-over is right exactly when no shard held a vertex
			scansInline := false
			for _, b := range f.Blocks {
				for _, s := range b.Succs {
					if x.shardIterEdge(b, s) {
						scansInline = true
					}
				}
			}
			hit := nilPathSearch(f, x.rangeElem, x.shardIterEdge, scansInline, func(i ssa.Instruction) ssa.Value {
				if !x.isEntryWrite(i) {
					return nil
				}
				cc := plainCall(i)
				return cc.Args[len(cc.Args)-1]
			})
			pos := c.Pos(f.Pos())
			if hit != nil {
				pos = c.InstrPos(hit)
			}
			r.Check(hit == nil, rule, fnName(f), "hand-over-value", pos, "no path writes a nil entry point while the removed vertex was the entry point: the hand-over takes a live neighbour or falls back to a stored vertex; with a nil entry point a non-empty index answers every search with an empty list")
		}
		// (b)
		res := f.Signature.Results()
		if res.Len() != 1 || namedOf(derefType(res.At(0).Type())) != x.vertex || f.Parent() != nil {
			continue
		}
		scans := false
		for _, b := range f.Blocks {
			for _, s := range b.Succs {
				if x.shardIterEdge(b, s) {
					scans = true
				}
			}
		}
		if !scans {
			continue
		}
		n++
		hit := nilPathSearch(f, x.rangeElem, x.shardIterEdge, true, func(i ssa.Instruction) ssa.Value {
			if rt, ok := i.(*ssa.Return); ok && len(rt.Results) == 1 {
				return rt.Results[0]
			}
			return nil
		})
		pos := c.Pos(f.Pos())
		if hit != nil {
			pos = c.InstrPos(hit)
		}
		r.Check(hit == nil, rule, fnName(f), "shard-scan-selects", pos, "a selector that scans the id map returns a vertex whenever it saw one (no path returns nil after an iteration): it is what gives a non-empty index an entry point when the removed entry point had no live neighbour")
	}
	if n == 0 {
		r.Unk(rule, "index", "hand-over", "-", "no entry-point hand-over found")
	}
}

func (x *idxInfo) handedByTombstoner(f *ssa.Function) bool {
	for _, g := range x.funcs {
		if g == f || !x.tombstones(g, 2) {
			continue
		}
		found := false
		eachInstr(g, func(i ssa.Instruction) {
			if cc := asCall(i); cc != nil && cc.StaticCallee() == f {
				found = true
			}
		})
		if found {
			return true
		}
	}
	return false
}

// ---- apply tree: map iteration must be exhaustive when it writes ---------------------------------------------------------

// mapRangesInApplyAreExhaustive: in the apply trees, a `range` over a map whose body writes (map update, delete, store
// through a pointer) has no exit other than the end of the iteration: Go's map order differs between replicas and between
// replays, so a loop that stops early leaves a different subset behind on each of them.
func mapRangesInApplyAreExhaustive(c *Ctx, r *Report, rule string) {
	ro := discoverRoles(c)
	reach := c.reachableFrom(ro.applyRoots, false, true)
	var fs []*ssa.Function
	for f := range reach {
		if modLocal(f) && c.isProd(f) {
			fs = append(fs, f)
		}
	}
	sort.Slice(fs, func(i, j int) bool { return fs[i].String() < fs[j].String() })
	n := 0
	for _, f := range fs {
		k := 0
		eachInstr(f, func(i ssa.Instruction) {
			rg, ok := i.(*ssa.Range)
			if !ok {
				return
			}
			if _, isM := rg.X.Type().Underlying().(*types.Map); !isM {
				return
			}
			// loop header = block of the Next; body = blocks reachable from the has-next successor without passing the header
			var nx *ssa.Next
			for _, u := range *rg.Referrers() {
				if y, ok := u.(*ssa.Next); ok {
					nx = y
				}
			}
			if nx == nil {
				return
			}
			hdr := nx.Block()
			ifi, ok := hdr.Instrs[len(hdr.Instrs)-1].(*ssa.If)
			if !ok {
				return
			}
			body := map[*ssa.BasicBlock]bool{}
			var walk func(b *ssa.BasicBlock)
			walk = func(b *ssa.BasicBlock) {
				if b == hdr || body[b] {
					return
				}
				body[b] = true
				for _, in := range b.Instrs {
					if instrNoReturn(in) {
						return
					}
				}
				for _, s := range b.Succs {
					walk(s)
				}
			}
			walk(ifi.Block().Succs[0])
			// blocks that can come back to the header are inside the loop; a body block that cannot is an exit path
			canReturn := map[*ssa.BasicBlock]bool{}
			changed := true
			for changed {
				changed = false
				for b := range body {
					if canReturn[b] {
						continue
					}
					for _, s := range b.Succs {
						if s == hdr || canReturn[s] {
							canReturn[b] = true
							changed = true
						}
					}
				}
			}
			writes, early := "", ""
			for b := range body {
				if !canReturn[b] {
					// an exit path; (a Return or a jump out of the loop)
					if early == "" || c.InstrPos(b.Instrs[0]) < early {
						early = c.InstrPos(b.Instrs[len(b.Instrs)-1])
					}
					continue
				}
				for _, in := range b.Instrs {
					switch y := in.(type) {
					case *ssa.MapUpdate:
						writes = c.InstrPos(in)
					case *ssa.Store:
						if _, isA := y.Addr.(*ssa.Alloc); !isA {
							writes = c.InstrPos(in)
						}
					case *ssa.Call:
						if id := callID(&y.Call); id.Pkg == "builtin" && id.Name == "delete" {
							writes = c.InstrPos(in)
						}
					}
				}
			}
			if writes == "" {
				return
			}
			n++
			k++
			r.Check(early == "", rule, fnName(f), fmt.Sprintf("map-range-writes#%d", k), c.InstrPos(rg), "a map iteration in the apply tree that writes ("+writes+") runs to the end (early exit at "+early+"): iteration order is not part of the log, so replicas and replays that stop early keep different subsets")
		})
	}
	if n == 0 {
		r.Unk(rule, "apply trees", "map-range", "-", "no writing map iteration found in an apply tree (the metadata merge is one)")
	}
}

// ---- queue wrapper: every push is kept, every pop takes --------------------------------------------------------------

// queueOpsReachHeap: in the wrapper's Push every path that returns has handed the item to heap.Push, in Pop every path has
// called heap.Pop: the queue holds exactly the pushed-minus-popped items.
func queueOpsReachHeap(c *Ctx, r *Report, rule string) {
	n := 0
	for _, f := range prodFuncs(c, "utils") {
		if f.Parent() != nil || f.Signature.Recv() == nil {
			continue
		}
		for _, op := range []string{"Push", "Pop"} {
			var calls []ssa.Instruction
			eachInstr(f, func(i ssa.Instruction) {
				if cc := plainCall(i); cc != nil && callID(cc).is("container/heap", "", op) {
					calls = append(calls, i)
				}
			})
			if len(calls) == 0 {
				continue
			}
			// only the wrapper methods themselves: Push(item) / Pop() item
			if op == "Push" && len(f.Params) != 2 {
				continue
			}
			if op == "Pop" && (len(f.Params) != 1 || f.Signature.Results().Len() != 1) {
				continue
			}
			n++
			isCall := func(i ssa.Instruction) bool {
				for _, x := range calls {
					if x == i {
						return true
					}
				}
				return false
			}
			hit, found := reachesAvoidingFrom(f, f.Blocks[0].Instrs[0], func(i ssa.Instruction) bool { _, ok := i.(*ssa.Return); return ok }, isCall)
			pos := c.Pos(f.Pos())
			if found {
				pos = c.InstrPos(hit)
			}
			r.Check(!found, rule, fnName(f), "reaches-heap."+op, pos, "every returning path of the queue's "+op+" goes through heap."+op+": a push that is silently dropped (a size bound, an eviction) or a pop that takes nothing breaks `holds exactly the pushed-minus-popped items` — the beam search then loses candidates it has not expanded")
		}
	}
	if n < 2 {
		r.Unk(rule, "utils", "queue-wrapper", "-", fmt.Sprintf("only %d wrapper method(s) around heap.Push / heap.Pop found", n))
	}
}

// ---- WAL: the head sweep starts at the first key of the family -----------------------------------------------------------

// headSweepStartsAtFamilyStart: a sweep that deletes the head of the log (keys with index < bound) positions its iterator
// on the lowest key of the entry family (entry key of index 0, or the family prefix): the entry just below the first index
// is the previous snapshot's anchor and must go too, or a reopened store derives its first index from it.
func headSweepStartsAtFamilyStart(c *Ctx, r *Report, rule string) {
	w := newWal(c)
	n := 0
	for _, f := range w.funcs {
		if f.Parent() != nil || !walSweeper(c, f) {
			continue
		}
		// head sweeps only: the bound is exclusive upper (an `index >= bound -> stop` or `index < bound` test exists)
		bound := f.Params[2]
		isHead := false
		for _, cf := range append([]*ssa.Function{f}, closuresOf(f)...) {
			for _, ifi := range allIfs(cf) {
				b, ok := ifi.Cond.(*ssa.BinOp)
				if !ok {
					continue
				}
				fromBound := func(v ssa.Value) bool {
					for _, o := range origins(v, originOpt{}) {
						if o == ssa.Value(bound) {
							return true
						}
						if l, ok := loadOf(o); ok {
							for _, st := range cellStores(l) {
								if st.Val == ssa.Value(bound) {
									return true
								}
							}
						}
					}
					return false
				}
				if (fromBound(b.Y) && (b.Op == token.GEQ || b.Op == token.LSS)) || (fromBound(b.X) && (b.Op == token.LEQ || b.Op == token.GTR)) {
					isHead = true
				}
			}
		}
		if !isHead {
			continue
		}
		for _, cf := range append([]*ssa.Function{f}, closuresOf(f)...) {
			eachInstr(cf, func(i ssa.Instruction) {
				cc := plainCall(i)
				if cc == nil {
					return
				}
				id := callID(cc)
				if id.Recv != "Iterator" || (id.Name != "Seek" && id.Name != "Rewind") {
					return
				}
				n++
				ok := id.Name == "Rewind"
				why := ""
				if id.Name == "Seek" {
					args := explicitArgs(cc)
					for _, o := range origins(args[0], originOpt{}) {
						if l, isL := loadOf(o); isL {
							// captured cell: look at what is stored into it
							for _, st := range cellStores(l) {
								o = st.Val
							}
						}
						if cl, isC := strip(o).(*ssa.Call); isC {
							g := cl.Call.StaticCallee()
							if g != nil && w.ctors[g] {
								ea := explicitArgs(&cl.Call)
								if len(ea) == 0 {
									ok = true // the family prefix
								} else if v, isK := constInt(ea[len(ea)-1]); isK && v == 0 {
									ok = true
								} else {
									why = "the start key is built from a non-constant index"
								}
							}
						}
					}
				}
				r.Check(ok, rule, fnName(cf), "head-sweep-start", c.InstrPos(i), "the compaction sweep starts at the lowest key of the entry family ("+why+"): starting at the first live index leaves the previous anchor entry (first index - 1) on disk; the cached snapshot hides it until the store is reopened, then FirstIndex/Term/Entries answer from a stale log")
			})
		}
	}
	if n == 0 {
		r.Unk(rule, "storage/wal", "head-sweep", "-", "no head sweep (delete keys below a bound) found")
	}
}

// ---- an error taken from a context is returned only when that context is finished ---------------------------------------

// ctxErrOnlyWhenDone: `return …, X.Err()` lies on the select arm that received from X.Done() (or under a test of X.Err()):
// the Err of a live context is nil, and a nil error on a write path is an acknowledgement.
func ctxErrOnlyWhenDone(c *Ctx, r *Report, rule string, pkgs ...string) {
	n := 0
	for _, f := range prodFuncs(c, pkgs...) {
		k := 0
		for _, rt := range returnsOf(f) {
			if len(rt.Results) == 0 {
				continue
			}
			ev := rt.Results[len(rt.Results)-1]
			if !isErrorType(ev.Type()) {
				continue
			}
			cl, ok := strip(ev).(*ssa.Call)
			if !ok || !cl.Call.IsInvoke() || cl.Call.Method.Name() != "Err" || typeName(cl.Call.Value.Type()) != "Context" {
				continue
			}
			ctxv := through(cl.Call.Value) // (a context captured by a closure lives in a cell: every load of it is the same context)
			n++
			k++
			okArm := false
			// the select arm receiving from ctxv.Done()
			eachInstr(f, func(i ssa.Instruction) {
				sel, isS := i.(*ssa.Select)
				if !isS {
					return
				}
				for si, st := range sel.States {
					if st.Dir != types.RecvOnly {
						continue
					}
					dc, isC := strip(st.Chan).(*ssa.Call)
					if !isC || !dc.Call.IsInvoke() || dc.Call.Method.Name() != "Done" || through(dc.Call.Value) != ctxv {
						continue
					}
					// blocks guarded by `index == si`
					for _, ifi := range allIfs(f) {
						b, isB := ifi.Cond.(*ssa.BinOp)
						if !isB || b.Op != token.EQL {
							continue
						}
						ex, isE := b.X.(*ssa.Extract)
						if !isE || ex.Tuple != ssa.Value(sel) || ex.Index != 0 {
							continue
						}
						if v, isK := constInt(b.Y); isK && int(v) == si && guardedBy(cl.Block(), ifi, true) {
							okArm = true
						}
					}
				}
			})
			// or under a test of the same context's Err() != nil
			if !okArm {
				for _, ifi := range allIfs(f) {
					b, isB := ifi.Cond.(*ssa.BinOp)
					if !isB || (b.Op != token.NEQ && b.Op != token.EQL) {
						continue
					}
					for _, pr := range [][2]ssa.Value{{b.X, b.Y}, {b.Y, b.X}} {
						ec, isC := strip(pr[0]).(*ssa.Call)
						if isC && isNilConst(pr[1]) && ec.Call.IsInvoke() && ec.Call.Method.Name() == "Err" && through(ec.Call.Value) == ctxv && guardedBy(cl.Block(), ifi, b.Op == token.NEQ) {
							okArm = true
						}
					}
				}
			}
			r.Check(okArm, rule, fnName(f), fmt.Sprintf("ctx-err-return#%d", k), c.InstrPos(cl), "the Err() of a context is returned only on the arm that received from that context's Done() (or under a test of it): on any other arm the context is still live, Err() is nil, and the caller reads the nil as `applied`")
		}
	}
	if n == 0 {
		r.Unk(rule, strings.Join(pkgs, ","), "ctx-err-return", "-", "no `return …, ctx.Err()` found")
	}
}

// ---- control plane: no wait without an alternative on a channel kept in a field ------------------------------------------

// noSingleWayWaitOnFieldChannel: outside a select with a second arm, nothing in the control-plane packages receives from a
// channel that lives in a struct field: such a wait has no deadline and no shutdown arm, and whoever is meant to close or
// feed the channel may never have been started (a loop that is only spawned on the success path of Start).
func noSingleWayWaitOnFieldChannel(c *Ctx, r *Report, rule string, pkgs ...string) {
	n := 0
	bad := 0
	for _, f := range prodFuncs(c, pkgs...) {
		eachInstr(f, func(i ssa.Instruction) {
			var ch ssa.Value
			switch y := i.(type) {
			case *ssa.UnOp:
				if y.Op == token.ARROW {
					ch = y.X
				}
			case *ssa.Select:
				if y.Blocking && len(y.States) == 1 && y.States[0].Dir == types.RecvOnly {
					ch = y.States[0].Chan
				}
			}
			if ch == nil {
				return
			}
			n++
			fromField := false
			for _, o := range origins(ch, originOpt{}) {
				if l, ok := loadOf(o); ok {
					if fa, isF := l.(*ssa.FieldAddr); isF {
						_ = fa
						fromField = true
					}
				}
			}
			if fromField {
				bad++
				r.Bad(rule, fnName(f), "single-way-receive", c.InstrPos(i), "a receive with no alternative (no select arm for a deadline or for shutdown) on a channel kept in a struct field: if its counterpart is never started — a loop spawned only when Start succeeds — the caller (the allocator loop unloading a partition, the apply loop behind it) waits forever")
			}
		})
	}
	if bad == 0 {
		r.OK(rule, strings.Join(pkgs, ","), "single-way-receive", "-", fmt.Sprintf("%d plain receive(s); none on a channel kept in a struct field", n))
	}
}

// ---- address book: the insert depends on the book and the announcement only ---------------------------------------------

// addressBookInsertDependsOnBookOnly: every condition evaluated before the address-book insert in the function that
// performs it is computed from the announcement (parameters), the book itself and constants — no other memory of the past
// (a `departed` set, a client cache) can veto an announcement that the membership log has committed.
func addressBookInsertDependsOnBookOnly(c *Ctx, r *Report, rule string) {
	fAddr := c.Field("cluster", "Conn", "addresses")
	if fAddr == nil {
		r.Unk(rule, "cluster.Conn", "addresses", "-", "address book field not found")
		return
	}
	n := 0
	for _, f := range prodFuncs(c, "cluster") {
		if f.Parent() != nil {
			continue
		}
		var upd []ssa.Instruction
		eachInstr(f, func(i ssa.Instruction) {
			if mu, ok := i.(*ssa.MapUpdate); ok && fieldOfValue(mu.Map) == fAddr {
				upd = append(upd, i)
			}
		})
		if len(upd) == 0 || len(f.Params) < 3 {
			continue
		}
		n++
		bad := ""
		for _, ifi := range allIfs(f) {
			// conditions that can come before the insert
			before := false
			for _, u := range upd {
				if _, ok := reachesAvoiding(f, ifi, func(z ssa.Instruction) bool { return z == u }, nil); ok {
					before = true
				}
			}
			if !before {
				continue
			}
			for _, o := range origins(ifi.Cond, originOpt{}) {
				var leaves []ssa.Value
				var walk func(v ssa.Value, d int)
				walk = func(v ssa.Value, d int) {
					if d > 8 {
						return
					}
					switch y := strip(v).(type) {
					case *ssa.BinOp:
						walk(y.X, d+1)
						walk(y.Y, d+1)
					case *ssa.UnOp:
						if y.Op == token.MUL {
							leaves = append(leaves, y)
						} else {
							walk(y.X, d+1)
						}
					case *ssa.Extract:
						walk(y.Tuple, d+1)
					case *ssa.Phi:
						for _, e := range y.Edges {
							walk(e, d+1)
						}
					default:
						leaves = append(leaves, y)
					}
				}
				walk(o, 0)
				for _, l := range leaves {
					switch y := l.(type) {
					case *ssa.Parameter, *ssa.Const:
					case *ssa.Lookup:
						if fieldOfValue(y.X) != fAddr {
							bad = "lookup in " + path(y.X) + " at " + c.InstrPos(ifi)
						}
					case *ssa.UnOp:
						if fv := fieldOfValue(y); fv != nil && fv != fAddr {
							bad = "field " + fv.Name() + " at " + c.InstrPos(ifi)
						}
					case *ssa.Call:
						if id := callID(&y.Call); !(id.Pkg == "builtin" && id.Name == "len") {
							bad = "result of " + id.String() + " at " + c.InstrPos(ifi)
						}
					}
				}
			}
		}
		r.Check(bad == "", rule, fnName(f), "insert-guards", c.Pos(f.Pos()), "the address-book insert is decided by the announcement and the book alone ("+bad+"): an applied membership entry that a side memory vetoes leaves a raft member that nobody lists — placement skips it and its peers cannot dial it, while a node that replays the log from the start (empty side memory) lists it")
	}
	if n == 0 {
		r.Unk(rule, "cluster", "address-book-insert", "-", "no function inserting into the address book found")
	}
}

// ---- the announced address is the registered address ---------------------------------------------------------------------

func sameExpr(a, b ssa.Value, d int) bool {
	a, b = strip(a), strip(b)
	if a == b {
		return true
	}
	if d > 6 {
		return false
	}
	switch x := a.(type) {
	case *ssa.Const:
		y, ok := b.(*ssa.Const)
		return ok && x.Value != nil && y.Value != nil && x.Value.ExactString() == y.Value.ExactString()
	case *ssa.Call:
		y, ok := b.(*ssa.Call)
		if !ok || x.Call.StaticCallee() == nil || x.Call.StaticCallee() != y.Call.StaticCallee() || len(x.Call.Args) != len(y.Call.Args) {
			return false
		}
		for i := range x.Call.Args {
			if !sameExpr(x.Call.Args[i], y.Call.Args[i], d+1) {
				return false
			}
		}
		return true
	case *ssa.UnOp:
		y, ok := b.(*ssa.UnOp)
		return ok && x.Op == y.Op && sameExpr(x.X, y.X, d+1)
	case *ssa.FieldAddr:
		y, ok := b.(*ssa.FieldAddr)
		return ok && x.Field == y.Field && sameExpr(x.X, y.X, d+1)
	case *ssa.Field:
		y, ok := b.(*ssa.Field)
		return ok && x.Field == y.Field && sameExpr(x.X, y.X, d+1)
	case *ssa.Parameter:
		return false
	}
	return false
}

// announcedAddressIsRegisteredAddress: in the server's wiring the address handed to the cluster connection (what this
// node announces when it joins) and the address the raft transport registers for the node itself are the same expression.
func announcedAddressIsRegisteredAddress(c *Ctx, r *Report, rule string) {
	conn := c.Named("cluster", "Conn")
	if conn == nil {
		r.Unk(rule, "cluster.Conn", "type", "-", "type not found")
		return
	}
	n := 0
	for _, f := range prodFuncs(c, "") {
		var connAddr, trAddr ssa.Value
		var at ssa.Instruction
		eachInstr(f, func(i ssa.Instruction) {
			cl, ok := i.(*ssa.Call)
			if !ok || cl.Call.StaticCallee() == nil || !modLocal(cl.Call.StaticCallee()) {
				return
			}
			g := cl.Call.StaticCallee()
			res := g.Signature.Results()
			if res.Len() == 0 {
				return
			}
			strArg := func() ssa.Value {
				var out ssa.Value
				k := 0
				for _, a := range cl.Call.Args {
					if b, ok := a.Type().Underlying().(*types.Basic); ok && b.Kind() == types.String {
						if k == 0 {
							out = a
						}
						k++
					}
				}
				return out
			}
			rt := namedOf(derefType(res.At(0).Type()))
			if rt == conn {
				connAddr = strArg()
				at = i
			} else if rt != nil && rt.Obj().Pkg() != nil && strings.HasSuffix(rt.Obj().Pkg().Path(), "storage/raft") {
				// the transport constructor: takes the connection and a string
				takesConn := false
				for _, a := range cl.Call.Args {
					if namedOf(derefType(a.Type())) == conn {
						takesConn = true
					}
				}
				if takesConn && strArg() != nil {
					trAddr = strArg()
				}
			}
		})
		if connAddr == nil || trAddr == nil {
			continue
		}
		n++
		r.Check(sameExpr(connAddr, trAddr, 0), rule, fnName(f), "self-address", c.InstrPos(at), "the address announced to the cluster and the address the transport registers for this node are the same expression: when they differ the node (and whoever joins through it) lists one address while the other members list the announced one, and the first non-empty entry wins")
	}
	if n == 0 {
		r.Unk(rule, "server", "self-address", "-", "the wiring of the cluster connection and the raft transport was not found")
	}
}

// ---- size: accumulators are not reset once a lookup goroutine holds them -----------------------------------------------

// accumulatorsNotResetAfterSpawn: a cell whose address a `go` statement receives is never overwritten (plain store,
// atomic Store/Swap/CompareAndSwap) at an instruction reachable from that `go`: an abandoned lookup that finishes late
// would add to the total of a later attempt.
func accumulatorsNotResetAfterSpawn(c *Ctx, r *Report, rule string) {
	f := c.Method("storage", "Dataset", "SizeInfo")
	if f == nil {
		r.Unk(rule, "storage.Dataset", "SizeInfo", "-", "size function not found")
		return
	}
	n := 0
	eachInstr(f, func(i ssa.Instruction) {
		g, ok := i.(*ssa.Go)
		if !ok {
			return
		}
		var cells []*ssa.Alloc
		for _, a := range g.Call.Args {
			if al, ok := strip(a).(*ssa.Alloc); ok {
				if b, isB := derefType(al.Type()).Underlying().(*types.Basic); isB && b.Info()&types.IsInteger != 0 {
					cells = append(cells, al)
				}
			}
		}
		if mc, ok := g.Call.Value.(*ssa.MakeClosure); ok {
			for _, b := range mc.Bindings {
				if al, ok := strip(b).(*ssa.Alloc); ok {
					if bt, isB := derefType(al.Type()).Underlying().(*types.Basic); isB && bt.Info()&types.IsInteger != 0 {
						cells = append(cells, al)
					}
				}
			}
		}
		for _, al := range cells {
			n++
			overwrites := func(z ssa.Instruction) bool {
				if st, ok := z.(*ssa.Store); ok && st.Addr == ssa.Value(al) {
					return true
				}
				if cc := plainCall(z); cc != nil {
					id := callID(cc)
					if id.Pkg == "sync/atomic" && (strings.HasPrefix(id.Name, "Store") || strings.HasPrefix(id.Name, "Swap") || strings.HasPrefix(id.Name, "CompareAndSwap")) && len(cc.Args) > 0 && strip(cc.Args[0]) == ssa.Value(al) {
						return true
					}
				}
				return false
			}
			hit, found := reachesAvoiding(f, g, overwrites, nil)
			pos := c.InstrPos(g)
			if found {
				pos = c.InstrPos(hit)
			}
			r.Check(!found, rule, fnName(f), "accumulator-"+al.Comment, pos, "the accumulator handed to a lookup goroutine is not reset afterwards: a retry that zeroes the totals while a lookup of the abandoned attempt is still in flight counts that partition twice")
		}
	})
	if n == 0 {
		r.Unk(rule, fnName(f), "accumulators", "-", "no accumulator cell handed to a goroutine found")
	}
}

// ---- membership notifications: subscriptions are made at start-up only --------------------------------------------------

// subscriptionsAtStartupOnly: the method that registers a new bounded notification channel in a list that senders range
// over with blocking sends is never reachable from an apply root or an RPC root unless the list can also shrink: a
// subscription made per catalogue entry outlives its reader, fills up after `capacity` membership changes and blocks every
// later change — and with it the zero group's apply loop.
func subscriptionsAtStartupOnly(c *Ctx, r *Report, rule string) {
	ro := discoverRoles(c)
	n := 0
	for _, sub := range prodFuncs(c, "cluster") {
		if sub.Parent() != nil || sub.Signature.Results().Len() != 1 {
			continue
		}
		if _, isCh := sub.Signature.Results().At(0).Type().Underlying().(*types.Chan); !isCh {
			continue
		}
		// appends a fresh channel to a slice-of-channels field
		var listField *types.Var
		eachInstr(sub, func(i ssa.Instruction) {
			st, ok := i.(*ssa.Store)
			if !ok {
				return
			}
			fv := fieldOfAddr(st.Addr)
			if fv == nil {
				return
			}
			if sl, ok := fv.Type().Underlying().(*types.Slice); ok {
				if _, isCh := sl.Elem().Underlying().(*types.Chan); isCh {
					listField = fv
				}
			}
		})
		if listField == nil {
			continue
		}
		n++
		// can the list shrink anywhere (an unsubscribe)?
		shrinks := false
		for _, g := range prodFuncs(c, "cluster") {
			if g == sub {
				continue
			}
			eachInstr(g, func(i ssa.Instruction) {
				if st, ok := i.(*ssa.Store); ok && fieldOfAddr(st.Addr) == listField {
					if fa, isF := st.Addr.(*ssa.FieldAddr); isF {
						if _, fresh := fa.X.(*ssa.Alloc); fresh {
							return // the constructor's initial value
						}
					}
					shrinks = true
				}
			})
		}
		roots := append(append([]*ssa.Function{}, ro.applyRoots...), ro.rpcRoots...)
		reach := c.reachableFrom(roots, false, false)
		bad := ""
		var fs []*ssa.Function
		for g := range reach {
			fs = append(fs, g)
		}
		sort.Slice(fs, func(i, j int) bool { return fs[i].String() < fs[j].String() })
		for _, g := range fs {
			if !modLocal(g) {
				continue
			}
			for _, h := range append([]*ssa.Function{g}, closuresOf(g)...) {
				eachInstr(h, func(i ssa.Instruction) {
					if cc := asCall(i); cc != nil && cc.StaticCallee() == sub {
						bad = fnName(h) + " at " + c.InstrPos(i)
					}
				})
			}
		}
		// and nobody subscribes inside a loop (a `case x := <-conn.Subscribe():` re-evaluates the call on every pass)
		for _, g := range c.ModFuncs {
			if !c.isProd(g) {
				continue
			}
			eachInstr(g, func(i ssa.Instruction) {
				if cc := asCall(i); cc != nil && cc.StaticCallee() == sub && inCycle(g, i) {
					bad = fnName(g) + " subscribes on every pass of a loop at " + c.InstrPos(i)
					shrinks = false
				}
			})
		}
		r.Check(bad == "" || shrinks, rule, fnName(sub), "subscribers", c.Pos(sub.Pos()), "subscriptions to the membership notifications are made on start-up paths only (subscribed from an apply / RPC tree: "+bad+"; the list can shrink: "+fmt.Sprint(shrinks)+")")
	}
	if n == 0 {
		r.Unk(rule, "cluster", "subscription", "-", "no subscription method (appends a channel to a list and returns it) found")
	}
}

// ---- a replica that joins an existing group starts without a peer list -------------------------------------------------

// joiningReplicaStartsWithoutPeers: on the path from the function that appends a node to a partition's member list to the
// constructor of the partition's raft group, the peer-list argument is nil: a node added to a group that already exists has
// fresh storage, and fresh storage plus a peer list means StartNode — it would fabricate and commit its own membership
// entries at term 1 where the real group holds different ones (forked history).
func joiningReplicaStartsWithoutPeers(c *Ctx, r *Report, rule string) {
	fNodeIds := c.Field("protobuf", "Partition", "NodeIds")
	grp := c.Named("storage/raft", "RaftGroup")
	if fNodeIds == nil || grp == nil {
		r.Unk(rule, "storage", "anchors", "-", "Partition.NodeIds / RaftGroup not found")
		return
	}
	isCtor := func(g *ssa.Function) int {
		if g == nil || !modLocal(g) || g.Signature.Results().Len() == 0 || namedOf(derefType(g.Signature.Results().At(0).Type())) != grp || g.Signature.Recv() != nil {
			return -1
		}
		for i, p := range g.Params {
			if sl, ok := p.Type().Underlying().(*types.Slice); ok {
				if b, ok := sl.Elem().Underlying().(*types.Basic); ok && b.Kind() == types.Uint64 {
					return i
				}
			}
		}
		return -1
	}
	n := 0
	for _, f := range prodFuncs(c, "storage") {
		if f.Parent() != nil {
			continue
		}
		appends := false
		eachInstr(f, func(i ssa.Instruction) {
			st, ok := i.(*ssa.Store)
			if !ok || fieldOfAddr(st.Addr) != fNodeIds {
				return
			}
			if cl, ok := strip(st.Val).(*ssa.Call); ok && callID(&cl.Call).is("builtin", "", "append") {
				appends = true
			}
		})
		if !appends {
			continue
		}
		// chains f -> ctor and f -> g -> ctor
		found := false
		var eval func(h *ssa.Function, subst map[*ssa.Parameter]ssa.Value, depth int)
		eval = func(h *ssa.Function, subst map[*ssa.Parameter]ssa.Value, depth int) {
			eachInstr(h, func(i ssa.Instruction) {
				cl, ok := i.(*ssa.Call)
				if !ok || cl.Call.StaticCallee() == nil {
					return
				}
				g := cl.Call.StaticCallee()
				if k := isCtor(g); k >= 0 {
					found = true
					n++
					v := strip(cl.Call.Args[k])
					if p, isP := v.(*ssa.Parameter); isP && subst[p] != nil {
						v = strip(subst[p])
					}
					r.Check(isNilConst(v), rule, fnName(f), "peers-of-joining-replica", c.InstrPos(cl), "the raft group started for a node that was added to an existing partition gets no peer list (argument reaching "+fnName(g)+" is nil): with peers on fresh storage the replica bootstraps a group of its own on top of the real one")
					return
				}
				if depth < 2 && modLocal(g) && g.Signature.Recv() != nil && h.Signature.Recv() != nil && recvTypeName(g) == recvTypeName(h) {
					s2 := map[*ssa.Parameter]ssa.Value{}
					for j, a := range cl.Call.Args {
						if j < len(g.Params) {
							av := a
							if p, isP := strip(a).(*ssa.Parameter); isP && subst[p] != nil {
								av = subst[p]
							}
							s2[g.Params[j]] = av
						}
					}
					eval(g, s2, depth+1)
				}
			})
		}
		eval(f, map[*ssa.Parameter]ssa.Value{}, 0)
		if !found {
			r.Unk(rule, fnName(f), "peers-of-joining-replica", c.Pos(f.Pos()), "the function that appends a member does not reach the raft group constructor")
			n++
		}
	}
	if n == 0 {
		r.Unk(rule, "storage", "member-add", "-", "no function appending to a partition's member list found")
	}
}

// ---- snapshot writer: a loop's trip count is announced in the stream -----------------------------------------------------

func leafPath(v ssa.Value, d int) string {
	v = strip(v)
	if d > 6 {
		return path(v)
	}
	switch x := v.(type) {
	case *ssa.BinOp:
		if _, ok := strip(x.X).(*ssa.Const); ok {
			return leafPath(x.Y, d+1)
		}
		if _, ok := strip(x.Y).(*ssa.Const); ok {
			return leafPath(x.X, d+1)
		}
	case *ssa.Call:
		if id := callID(&x.Call); id.Pkg == "builtin" && id.Name == "len" && len(x.Call.Args) == 1 {
			return "len:" + leafPath(x.Call.Args[0], d+1)
		}
		if g := x.Call.StaticCallee(); g != nil && modLocal(g) && len(g.Params) == 1 && len(x.Call.Args) == 1 {
			// accessor: returns a field of its receiver
			rs := returnsOf(g)
			if len(rs) == 1 && len(rs[0].Results) == 1 {
				if fv := fieldOfValue(rs[0].Results[0]); fv != nil {
					return leafPath(x.Call.Args[0], d+1) + "." + fv.Name()
				}
			}
		}
	case *ssa.UnOp:
		if x.Op == token.MUL {
			if al, ok := x.X.(*ssa.Alloc); ok {
				st := storesTo(al.Parent(), al)
				if len(st) == 1 {
					return leafPath(st[0].Val, d+1)
				}
			}
			if fa, ok := x.X.(*ssa.FieldAddr); ok {
				// a field of some object of a named type: identified by type and field (the writer announces the level of a
				// vertex in one pass over the shards and walks its levels in another)
				if nt := namedOf(derefType(fa.X.Type())); nt != nil {
					if fv := structField(fa.X.Type(), fa.Field); fv != nil {
						return nt.Obj().Name() + "." + fv.Name()
					}
				}
			}
			return path(x.X)
		}
	}
	return path(v)
}

// loopCountsAnnounced: in a function that writes a snapshot stream, a counted loop whose start or bound is not a constant
// runs as many times as a value the function has written to the stream before the loop — the reader has nothing else to
// take the count from.
func loopCountsAnnounced(c *Ctx, r *Report, rule string) {
	n := 0
	// quantities written by any stream writer of the package (the writer may be split into per-record helpers: the level
	// is written by one of them, the per-level loop lives in another)
	announcedElsewhere := map[string]bool{}
	for _, f := range prodFuncs(c, "index") {
		var w *ssa.Parameter
		for _, p := range f.Params {
			if isIOType(p.Type(), "Writer") {
				w = p
			}
		}
		if w == nil || f.Parent() != nil {
			continue
		}
		eachInstr(f, func(i ssa.Instruction) {
			cc := plainCall(i)
			if cc == nil {
				return
			}
			takes := false
			for _, a := range cc.Args {
				if strip(a) == ssa.Value(w) {
					takes = true
				}
			}
			if !takes {
				return
			}
			for _, a := range flatArgs(cc) {
				if strip(a) != ssa.Value(w) {
					if lp := leafPath(a, 0); strings.Contains(lp, ".") && !strings.HasPrefix(lp, "param:") {
						announcedElsewhere[lp+"@"+fnName(f)] = true
					}
				}
			}
		})
	}
	for _, f := range prodFuncs(c, "index") {
		if f.Parent() != nil {
			continue
		}
		var w *ssa.Parameter
		for _, p := range f.Params {
			if isIOType(p.Type(), "Writer") {
				w = p
			}
		}
		if w == nil {
			continue
		}
		// values written: leaf paths of the arguments of every call that takes w
		type wr struct {
			in    ssa.Instruction
			paths map[string]bool
		}
		var writes []wr
		eachInstr(f, func(i ssa.Instruction) {
			cc := plainCall(i)
			if cc == nil {
				return
			}
			takes := false
			for _, a := range cc.Args {
				if strip(a) == ssa.Value(w) {
					takes = true
				}
			}
			if !takes {
				return
			}
			ps := map[string]bool{}
			for _, a := range flatArgs(cc) {
				if strip(a) != ssa.Value(w) {
					ps[leafPath(a, 0)] = true
				}
			}
			writes = append(writes, wr{i, ps})
		})
		k := 0
		eachInstr(f, func(i ssa.Instruction) {
			phi, ok := i.(*ssa.Phi)
			if !ok || len(phi.Edges) != 2 {
				return
			}
			if b, isB := phi.Type().Underlying().(*types.Basic); !isB || b.Info()&types.IsInteger == 0 {
				return
			}
			var init ssa.Value
			for e, ev := range phi.Edges {
				if bo, isBo := ev.(*ssa.BinOp); isBo && (bo.Op == token.ADD || bo.Op == token.SUB) && (bo.X == ssa.Value(phi) || bo.Y == ssa.Value(phi)) {
					init = phi.Edges[1-e]
				}
			}
			if init == nil {
				return
			}
			// the value that decides the trip count: a non-constant start, or the non-constant bound of the header's test
			var counts []ssa.Value
			if _, isC := strip(init).(*ssa.Const); !isC {
				counts = append(counts, init)
			}
			for _, u := range *phi.Referrers() {
				bo, isBo := u.(*ssa.BinOp)
				if !isBo || bo.Block() != phi.Block() {
					continue
				}
				switch bo.Op {
				case token.LSS, token.LEQ, token.GTR, token.GEQ, token.NEQ:
					other := bo.Y
					if bo.Y == ssa.Value(phi) {
						other = bo.X
					}
					if _, isC := strip(other).(*ssa.Const); !isC {
						counts = append(counts, other)
					}
				}
			}
			if len(counts) == 0 {
				return
			}
			// the loop writes to the stream?
			writesInLoop := false
			for _, wv := range writes {
				if wv.in.Block() == phi.Block() {
					writesInLoop = true
				}
				if _, again := reachesAvoiding(f, wv.in, func(z ssa.Instruction) bool { return z == ssa.Instruction(phi) }, nil); again && phi.Block().Dominates(wv.in.Block()) {
					writesInLoop = true
				}
			}
			if !writesInLoop {
				return
			}
			for _, cv := range counts {
				lp := leafPath(cv, 0)
				if strings.HasPrefix(lp, "len:") && strings.Contains(lp, "[") {
					// an array-valued field: its length is a constant of the type
					if fv := fieldOfValue(strip(cv)); fv != nil {
						_ = fv
					}
				}
				if cl, isCall := strip(cv).(*ssa.Call); isCall && callID(&cl.Call).is("builtin", "", "len") {
					if _, isArr := derefType(cl.Call.Args[0].Type()).Underlying().(*types.Array); isArr {
						continue
					}
				}
				n++
				k++
				ann := false
				for key := range announcedElsewhere {
					if strings.HasPrefix(key, lp+"@") && !strings.HasSuffix(key, "@"+fnName(f)) {
						ann = true // written by a sibling part of the writer
					}
				}
				for _, wv := range writes {
					if !wv.paths[lp] || phi.Block().Dominates(wv.in.Block()) {
						continue // not this quantity, or written inside the loop itself
					}
					if _, before := reachesAvoiding(f, wv.in, func(z ssa.Instruction) bool { return z == ssa.Instruction(phi) }, nil); before {
						ann = true
					}
				}
				r.Check(ann, rule, fnName(f), fmt.Sprintf("loop-count#%d", k), c.InstrPos(phi), "the trip count of a writing loop ("+lp+") is a value written to the stream before the loop: a loop that runs over a different quantity than the one announced (the number of edge sets a vertex holds instead of its recorded level) emits a stream its own reader mis-frames")
			}
		})
	}
	if n == 0 {
		r.Unk(rule, "index", "counted-loops", "-", "no counted loop with a non-constant trip count found in a stream writer (the per-level loop of Save is one)")
	}
}

// ---- snapshot reader: what the header sets is set before it is used ------------------------------------------------------

// headerFieldsStoredBeforeUse: a field of the index that the reader sets under its `header` flag is never read, on any path,
// before the instruction that sets it: the body of the stream is decoded with the header's dimension and parameters, not
// with whatever the receiving index had before.
func headerFieldsStoredBeforeUse(c *Ctx, r *Report, rule string) {
	x := newIdx(c)
	if x.hnsw == nil {
		r.Unk(rule, "index", "anchors", "-", "Hnsw not found")
		return
	}
	n := 0
	for _, f := range x.funcs {
		if f.Parent() != nil || f.Signature.Recv() == nil || namedOf(derefType(f.Signature.Recv().Type())) != x.hnsw {
			continue
		}
		isReader := false
		var flags []*ssa.Parameter
		for _, p := range f.Params {
			if isIOType(p.Type(), "Reader") {
				isReader = true
			}
			if b, ok := p.Type().Underlying().(*types.Basic); ok && b.Kind() == types.Bool {
				flags = append(flags, p)
			}
		}
		if !isReader || len(flags) == 0 {
			continue
		}
		recv := f.Params[0]
		cls := closuresOf(f)
		isRecv := func(v ssa.Value) bool {
			v = strip(v)
			if v == ssa.Value(recv) {
				return true
			}
			// captured receiver inside a closure
			if l, ok := loadOf(v); ok {
				v = l
			}
			if fv, ok := v.(*ssa.FreeVar); ok {
				return namedOf(derefType(derefType(fv.Type()))) == x.hnsw
			}
			if al, ok := v.(*ssa.Alloc); ok {
				// the receiver spilled to a cell because a closure captures it
				for _, st := range storesTo(f, al) {
					if st.Val == ssa.Value(recv) {
						return true
					}
				}
			}
			return false
		}
		guardedByFlag := func(i ssa.Instruction) bool {
			fn := i.Parent()
			for _, ifi := range allIfs(fn) {
				for _, o := range origins(ifi.Cond, originOpt{}) {
					for _, fl := range flags {
						if strip(o) == ssa.Value(fl) && (guardedBy(i.Block(), ifi, true) || guardedBy(i.Block(), ifi, false)) {
							return true
						}
					}
				}
			}
			return false
		}
		// top-level site of an instruction: itself in f, or the calls of the closure that contains it
		sitesOf := func(i ssa.Instruction) []ssa.Instruction {
			if i.Parent() == f {
				return []ssa.Instruction{i}
			}
			var out []ssa.Instruction
			eachInstr(f, func(z ssa.Instruction) {
				cc := asCall(z)
				if cc == nil {
					return
				}
				for _, o := range origins(cc.Value, originOpt{}) {
					if mc, ok := o.(*ssa.MakeClosure); ok && mc.Fn == ssa.Value(i.Parent()) {
						out = append(out, z)
					}
				}
			})
			return out
		}
		type site struct {
			fld *types.Var
			in  ssa.Instruction
		}
		var stores, reads []site
		governed := map[*types.Var]bool{}
		for _, h := range append([]*ssa.Function{f}, cls...) {
			eachInstr(h, func(i ssa.Instruction) {
				switch y := i.(type) {
				case *ssa.Store:
					fa, ok := y.Addr.(*ssa.FieldAddr)
					if !ok || !isRecv(fa.X) {
						return
					}
					fld := structField(fa.X.Type(), fa.Field)
					stores = append(stores, site{fld, i})
					if guardedByFlag(i) {
						governed[fld] = true
					}
					// or the stored value is a cell that is assigned under the flag
					for _, o := range origins(y.Val, originOpt{}) {
						var cell ssa.Value
						if l, ok := loadOf(o); ok {
							cell = l
						}
						if fv, ok := cell.(*ssa.FreeVar); ok {
							// binding in the parent
							for k, v := range h.FreeVars {
								if v == fv {
									eachInstr(f, func(z ssa.Instruction) {
										if mc, ok := z.(*ssa.MakeClosure); ok && mc.Fn == ssa.Value(h) && k < len(mc.Bindings) {
											cell = mc.Bindings[k]
										}
									})
								}
							}
						}
						if al, ok := cell.(*ssa.Alloc); ok {
							for _, st := range storesTo(f, al) {
								if guardedByFlag(st) {
									governed[fld] = true
								}
							}
						}
					}
				case *ssa.UnOp:
					if y.Op != token.MUL {
						return
					}
					fa, ok := y.X.(*ssa.FieldAddr)
					if !ok || !isRecv(fa.X) {
						return
					}
					reads = append(reads, site{structField(fa.X.Type(), fa.Field), i})
				case *ssa.Call:
					// a helper method of the same receiver (loadHeader): its direct stores and reads happen at this call
					g := y.Call.StaticCallee()
					if g == nil || !modLocal(g) || len(g.Blocks) == 0 || len(g.Params) == 0 || len(y.Call.Args) == 0 || !isRecv(y.Call.Args[0]) || g == f {
						return
					}
					eachInstr(g, func(z ssa.Instruction) {
						switch w := z.(type) {
						case *ssa.Store:
							if fa, ok := w.Addr.(*ssa.FieldAddr); ok && fa.X == ssa.Value(g.Params[0]) {
								fld := structField(fa.X.Type(), fa.Field)
								stores = append(stores, site{fld, i})
								if guardedByFlag(i) {
									governed[fld] = true
								}
							}
						case *ssa.UnOp:
							if w.Op == token.MUL {
								if fa, ok := w.X.(*ssa.FieldAddr); ok && fa.X == ssa.Value(g.Params[0]) {
									reads = append(reads, site{structField(fa.X.Type(), fa.Field), i})
								}
							}
						}
					})
				}
			})
		}
		var flds []*types.Var
		for fld := range governed {
			flds = append(flds, fld)
		}
		sort.Slice(flds, func(i, j int) bool { return flds[i].Name() < flds[j].Name() })
		for _, fld := range flds {
			n++
			bad := ""
			for _, rd := range reads {
				if rd.fld != fld {
					continue
				}
				for _, st := range stores {
					if st.fld != fld {
						continue
					}
					for _, rs := range sitesOf(rd.in) {
						for _, ss := range sitesOf(st.in) {
							if rs == ss {
								continue
							}
							if _, ok := reachesAvoiding(f, rs, func(z ssa.Instruction) bool { return z == ss }, nil); ok {
								bad = "read at " + c.InstrPos(rd.in) + " can run before the store at " + c.InstrPos(ss)
							}
						}
					}
				}
			}
			r.Check(bad == "", rule, fnName(f), "header-field-"+fld.Name(), c.Pos(f.Pos()), "a field the header sets is not read before it is set ("+bad+"): a snapshot with header loaded into an index of another dimension would be decoded with the receiver's old dimension")
		}
	}
	if n == 0 {
		r.Unk(rule, "index", "header-fields", "-", "no field set under the reader's header flag found")
	}
}

// ---- search fan-out: a node's request goes to that node -----------------------------------------------------------------

func derivedFromNode(v ssa.Value, n ssa.Value, depth int) bool {
	v = strip(v)
	if isNilConst(v) {
		return true
	}
	if depth > 9 {
		return false
	}
	switch y := v.(type) {
	case *ssa.Lookup:
		return strip(y.Index) == n
	case *ssa.Phi:
		for _, e := range y.Edges {
			if !derivedFromNode(e, n, depth+1) {
				return false
			}
		}
		return true
	case *ssa.Extract:
		return derivedFromNode(y.Tuple, n, depth+1)
	case *ssa.UnOp:
		if y.Op == token.MUL {
			if al, ok := y.X.(*ssa.Alloc); ok {
				st := storesTo(al.Parent(), al)
				if len(st) == 0 {
					return false
				}
				for _, s := range st {
					if !derivedFromNode(s.Val, n, depth+1) {
						return false
					}
				}
				return true
			}
		}
		return false
	case *ssa.Call:
		g := y.Call.StaticCallee()
		if g != nil && modLocal(g) && len(g.Blocks) > 0 {
			j := -1
			for k, a := range y.Call.Args {
				if strip(a) == n {
					j = k
				}
			}
			if j >= len(g.Params) {
				return false
			}
			if j < 0 {
				// not given the node itself (a generated client constructor given the connection): as for a library call
				for _, a := range y.Call.Args {
					switch strip(a).(type) {
					case *ssa.Call, *ssa.Extract, *ssa.Phi, *ssa.Lookup:
						if !isNilConst(strip(a)) && derivedFromNode(a, n, depth+1) {
							return true
						}
					}
				}
				return false
			}
			if cur := y.Parent(); cur != nil && fnPkgPath(g) != fnPkgPath(cur) {
				// the connection layer: Dial(node) is the connection to that node (the address book is C20's subject)
				return true
			}
			for _, rt := range returnsOf(g) {
				if len(rt.Results) == 0 {
					return false
				}
				if !derivedFromNode(rt.Results[0], g.Params[j], depth+1) {
					return false
				}
			}
			return true
		}
		// a library call (NewXClient(conn), conn.Dial(node)): one of its operands is the node or derives from it
		ops := append([]ssa.Value{}, y.Call.Args...)
		if y.Call.IsInvoke() {
			ops = append(ops, y.Call.Value)
		}
		for _, a := range ops {
			if strip(a) == n {
				return true
			}
			switch strip(a).(type) {
			case *ssa.Call, *ssa.Extract, *ssa.Phi, *ssa.Lookup:
				if derivedFromNode(a, n, depth+1) && !isNilConst(strip(a)) {
					return true
				}
			}
		}
		return false
	}
	return false
}

// nodeRequestGoesToThatNode: a worker that is given one node id and opens a stream on a peer uses a client obtained for
// that very node: the partitions it asks for were planned on that node, another node may host only some of them and would
// answer the rest with an empty list and success.
func nodeRequestGoesToThatNode(c *Ctx, r *Report, rule string) {
	n := 0
	for _, f := range prodFuncs(c, "storage") {
		if f.Parent() != nil {
			continue
		}
		var node *ssa.Parameter
		cnt := 0
		for _, p := range f.Params {
			if b, ok := p.Type().Underlying().(*types.Basic); ok && b.Kind() == types.Uint64 {
				node = p
				cnt++
			}
		}
		if cnt != 1 {
			continue
		}
		eachInstr(f, func(i ssa.Instruction) {
			cl, ok := i.(*ssa.Call)
			if !ok || !cl.Call.IsInvoke() {
				return
			}
			nt := namedOf(cl.Call.Value.Type())
			if nt == nil || nt.Obj().Pkg() == nil || !strings.HasSuffix(nt.Obj().Pkg().Path(), "/protobuf") || !strings.HasSuffix(nt.Obj().Name(), "Client") || strings.Contains(nt.Obj().Name(), "_") {
				return
			}
			n++
			r.Check(derivedFromNode(cl.Call.Value, node, 0), rule, fnName(f), "client-of-"+cl.Call.Method.Name(), c.InstrPos(cl), "the client a per-node worker calls is the one obtained for the worker's own node ("+node.Name()+"), on every path: a fall-back to some other replica sends it partitions it does not host, which it answers with an empty list and success")
		})
	}
	if n == 0 {
		r.Unk(rule, "storage", "per-node-worker", "-", "no per-node worker calling a peer found")
	}
}

// ---- error transformers keep an error an error -----------------------------------------------------------------------------

// errorTransformersPreserve: a module function that takes an error and returns an error (a status / wrapping helper put
// between a storage call and the RPC reply) returns non-nil whenever its argument is non-nil.
func errorTransformersPreserve(c *Ctx, r *Report, rule string, pkgs ...string) {
	n := 0
	for _, g := range prodFuncs(c, pkgs...) {
		if g.Parent() != nil {
			continue
		}
		res := g.Signature.Results()
		if res.Len() != 1 || !isErrorType(res.At(0).Type()) {
			continue
		}
		var p *ssa.Parameter
		k := 0
		for _, q := range g.Params {
			if isErrorType(q.Type()) {
				p = q
				k++
			}
		}
		if k != 1 {
			continue
		}
		n++
		bad := ""
		for _, rt := range returnsOf(g) {
			// a return that is only reached when the argument is known to be nil owes nothing
			argNil := false
			for _, ifi := range allIfs(g) {
				b, isB := ifi.Cond.(*ssa.BinOp)
				if !isB || (b.Op != token.EQL && b.Op != token.NEQ) {
					continue
				}
				if (strip(b.X) == ssa.Value(p) && isNilConst(b.Y)) || (strip(b.Y) == ssa.Value(p) && isNilConst(b.X)) {
					nilSide := succOn(ifi, b.Op == token.EQL)
					if nilSide != succOn(ifi, b.Op != token.EQL) && len(nilSide.Preds) == 1 && nilSide.Dominates(rt.Return.Block()) {
						argNil = true
					}
				}
			}
			if argNil {
				continue
			}
			for _, o := range origins(rt.Results[0], originOpt{}) {
				o = strip(o)
				switch {
				case o == ssa.Value(p):
				case isNilConst(o):
					okG := false
					for _, ifi := range allIfs(g) {
						b, isB := ifi.Cond.(*ssa.BinOp)
						if !isB || (b.Op != token.EQL && b.Op != token.NEQ) {
							continue
						}
						if (strip(b.X) == ssa.Value(p) && isNilConst(b.Y)) || (strip(b.Y) == ssa.Value(p) && isNilConst(b.X)) {
							if guardedBy(rt.Return.Block(), ifi, b.Op == token.EQL) {
								okG = true
							}
						}
					}
					if !okG {
						bad = "returns nil at " + c.InstrPos(rt.Return) + " without knowing the argument is nil"
					}
				default:
					cl, isC := o.(*ssa.Call)
					if ex, isE := o.(*ssa.Extract); isE {
						cl, isC = ex.Tuple.(*ssa.Call)
					}
					if !isC {
						bad = "returns a value of unknown nil-ness at " + c.InstrPos(rt.Return)
						continue
					}
					id := callID(&cl.Call)
					switch {
					case id.Pkg == "errors" && id.Name == "New", id.Pkg == "fmt" && id.Name == "Errorf", strings.HasSuffix(id.Pkg, "pkg/errors") && (strings.HasPrefix(id.Name, "Wrap") || id.Name == "New" || id.Name == "Errorf" || id.Name == "WithStack" || id.Name == "WithMessage"):
					case strings.HasSuffix(id.Pkg, "grpc/status") && (id.Name == "Error" || id.Name == "Errorf"):
						if v, isK := constInt(cl.Call.Args[0]); !isK || v == 0 {
							bad = "status." + id.Name + " at " + c.InstrPos(cl) + " is given a code that is not a non-OK constant: status.Error(codes.OK, …) is nil"
						}
					default:
						bad = "returns the result of " + id.String() + " at " + c.InstrPos(cl) + ", whose nil-ness is unknown"
					}
				}
			}
		}
		r.Check(bad == "", rule, fnName(g), "error-transformer", c.Pos(g.Pos()), "an error-to-error helper returns non-nil for a non-nil argument ("+bad+"): a nil from it on the write path is an acknowledgement of a write that was never applied")
	}
	if n == 0 {
		r.OKTrivial(rule, strings.Join(pkgs, ","), "error-transformers", "-", "no function of these packages maps an error to an error (errors are forwarded as they are)")
	}
}

// ---- the member list of a partition changes together with the local replica -----------------------------------------

// memberListChangesWithReplica: outside the construction of a fresh descriptor, a store to a partition's member list lies in
// a function that also starts or stops the local replica (reaches the start / stop of a raft group): a node that merely
// copies a newer member list treats the partition as local with an empty index and reports its size as zero.
func memberListChangesWithReplica(c *Ctx, r *Report, rule string) {
	fNodeIds := c.Field("protobuf", "Partition", "NodeIds")
	grp := c.Named("storage/raft", "RaftGroup")
	if fNodeIds == nil || grp == nil {
		r.Unk(rule, "storage", "anchors", "-", "Partition.NodeIds / RaftGroup not found")
		return
	}
	lifecycle := func(f *ssa.Function) bool {
		for h := range c.reachableFrom([]*ssa.Function{f}, false, true) {
			hit := false
			eachInstr(h, func(i ssa.Instruction) {
				cc := asCall(i)
				if cc == nil {
					return
				}
				if g := cc.StaticCallee(); g != nil && g.Signature.Recv() != nil && namedOf(derefType(g.Signature.Recv().Type())) == grp {
					// Start / Stop of a group: the methods that spawn or cancel the Ready loop
					spawnsOrCancels := false
					eachInstr(g, func(z ssa.Instruction) {
						if _, isGo := z.(*ssa.Go); isGo {
							spawnsOrCancels = true
						}
						if c2 := asCall(z); c2 != nil {
							if id := callID(c2); id.Name == "Stop" && strings.HasSuffix(id.Pkg, "etcd/raft") {
								spawnsOrCancels = true
							}
						}
					})
					if spawnsOrCancels {
						hit = true
					}
				}
			})
			if hit {
				return true
			}
		}
		return false
	}
	n := 0
	for _, f := range prodFuncs(c, "storage") {
		k := 0
		eachInstr(f, func(i ssa.Instruction) {
			st, ok := i.(*ssa.Store)
			if !ok || fieldOfAddr(st.Addr) != fNodeIds {
				return
			}
			fa, _ := st.Addr.(*ssa.FieldAddr)
			if fa != nil {
				if _, fresh := fa.X.(*ssa.Alloc); fresh {
					return
				}
			}
			n++
			k++
			r.Check(lifecycle(rootFn(f)), rule, fnName(f), fmt.Sprintf("member-list-store#%d", k), c.InstrPos(st), "the function that rewrites a partition's member list also starts or stops the local replica")
		})
	}
	if n == 0 {
		r.Unk(rule, "storage", "member-list-store", "-", "no store to a partition's member list found")
	}
}

// ---- wiring ------------------------------------------------------------------------------------------------------------------

func round5(c *Ctx, r *Report, prop string) {
	switch prop {
	case "C01":
		r.Rule("C01.R11", "at most k, and the k nearest: the shape of the beam search and of every k-bounded queue loop (as C07.R8)", 6)
		beamSearchShape(c, r, "C01.R11")
		r.Rule("C01.R10", "the entry point is never lost while items remain: no path of the hand-over writes a nil entry point, and the shard-scanning fall-back returns a vertex whenever it saw one (path-sensitive nil analysis)", 1)
		r.Need("C01.R10", "hand-over-value", "the function that hands the entry point over was not found")
		entryPointNeverLostWhileItemsRemain(c, r, "C01.R10")
	case "C02":
		r.Rule("C02.R8", "the stored vertex an update merges from keeps its data after it was removed: no field of a published vertex is rewritten (borrowed from C13.R4)", 1)
		borrow(c, r, "C13", "C13.R4", "C02.R8", "")
	case "C03":
		r.Rule("C03.R11", "a conflicting tail is really truncated: the previous last index is read before the cache is overwritten (borrowed from C06.R11)", 1)
		borrow(c, r, "C06", "C06.R11", "C03.R11", "old-last-index-read-first")
	case "C04":
		r.Rule("C04.R9", "map iterations of the apply trees that write run to the end (no early exit): iteration order is not part of the log", 1)
		mapRangesInApplyAreExhaustive(c, r, "C04.R9")
	case "C05":
		r.Rule("C05.R12", "a conflicting tail is really truncated (borrowed from C06.R11)", 1)
		borrow(c, r, "C06", "C06.R11", "C05.R12", "old-last-index-read-first")
		r.Rule("C05.R13", "a replica added to an existing group starts without a peer list (no second bootstrap)", 1)
		joiningReplicaStartsWithoutPeers(c, r, "C05.R13")
	case "C06":
		r.Rule("C06.R14", "the compaction sweep starts at the lowest key of the entry family", 1)
		headSweepStartsAtFamilyStart(c, r, "C06.R14")
		r.Rule("C06.R15", "a snapshot is written only with a known membership (borrowed from C20.R5): Snapshot / InitialState answer the ConfState the reference storage would", 1)
		borrow(c, r, "C20", "C20.R5", "C06.R15", "snapshot-written")
		r.Rule("C06.R16", "nothing is written for a group after it was deleted: DeleteGroup runs only after the group's Ready loop (the only writer) has been joined", 1)
		storageDeletedAfterLoopJoined(c, r, "C06.R16")
	case "C07":
		r.Rule("C07.R8", "the shape of the beam search and of every k-bounded queue loop: the beam stops only on a strictly farther candidate, admits on `nearer than the worst` OR `not full`, trims only above ef; selections pop only above k and fill only below k", 6)
		beamSearchShape(c, r, "C07.R8")
		r.Rule("C07.R11", "the insert path links the new vertex on every level from min(entry level, own level) down to and including level 0", 1)
		linkLoopReachesLevelZero(c, r, "C07.R11")
		r.Rule("C07.R7", "the beam's queues keep every push: Push / Pop of the queue wrapper always reach heap.Push / heap.Pop", 2)
		queueOpsReachHeap(c, r, "C07.R7")
	case "C08":
		r.Rule("C08.R8", "the trip count of every writing loop of the snapshot writer was written to the stream before the loop", 1)
		loopCountsAnnounced(c, r, "C08.R8")
		r.Rule("C08.R9", "what the header sets is set before the reader uses it", 1)
		headerFieldsStoredBeforeUse(c, r, "C08.R9")
	case "C09":
		r.Rule("C09.R7", "a per-node worker talks to its own node on every path", 1)
		nodeRequestGoesToThatNode(c, r, "C09.R7")
	case "C11":
		r.Rule("C11.R9", "error-to-error helpers on the write path return non-nil for non-nil", 1)
		errorTransformersPreserve(c, r, "C11.R9", "services", "storage")
		r.Rule("C11.R10", "a context's Err() is returned only where that context is known to be finished", 2)
		ctxErrOnlyWhenDone(c, r, "C11.R10", "storage", "storage/raft", "services")
	case "C12":
		r.Rule("C12.R10", "a delete-dataset request cannot terminate the process: a raft group's log is deleted only after its Ready loop has been joined (a failed Save is fatal by construction)", 1)
		storageDeletedAfterLoopJoined(c, r, "C12.R10")
	case "C13":
		r.Rule("C13.R8", "the degree bound is re-established after the link was added (borrowed from C07.R2: prune is guarded by the count taken after the add, on the same vertex and level)", 1)
		borrow(c, r, "C07", "C07.R2", "C13.R8", "prune-guard")
	case "C14":
		r.Rule("C14.R9", "a catalogue change is acknowledged only on its apply outcome (borrowed from C11.R5)", 1)
		borrow(c, r, "C11", "C11.R5", "C14.R9", "DatasetManager")
		r.Rule("C14.R11", "restoring a catalogue snapshot brings the datasets it keeps up to the snapshot's replica lists (restore = replay)", 1)
		restoreRefreshesKeptEntries(c, r, "C14.R11")
		r.Rule("C14.R10", "deleting a dataset stops its partitions without taking the node down: the partition's log is deleted only after its Ready loop has been joined", 1)
		storageDeletedAfterLoopJoined(c, r, "C14.R10")
	case "C16":
		r.Rule("C16.R7", "the address-book insert is decided by the announcement and the book alone", 1)
		addressBookInsertDependsOnBookOnly(c, r, "C16.R7")
	case "C17":
		r.Rule("C17.R7", "a partition's member list changes together with the local replica", 2)
		memberListChangesWithReplica(c, r, "C17.R7")
		r.Rule("C17.R9", "every node agrees on who hosts a partition (and therefore where its size is counted): a catalogue restore refreshes the replica lists of the datasets it keeps", 1)
		restoreRefreshesKeptEntries(c, r, "C17.R9")
		r.Rule("C17.R8", "accumulators handed to lookup goroutines are never reset afterwards", 2)
		accumulatorsNotResetAfterSpawn(c, r, "C17.R8")
	case "C18":
		r.Rule("C18.R6", "subscriptions to the bounded membership notifications are made on start-up paths only", 1)
		subscriptionsAtStartupOnly(c, r, "C18.R6")
		r.Rule("C18.R7", "no wait without an alternative on a channel kept in a struct field", 1)
		noSingleWayWaitOnFieldChannel(c, r, "C18.R7", "storage", "storage/raft", "cluster", "")
		r.Rule("C18.R8", "a raft group's log is deleted only after its Ready loop has been joined (stop = cancel + wait): deleting a dataset never takes the node down", 1)
		storageDeletedAfterLoopJoined(c, r, "C18.R8")
	case "C19":
		r.Rule("C19.R5", "Push / Pop of the queue wrapper always reach heap.Push / heap.Pop", 2)
		queueOpsReachHeap(c, r, "C19.R5")
	case "C20":
		r.Rule("C20.R9", "the address-book insert is decided by the announcement and the book alone", 1)
		addressBookInsertDependsOnBookOnly(c, r, "C20.R9")
		r.Rule("C20.R10", "the announced address is the address the node registers for itself", 1)
		announcedAddressIsRegisteredAddress(c, r, "C20.R10")
	}
}

// ---- a group's log is deleted only after its Ready loop has been joined (D27) ---------------------------------------------

// storageDeletedAfterLoopJoined: wherever the log of a raft group is deleted (DeleteGroup on the group's WAL), the call is
// dominated by a call of the group's stop method, and that method joins the Ready loop: it waits on a sync.WaitGroup field
// that the function spawning the loop Adds to before the `go`, and whose Done the loop defers. Cancelling a context is not a
// join: a Ready the loop is still persisting would find its log gone, Save fails, and the loop answers a failed Save with
// log.Fatal (the process exits); a Save that succeeds instead re-creates keys of a group that was deleted.
func storageDeletedAfterLoopJoined(c *Ctx, r *Report, rule string) {
	ro := discoverRoles(c)
	grp := c.Named("storage/raft", "RaftGroup")
	if grp == nil {
		r.Unk(rule, "storage/raft", "RaftGroup", "-", "type not found")
		return
	}
	// the stop method: a method of the group that calls etcd's Node.Stop
	var stops []*ssa.Function
	for _, f := range prodFuncs(c, "storage/raft") {
		if f.Parent() != nil || f.Signature.Recv() == nil || namedOf(derefType(f.Signature.Recv().Type())) != grp {
			continue
		}
		eachInstr(f, func(i ssa.Instruction) {
			if cc := asCall(i); cc != nil {
				if id := callID(cc); id.Name == "Stop" && strings.HasSuffix(id.Pkg, "etcd/raft") && id.Recv == "Node" {
					stops = appendUnique(stops, f)
				}
			}
		})
	}
	wgField := func(cc *ssa.CallCommon, name string) *types.Var {
		id := callID(cc)
		if id.Pkg != "sync" || id.Recv != "WaitGroup" || id.Name != name || len(cc.Args) == 0 {
			return nil
		}
		return fieldOfAddr(cc.Args[0])
	}
	joins := func(s *ssa.Function) (bool, string) {
		var w *types.Var
		eachInstr(s, func(i ssa.Instruction) {
			if cc := plainCall(i); cc != nil {
				if fv := wgField(cc, "Wait"); fv != nil {
					w = fv
				}
			}
		})
		if w == nil {
			return false, "it waits on no sync.WaitGroup field (cancelling the loop's context does not wait for it)"
		}
		n := 0
		for _, l := range ro.readyLoops {
			if l.Signature.Recv() == nil || namedOf(derefType(l.Signature.Recv().Type())) != grp {
				continue
			}
			n++
			// Done deferred by the loop itself, or by the closure that the spawning `go` runs around it
			done := func(h *ssa.Function) bool {
				ok := false
				eachInstr(h, func(i ssa.Instruction) {
					if d, isD := i.(*ssa.Defer); isD && wgField(&d.Call, "Done") == w {
						ok = true
					}
				})
				return ok
			}
			spawned := false
			for _, g := range prodFuncs(c, "storage/raft") {
				eachInstr(g, func(i ssa.Instruction) {
					gi, isGo := i.(*ssa.Go)
					if !isGo {
						return
					}
					var body *ssa.Function
					if gi.Call.StaticCallee() == l {
						body = l
					} else if mc, isMC := gi.Call.Value.(*ssa.MakeClosure); isMC {
						if cf, _ := mc.Fn.(*ssa.Function); cf != nil {
							calls := false
							eachInstr(cf, func(z ssa.Instruction) {
								if cc := asCall(z); cc != nil && cc.StaticCallee() == l {
									calls = true
								}
							})
							if calls {
								body = cf
							}
						}
					}
					if body == nil {
						return
					}
					if !(done(l) || done(body)) {
						return
					}
					// Add before the go
					eachInstr(g, func(z ssa.Instruction) {
						if cc := plainCall(z); cc != nil && wgField(cc, "Add") == w && instrDominates(z, gi) {
							spawned = true
						}
					})
				})
			}
			if !spawned {
				return false, "the Ready loop " + fnName(l) + " is not registered with the WaitGroup (Add before the go, deferred Done in the loop)"
			}
		}
		if n == 0 {
			return false, "no Ready loop of the group found"
		}
		return true, ""
	}
	n := 0
	for _, u := range prodFuncs(c, "storage", "storage/raft") {
		k := 0
		eachInstr(u, func(i ssa.Instruction) {
			cc := asCall(i)
			if cc == nil || !cc.IsInvoke() || cc.Method.Name() != "DeleteGroup" {
				return
			}
			n++
			k++
			var stopCall ssa.Instruction
			var stopFn *ssa.Function
			eachInstr(u, func(z ssa.Instruction) {
				if c2 := asCall(z); c2 != nil && c2.StaticCallee() != nil {
					for _, s := range stops {
						if c2.StaticCallee() == s && instrDominates(z, i) {
							stopCall, stopFn = z, s
						}
					}
				}
			})
			if stopCall == nil {
				r.Bad(rule, fnName(u), fmt.Sprintf("delete-after-join#%d", k), c.InstrPos(i), "the group's log is deleted without the group having been stopped first in this function")
				return
			}
			ok, why := joins(stopFn)
			r.Check(ok, rule, fnName(u), fmt.Sprintf("delete-after-join#%d", k), c.InstrPos(i), "the group's log is deleted only after "+fnName(stopFn)+" has joined the Ready loop ("+why+"): otherwise a Ready that is still being persisted finds its log gone — Save fails and the loop calls log.Fatal — or re-creates keys of the deleted group")
		})
	}
	if n == 0 {
		r.Unk(rule, "storage", "DeleteGroup", "-", "no call deleting a group's log found")
	}
}

// ---- restoring a catalogue snapshot refreshes the entries it keeps (D28) ------------------------------------------------

// restoreRefreshesKeptEntries: where the catalogue's restore function keeps a dataset object it already has (the value
// looked up in the previous map is stored into the new one) instead of building it from the snapshot, it hands that object
// to a function that rewrites the partitions' member lists — the only part of a dataset description that changes after
// creation. Otherwise a node that is caught up by a snapshot keeps the replica assignment it had before, and differs from
// every node that applied the log.
func restoreRefreshesKeptEntries(c *Ctx, r *Report, rule string) {
	ro := discoverRoles(c)
	fNodeIds := c.Field("protobuf", "Partition", "NodeIds")
	fDatasets := c.Field("storage", "DatasetManager", "datasets")
	if fNodeIds == nil || fDatasets == nil {
		r.Unk(rule, "storage", "anchors", "-", "Partition.NodeIds / DatasetManager.datasets not found")
		return
	}
	writesMembers := func(g *ssa.Function) bool {
		for h := range c.reachableFrom([]*ssa.Function{g}, false, true) {
			hit := false
			eachInstr(h, func(i ssa.Instruction) {
				if st, ok := i.(*ssa.Store); ok && fieldOfAddr(st.Addr) == fNodeIds {
					hit = true
				}
			})
			if hit {
				return true
			}
		}
		return false
	}
	n := 0
	for _, f := range ro.restoreFns {
		if f.Signature.Recv() == nil || typeName(f.Signature.Recv().Type()) != "DatasetManager" {
			continue
		}
		k := 0
		eachInstr(f, func(i ssa.Instruction) {
			mu, ok := i.(*ssa.MapUpdate)
			if !ok || fieldOfValueDeep(mu.Map) != fDatasets {
				return
			}
			var kept ssa.Value
			for _, o := range origins(mu.Value, originOpt{}) {
				if ex, isEx := o.(*ssa.Extract); isEx {
					if lk, isL := ex.Tuple.(*ssa.Lookup); isL && lk.CommaOk {
						kept = ex
					}
				}
			}
			if kept == nil {
				return
			}
			n++
			k++
			refreshed := false
			eachInstr(f, func(z ssa.Instruction) {
				cl, ok := z.(*ssa.Call)
				if !ok || cl.Call.StaticCallee() == nil || !modLocal(cl.Call.StaticCallee()) {
					return
				}
				for _, a := range cl.Call.Args {
					if strip(a) == kept && len(cl.Call.Args) > 1 && writesMembers(cl.Call.StaticCallee()) {
						refreshed = true
					}
				}
			})
			r.Check(refreshed, rule, fnName(f), fmt.Sprintf("kept-entry-refreshed#%d", k), c.InstrPos(mu), "a dataset the restore keeps (instead of rebuilding it from the snapshot) is brought up to the snapshot's replica lists: a node caught up by a snapshot otherwise keeps the assignment it had before and disagrees with every node that applied the log — about who hosts a partition, who may modify it, and where its size is counted")
		})
	}
	if n == 0 {
		r.OKTrivial(rule, "storage.DatasetManager", "kept-entries", "-", "the restore function keeps no existing entry (everything is rebuilt from the snapshot)")
	}
}
