package main

// A small path-condition engine for loop-free decision code: it enumerates the ways a block can be reached and records, for each
// way, the truth values of the atomic tests on it. `&&` / `||` (lowered to φs of constants and comparisons by go/ssa), negation,
// and boolean helper functions of the module (inlined through their returns) are read; anything else is an atom. Used where a
// rule needs "this block is reached only if A and B" rather than "some test mentions A and B".

import (
	"fmt"
	"go/token"

	"golang.org/x/tools/go/ssa"
)

type boolAlt struct {
	asg map[string]bool
	val bool
}

type condEngine struct {
	atomKey func(v ssa.Value) (string, bool, bool) // key, value-flip, recognised
	budget  int
	failed  bool
}

func mergeAsg(a, b map[string]bool) (map[string]bool, bool) {
	out := map[string]bool{}
	for k, v := range a {
		out[k] = v
	}
	for k, v := range b {
		if old, ok := out[k]; ok && old != v {
			return nil, false
		}
		out[k] = v
	}
	return out, true
}

// evalBool: the alternatives (assignment, value) of boolean v as seen in block `at` when entered from `from`.
func (e *condEngine) evalBool(v ssa.Value, at, from *ssa.BasicBlock, depth int) []boolAlt {
	if depth > 6 {
		e.failed = true
		return nil
	}
	switch x := v.(type) {
	case *ssa.Const:
		if x.Value == nil {
			e.failed = true
			return nil
		}
		return []boolAlt{{map[string]bool{}, x.Value.String() == "true"}}
	case *ssa.UnOp:
		if x.Op == token.NOT {
			in := e.evalBool(x.X, at, from, depth+1)
			for i := range in {
				in[i].val = !in[i].val
			}
			return in
		}
	case *ssa.Phi:
		if x.Block() == at && from != nil {
			for pi, p := range at.Preds {
				if p == from {
					// the incoming value was computed in (or before) the predecessor; its own φs are not followed further
					return e.evalBool(x.Edges[pi], p, nil, depth+1)
				}
			}
		}
		e.failed = true
		return nil
	case *ssa.Extract:
		if cl, ok := x.Tuple.(*ssa.Call); ok && x.Index == 0 {
			if alts, ok := e.inlineCall(cl, depth); ok {
				return alts
			}
		}
	case *ssa.Call:
		if alts, ok := e.inlineCall(x, depth); ok {
			return alts
		}
	}
	key, flip, ok := e.atomKey(v)
	if !ok {
		if nm, isN := v.(interface{ Name() string }); isN {
			par := ""
			if in, isI := v.(ssa.Instruction); isI && in.Parent() != nil {
				par = in.Parent().String()
			}
			key = "atom:" + par + ":" + nm.Name()
		} else {
			e.failed = true
			return nil
		}
	}
	t, f := true, false
	if flip {
		t, f = false, true
	}
	return []boolAlt{{map[string]bool{key: t}, true}, {map[string]bool{key: f}, false}}
}

// inlineCall: a module function whose first result is a bool — the alternatives of that result over the function's own paths.
func (e *condEngine) inlineCall(cl *ssa.Call, depth int) ([]boolAlt, bool) {
	g := cl.Call.StaticCallee()
	if g == nil || !modLocal(g) || len(g.Blocks) == 0 || g.Signature.Results().Len() == 0 {
		return nil, false
	}
	if b := g.Signature.Results().At(0).Type().String(); b != "bool" {
		return nil, false
	}
	var out []boolAlt
	resolved := map[*ssa.Return][]ssa.Value{}
	for _, rr := range returnsOf(g) {
		resolved[rr.Return] = rr.Results // (named results with a deferred call are spilled to cells: look through)
	}
	for _, blk := range g.Blocks {
		if len(blk.Instrs) == 0 {
			continue
		}
		rt, ok := blk.Instrs[len(blk.Instrs)-1].(*ssa.Return)
		if !ok || blk == g.Recover {
			continue
		}
		res0 := rt.Results[0]
		if rv := resolved[rt]; len(rv) > 0 {
			res0 = rv[0]
		}
		for _, pth := range e.pathsTo(g, blk, depth+1) {
			for _, alt := range e.evalBool(res0, blk, pth.from, depth+1) {
				if m, ok := mergeAsg(pth.asg, alt.asg); ok {
					out = append(out, boolAlt{m, alt.val})
				}
			}
		}
	}
	if e.failed {
		return nil, false
	}
	return out, true
}

type condPath struct {
	asg  map[string]bool
	from *ssa.BasicBlock // the predecessor through which the target was entered
}

// pathsTo: the assignments under which `target` is reached from the entry of f (each block at most once per path).
func (e *condEngine) pathsTo(f *ssa.Function, target *ssa.BasicBlock, depth int) []condPath {
	return e.pathsFrom(f, f.Blocks[0], target, depth)
}

// pathsFrom: the same, starting at a given block (the header of a loop, for conditions inside one iteration).
func (e *condEngine) pathsFrom(f *ssa.Function, start, target *ssa.BasicBlock, depth int) []condPath {
	var out []condPath
	var walk func(b, from *ssa.BasicBlock, asg map[string]bool, seen map[*ssa.BasicBlock]bool)
	walk = func(b, from *ssa.BasicBlock, asg map[string]bool, seen map[*ssa.BasicBlock]bool) {
		if e.failed {
			return
		}
		e.budget--
		if e.budget < 0 {
			e.failed = true
			return
		}
		if b == target {
			out = append(out, condPath{asg, from})
			return
		}
		if seen[b] || len(b.Instrs) == 0 {
			return
		}
		seen2 := map[*ssa.BasicBlock]bool{b: true}
		for k := range seen {
			seen2[k] = true
		}
		switch last := b.Instrs[len(b.Instrs)-1].(type) {
		case *ssa.If:
			for _, alt := range e.evalBool(last.Cond, b, from, depth) {
				m, ok := mergeAsg(asg, alt.asg)
				if !ok {
					continue
				}
				if alt.val {
					walk(b.Succs[0], b, m, seen2)
				} else {
					walk(b.Succs[1], b, m, seen2)
				}
			}
		case *ssa.Jump:
			walk(b.Succs[0], b, asg, seen2)
		}
	}
	walk(start, nil, map[string]bool{}, map[*ssa.BasicBlock]bool{})
	return out
}

// bootstrapOnlyWhenNothingPersisted: every way of reaching StartNode has both "the hard state is empty" and "the last index is 0"
// true — the two tests are combined with AND, neither is negated, and no other branch leads there.
func bootstrapOnlyWhenNothingPersisted(c *Ctx, r *Report, rule string) {
	for _, f := range c.ModFuncs {
		if !c.isProd(f) {
			continue
		}
		eachInstr(f, func(i ssa.Instruction) {
			cl, ok := i.(*ssa.Call)
			if !ok || !callID(&cl.Call).is("etcd/raft", "", "StartNode") {
				return
			}
			e := &condEngine{budget: 4000}
			e.atomKey = func(v ssa.Value) (string, bool, bool) {
				switch x := v.(type) {
				case *ssa.Call:
					if callID(&x.Call).Name == "IsEmptyHardState" {
						return "hard-state-empty", false, true
					}
				case *ssa.BinOp:
					// len(peers) against a constant, when the test is exactly "non-empty" or its negation
					for _, pr := range [][2]ssa.Value{{x.X, x.Y}, {x.Y, x.X}} {
						lc, isC := strip(pr[0]).(*ssa.Call)
						if !isC {
							continue
						}
						if bi, isB := lc.Call.Value.(*ssa.Builtin); !isB || bi.Name() != "len" {
							continue
						}
						kv, isK := constInt(pr[1])
						if !isK {
							continue
						}
						op := x.Op
						if pr[0] == x.Y {
							op = flipCmp(op)
						}
						holds := func(l int64) bool {
							switch op {
							case token.EQL:
								return l == kv
							case token.NEQ:
								return l != kv
							case token.LSS:
								return l < kv
							case token.LEQ:
								return l <= kv
							case token.GTR:
								return l > kv
							case token.GEQ:
								return l >= kv
							}
							return false
						}
						if !holds(0) && holds(1) && holds(1000) {
							return "peers-nonempty", false, true
						}
						if holds(0) && !holds(1) && !holds(1000) {
							return "peers-nonempty", true, true
						}
					}
					if x.Op == token.EQL || x.Op == token.NEQ {
						other := x.X
						kv, isK := constInt(x.Y)
						if !isK {
							kv, isK = constInt(x.X)
							other = x.Y
						}
						if isK && kv == 0 {
							if ex, isEx := strip(other).(*ssa.Extract); isEx {
								if cc, isC := ex.Tuple.(*ssa.Call); isC && ex.Index == 0 {
									nm := callID(&cc.Call).Name
									if nm == "LastIndex" {
										return "last-index-zero", x.Op == token.NEQ, true
									}
								}
							}
						}
					}
				}
				return "", false, false
			}
			paths := e.pathsTo(f, cl.Block(), 0)
			if e.failed || len(paths) == 0 {
				r.Infof("%s: the conditions under which %s reaches StartNode could not be enumerated (helper too deep or a loop in the decision); only the weaker obligations apply", rule, fnName(f))
				return
			}
			mentions := false
			bad := ""
			for _, p := range paths {
				hs, hasHS := p.asg["hard-state-empty"]
				li, hasLI := p.asg["last-index-zero"]
				pn, hasPN := p.asg["peers-nonempty"]
				if hasHS || hasLI {
					mentions = true
				}
				if !(hasHS && hs && hasLI && li) {
					bad = fmt.Sprintf("one way in has hard-state-empty=%v (tested: %v), last-index-zero=%v (tested: %v)", hs, hasHS, li, hasLI)
				} else if !(hasPN && pn) {
					bad = fmt.Sprintf("one way in does not establish that the peer list is non-empty (tested: %v): StartNode panics without peers, and a replica joining an existing group has none", hasPN)
				}
			}
			if !mentions {
				r.Infof("%s: no path to StartNode in %s tests the hard state or the last index in a form the engine reads", rule, fnName(f))
				return
			}
			r.Check(bad == "", rule, fnName(f), "StartNode-only-when-both-hold", c.InstrPos(cl), fmt.Sprintf("every way of reaching StartNode (%d enumerated) has the hard state empty AND the last index 0 AND a non-empty peer list: with OR, or with one test negated, a replica that has voted but holds no entry yet is bootstrapped again after a restart; %s", len(paths), bad))
		})
	}
}
