package main

import (
	"fmt"
	"go/token"
	"go/types"
	"strings"

	"golang.org/x/tools/go/ssa"
)

func init() {
	register("C07", checkC07)
	register("C10", checkC10)
}

// ---- C07 -------------------------------------------------------------------------------

func checkC07(c *Ctx, r *Report, tier string) {
	round5(c, r, "C07")
	round6(c, r, "C07")
	round7(c, r, "C07")
	round8(c, r, "C07")
	x := newIdxLocks(c)
	r.Rule("C07.R1", "links are symmetric: in the insert path every addEdge(l, B, d) on A is paired in the same block with addEdge(l, A, d) on B", 1)
	r.Rule("C07.R2", "pruning only above the budget: each pruneNeighbors call on the insert path is guarded by edgesCount(l) > budget, budget = mMax0 on the l == 0 polarity and mMax otherwise; defaults are mMax = m, mMax0 = 2m", 3)
	r.Rule("C07.R3", "the level-0 beam is max(ef, k): the ef argument of the level-0 searchLevel call in Search is MaxInt(config.ef, int(k))", 1)
	r.Rule("C07.R4", "no ghost vertices: a rejected insert (existing id) has not linked anything into the graph — otherwise a second vertex with the same id competes in every beam and pushes out a true neighbour", 3)
	noMutationBeforeErrorReturn(c, r, "C07.R4")
	visitedSetSeeded(c, r, "C07.R4")
	r.Rule("C07.R5", "helper contracts the neighbour selection relies on: Reverse() gives the selection its own copy of the candidates (the heuristic keeps popping from the original)", 2)
	borrow(c, r, "C19", "C19.R2", "C07.R5", "")
	r.Rule("C07.R6", "the beam and the final cut: a visited set private to the traversal guards every push (borrowed from C01.R5); the dataset-level merge is sorted and cut on every path (borrowed from C01.R4)", 3)
	borrow(c, r, "C01", "C01.R5", "C07.R6", "")
	borrow(c, r, "C01", "C01.R4", "C07.R6", "storage.Dataset")
	if len(x.missing) > 0 {
		r.Unk("C07.R1", "index", "anchors", "-", "cannot resolve: "+strings.Join(x.missing, ", "))
		return
	}
	// edge adders: functions doing a MapUpdate on an edge set under lock with (level, edge, distance) params
	isAdder := func(f *ssa.Function) bool {
		if f == nil || !modLocal(f) {
			return false
		}
		found := false
		eachInstr(f, func(i ssa.Instruction) {
			if mu, ok := i.(*ssa.MapUpdate); ok {
				if _, fld := pairedMutexPath(mu.Map, x.pairs); fld == x.fEdges {
					found = true
				}
			}
		})
		return found && len(f.Params) == 4
	}
	fMmax := c.Field("index", "hnswConfig", "mMax")
	fMmax0 := c.Field("index", "hnswConfig", "mMax0")
	fM := c.Field("index", "hnswConfig", "m")
	fEf := c.Field("index", "hnswConfig", "ef")
	if fMmax == nil || fMmax0 == nil || fM == nil || fEf == nil {
		r.Unk("C07.R2", "index.hnswConfig", "fields", "-", "mMax/mMax0/m/ef not found")
		return
	}
	for _, f := range x.funcs {
		if x.applyOnly(f) {
			continue
		}
		var adds []*ssa.Call
		eachInstr(f, func(i ssa.Instruction) {
			if cl, ok := i.(*ssa.Call); ok && isAdder(cl.Call.StaticCallee()) {
				adds = append(adds, cl)
			}
		})
		if len(adds) == 0 {
			continue
		}
		used := map[*ssa.Call]bool{}
		for _, a := range adds {
			if used[a] {
				continue
			}
			var mate *ssa.Call
			for _, b := range adds {
				if b == a || used[b] || b.Block() != a.Block() {
					continue
				}
				// a: recv A, (l, B, d) ; b: recv B, (l, A, d)
				if strip(a.Call.Args[0]) == strip(b.Call.Args[2]) && strip(a.Call.Args[2]) == strip(b.Call.Args[0]) &&
					a.Call.Args[1] == b.Call.Args[1] && sameValueOrCall(a.Call.Args[3], b.Call.Args[3]) {
					mate = b
				}
			}
			if mate != nil {
				used[a], used[mate] = true, true
				r.OK("C07.R1", fnName(f), "link-pair", c.Pos(a.Pos()), "forward and backward link with the same level and distance")
			} else {
				r.Bad("C07.R1", fnName(f), "link-pair", c.Pos(a.Pos()), "a link is added in one direction only (no mirrored addEdge with the same level and distance in this block)")
			}
		}
		// R2: prune calls in this function
		eachInstr(f, func(i ssa.Instruction) {
			cl, ok := i.(*ssa.Call)
			if !ok {
				return
			}
			g := cl.Call.StaticCallee()
			if g == nil || g.Name() != "pruneNeighbors" && !(isPruner(x, g)) {
				return
			}
			V, K, L := cl.Call.Args[1], cl.Call.Args[2], cl.Call.Args[3]
			guard := false
			for _, ifi := range allIfs(f) {
				b, ok := ifi.Cond.(*ssa.BinOp)
				if !ok {
					continue
				}
				var cnt, bud ssa.Value
				switch b.Op {
				case token.GTR:
					cnt, bud = b.X, b.Y
				case token.LSS:
					cnt, bud = b.Y, b.X
				default:
					continue
				}
				cc, ok := cnt.(*ssa.Call)
				if !ok {
					continue
				}
				// the count written inline: len(v.edges[level]) of the same vertex and level
				if bi, isBi := cc.Call.Value.(*ssa.Builtin); isBi && bi.Name() == "len" && len(cc.Call.Args) == 1 {
					if l, isL := loadOf(strip(cc.Call.Args[0])); isL {
						if ia, isIA := l.(*ssa.IndexAddr); isIA && ia.Index == L {
							if l2, isL2 := loadOf(strip(ia.X)); isL2 {
								if fa, isFA := l2.(*ssa.FieldAddr); isFA && strip(fa.X) == strip(V) {
									if fv := structField(fa.X.Type(), fa.Field); fv != nil {
										if st, isS := fv.Type().Underlying().(*types.Slice); isS && namedOf(st.Elem()) == x.edgeSet && bud == K && guardedBy(i.Block(), ifi, true) {
											guard = true
										}
									}
								}
							}
						}
					}
					continue
				}
				if cc.Call.StaticCallee() == nil || cc.Call.StaticCallee().Name() != "edgesCount" {
					continue
				}
				if strip(cc.Call.Args[0]) == strip(V) && cc.Call.Args[1] == L && bud == K && guardedBy(i.Block(), ifi, true) {
					guard = true
				}
			}
			if !guard {
				r.Bad("C07.R2", fnName(f), "prune-guard", c.Pos(cl.Pos()), "pruneNeighbors on the insert path is not guarded by edgesCount(level) > budget for the same vertex, level and budget")
				return
			}
			ok2, why := budgetShapeAny(f, K, L, fMmax, fMmax0)
			r.Check(ok2, "C07.R2", fnName(f), "prune-guard", c.Pos(cl.Pos()), "guarded by edgesCount(l) > budget; "+why)
		})
	}
	// defaults
	if nc := c.Func("index", "newHnswConfig"); nc != nil {
		okM, okM0 := false, false
		// the constructor and the helpers it calls on the configuration being built
		scope := []*ssa.Function{nc}
		eachInstr(nc, func(i ssa.Instruction) {
			if cc := asCall(i); cc != nil && cc.StaticCallee() != nil && modLocal(cc.StaticCallee()) && recvTypeName(cc.StaticCallee()) == "hnswConfig" {
				scope = append(scope, cc.StaticCallee())
			}
		})
		var storesM, storesM0 []*ssa.Store
		for _, g := range scope {
			storesM = append(storesM, fieldStoresIn(g, fMmax)...)
			storesM0 = append(storesM0, fieldStoresIn(g, fMmax0)...)
		}
		for _, st := range storesM {
			if fieldOfValue(st.Val) == fM {
				okM = true
			}
		}
		for _, st := range storesM0 {
			if b, ok := st.Val.(*ssa.BinOp); ok && b.Op == token.MUL {
				n1, c1 := constInt(b.X)
				n2, c2 := constInt(b.Y)
				if (c1 && n1 == 2 && fieldOfValue(b.Y) == fM) || (c2 && n2 == 2 && fieldOfValue(b.X) == fM) {
					okM0 = true
				}
			}
		}
		r.Check(okM, "C07.R2", fnName(nc), "default-mMax", c.Pos(nc.Pos()), "mMax defaults to m")
		r.Check(okM0, "C07.R2", fnName(nc), "default-mMax0", c.Pos(nc.Pos()), "mMax0 defaults to 2·m")
	} else {
		r.Unk("C07.R2", "index.newHnswConfig", "defaults", "-", "constructor not found")
	}
	// R3
	for _, f := range x.funcs {
		if f.Signature.Recv() == nil || namedOf(f.Signature.Recv().Type()) != x.hnsw {
			continue
		}
		res := f.Signature.Results()
		if res.Len() != 2 || typeName(res.At(0).Type()) != "SearchResult" {
			continue
		}
		k := kParameter(f)
		eachInstr(f, func(i ssa.Instruction) {
			cl, ok := i.(*ssa.Call)
			if !ok || cl.Call.StaticCallee() == nil || cl.Call.StaticCallee().Name() != "searchLevel" {
				return
			}
			args := cl.Call.Args // this, query, entry, ef, level
			if n, ok := constInt(args[4]); !ok || n != 0 {
				return
			}
			ok2 := false
			if mc, ok := args[3].(*ssa.Call); ok {
				id := callID(&mc.Call)
				if (id.Name == "MaxInt" && strings.HasSuffix(id.Pkg, "anndb/math")) || (id.Pkg == "builtin" && id.Name == "max") {
					fa := flatArgs(&mc.Call)
					if len(fa) == 2 {
						isEf := func(v ssa.Value) bool { return fieldOfValue(v) == fEf }
						isK := func(v ssa.Value) bool { return k != nil && strip(v) == ssa.Value(k) }
						ok2 = (isEf(fa[0]) && isK(fa[1])) || (isEf(fa[1]) && isK(fa[0]))
					}
				}
			}
			r.Check(ok2, "C07.R3", fnName(f), "level0-beam", c.Pos(cl.Pos()), "beam width of the level-0 search is max(config.ef, k)")
		})
	}
}

func isPruner(x *idxLocks, g *ssa.Function) bool { return false }

func sameValueOrCall(a, b ssa.Value) bool {
	if a == b {
		return true
	}
	ca, ok1 := a.(*ssa.Call)
	cb, ok2 := b.(*ssa.Call)
	if ok1 && ok2 && callID(&ca.Call) == callID(&cb.Call) && len(ca.Call.Args) == len(cb.Call.Args) {
		for i := range ca.Call.Args {
			if ca.Call.Args[i] != cb.Call.Args[i] {
				return false
			}
		}
		return true // same pure accessor on the same receiver (item.Priority())
	}
	return false
}

// budgetShapeAny: the budget is chosen per level either inline (φ) or by a module-local helper applied to the level.
func budgetShapeAny(f *ssa.Function, K, L ssa.Value, fMmax, fMmax0 *types.Var) (bool, string) {
	if cl, ok := K.(*ssa.Call); ok {
		if g := cl.Call.StaticCallee(); g != nil && modLocal(g) {
			pi := -1
			for k, a := range cl.Call.Args {
				if a == L {
					pi = k
				}
			}
			if pi < 0 {
				return false, "the budget helper does not receive the level"
			}
			lp := ssa.Value(g.Params[pi])
			seenM, seenM0 := false, false
			for _, rt := range returnsOf(g) {
				v := rt.Results[0]
				if _, isPhi := v.(*ssa.Phi); isPhi {
					if ok, why := budgetShape(g, v, lp, fMmax, fMmax0); !ok {
						return false, why
					}
					seenM, seenM0 = true, true
					continue
				}
				fld := fieldOfValue(v)
				onZero := false
				for _, ifi := range allIfs(g) {
					if b, ok := ifi.Cond.(*ssa.BinOp); ok && (b.Op == token.EQL || b.Op == token.NEQ) && b.X == lp {
						if n, ok := constInt(b.Y); ok && n == 0 && guardedBy(rt.Block(), ifi, b.Op == token.EQL) {
							onZero = true
						}
					}
				}
				switch {
				case fld == fMmax0 && onZero:
					seenM0 = true
				case fld == fMmax && !onZero:
					seenM = true
				default:
					return false, "budget helper returns " + v.String() + " on the wrong side of the level test"
				}
			}
			if seenM && seenM0 {
				return true, "budget = " + g.Name() + "(level): mMax0 when level == 0, mMax otherwise"
			}
			return false, "budget helper does not distinguish level 0 from the upper levels"
		}
	}
	return budgetShape(f, K, L, fMmax, fMmax0)
}

// budgetShape: K is φ(load mMax0 on the l==0 side, load mMax otherwise)
func budgetShape(f *ssa.Function, K, L ssa.Value, fMmax, fMmax0 *types.Var) (bool, string) {
	ph, ok := K.(*ssa.Phi)
	if !ok {
		return false, "budget is not chosen per level (expected mMax0 when l == 0, mMax otherwise)"
	}
	var zeroIf *ssa.If
	zeroPol := true
	for _, ifi := range allIfs(f) {
		if b, ok := ifi.Cond.(*ssa.BinOp); ok && (b.Op == token.EQL || b.Op == token.NEQ) && b.X == L {
			if n, ok := constInt(b.Y); ok && n == 0 {
				zeroIf = ifi
				zeroPol = b.Op == token.EQL
			}
		}
	}
	if zeroIf == nil {
		return false, "no `level == 0` test selects the budget"
	}
	seenM, seenM0 := false, false
	defer func() { _, _ = seenM, seenM0 }()
	for i, e := range ph.Edges {
		if e == ssa.Value(ph) {
			continue // loop-carried copy of the same choice
		}
		pb := ph.Block().Preds[i]
		fld := fieldOfValue(e)
		onZero := guardedBy(pb, zeroIf, zeroPol)
		switch {
		case fld == fMmax0 && onZero:
			seenM0 = true
		case fld == fMmax && !onZero:
			seenM = true
		default:
			return false, fmt.Sprintf("budget edge %d is %v on the %s side", i, fld, map[bool]string{true: "l==0", false: "l!=0"}[onZero])
		}
	}
	if !seenM || !seenM0 {
		return false, "budget does not distinguish level 0 from the upper levels"
	}
	return true, "budget = mMax0 when l == 0, mMax otherwise"
}

// ---- C10 -------------------------------------------------------------------------------

func checkC10(c *Ctx, r *Report, tier string) {
	round5(c, r, "C10")
	round6(c, r, "C10")
	round7(c, r, "C10")
	r.Rule("C10.R1", "the routing function is pure: no stores, no package-level reads, only pure callees (binary.LittleEndian/BigEndian.Uint64)", 1)
	r.Rule("C10.R2", "the routing function's result is a remainder by its modulus parameter; its only panic-capable operations are remainders by that parameter", 1)
	r.Rule("C10.R3", "one routing point: the only non-loop index into Dataset.partitions is route(id parameter, Meta().GetPartitionCount()); every single write obtains its partition from that function with the id it then operates on; the batch grouping buckets each item under route(item id) and forwards the bucket with that partition's id", 6)
	r.Rule("C10.R4", "the modulus cannot drift: Dataset.partitions / Dataset.meta are stored only in the constructor, len(partitions) is allocated from the partition count, nothing outside generated code stores pb.Dataset.PartitionCount", 3)
	for _, k := range []string{"partitions-index", "batch-bucket", "batch-forward-partition-id", "proxy-request-id", "|partition."} {
		r.Need("C10.R3", k, "every write path (single, proxied, batch grouping, batch forwarding) must be seen going through the routing point")
	}
	dsT := c.Named("storage", "Dataset")
	fParts := c.Field("storage", "Dataset", "partitions")
	fMeta := c.Field("storage", "Dataset", "meta")
	if dsT == nil || fParts == nil || fMeta == nil {
		r.Unk("C10.R3", "storage.Dataset", "anchors", "-", "type Dataset / fields partitions, meta not found")
		return
	}
	// find the routing point(s)
	type site struct {
		fn *ssa.Function
		ia *ssa.IndexAddr
	}
	var sites []site
	for _, f := range c.FuncsInPkg("storage") {
		if !c.isProd(f) {
			continue
		}
		eachInstr(f, func(i ssa.Instruction) {
			ia, ok := i.(*ssa.IndexAddr)
			if !ok || fieldOfValue(ia.X) != fParts {
				return
			}
			if isLoopCounter(ia.Index) {
				return
			}
			sites = append(sites, site{f, ia})
		})
	}
	var route *ssa.Function // the routing function (utils.UuidMod role)
	var point *ssa.Function
	for k, s := range sites {
		cons := fmt.Sprintf("partitions-index#%d", k+1)
		cl, ok := strip(s.ia.Index).(*ssa.Call)
		if !ok || cl.Call.StaticCallee() == nil || len(cl.Call.Args) != 2 {
			r.Bad("C10.R3", fnName(s.fn), cons, c.Pos(s.ia.Pos()), "Dataset.partitions is indexed by something other than the routing function: "+s.ia.Index.String())
			continue
		}
		g := cl.Call.StaticCallee()
		idOK := false
		if p, ok := cl.Call.Args[0].(*ssa.Parameter); ok && typeName(p.Type()) == "UUID" {
			idOK = true
		}
		cntOK := false
		if gc, ok := strip(cl.Call.Args[1]).(*ssa.Call); ok && callID(&gc.Call).Name == "GetPartitionCount" {
			// on this dataset's own meta
			for _, o := range origins(gc.Call.Args[0], originOpt{throughCalls: 2}) {
				if fieldOfValue(o) == fMeta {
					cntOK = true
				}
			}
		}
		if idOK && cntOK {
			if route != nil && route != g {
				r.Bad("C10.R3", fnName(s.fn), cons, c.Pos(s.ia.Pos()), "a second routing function is in use: "+fnName(g))
				continue
			}
			route, point = g, s.fn
			r.OK("C10.R3", fnName(s.fn), cons, c.Pos(s.ia.Pos()), "index = "+fnName(g)+"(id parameter, this dataset's partition count)")
		} else {
			r.Bad("C10.R3", fnName(s.fn), cons, c.Pos(s.ia.Pos()), fmt.Sprintf("routing expression does not use the id parameter (%v) and the dataset's own partition count (%v)", idOK, cntOK))
		}
	}
	if len(sites) > 1 {
		fns := map[*ssa.Function]bool{}
		for _, s := range sites {
			fns[s.fn] = true
		}
		if len(fns) > 1 {
			r.Bad("C10.R3", "storage.Dataset", "single-routing-point", "-", fmt.Sprintf("%d functions index Dataset.partitions directly; routing must go through one function", len(fns)))
		}
	}
	if route == nil || point == nil {
		r.Unk("C10.R3", "storage.Dataset", "routing-point", "-", "no routing point found")
		return
	}
	// R1 / R2 on the routing function
	pure := true
	why := ""
	var rems []*ssa.BinOp
	eachInstr(route, func(i ssa.Instruction) {
		switch y := i.(type) {
		case *ssa.Store:
			if _, ok := y.Addr.(*ssa.Alloc); ok {
				return
			}
			if ia, ok := y.Addr.(*ssa.IndexAddr); ok {
				if _, ok := ia.X.(*ssa.Alloc); ok {
					return
				}
			}
			if fa, ok := y.Addr.(*ssa.FieldAddr); ok {
				if _, ok := fa.X.(*ssa.Alloc); ok {
					return
				}
			}
			pure, why = false, "store at "+c.InstrPos(i)
		case *ssa.MapUpdate, *ssa.Send, *ssa.Go, *ssa.Defer, *ssa.Select:
			pure, why = false, fmt.Sprintf("%T at %s", i, c.InstrPos(i))
		case *ssa.UnOp:
			if y.Op == token.MUL {
				if g, ok := y.X.(*ssa.Global); ok && !(g.Pkg.Pkg.Path() == "encoding/binary") {
					pure, why = false, "reads package-level variable "+g.Name()
				}
			}
			if y.Op == token.ARROW {
				pure, why = false, "channel receive"
			}
		case *ssa.Call:
			id := callID(&y.Call)
			okCall := (id.Pkg == "encoding/binary" && (id.Name == "Uint64" || id.Name == "Uint32")) || (id.Pkg == "builtin" && (id.Name == "len" || id.Name == "copy"))
			if !okCall {
				pure, why = false, "calls "+id.String()
			}
		case *ssa.BinOp:
			if y.Op == token.REM || y.Op == token.QUO {
				rems = append(rems, y)
			}
		}
	})
	r.Check(pure, "C10.R1", fnName(route), "purity", c.Pos(route.Pos()), map[bool]string{true: "no stores, no globals, only encoding/binary readers", false: "routing function is not pure: " + why}[pure])
	modP := route.Params[len(route.Params)-1]
	okRem := len(rems) > 0
	for _, b := range rems {
		if b.Y != ssa.Value(modP) || b.Op != token.REM {
			okRem = false
		}
	}
	for _, rt := range returnsOf(route) {
		b, ok := rt.Results[0].(*ssa.BinOp)
		if !ok || b.Op != token.REM || b.Y != ssa.Value(modP) {
			okRem = false
		}
	}
	r.Check(okRem, "C10.R2", fnName(route), "in-range", c.Pos(route.Pos()), "result is `… % modulus parameter`; every division-like operation divides by that parameter")

	// single writes: calls of partition.{insert,update,remove}-like methods taking (ctx, id, …) from Dataset methods
	partT := c.Named("storage", "partition")
	for _, f := range c.FuncsInPkg("storage") {
		if !c.isProd(f) || f.Signature.Recv() == nil || namedOf(f.Signature.Recv().Type()) != dsT {
			continue
		}
		n := 0
		eachInstr(f, func(i ssa.Instruction) {
			cl, ok := i.(*ssa.Call)
			if !ok {
				return
			}
			g := cl.Call.StaticCallee()
			if g == nil || g.Signature.Recv() == nil || namedOf(g.Signature.Recv().Type()) != partT || len(cl.Call.Args) < 3 {
				return
			}
			if typeName(cl.Call.Args[2].Type()) != "UUID" {
				return
			}
			n++
			cons := fmt.Sprintf("partition.%s#%d", g.Name(), n)
			okR := false
			for _, o := range origins(cl.Call.Args[0], originOpt{}) {
				if oc, ok := o.(*ssa.Call); ok && oc.Call.StaticCallee() == point && oc.Call.Args[1] == cl.Call.Args[2] {
					okR = true
				} else {
					okR = false
					break
				}
			}
			r.Check(okR, "C10.R3", fnName(f), cons, c.Pos(cl.Pos()), "operates on the partition returned by the routing point for the same id")
		})
		// proxy requests: Id field of a pb.*Request built here carries the same id; node chosen from the routed partition
		eachInstr(f, func(i ssa.Instruction) {
			st, ok := i.(*ssa.Store)
			if !ok {
				return
			}
			fa, ok := st.Addr.(*ssa.FieldAddr)
			if !ok {
				return
			}
			fld := structField(fa.X.Type(), fa.Field)
			if fld == nil || fld.Name() != "Id" || !strings.HasSuffix(typeName(fa.X.Type()), "Request") || !strings.HasSuffix(typePkg(fa.X.Type()), "anndb/protobuf") {
				return
			}
			okId := false
			if bc, ok := st.Val.(*ssa.Call); ok && callID(&bc.Call).Name == "Bytes" {
				if p, ok := bc.Call.Args[0].(*ssa.Parameter); ok && typeName(p.Type()) == "UUID" {
					okId = true
				}
			}
			r.Check(okId, "C10.R3", fnName(f), "proxy-request-id", c.InstrPos(st), "the proxied request carries the id parameter")
		})
	}
	// batch grouping: a function returning map[*partition][]item
	for _, f := range c.FuncsInPkg("storage") {
		if !c.isProd(f) || f.Signature.Results().Len() < 1 {
			continue
		}
		mt, ok := f.Signature.Results().At(0).Type().Underlying().(*types.Map)
		if !ok || namedOf(mt.Key()) != partT {
			continue
		}
		eachInstr(f, func(i ssa.Instruction) {
			mu, ok := i.(*ssa.MapUpdate)
			if !ok {
				return
			}
			ap, ok := mu.Value.(*ssa.Call)
			if !ok || !callID(&ap.Call).is("builtin", "", "append") {
				return
			}
			// key from routing point applied to the id of the appended item
			el := flatArgs(&ap.Call)
			okK := false
			var item ssa.Value
			if len(el) == 2 {
				item = strip(el[1])
			}
			for _, o := range origins(mu.Key, originOpt{}) {
				oc, ok := o.(*ssa.Call)
				if !ok || oc.Call.StaticCallee() != point {
					okK = false
					break
				}
				// id argument derives from item.GetId()
				okK = false
				var walk func(v ssa.Value, d int)
				walk = func(v ssa.Value, d int) {
					if d > 6 {
						return
					}
					v = strip(v)
					switch y := v.(type) {
					case *ssa.Call:
						if callID(&y.Call).Name == "GetId" && len(y.Call.Args) > 0 && strip(y.Call.Args[0]) == item {
							okK = true
							return
						}
						for _, a := range y.Call.Args {
							walk(a, d+1)
						}
					case *ssa.Extract:
						walk(y.Tuple, d+1)
					}
				}
				walk(oc.Call.Args[1], 0)
			}
			r.Check(okK, "C10.R3", fnName(f), "batch-bucket", c.InstrPos(mu), "each item is appended to the bucket of route(item id)")
		})
	}
	// forwarding: PartitionBatchRequest.PartitionId is the id of the partition whose bucket is sent
	for _, f := range c.FuncsInPkg("storage") {
		if !c.isProd(f) {
			continue
		}
		eachInstr(f, func(i ssa.Instruction) {
			st, ok := i.(*ssa.Store)
			if !ok {
				return
			}
			fa, ok := st.Addr.(*ssa.FieldAddr)
			if !ok {
				return
			}
			fld := structField(fa.X.Type(), fa.Field)
			if fld == nil || fld.Name() != "PartitionId" || typeName(fa.X.Type()) != "PartitionBatchRequest" {
				return
			}
			okP := false
			if bc, ok := st.Val.(*ssa.Call); ok && callID(&bc.Call).Name == "Bytes" {
				if l, ok := loadOf(bc.Call.Args[0]); ok {
					if pfa, ok := l.(*ssa.FieldAddr); ok && namedOf(pfa.X.Type()) == partT {
						if _, isParam := pfa.X.(*ssa.Parameter); isParam {
							okP = true
						}
					}
				}
			}
			r.Check(okP, "C10.R3", fnName(f), "batch-forward-partition-id", c.InstrPos(st), "bucket is forwarded under the id of its own partition")
		})
	}
	// R4
	for _, fld := range []*types.Var{fParts, fMeta} {
		bad := ""
		n := 0
		for _, f := range c.FuncsInPkg("storage") {
			for _, st := range fieldStoresIn(f, fld) {
				n++
				if al, ok := strip(st.Addr.(*ssa.FieldAddr).X).(*ssa.Alloc); !ok || !al.Heap {
					bad = fnName(f) + " at " + c.InstrPos(st)
				}
			}
		}
		r.Check(bad == "" && n > 0, "C10.R4", "storage.Dataset", "stores-"+fld.Name(), c.Pos(fld.Pos()), fmt.Sprintf("%d store(s), constructor only %s", n, bad))
	}
	pc := c.Field("protobuf", "Dataset", "PartitionCount")
	if pc == nil {
		r.Unk("C10.R4", "protobuf.Dataset", "PartitionCount", "-", "field not found")
	} else {
		bad := ""
		for _, f := range c.ModFuncs {
			if !c.isProd(f) {
				continue
			}
			for _, st := range fieldStoresIn(f, pc) {
				bad = fnName(f) + " at " + c.InstrPos(st)
			}
		}
		r.Check(bad == "", "C10.R4", "protobuf.Dataset", "stores-PartitionCount", c.Pos(pc.Pos()), "no production code outside generated files stores the partition count "+bad)
	}
	r.Rule("C10.R5", "the ordered partition list (index = routing result) is never built from map iteration", 1)
	partitionOrderStable(c, r, "C10.R5")
	routingTableNotMutated(c, r, "C10.R4")
	r.Rule("C10.R6", "the partition a group of items was routed to is the partition it is handed to: no goroutine of the fan-out captures the loop's partition variable; a partition's snapshot bytes are its own (never a buffer shared with other partitions)", 3)
	borrow(c, r, "C17", "C17.R1", "C10.R6", "")
	snapshotIsFresh(c, r, "C10.R6", "partition")
	catalogueRecordOrderStable(c, r, "C10.R4")
	// len(partitions) from the count
	if nd := c.Func("storage", "newDataset"); nd != nil {
		ok := false
		for _, st := range fieldStoresIn(nd, fParts) {
			if ms, isM := st.Val.(*ssa.MakeSlice); isM {
				if gc, isC := strip(ms.Len).(*ssa.Call); isC && callID(&gc.Call).Name == "GetPartitionCount" {
					ok = true
				}
			}
		}
		r.Check(ok, "C10.R4", fnName(nd), "partitions-length", c.Pos(nd.Pos()), "the partition table is allocated with GetPartitionCount() slots")
	}
}

// isLoopCounter: φ(const, φ+1) — the hidden index of a range loop or an explicit i++ counter.
func isLoopCounter(v ssa.Value) bool {
	if b, ok := v.(*ssa.BinOp); ok && b.Op == token.ADD {
		if n, isC := constInt(b.Y); isC && n == 1 {
			v = b.X // rotated range loop: element address uses φ+1
		}
	}
	ph, ok := v.(*ssa.Phi)
	if !ok {
		return false
	}
	hasConst, hasStep := false, false
	for _, e := range ph.Edges {
		if _, ok := constInt(e); ok {
			hasConst = true
		} else if b, ok := e.(*ssa.BinOp); ok && b.Op == token.ADD && b.X == ssa.Value(ph) {
			hasStep = true
		}
	}
	return hasConst && hasStep
}
